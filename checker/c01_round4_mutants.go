package main

// Overlay mutants of the round-4 rules of C01 (c01_round4.go).

const (
	c01SvcFile  = "registry/consul/service.go"
	c01SendLine = "updates <- w.makeConfig(passing)"
	c01MkDoc    = "// makeConfig determines which service instances have passing health checks\n"
	c01Fields   = "\tdc     string\n\tstrict bool\n}"
	c01JoinRet  = "\treturn strings.Join(config, \"\\n\")\n}"
	c01SyncImp  = "\t\"strings\"\n\t\"time\"\n"
	c01SyncImpN = "\t\"strings\"\n\t\"sync\"\n\t\"time\"\n"
)

var c01O1Mutants = []mutant{
	// ---- breaks: the configuration of a snapshot is published by a goroutine of its own
	{Name: "config built and sent in a goroutine per snapshot (seed 7)", File: c01SvcFile, Old: c01SendLine,
		New: "go func() { updates <- w.makeConfig(passing) }()", Expect: "C01.O1"},
	{Name: "config sent by a method started with go per snapshot", File: c01SvcFile, Old: c01SendLine,
		New: "go w.publish(updates, passing)", Expect: "C01.O1",
		More: []repl{{c01MkDoc, "func (w *ServiceMonitor) publish(updates chan string, passing []*api.HealthCheck) {\n\tupdates <- w.makeConfig(passing)\n}\n\n" + c01MkDoc}}},
	{Name: "go statement hidden in a helper that the watch loop calls", File: c01SvcFile, Old: c01SendLine,
		New: "w.publishAsync(updates, passing)", Expect: "C01.O1",
		More: []repl{{c01MkDoc, "func (w *ServiceMonitor) publishAsync(updates chan string, passing []*api.HealthCheck) {\n\tgo func() {\n\t\tcfg := w.makeConfig(passing)\n\t\tupdates <- cfg\n\t}()\n}\n\n" + c01MkDoc}}},
	{Name: "config sent from a timer callback per snapshot", File: c01SvcFile, Old: c01SendLine,
		New: "time.AfterFunc(10*time.Millisecond, func() { updates <- w.makeConfig(passing) })", Expect: "C01.O1"},
	{Name: "config built synchronously but sent in a goroutine per snapshot", File: c01SvcFile, Old: c01SendLine,
		New: "cfg := w.makeConfig(passing)\n\t\tgo func() { updates <- cfg }()", Expect: "C01.O1"},
	{Name: "manual config sent in a goroutine per change", File: "registry/consul/kv.go", Old: "\t\t\tconfig <- value\n",
		New: "\t\t\tgo func(v string) { config <- v }(value)\n", Expect: "C01.O1"},
	{Name: "table installed in a goroutine per update", File: "main.go", Old: "\t\t\troute.SetTable(t)\n",
		New: "\t\t\tgo func(t route.Table) { route.SetTable(t) }(t)\n", Expect: "C01.O1"},
	{Name: "goroutine per snapshot awaited only on one path", File: c01SvcFile, Old: c01SendLine,
		New: "done := make(chan struct{})\n\t\tgo func() {\n\t\t\tdefer close(done)\n\t\t\tupdates <- w.makeConfig(passing)\n\t\t}()\n\t\tif len(passing) == 0 {\n\t\t\t<-done\n\t\t}", Expect: "C01.O1"},

	{Name: "two long-lived publisher goroutines take snapshots from one work channel", File: c01SvcFile, Old: "\tvar q *api.QueryOptions\n\tfor {",
		New: "\tvar q *api.QueryOptions\n\twork := make(chan []*api.HealthCheck, 1)\n\tfor i := 0; i < 2; i++ {\n\t\tgo func() {\n\t\t\tfor p := range work {\n\t\t\t\tupdates <- w.makeConfig(p)\n\t\t\t}\n\t\t}()\n\t}\n\tfor {", Expect: "C01.O1",
		More: []repl{{c01SendLine, "work <- passing"}}},

	// ---- the same idea done correctly
	{Name: "benign: KV watcher restarted by a supervisor loop that waits for it", File: "registry/consul/backend.go",
		Old: "\tgo watchKV(b.c, b.cfg.KVPath, kv, true, b.cfg.RequireConsistent, b.cfg.AllowStale)\n",
		New: "\tgo func() {\n\t\tfor {\n\t\t\tdone := make(chan struct{})\n\t\t\tgo func() {\n\t\t\t\tdefer close(done)\n\t\t\t\twatchKV(b.c, b.cfg.KVPath, kv, true, b.cfg.RequireConsistent, b.cfg.AllowStale)\n\t\t\t}()\n\t\t\t<-done\n\t\t}\n\t}()\n", Expect: ""},
	{Name: "benign: KV watchers started in a loop, each with a channel of its own", File: "registry/consul/backend.go",
		Old: "\tkv := make(chan string)\n\tgo watchKV(b.c, b.cfg.KVPath, kv, true, b.cfg.RequireConsistent, b.cfg.AllowStale)\n\treturn kv\n",
		New: "\treturn b.startKV(true, b.cfg.KVPath)[0]\n}\n\nfunc (b *be) startKV(separator bool, paths ...string) []chan string {\n\tvar out []chan string\n\tfor _, p := range paths {\n\t\tch := make(chan string)\n\t\tgo watchKV(b.c, p, ch, separator, b.cfg.RequireConsistent, b.cfg.AllowStale)\n\t\tout = append(out, ch)\n\t}\n\treturn out\n", Expect: "",
		More: []repl{{"\thtml := make(chan string)\n\tgo watchKV(b.c, b.cfg.NoRouteHTMLPath, html, false, b.cfg.RequireConsistent, b.cfg.AllowStale)\n\treturn html\n", "\treturn b.startKV(false, b.cfg.NoRouteHTMLPath)[0]\n"}}},
	{Name: "KV watchers started in a loop publish on one shared channel", File: "registry/consul/backend.go",
		Old: "\tkv := make(chan string)\n\tgo watchKV(b.c, b.cfg.KVPath, kv, true, b.cfg.RequireConsistent, b.cfg.AllowStale)\n\treturn kv\n",
		New: "\tkv := make(chan string)\n\tfor _, p := range []string{b.cfg.KVPath, b.cfg.KVPath + \"/extra\"} {\n\t\tgo watchKV(b.c, p, kv, true, b.cfg.RequireConsistent, b.cfg.AllowStale)\n\t}\n\treturn kv\n", Expect: "C01.O1"},
	{Name: "benign: goroutine per snapshot, awaited through a done channel before the next query", File: c01SvcFile, Old: c01SendLine,
		New: "done := make(chan struct{})\n\t\tgo func() {\n\t\t\tdefer close(done)\n\t\t\tupdates <- w.makeConfig(passing)\n\t\t}()\n\t\t<-done", Expect: ""},
	{Name: "benign: goroutine per snapshot, awaited with a WaitGroup", File: c01SvcFile, Old: c01SendLine,
		New: "var wg sync.WaitGroup\n\t\twg.Add(1)\n\t\tgo func() {\n\t\t\tdefer wg.Done()\n\t\t\tupdates <- w.makeConfig(passing)\n\t\t}()\n\t\twg.Wait()", Expect: "",
		More: []repl{{c01SyncImp, c01SyncImpN}}},
	{Name: "benign: config built in a goroutine, sent by the loop itself", File: c01SvcFile, Old: c01SendLine,
		New: "built := make(chan string, 1)\n\t\tgo func() { built <- w.makeConfig(passing) }()\n\t\tupdates <- <-built", Expect: ""},
	{Name: "benign: one long-lived publisher goroutine fed in order through a channel", File: c01SvcFile, Old: "\tvar q *api.QueryOptions\n\tfor {",
		New: "\tvar q *api.QueryOptions\n\twork := make(chan []*api.HealthCheck, 1)\n\tgo func() {\n\t\tfor p := range work {\n\t\t\tupdates <- w.makeConfig(p)\n\t\t}\n\t}()\n\tfor {", Expect: "",
		More: []repl{{c01SendLine, "work <- passing"}}},
}

var c01S1Mutants = []mutant{
	// ---- breaks: a text (or a part of it) remembered from an earlier round is published under a key that is too small
	{Name: "last config reused while the passing instances are the same (seed 8, key rendered with fmt)", File: c01SvcFile, Old: c01Fields,
		New: "\tdc     string\n\tstrict bool\n\n\tlastKey string\n\troutes  string\n}", Expect: "C01.S1",
		More: []repl{
			{"\tn := w.config.ServiceMonitors\n", "\tkey := fmt.Sprint(m)\n\tif key == w.lastKey {\n\t\treturn w.routes\n\t}\n\n\tn := w.config.ServiceMonitors\n"},
			{c01JoinRet, "\tw.lastKey, w.routes = key, strings.Join(config, \"\\n\")\n\treturn w.routes\n}"}}},
	{Name: "last config rebuilt only when the passing instances changed (read after a conditional rebuild)", File: c01SvcFile, Old: c01Fields,
		New: "\tdc     string\n\tstrict bool\n\n\tlastKey string\n\troutes  string\n}", Expect: "C01.S1",
		More: []repl{
			{"\tn := w.config.ServiceMonitors\n", "\tif key := fmt.Sprint(m); key != w.lastKey {\n\t\tw.lastKey = key\n\t\tw.routes = w.render(m)\n\t}\n\treturn w.routes\n}\n\nfunc (w *ServiceMonitor) render(m map[string]map[string]bool) string {\n\tn := w.config.ServiceMonitors\n"}}},
	{Name: "route commands of a service remembered per service name and passing set", File: c01SvcFile, Old: c01Fields,
		New: "\tdc     string\n\tstrict bool\n\n\tmu   sync.Mutex\n\tmemo map[string][]string\n}", Expect: "C01.S1",
		More: []repl{
			{c01SyncImp, c01SyncImpN},
			{"\tq := &api.QueryOptions{RequireConsistent: w.config.RequireConsistent, AllowStale: w.config.AllowStale}\n\tsvcs, _, err :=", "\tkey := fmt.Sprint(name, passing)\n\tw.mu.Lock()\n\tcached, ok := w.memo[key]\n\tw.mu.Unlock()\n\tif ok {\n\t\treturn cached\n\t}\n\tdefer func() {\n\t\tw.mu.Lock()\n\t\tif w.memo == nil {\n\t\t\tw.memo = map[string][]string{}\n\t\t}\n\t\tw.memo[key] = config\n\t\tw.mu.Unlock()\n\t}()\n\n\tq := &api.QueryOptions{RequireConsistent: w.config.RequireConsistent, AllowStale: w.config.AllowStale}\n\tsvcs, _, err :="}}},
	{Name: "last config kept in package variables", File: c01SvcFile, Old: c01MkDoc,
		New: "var lastPassing, lastRoutes string\n\n" + c01MkDoc, Expect: "C01.S1",
		More: []repl{
			{"\tn := w.config.ServiceMonitors\n", "\tif key := fmt.Sprint(m); key == lastPassing {\n\t\treturn lastRoutes\n\t} else {\n\t\tlastPassing = key\n\t}\n\n\tn := w.config.ServiceMonitors\n"},
			{c01JoinRet, "\tlastRoutes = strings.Join(config, \"\\n\")\n\treturn lastRoutes\n}"}}},
	{Name: "last config kept in captured locals of the watcher", File: c01SvcFile, Old: "\tvar q *api.QueryOptions\n\tfor {",
		New: "\tvar q *api.QueryOptions\n\tvar lastKey, lastText string\n\tremember := func(k, t string) { lastKey, lastText = k, t }\n\tfor {", Expect: "C01.S1",
		More: []repl{{c01SendLine, "ids := make([]string, 0, len(passing))\n\t\tfor _, c := range passing {\n\t\t\tids = append(ids, c.Node+\".\"+c.ServiceID)\n\t\t}\n\t\tif k := strings.Join(ids, \",\"); k != lastKey {\n\t\t\tremember(k, w.makeConfig(passing))\n\t\t}\n\t\tupdates <- lastText"}}},
	{Name: "last config kept in a sync.Map under the passing set", File: c01SvcFile, Old: c01Fields,
		New: "\tdc     string\n\tstrict bool\n\n\tmemo sync.Map\n}", Expect: "C01.S1",
		More: []repl{
			{c01SyncImp, c01SyncImpN},
			{"\tn := w.config.ServiceMonitors\n", "\tkey := fmt.Sprint(m)\n\tif v, ok := w.memo.Load(key); ok {\n\t\treturn v.(string)\n\t}\n\n\tn := w.config.ServiceMonitors\n"},
			{c01JoinRet, "\ttext := strings.Join(config, \"\\n\")\n\tw.memo.Store(key, text)\n\treturn text\n}"}}},

	// ---- the same idea done correctly
	{Name: "benign: route commands remembered per service under name, catalog index and passing set", File: c01SvcFile, Old: c01Fields,
		New: "\tdc     string\n\tstrict bool\n\n\tmu   sync.Mutex\n\tmemo map[string][]string\n}", Expect: "",
		More: []repl{
			{c01SyncImp, c01SyncImpN},
			{"\tsvcs, _, err := w.client.Catalog().Service(name, \"\", q)\n\tif err != nil {\n\t\tlog.Printf(\"[WARN] consul: Error getting catalog service %s. %v\", name, err)\n\t\treturn nil\n\t}\n",
				"\tsvcs, meta, err := w.client.Catalog().Service(name, \"\", q)\n\tif err != nil {\n\t\tlog.Printf(\"[WARN] consul: Error getting catalog service %s. %v\", name, err)\n\t\treturn nil\n\t}\n\tkey := fmt.Sprint(name, meta.LastIndex, passing)\n\tw.mu.Lock()\n\tcached, ok := w.memo[key]\n\tw.mu.Unlock()\n\tif ok {\n\t\treturn cached\n\t}\n\tdefer func() {\n\t\tw.mu.Lock()\n\t\tif w.memo == nil {\n\t\t\tw.memo = map[string][]string{}\n\t\t}\n\t\tw.memo[key] = config\n\t\tw.mu.Unlock()\n\t}()\n"}}},
	{Name: "benign: last config remembered only to log a change", File: c01SvcFile, Old: c01Fields,
		New: "\tdc     string\n\tstrict bool\n\n\tlastRoutes string\n}", Expect: "",
		More: []repl{{c01JoinRet, "\ttext := strings.Join(config, \"\\n\")\n\tif text != w.lastRoutes {\n\t\tlog.Printf(\"[DEBUG] consul: service config changed (%d commands)\", len(config))\n\t\tw.lastRoutes = text\n\t}\n\treturn text\n}"}}},
	{Name: "benign: config kept in a field, written in every round before it is returned", File: c01SvcFile, Old: c01Fields,
		New: "\tdc     string\n\tstrict bool\n\n\troutes string\n}", Expect: "",
		More: []repl{{c01JoinRet, "\tw.routes = strings.Join(config, \"\\n\")\n\treturn w.routes\n}"}}},
	{Name: "benign: query index kept in a field of the monitor", File: c01SvcFile, Old: c01Fields,
		New: "\tdc     string\n\tstrict bool\n\n\tlastIndex uint64\n}", Expect: "",
		More: []repl{
			{"\tvar lastIndex uint64\n\tvar q *api.QueryOptions\n", "\tvar q *api.QueryOptions\n"},
			{"WaitIndex: lastIndex}", "WaitIndex: w.lastIndex}"},
			{"\t\tlastIndex = meta.LastIndex\n", "\t\tw.lastIndex = meta.LastIndex\n"}}},
	{Name: "benign: a round counter kept in a field, read by the builder only for logging", File: c01SvcFile, Old: c01Fields,
		New: "\tdc     string\n\tstrict bool\n\n\tround int\n}", Expect: "",
		More: []repl{
			{c01SendLine, "w.round++\n\t\tupdates <- w.makeConfig(passing)"},
			{c01JoinRet, "\tlog.Printf(\"[DEBUG] consul: config of round %d has %d commands\", w.round, len(config))\n\treturn strings.Join(config, \"\\n\")\n}"}}},

	{Name: "benign: tag prefix lazily initialised into a field of the monitor", File: c01SvcFile, Old: c01Fields,
		New: "\tdc     string\n\tstrict bool\n\n\tprefix string\n}", Expect: "",
		More: []repl{{"\tenv := map[string]string{\n", "\tif w.prefix == \"\" {\n\t\tw.prefix = w.config.TagPrefix\n\t}\n\tenv := map[string]string{\n"},
			{"\t\t\tprefix: w.config.TagPrefix,\n", "\t\t\tprefix: w.prefix,\n"}}},

	// ---- M1 repaired in round 4: a text kept in a field before it is returned is still a text joined here
	{Name: "config kept in a field before it is returned, list not sorted", File: c01SvcFile, Old: c01Fields,
		New: "\tdc     string\n\tstrict bool\n\n\troutes string\n}", Expect: "C01.M1",
		More: []repl{
			{"\tsort.Sort(sort.Reverse(sort.StringSlice(config)))\n", "\t_ = sort.Strings\n"},
			{c01JoinRet, "\tw.routes = strings.Join(config, \"\\n\")\n\treturn w.routes\n}"}}},
}
