package main

// Mechanical refactorings applied in memory to test the rules for name dependence (DESIGN 11.8):
//
//	verifcheck renames [all] [ID...]   rename, one at a time, every unexported function / method of fabio that the
//	                                   checker's sources mention by name (or every one with "all") and run the rules;
//	                                   any report that the unchanged tree does not have is a false alarm
//	verifcheck params  [ID...]         rename every parameter, named result and receiver of those functions at once
//
// Evidence about the checker only; nothing here decides a property.

import (
	"fmt"
	"go/ast"
	"go/token"
	"go/types"
	"os"
	"path/filepath"
	"regexp"
	"sort"
	"strings"

	"golang.org/x/tools/go/packages"
)

type edit struct {
	off int
	old string
	new string
}

// mentionedNames: identifiers that occur inside string literals of the checker's own sources.
func mentionedNames() map[string]bool {
	out := map[string]bool{}
	re := regexp.MustCompile(`"([A-Za-z_][A-Za-z0-9_]*)"`)
	files, _ := filepath.Glob(filepath.Join(verifDir(), "checker", "*.go"))
	for _, f := range files {
		data, err := os.ReadFile(f)
		if err != nil {
			continue
		}
		for _, m := range re.FindAllSubmatch(data, -1) {
			out[string(m[1])] = true
		}
	}
	return out
}

func applyEdits(fset *token.FileSet, edits map[string][]edit) map[string][]byte {
	ov := map[string][]byte{}
	for file, es := range edits {
		data, err := os.ReadFile(file)
		if err != nil {
			continue
		}
		sort.Slice(es, func(i, j int) bool { return es[i].off > es[j].off })
		last := -1
		for _, e := range es {
			if e.off == last {
				continue
			}
			last = e.off
			if e.off+len(e.old) <= len(data) && string(data[e.off:e.off+len(e.old)]) == e.old {
				data = append(append(append([]byte{}, data[:e.off]...), []byte(e.new)...), data[e.off+len(e.old):]...)
			}
		}
		ov[file] = data
	}
	return ov
}

// identEdits: every identifier of pkg resolving to obj, renamed.
func identEdits(pkg *packages.Package, objs map[types.Object]string) map[string][]edit {
	out := map[string][]edit{}
	add := func(id *ast.Ident, nn string) {
		p := pkg.Fset.Position(id.Pos())
		out[p.Filename] = append(out[p.Filename], edit{p.Offset, id.Name, nn})
	}
	for id, o := range pkg.TypesInfo.Defs {
		if nn, ok := objs[o]; ok && o != nil {
			add(id, nn)
		}
	}
	for id, o := range pkg.TypesInfo.Uses {
		if nn, ok := objs[o]; ok {
			add(id, nn)
		}
	}
	return out
}

func runAllOn(c *Ctx, ids []string) map[string]bool {
	rep := map[string]bool{}
	for _, id := range ids {
		p := props[id]
		before := len(c.Obs)
		c.Prop, c.Tier = id, "refactor-test"
		func() {
			defer func() {
				if rec := recover(); rec != nil {
					c.undecided(id+".PANIC", "checker", fmt.Sprint(rec))
				}
			}()
			p.Run(c)
		}()
		for _, o := range c.Obs[before:] {
			if o.st != OK {
				rep[o.Rule+" ["+o.Construct+"]"] = true
			}
		}
	}
	return rep
}

func refactorTest(mode string, args []string) int {
	all := false
	var ids []string
	for _, a := range args {
		if a == "all" {
			all = true
		} else if props[a] != nil {
			ids = append(ids, a)
		}
	}
	if len(ids) == 0 {
		for id := range props {
			ids = append(ids, id)
		}
	}
	sort.Strings(ids)
	base, err := load(repoDir(), nil, "")
	if err != nil {
		fmt.Println("cannot load:", err)
		return 2
	}
	baseRep := runAllOn(base, ids)
	names := mentionedNames()
	type cand struct {
		pkg *packages.Package
		fn  *types.Func
	}
	var cands []cand
	for _, pkg := range base.Pkgs {
		for _, o := range pkg.TypesInfo.Defs {
			fn, ok := o.(*types.Func)
			if !ok || fn.Pkg() == nil || fn.Pkg() != pkg.Types {
				continue
			}
			if token.IsExported(fn.Name()) || fn.Name() == "init" || fn.Name() == "main" || fn.Name() == "_" {
				continue
			}
			if !all && !names[fn.Name()] {
				continue
			}
			// methods that satisfy an interface by their (unexported) name cannot be renamed alone
			if sig := fn.Type().(*types.Signature); sig.Recv() != nil {
				if _, isIface := sig.Recv().Type().Underlying().(*types.Interface); isIface {
					continue
				}
			}
			cands = append(cands, cand{pkg, fn})
		}
	}
	sort.Slice(cands, func(i, j int) bool { return cands[i].fn.FullName() < cands[j].fn.FullName() })
	bad, n := 0, 0
	if mode == "params" {
		// one variant per package: all parameters / results / receivers of the candidate functions renamed
		byPkg := map[*packages.Package]map[types.Object]string{}
		for _, cd := range cands {
			sig := cd.fn.Type().(*types.Signature)
			m := byPkg[cd.pkg]
			if m == nil {
				m = map[types.Object]string{}
				byPkg[cd.pkg] = m
			}
			vars := []*types.Var{}
			if sig.Recv() != nil {
				vars = append(vars, sig.Recv())
			}
			for i := 0; i < sig.Params().Len(); i++ {
				vars = append(vars, sig.Params().At(i))
			}
			for i := 0; i < sig.Results().Len(); i++ {
				vars = append(vars, sig.Results().At(i))
			}
			for _, v := range vars {
				if v.Name() != "" && v.Name() != "_" {
					m[v] = v.Name() + "Zq"
				}
			}
		}
		var pkgs []*packages.Package
		for p := range byPkg {
			pkgs = append(pkgs, p)
		}
		sort.Slice(pkgs, func(i, j int) bool { return pkgs[i].PkgPath < pkgs[j].PkgPath })
		for _, p := range pkgs {
			ov := applyEdits(p.Fset, identEdits(p, byPkg[p]))
			c, err := load(repoDir(), ov, "")
			n++
			if err != nil {
				fmt.Printf("%-60s skipped: variant does not type-check: %s\n", "params of "+p.PkgPath, firstLine(err.Error()))
				continue
			}
			rep := runAllOn(c, ids)
			var extra []string
			for k := range rep {
				if !baseRep[k] {
					extra = append(extra, k)
				}
			}
			sort.Strings(extra)
			if len(extra) > 0 {
				bad++
				fmt.Printf("%-60s FALSE-ALARM %v\n", "params of "+p.PkgPath, extra)
			} else {
				fmt.Printf("%-60s silent\n", "params of "+p.PkgPath)
			}
		}
		fmt.Printf("param renames: %d variants, %d with false alarms\n", n, bad)
		if bad > 0 {
			return 1
		}
		return 0
	}
	shardI, shardN := 0, 1
	fmt.Sscanf(os.Getenv("VERIF_SHARD"), "%d/%d", &shardI, &shardN)
	for idx, cd := range cands {
		if shardN > 1 && idx%shardN != shardI {
			continue
		}
		nn := cd.fn.Name() + "Zq"
		ov := applyEdits(cd.pkg.Fset, identEdits(cd.pkg, map[types.Object]string{cd.fn: nn}))
		c, err := load(repoDir(), ov, "")
		n++
		label := strings.TrimPrefix(cd.fn.FullName(), repoMod+"/")
		if err != nil {
			fmt.Printf("%-60s skipped: variant does not type-check: %s\n", label, firstLine(err.Error()))
			continue
		}
		rep := runAllOn(c, ids)
		var extra []string
		for k := range rep {
			// constructs are keyed by function name: compare with the name mapped back
			if !baseRep[k] && !baseRep[strings.ReplaceAll(k, nn, cd.fn.Name())] {
				extra = append(extra, k)
			}
		}
		sort.Strings(extra)
		if len(extra) > 0 {
			bad++
			fmt.Printf("%-60s FALSE-ALARM %v\n", label, extra)
		} else {
			fmt.Printf("%-60s silent\n", label)
		}
	}
	fmt.Printf("function renames: %d variants, %d with false alarms\n", n, bad)
	if bad > 0 {
		return 1
	}
	return 0
}

// allProps: see main.go.
func allProps() int {
	c, err := load(repoDir(), nil, "")
	if err != nil {
		fmt.Printf("CANNOT load: %v\n", err)
		return 2
	}
	known := readKnown(filepath.Join(verifDir(), "known-findings.txt"))
	var ids []string
	for id := range props {
		ids = append(ids, id)
	}
	sort.Strings(ids)
	bad := 0
	for _, id := range ids {
		before := len(c.Obs)
		c.Prop, c.Tier = id, "quick"
		func() {
			defer func() {
				if rec := recover(); rec != nil {
					c.undecided(id+".PANIC", "checker", fmt.Sprint(rec))
				}
			}()
			props[id].Run(c)
		}()
		var lines []string
		for _, o := range c.Obs[before:] {
			if o.st == OK {
				continue
			}
			isKnown := false
			if o.st == Viol {
				for _, k := range known {
					if k.Prop == id && id+"."+k.Rule == o.Rule && k.Construct == o.Construct {
						isKnown = true
					}
				}
			}
			if !isKnown {
				d := o.Detail
				if len(d) > 200 {
					d = d[:200]
				}
				lines = append(lines, fmt.Sprintf("  %s %s [%s] at %s: %s", o.Status, o.Rule, o.Construct, o.Pos, d))
			}
		}
		if len(lines) > 0 {
			bad++
			sort.Strings(lines)
			fmt.Printf("== %s rc=1\n", id)
			for i, l := range lines {
				if i < 8 {
					fmt.Println(l)
				}
			}
		}
	}
	if bad > 0 {
		return 1
	}
	return 0
}
