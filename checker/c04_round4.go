package main

// Rules of C04 added after the fourth round of independently authored breaking changes (DESIGN 11.12); wired in
// zzz_round4.go.
//
// C04.R7  "fixed weights are honoured as given": the configured weight (RouteDef.Weight, filled by the parser) reaches
//         Target.FixedWeight unchanged, except for the equal split among the matching targets and the clamp of
//         non-positive values ("w <= 0 means no fixed weight"). Family: a sanitiser / default / cap applied to a value
//         the operator set. The proportional scaling of fixed weights above 100% is the job of the ring builder and is
//         proportional only when the raw ratio arrives there.
// C04.R8  "the remaining targets share the remainder equally / the weights sum to one": the targets of a route are
//         classified twice by the value of FixedWeight (when they are counted and when the weights are assigned); the
//         number the remainder is divided by must count exactly the targets that receive the quotient, and every
//         target must receive its fixed or the remainder share. Family: one population classified twice by predicates
//         that disagree. The classes are the intervals and points into which the constants FixedWeight is compared with
//         (always 0) cut the real line; a negative FixedWeight is possible as long as some store to the field is not
//         proved non-negative.

import (
	"go/token"
	"go/types"
	"sort"
	"strconv"
	"strings"

	"golang.org/x/tools/go/ssa"
)

func init() {
	const weighRouteCall = "\tif n := t[host].find(path).setWeight(d.Service, d.Weight, d.Tags); n == 0 {"
	const weighRouteLocal = "\tif n := t[host].find(path).setWeight(d.Service, weight, d.Tags); n == 0 {"
	const weighRouteDecl = "func (t Table) weighRoute(d *RouteDef) error {"
	const weightSpecDecl = "type weightSpec struct {\n\tservice string\n\tshare   float64\n\ttags    []string\n}\n\nfunc (r *Route) applyWeight(s weightSpec) int {\n\treturn r.setWeight(s.service, s.share, s.tags)\n}\n\n"
	const addClamp = "\tif fixedWeight < 0 {\n\t\tfixedWeight = 0\n\t}\n"
	addRound4("C04", "(R7) every definition that reaches a store to Target.FixedWeight outside the ring builder, followed backwards through phis, local cells, helper results and parameters, closures, struct values and the RouteDef.Weight field down to the parser, carries the configured weight as given: it is not replaced by a positive constant, a non-positive constant is chosen only where the weight is known to be <= 0 (or as the unconditional argument of a reset pass), it is not capped or floored by min/max with a constant other than max(w, 0), and it is not scaled or shifted by a floating-point constant (the division by the number of matching targets is the only arithmetic); and on the read side no load of Target.FixedWeight in the region of the ring builder is merged with a positive constant (phi, local cell, helper result) or passed through min(w, k) / max(w, k > 0); otherwise the ratio between the fixed weights of a route is no longer the configured one and the proportional scaling of the ring builder normalises the wrong numbers.", runC04R7,
		mutant{Name: "route weight capped with min(d.Weight, 1)", File: "route/table.go", Old: weighRouteCall, New: "\tif n := t[host].find(path).setWeight(d.Service, min(d.Weight, 1), d.Tags); n == 0 {", Expect: "C04.R7"},
		mutant{Name: "share of each matching target capped inside the closure", File: "route/route.go", Old: "\t\t\tn++\n\t\t\tt.FixedWeight = w", New: "\t\t\tn++\n\t\t\tif w > 1 {\n\t\t\t\tw = 1\n\t\t\t}\n\t\t\tt.FixedWeight = w", Expect: "C04.R7"},
		mutant{Name: "route add weight capped at 100% in addTarget", File: "route/route.go", Old: addClamp, New: addClamp + "\tif fixedWeight > 1 {\n\t\tfixedWeight = 1\n\t}\n", Expect: "C04.R7"},
		mutant{Name: "route weight above 1 read as a percentage", File: "route/table.go", Old: weighRouteCall, New: "\tweight := d.Weight\n\tif weight > 1 {\n\t\tweight /= 100\n\t}\n" + weighRouteLocal, Expect: "C04.R7"},
		mutant{Name: "parser caps the weight", File: "route/parse_new.go", Old: "\treturn f, nil\n}", New: "\tif f > 1 {\n\t\tf = 1\n\t}\n\treturn f, nil\n}", Expect: "C04.R7"},
		mutant{Name: "cap applied by a helper", File: "route/table.go", Old: weighRouteCall, New: "\tif n := t[host].find(path).setWeight(d.Service, capWeight(d.Weight), d.Tags); n == 0 {", More: []repl{{"func (t Table) weighRoute(d *RouteDef) error {", "func capWeight(w float64) float64 {\n\tif w > 1 {\n\t\treturn 1\n\t}\n\treturn w\n}\n\nfunc (t Table) weighRoute(d *RouteDef) error {"}}, Expect: "C04.R7"},
		mutant{Name: "small route weights dropped", File: "route/table.go", Old: weighRouteCall, New: "\tweight := d.Weight\n\tif weight < 0.01 {\n\t\tweight = 0\n\t}\n" + weighRouteLocal, Expect: "C04.R7"},
		mutant{Name: "route add weight floored with math.Max(w, 0.01)", File: "route/route.go", Old: addClamp, New: "\tfixedWeight = math.Max(fixedWeight, 0.01)\n", More: []repl{{"\t\"log\"\n", "\t\"log\"\n\t\"math\"\n"}}, Expect: "C04.R7"},
		mutant{Name: "benign: negative route weight clamped in weighRoute", File: "route/table.go", Old: weighRouteCall, New: "\tweight := d.Weight\n\tif weight < 0 {\n\t\tweight = 0\n\t}\n" + weighRouteLocal, Expect: ""},
		mutant{Name: "benign: route weight passed as max(d.Weight, 0)", File: "route/table.go", Old: weighRouteCall, New: "\tif n := t[host].find(path).setWeight(d.Service, max(d.Weight, 0), d.Tags); n == 0 {", Expect: ""},
		mutant{Name: "benign: split written as a multiplication by the reciprocal", File: "route/route.go", Old: "\tw := weight / float64(n)\n", New: "\tw := weight * (1 / float64(n))\n", Expect: ""},
		mutant{Name: "benign: clamp of addTarget moved into a helper", File: "route/route.go", Old: addClamp, New: "\tfixedWeight = nonNegative(fixedWeight)\n", More: []repl{{"type byN []struct{ i, n int }", "func nonNegative(w float64) float64 {\n\tif w < 0 {\n\t\treturn 0\n\t}\n\treturn w\n}\n\ntype byN []struct{ i, n int }"}}, Expect: ""},
		mutant{Name: "benign: non-positive route weight spelled as a reset (weight <= 0 => 0)", File: "route/route.go", Old: "\tw := weight / float64(n)\n", New: "\tw := 0.0\n\tif weight > 0 {\n\t\tw = weight / float64(n)\n\t}\n", Expect: ""},
		mutant{Name: "ring builder caps each fixed weight at 100% when it reads it", File: "route/route.go", Old: "\t\t\tsumFixed += t.FixedWeight\n", New: "\t\t\tsumFixed += min(t.FixedWeight, 1)\n", More: []repl{{"\t\t\tt.Weight = t.FixedWeight * scale\n", "\t\t\tt.Weight = min(t.FixedWeight, 1) * scale\n"}}, Expect: "C04.R7"},
		mutant{Name: "ring builder reads the fixed weight through a capping accessor", File: "route/route.go", Old: "\t\t\tsumFixed += t.FixedWeight\n", New: "\t\t\tsumFixed += t.fixedShare()\n", More: []repl{{"\t\t\tt.Weight = t.FixedWeight * scale\n", "\t\t\tt.Weight = t.fixedShare() * scale\n"}, {"type byN []struct{ i, n int }", "func (t *Target) fixedShare() float64 {\n\tif t.FixedWeight > 1 {\n\t\treturn 1\n\t}\n\treturn t.FixedWeight\n}\n\ntype byN []struct{ i, n int }"}}, Expect: "C04.R7"},
		mutant{Name: "benign: ring builder clamps negative fixed weights when it reads them", File: "route/route.go", Old: "\t\tif t.FixedWeight > 0 {\n\t\t\tnFixed++\n\t\t\tsumFixed += t.FixedWeight\n", New: "\t\tif fw := max(t.FixedWeight, 0); fw > 0 {\n\t\t\tnFixed++\n\t\t\tsumFixed += fw\n", More: []repl{{"\t\tif t.FixedWeight > 0 {\n\t\t\tt.Weight = t.FixedWeight * scale\n", "\t\tif fw := max(t.FixedWeight, 0); fw > 0 {\n\t\t\tt.Weight = fw * scale\n"}}, Expect: ""},
		mutant{Name: "benign: weight carried to setWeight in a struct value", File: "route/table.go", Old: weighRouteCall, New: "\tspec := weightSpec{service: d.Service, share: d.Weight, tags: d.Tags}\n\tif n := t[host].find(path).applyWeight(spec); n == 0 {", More: []repl{{weighRouteDecl, weightSpecDecl + weighRouteDecl}}, Expect: ""},
		mutant{Name: "cap applied to the weight carried in a struct value", File: "route/table.go", Old: weighRouteCall, New: "\tspec := weightSpec{service: d.Service, share: d.Weight, tags: d.Tags}\n\tif spec.share > 1 {\n\t\tspec.share = 1\n\t}\n\tif n := t[host].find(path).applyWeight(spec); n == 0 {", More: []repl{{weighRouteDecl, weightSpecDecl + weighRouteDecl}}, Expect: "C04.R7"},
		mutant{Name: "cap by a switch in a method of Target used by the closure", File: "route/route.go", Old: "\t\t\tt.FixedWeight = w\n", New: "\t\t\tt.FixedWeight = t.limit(w)\n", More: []repl{{"type byN []struct{ i, n int }", "func (t *Target) limit(w float64) float64 {\n\tswitch {\n\tcase w > 1:\n\t\treturn 1\n\tcase w < 0:\n\t\treturn 0\n\t}\n\treturn w\n}\n\ntype byN []struct{ i, n int }"}}, Expect: "C04.R7"},
		mutant{Name: "capped share applied by a pass of its own (loop(1))", File: "route/route.go", Old: "\tloop(w)\n", New: "\tif w > 1 {\n\t\tloop(1)\n\t} else {\n\t\tloop(w)\n\t}\n", Expect: "C04.R7"},
		mutant{Name: "default share for a route weight command without a weight", File: "route/table.go", Old: weighRouteCall, New: "\tweight := d.Weight\n\tif weight == 0 {\n\t\tweight = 0.5\n\t}\n" + weighRouteLocal, Expect: "C04.R7"},
		mutant{Name: "benign: parser rejects absurd weights with an error", File: "route/parse_new.go", Old: "\treturn f, nil\n}", New: "\tif f > 1e6 {\n\t\treturn 0, errors.New(\"syntax error: weight too large\")\n\t}\n\treturn f, nil\n}", Expect: ""},
		mutant{Name: "benign: setWeight returns early without a match and skips the second pass for weights <= 0", File: "route/route.go", Old: "\tn := loop(0)\n\tw := weight / float64(n)\n\tloop(w)\n\n\tif n > 0 {\n\t\tr.weighTargets()\n\t}\n\treturn n\n", New: "\tn := loop(0)\n\tif n == 0 {\n\t\treturn 0\n\t}\n\tif weight > 0 {\n\t\tloop(weight / float64(n))\n\t}\n\tr.weighTargets()\n\treturn n\n", Expect: ""},
	)

	const countLoop = "\tfor _, t := range r.Targets {\n\t\tif t.FixedWeight > 0 {\n\t\t\tnFixed++\n\t\t\tsumFixed += t.FixedWeight\n\t\t}\n\t}\n"
	const scaleTest = "if sumFixed > 1 || (nFixed == len(r.Targets) && sumFixed < 1) {"
	const remainder = "\tdynamic := (1 - sumFixed) / float64(len(r.Targets)-nFixed)\n"
	const assign = "\t\tif t.FixedWeight > 0 {\n\t\t\tt.Weight = t.FixedWeight * scale\n\t\t} else {\n\t\t\tt.Weight = dynamic\n\t\t}\n"
	const partitionLoop = "\tvar fixed, rest []*Target\n\tfor _, t := range r.Targets {\n\t\tif t.FixedWeight > 0 {\n\t\t\tfixed = append(fixed, t)\n\t\t\tsumFixed += t.FixedWeight\n\t\t} else {\n\t\t\trest = append(rest, t)\n\t\t}\n\t}\n\tnFixed = len(fixed)\n"
	const partitionAssign = "\tfor _, t := range fixed {\n\t\tt.Weight = t.FixedWeight * scale\n\t}\n\tfor _, t := range rest {\n\t\tt.Weight = dynamic\n\t}\n"
	addRound4("C04", "(R8) in the region of the ring builder the targets are classified by the value of Target.FixedWeight (branches that compare it - as loaded, or clamped with min/max - with a constant, inline, negated, merged into a boolean or through a boolean helper); the classes are the intervals and points into which these constants (always including 0) cut the real line, and a negative FixedWeight can occur unless every store to the field in the repository is proved non-negative. For every class that can occur the number that divides the share left over by the fixed weights - a linear expression of len(Route.Targets), of counters incremented per target and of the lengths of partitions collected by append, followed through helper results, parameters, captured variables and struct fields - counts the targets of that class exactly when a store of the remainder share to Target.Weight can execute for them (a store of a merged value, of a helper result or of a helper parameter counts per definition), and every such target receives either its fixed or the remainder share; otherwise the remainder is split among fewer (or more) targets than receive it, the effective weights do not sum to one, a fixed weight is not honoured, or a target keeps a stale weight and is starved. A mismatch that rests on a branch on the target that the rule cannot read is reported as not decided.", runC04R8,
		mutant{Name: "dynamic targets counted by FixedWeight == 0, only the divisor uses the count", File: "route/route.go", Old: countLoop, New: "\tnDynamic := 0\n\tfor _, t := range r.Targets {\n\t\tif t.FixedWeight > 0 {\n\t\t\tnFixed++\n\t\t\tsumFixed += t.FixedWeight\n\t\t} else if t.FixedWeight == 0 {\n\t\t\tnDynamic++\n\t\t}\n\t}\n", More: []repl{{remainder, "\tdynamic := (1 - sumFixed) / float64(nDynamic)\n"}}, Expect: "C04.R8"},
		mutant{Name: "counting loop takes FixedWeight >= 0 for fixed", File: "route/route.go", Old: countLoop, New: strings.Replace(countLoop, "t.FixedWeight > 0", "t.FixedWeight >= 0", 1), Expect: "C04.R8"},
		mutant{Name: "assignment loop takes every non-zero FixedWeight for fixed", File: "route/route.go", Old: assign, New: strings.Replace(assign, "if t.FixedWeight > 0 {", "if t.FixedWeight != 0 {", 1), Expect: "C04.R8"},
		mutant{Name: "divisor computed by a helper that counts FixedWeight == 0", File: "route/route.go", Old: remainder, New: "\tdynamic := (1 - sumFixed) / float64(r.countDynamic())\n", More: []repl{{"type byN []struct{ i, n int }", "func (r *Route) countDynamic() int {\n\tn := 0\n\tfor _, t := range r.Targets {\n\t\tif t.FixedWeight == 0 {\n\t\t\tn++\n\t\t}\n\t}\n\treturn n\n}\n\ntype byN []struct{ i, n int }"}}, Expect: "C04.R8"},
		mutant{Name: "assignment switch without a default: targets with a negative FixedWeight keep a stale weight", File: "route/route.go", Old: assign, New: "\t\tswitch {\n\t\tcase t.FixedWeight > 0:\n\t\t\tt.Weight = t.FixedWeight * scale\n\t\tcase t.FixedWeight == 0:\n\t\t\tt.Weight = dynamic\n\t\t}\n", Expect: "C04.R8"},
		mutant{Name: "benign: dynamic targets counted explicitly by the complement of the fixed test", File: "route/route.go", Old: countLoop, New: "\tnDynamic := 0\n\tfor _, t := range r.Targets {\n\t\tswitch {\n\t\tcase t.FixedWeight > 0:\n\t\t\tnFixed++\n\t\t\tsumFixed += t.FixedWeight\n\t\tdefault:\n\t\t\tnDynamic++\n\t\t}\n\t}\n", More: []repl{{scaleTest, "if sumFixed > 1 || (nDynamic == 0 && sumFixed < 1) {"}, {remainder + "\tif dynamic < 0 {\n\t\tdynamic = 0\n\t}\n", "\tdynamic := 0.0\n\tif nDynamic > 0 && sumFixed < 1 {\n\t\tdynamic = (1 - sumFixed) / float64(nDynamic)\n\t}\n"}}, Expect: ""},
		mutant{Name: "benign: dynamic targets counted by FixedWeight == 0 and setWeight never stores a negative weight", File: "route/route.go", Old: countLoop, New: "\tnDynamic := 0\n\tfor _, t := range r.Targets {\n\t\tswitch {\n\t\tcase t.FixedWeight > 0:\n\t\t\tnFixed++\n\t\t\tsumFixed += t.FixedWeight\n\t\tcase t.FixedWeight == 0:\n\t\t\tnDynamic++\n\t\t}\n\t}\n", More: []repl{{scaleTest, "if sumFixed > 1 || (nDynamic == 0 && sumFixed < 1) {"}, {remainder + "\tif dynamic < 0 {\n\t\tdynamic = 0\n\t}\n", "\tdynamic := 0.0\n\tif nDynamic > 0 && sumFixed < 1 {\n\t\tdynamic = (1 - sumFixed) / float64(nDynamic)\n\t}\n"}, {"\tw := weight / float64(n)\n", "\tw := max(weight, 0) / float64(n)\n"}}, Expect: ""},
		mutant{Name: "benign: fixed test moved into a predicate method used by both loops", File: "route/route.go", Old: countLoop, New: strings.Replace(countLoop, "if t.FixedWeight > 0 {", "if t.hasFixedWeight() {", 1), More: []repl{{assign, strings.Replace(assign, "if t.FixedWeight > 0 {", "if t.hasFixedWeight() {", 1)}, {"type byN []struct{ i, n int }", "func (t *Target) hasFixedWeight() bool { return t.FixedWeight > 0 }\n\ntype byN []struct{ i, n int }"}}, Expect: ""},
		mutant{Name: "benign: divisor kept in a local and floored at 1", File: "route/route.go", Old: remainder, New: "\tnDynamic := len(r.Targets) - nFixed\n\tif nDynamic == 0 {\n\t\tnDynamic = 1\n\t}\n\tdynamic := (1 - sumFixed) / float64(nDynamic)\n", Expect: ""},
		mutant{Name: "benign: fixed and dynamic weights assigned by two loops, the dynamic test written as <= 0", File: "route/route.go", Old: "\tfor _, t := range r.Targets {\n" + assign + "\t}\n", New: "\tfor _, t := range r.Targets {\n\t\tif t.FixedWeight > 0 {\n\t\t\tt.Weight = t.FixedWeight * scale\n\t\t}\n\t}\n\tfor _, t := range r.Targets {\n\t\tif t.FixedWeight <= 0 {\n\t\t\tt.Weight = dynamic\n\t\t}\n\t}\n", Expect: ""},
		mutant{Name: "benign: targets partitioned into a fixed and a dynamic slice", File: "route/route.go", Old: countLoop, New: partitionLoop, More: []repl{{remainder, "\tdynamic := (1 - sumFixed) / float64(len(rest))\n"}, {"\tfor _, t := range r.Targets {\n" + assign + "\t}\n", partitionAssign}}, Expect: ""},
		mutant{Name: "partition: the dynamic slice collects only FixedWeight == 0", File: "route/route.go", Old: countLoop, New: strings.Replace(partitionLoop, "} else {", "} else if t.FixedWeight == 0 {", 1), More: []repl{{remainder, "\tdynamic := (1 - sumFixed) / float64(len(rest))\n"}, {"\tfor _, t := range r.Targets {\n" + assign + "\t}\n", partitionAssign}}, Expect: "C04.R8"},
		mutant{Name: "benign: dynamic targets counted in a float", File: "route/route.go", Old: countLoop, New: "\tnDyn := 0.0\n\tfor _, t := range r.Targets {\n\t\tif t.FixedWeight > 0 {\n\t\t\tnFixed++\n\t\t\tsumFixed += t.FixedWeight\n\t\t} else {\n\t\t\tnDyn += 1\n\t\t}\n\t}\n", More: []repl{{remainder, "\tdynamic := (1 - sumFixed) / nDyn\n"}}, Expect: ""},
		mutant{Name: "float counter of the dynamic targets counts only FixedWeight == 0", File: "route/route.go", Old: countLoop, New: "\tnDyn := 0.0\n\tfor _, t := range r.Targets {\n\t\tif t.FixedWeight > 0 {\n\t\t\tnFixed++\n\t\t\tsumFixed += t.FixedWeight\n\t\t} else if t.FixedWeight == 0 {\n\t\t\tnDyn++\n\t\t}\n\t}\n", More: []repl{{remainder, "\tdynamic := (1 - sumFixed) / nDyn\n"}}, Expect: "C04.R8"},
		mutant{Name: "benign: remainder multiplied by the reciprocal of the count", File: "route/route.go", Old: remainder, New: "\tshare := 1 / float64(len(r.Targets)-nFixed)\n\tdynamic := (1 - sumFixed) * share\n", Expect: ""},
		mutant{Name: "benign: one store of the merged share", File: "route/route.go", Old: assign, New: "\t\tw := dynamic\n\t\tif t.FixedWeight > 0 {\n\t\t\tw = t.FixedWeight * scale\n\t\t}\n\t\tt.Weight = w\n", Expect: ""},
		mutant{Name: "one store of the merged share, every non-zero FixedWeight taken for fixed", File: "route/route.go", Old: assign, New: "\t\tw := dynamic\n\t\tif t.FixedWeight != 0 {\n\t\t\tw = t.FixedWeight * scale\n\t\t}\n\t\tt.Weight = w\n", Expect: "C04.R8"},
		mutant{Name: "benign: share chosen by a helper that receives the target", File: "route/route.go", Old: assign, New: "\t\tt.Weight = shareOf(t, scale, dynamic)\n", More: []repl{{"type byN []struct{ i, n int }", "func shareOf(t *Target, scale, dynamic float64) float64 {\n\tif t.FixedWeight > 0 {\n\t\treturn t.FixedWeight * scale\n\t}\n\treturn dynamic\n}\n\ntype byN []struct{ i, n int }"}}, Expect: ""},
		mutant{Name: "benign: counters captured by a counting closure", File: "route/route.go", Old: countLoop, New: "\tcount := func(t *Target) {\n\t\tif t.FixedWeight > 0 {\n\t\t\tnFixed++\n\t\t\tsumFixed += t.FixedWeight\n\t\t}\n\t}\n\tfor _, t := range r.Targets {\n\t\tcount(t)\n\t}\n", Expect: ""},
		mutant{Name: "benign: fixed test in a helper that returns constants", File: "route/route.go", Old: countLoop, New: strings.Replace(countLoop, "if t.FixedWeight > 0 {", "if isFixed(t) {", 1), More: []repl{{assign, strings.Replace(assign, "if t.FixedWeight > 0 {", "if isFixed(t) {", 1)}, {"type byN []struct{ i, n int }", "func isFixed(t *Target) bool {\n\tif t.FixedWeight > 0 {\n\t\treturn true\n\t}\n\treturn false\n}\n\ntype byN []struct{ i, n int }"}}, Expect: ""},
		mutant{Name: "assignment classifies by a helper that takes every non-zero FixedWeight for fixed", File: "route/route.go", Old: assign, New: strings.Replace(assign, "if t.FixedWeight > 0 {", "if hasWeight(t) {", 1), More: []repl{{"type byN []struct{ i, n int }", "func hasWeight(t *Target) bool {\n\tif t.FixedWeight == 0 {\n\t\treturn false\n\t}\n\treturn true\n}\n\ntype byN []struct{ i, n int }"}}, Expect: "C04.R8"},
		mutant{Name: "benign: both loops compare FixedWeight with the same epsilon", File: "route/route.go", Old: countLoop, New: strings.Replace(countLoop, "if t.FixedWeight > 0 {", "if t.FixedWeight > 1e-9 {", 1), More: []repl{{assign, strings.Replace(assign, "if t.FixedWeight > 0 {", "if t.FixedWeight > 1e-9 {", 1)}}, Expect: ""},
		mutant{Name: "counting loop ignores fixed weights below 0.01%, assignment loop does not", File: "route/route.go", Old: countLoop, New: strings.Replace(countLoop, "if t.FixedWeight > 0 {", "if t.FixedWeight > 0.0001 {", 1), Expect: "C04.R8"},
		mutant{Name: "benign: assignment moved into helpers called under the fixed test", File: "route/route.go", Old: assign, New: "\t\tif t.FixedWeight > 0 {\n\t\t\tt.setShare(t.FixedWeight * scale)\n\t\t} else {\n\t\t\tt.setShare(dynamic)\n\t\t}\n", More: []repl{{"type byN []struct{ i, n int }", "func (t *Target) setShare(w float64) { t.Weight = w }\n\ntype byN []struct{ i, n int }"}}, Expect: ""},
	)
}

// ---- values ----------------------------------------------------------------------------------------------------------

// c04isFWLoad: v is a load of Target.FixedWeight.
func c04isFWLoad(v ssa.Value) bool {
	u, ok := v.(*ssa.UnOp)
	return ok && u.Op == token.MUL && c04isField(u.X, "route.Target", "FixedWeight")
}

// c04fwStore: i stores Target.FixedWeight (of an existing target or of a literal under construction).
func c04fwStore(i ssa.Instruction) (*ssa.Store, bool) {
	st, ok := i.(*ssa.Store)
	if !ok {
		return nil, false
	}
	if _, isFA := st.Addr.(*ssa.FieldAddr); !isFA || !c04isField(st.Addr, "route.Target", "FixedWeight") {
		return nil, false
	}
	return st, true
}

func c04staticSites(fn *ssa.Function) ([]ssa.CallInstruction, bool) {
	if fn == nil {
		return nil, false
	}
	sites := c04sites(fn)
	if len(sites) == 0 || len(sites) > maxHelperSites || !(fn.Parent() != nil || onlyStaticallyCalled(fn)) {
		return nil, false
	}
	return sites, true
}

func c04paramIndex(p *ssa.Parameter) int {
	for k, q := range p.Parent().Params {
		if q == p {
			return k
		}
	}
	return -1
}

// c04repoCallee: the repository function with a body that is statically called by cc.
func c04repoCallee(cc *ssa.CallCommon) *ssa.Function {
	sc := cc.StaticCallee()
	if sc == nil || !isRepoFn(sc) {
		return nil
	}
	sc = unwrap(sc)
	if len(sc.Blocks) == 0 {
		return nil
	}
	return sc
}

// c04cellStores: every store into the local cell a, by the function that owns it and by the closures it is bound into.
func c04cellStores(a *ssa.Alloc) []*ssa.Store {
	var out []*ssa.Store
	if a.Referrers() == nil {
		return nil
	}
	for _, r := range *a.Referrers() {
		switch x := r.(type) {
		case *ssa.Store:
			if x.Addr == a {
				out = append(out, x)
			}
		case *ssa.MakeClosure:
			fn, ok := x.Fn.(*ssa.Function)
			if !ok {
				continue
			}
			for k, bnd := range x.Bindings {
				if bnd != a || k >= len(fn.FreeVars) {
					continue
				}
				fv := fn.FreeVars[k]
				if fv.Referrers() == nil {
					continue
				}
				for _, r2 := range *fv.Referrers() {
					if st, ok := r2.(*ssa.Store); ok && st.Addr == fv {
						out = append(out, st)
					}
				}
			}
		}
	}
	return out
}

// c04boundCell: the cell of the enclosing function that the free variable fv of a closure is bound to.
func c04boundCell(fv *ssa.FreeVar) *ssa.Alloc {
	fn := fv.Parent()
	if fn == nil || fn.Parent() == nil {
		return nil
	}
	idx := -1
	for k, v := range fn.FreeVars {
		if v == fv {
			idx = k
		}
	}
	var out *ssa.Alloc
	eachInstr(fn.Parent(), func(i ssa.Instruction) {
		if mc, ok := i.(*ssa.MakeClosure); ok && mc.Fn == fn && idx >= 0 && idx < len(mc.Bindings) {
			if a, ok := mc.Bindings[idx].(*ssa.Alloc); ok {
				out = a
			}
		}
	})
	return out
}

func c04blockPos(b *ssa.BasicBlock, fallback token.Pos) token.Pos {
	for hop := 0; b != nil && hop < 3; hop++ {
		for k := len(b.Instrs) - 1; k >= 0; k-- {
			if p := b.Instrs[k].Pos(); p.IsValid() {
				return p
			}
		}
		if len(b.Preds) != 1 {
			break
		}
		b = b.Preds[0] // an empty then-block: the branch that selects it
	}
	return fallback
}

func c04ftoa(f float64) string { return strconv.FormatFloat(f, 'g', -1, 64) }

// ---- C04.R7 ----------------------------------------------------------------------------------------------------------

type c04cand struct {
	kind   string // const, min, max, scale, offset
	k      float64
	facts  []Fact
	viaArg bool // the constant is the argument of a call of its own (a reset pass), not a value merged with the weight
	pos    token.Pos
}

type c04flow struct {
	c       *Ctx
	chain   map[ssa.Value]bool
	paths   map[string]bool
	seen    map[ssa.Value]bool
	cands   []c04cand
	config  bool // the chain reaches the configured weight (RouteDef.Weight)
	cfgDefs []*ssa.Store
}

func (fl *c04flow) note(v ssa.Value) {
	fl.chain[v] = true
	if u, ok := v.(*ssa.UnOp); ok && u.Op == token.MUL {
		if _, isFA := u.X.(*ssa.FieldAddr); isFA {
			fl.paths[accessPath(v)] = true
		}
	}
}

func (fl *c04flow) inChain(x ssa.Value) bool {
	if fl.chain[x] || fl.chain[c04stripConv(x)] {
		return true
	}
	if u, ok := c04stripConv(x).(*ssa.UnOp); ok && u.Op == token.MUL {
		if _, isFA := u.X.(*ssa.FieldAddr); isFA {
			return fl.paths[accessPath(u)]
		}
	}
	return false
}

// c04errorReturn: r also returns an error that is not the nil constant (the value of the other results is not used).
func c04errorReturn(r *ssa.Return) bool {
	for _, res := range r.Results {
		if types.Identical(res.Type(), types.Universe.Lookup("error").Type()) && !isNilConst(res) {
			return true
		}
	}
	return false
}

// walk visits the definitions that can reach v (v is chosen when control leaves b towards to).
func (fl *c04flow) walk(v ssa.Value, b, to *ssa.BasicBlock, viaArg bool, depth int) {
	if v == nil || depth > 24 || !c04isFloat(v.Type()) {
		return
	}
	if k, ok := c04constFloat(v); ok {
		fl.cands = append(fl.cands, c04cand{kind: "const", k: k, facts: c04edgeFacts(b, to), viaArg: viaArg, pos: c04blockPos(b, token.NoPos)})
		return
	}
	if fl.seen[v] {
		return
	}
	fl.seen[v] = true
	fl.note(v)
	results := func(call *ssa.Call, idx int) bool {
		sc := c04repoCallee(&call.Call)
		if sc == nil {
			return false
		}
		eachInstr(sc, func(i ssa.Instruction) {
			if r, ok := i.(*ssa.Return); ok && idx < len(r.Results) && !c04errorReturn(r) {
				fl.walk(r.Results[idx], r.Block(), nil, false, depth+1)
			}
		})
		return true
	}
	switch x := v.(type) {
	case *ssa.Phi:
		for k, e := range x.Edges {
			fl.walk(e, x.Block().Preds[k], x.Block(), false, depth+1)
		}
	case *ssa.Convert:
		fl.walk(x.X, b, to, viaArg, depth+1)
	case *ssa.ChangeType:
		fl.walk(x.X, b, to, viaArg, depth+1)
	case *ssa.UnOp:
		if x.Op == token.SUB {
			fl.walk(x.X, x.Block(), nil, false, depth+1)
			return
		}
		if x.Op != token.MUL {
			return
		}
		switch a := x.X.(type) {
		case *ssa.Alloc:
			for _, st := range c04cellStores(a) {
				fl.walk(st.Val, st.Block(), nil, false, depth+1)
			}
		case *ssa.FreeVar:
			if cell := c04boundCell(a); cell != nil {
				for _, st := range c04cellStores(cell) {
					fl.walk(st.Val, st.Block(), nil, false, depth+1)
				}
			}
		case *ssa.FieldAddr:
			if c04isField(a, "route.RouteDef", "Weight") {
				fl.config = true
				for _, st := range fl.cfgDefs {
					fl.walk(st.Val, st.Block(), nil, false, depth+1)
				}
				return
			}
			// a field of a struct value built in the repository (an options / selector value), followed through copies,
			// parameters and helper results
			cells, ok := c04structCells(a.X, true, map[ssa.Value]bool{}, 0)
			if !ok {
				return
			}
			for _, base := range cells {
				if base.Referrers() == nil {
					continue
				}
				for _, r := range *base.Referrers() {
					if fa2, ok := r.(*ssa.FieldAddr); ok && fa2.Field == a.Field && fa2.Referrers() != nil && types.Identical(fa2.X.Type(), a.X.Type()) {
						for _, r2 := range *fa2.Referrers() {
							if st, ok := r2.(*ssa.Store); ok && st.Addr == fa2 {
								fl.walk(st.Val, st.Block(), nil, false, depth+1)
							}
						}
					}
				}
			}

		}
	case *ssa.Parameter:
		sites, ok := c04staticSites(x.Parent())
		idx := c04paramIndex(x)
		if !ok || idx < 0 {
			return
		}
		for _, s := range sites {
			if idx < len(s.Common().Args) {
				arg := s.Common().Args[idx]
				_, isK := arg.(*ssa.Const)
				fl.walk(arg, s.Block(), nil, isK, depth+1)
			}
		}
	case *ssa.Extract:
		if call, ok := x.Tuple.(*ssa.Call); ok {
			results(call, x.Index)
		}
	case *ssa.Call:
		switch name := calleeName(&x.Call); name {
		case "builtin.min", "builtin.max", "math.Min", "math.Max":
			kind := "min"
			if strings.HasSuffix(name, "ax") {
				kind = "max"
			}
			for _, a := range x.Call.Args {
				if k, ok := c04constFloat(a); ok {
					fl.cands = append(fl.cands, c04cand{kind: kind, k: k, pos: x.Pos()})
				} else {
					fl.walk(a, x.Block(), nil, false, depth+1)
				}
			}
		default:
			results(x, 0)
		}
	case *ssa.BinOp:
		kx, xk := c04constFloat(x.X)
		ky, yk := c04constFloat(x.Y)
		// an operand that is a count (float64(n)) or a reciprocal (1 / float64(n)) does not carry the weight
		carries := func(o ssa.Value) bool {
			o = c04stripFloatConv(o)
			if cv, ok := o.(*ssa.Convert); ok && c04isInt(cv.X.Type()) {
				return false
			}
			if bo, ok := o.(*ssa.BinOp); ok && bo.Op == token.QUO {
				if _, isK := c04constFloat(bo.X); isK {
					return false
				}
			}
			return true
		}
		switch x.Op {
		case token.QUO:
			if xk {
				return
			}
			if yk && ky != 1 {
				fl.cands = append(fl.cands, c04cand{kind: "scale", k: 1 / ky, pos: x.Pos()})
			}
			fl.walk(x.X, x.Block(), nil, false, depth+1)
		case token.MUL:
			switch {
			case xk && yk:
			case xk || yk:
				k, o := kx, x.Y
				if yk {
					k, o = ky, x.X
				}
				if k != 1 {
					fl.cands = append(fl.cands, c04cand{kind: "scale", k: k, pos: x.Pos()})
				}
				fl.walk(o, x.Block(), nil, false, depth+1)
			default:
				for _, o := range []ssa.Value{x.X, x.Y} {
					if carries(o) {
						fl.walk(o, x.Block(), nil, false, depth+1)
					}
				}
			}
		case token.ADD, token.SUB:
			for n, o := range []ssa.Value{x.X, x.Y} {
				if k, ok := c04constFloat(o); ok {
					if k != 0 {
						fl.cands = append(fl.cands, c04cand{kind: "offset", k: k, pos: x.Pos()})
					}
				} else if carries(o) && (x.Op == token.ADD || n == 0 || xk) {
					fl.walk(o, x.Block(), nil, false, depth+1)
				}
			}
		}
	}
}

func c04stripFloatConv(v ssa.Value) ssa.Value {
	for {
		cv, ok := v.(*ssa.Convert)
		if !ok || !c04isFloat(cv.X.Type()) {
			return v
		}
		v = cv.X
	}
}

// judge: what is wrong with the candidate ("" = nothing).
func (fl *c04flow) judge(cd c04cand) string {
	switch cd.kind {
	case "min":
		return "it is capped with min(w, " + c04ftoa(cd.k) + ")"
	case "max":
		if cd.k > 0 {
			return "it is raised with max(w, " + c04ftoa(cd.k) + ")"
		}
	case "scale":
		return "it is scaled by the constant " + c04ftoa(cd.k)
	case "offset":
		return "the constant " + c04ftoa(cd.k) + " is added to / subtracted from it"
	case "const":
		var about []string
		nonPositiveOnly := false
		for _, f := range cd.facts {
			x, op, k, _, ok := c04cmp(f)
			if !ok || !fl.inChain(x) {
				continue
			}
			about = append(about, "w "+op.String()+" "+c04ftoa(k))
			if (op == token.LSS || op == token.LEQ || op == token.EQL) && k <= 0 {
				nonPositiveOnly = true
			}
		}
		where := ""
		if len(about) > 0 {
			where = " where " + strings.Join(about, " and ")
		}
		switch {
		case cd.k > 0:
			return "it is replaced by the constant " + c04ftoa(cd.k) + where
		case cd.viaArg || len(about) == 0 || nonPositiveOnly:
			return ""
		default:
			return "a positive weight is replaced by " + c04ftoa(cd.k) + where
		}
	}
	return ""
}

// runC04R7: the configured weight reaches Target.FixedWeight as given.
func runC04R7(c *Ctx) {
	b := c04cachedBuilder(c)
	var cfgDefs []*ssa.Store
	for _, f := range c.AllFns {
		eachInstr(f, func(i ssa.Instruction) {
			if st, ok := i.(*ssa.Store); ok {
				if _, isFA := st.Addr.(*ssa.FieldAddr); isFA && c04isField(st.Addr, "route.RouteDef", "Weight") {
					cfgDefs = append(cfgDefs, st)
				}
			}
		})
	}
	nStores, nConfig := 0, 0
	for _, f := range c.AllFns {
		if b != nil && (b.in[f] || b.in[c04outer(f)]) {
			continue
		}
		ff := f
		eachInstr(f, func(i ssa.Instruction) {
			st, ok := c04fwStore(i)
			if !ok {
				return
			}
			nStores++
			fl := &c04flow{c: c, chain: map[ssa.Value]bool{}, paths: map[string]bool{}, seen: map[ssa.Value]bool{}, cfgDefs: cfgDefs}
			fl.walk(st.Val, st.Block(), nil, false, 0)
			if fl.config {
				nConfig++
			}
			var bad []string
			pos := st.Pos()
			seenMsg := map[string]bool{}
			for _, cd := range fl.cands {
				if why := fl.judge(cd); why != "" && !seenMsg[why] {
					seenMsg[why] = true
					if len(bad) == 0 && cd.pos.IsValid() {
						pos = cd.pos
					}
					bad = append(bad, why)
				}
			}
			sort.Strings(bad)
			c.check("C04.R7", fnKey(c04outer(ff))+"|the configured weight reaches Target.FixedWeight as given", pos, len(bad) == 0,
				"on its way into Target.FixedWeight the configured weight w is changed: "+strings.Join(bad, "; ")+". Fixed weights must be honoured as given: a share above 100% is meaningful (the ring builder scales all fixed weights of the route down proportionally), so a cap, floor, default or constant factor applied before the weight is stored changes the ratio to the other fixed weights of the route and the traffic is split differently from what was configured; only the equal split among the matching targets and the clamp of weights <= 0 to 'no fixed weight' may touch the value")
		})
	}
	// the read side: the ring builder takes Target.FixedWeight as it is stored
	if b != nil {
		nReads := 0
		eachInstrOf(b.reg, func(_ *ssa.Function, i ssa.Instruction) {
			ld, ok := i.(*ssa.UnOp)
			if !ok || !c04isFWLoad(ld) {
				return
			}
			nReads++
			why := c04readAsGiven(ld, map[ssa.Value]bool{}, 0)
			c.check("C04.R7", "ring builder|Target.FixedWeight is read as given", ld.Pos(), why == "",
				"the ring builder does not take the fixed weight as it was configured: "+why+". Fixed weights must be honoured as given and scaled down proportionally when they exceed 100%: a cap, floor or default applied to a single weight before the sum is formed changes its ratio to the other fixed weights of the route")
		})
		c.atLeast("C04.R7", "reads of Target.FixedWeight in the ring builder", nReads, 1)
	}
	c.atLeast("C04.R7", "stores to Target.FixedWeight outside the ring builder", nStores, 1)
	c.atLeast("C04.R7", "stores to Target.FixedWeight whose value comes from the configured weight (RouteDef.Weight)", nConfig, 1)
}

// c04readAsGiven: the value v (a FixedWeight just read, or a copy of it) is not merged with a positive constant: no
// phi, local cell or helper result that also carries a constant > 0, no min() with a constant, no max() with a
// constant > 0. Returns what is wrong ("" = nothing).
func c04readAsGiven(v ssa.Value, seen map[ssa.Value]bool, depth int) string {
	if v == nil || seen[v] || depth > 4 || v.Referrers() == nil {
		return ""
	}
	seen[v] = true
	positive := func(o ssa.Value) (float64, bool) {
		k, ok := c04constFloat(o)
		return k, ok && k > 0
	}
	for _, r := range *v.Referrers() {
		switch x := r.(type) {
		case *ssa.Convert:
			if why := c04readAsGiven(x, seen, depth+1); why != "" {
				return why
			}
		case *ssa.Phi:
			for _, e := range x.Edges {
				if k, ok := positive(e); ok {
					return "it is replaced by the constant " + c04ftoa(k) + " on one path"
				}
			}
		case *ssa.Store:
			if cell, ok := x.Addr.(*ssa.Alloc); ok && x.Val == v {
				for _, st := range c04cellStores(cell) {
					if k, ok := positive(st.Val); ok {
						return "it is replaced by the constant " + c04ftoa(k) + " on one path"
					}
				}
			}
		case *ssa.Return:
			for idx, res := range x.Results {
				if res != v {
					continue
				}
				why := ""
				eachInstr(x.Parent(), func(i ssa.Instruction) {
					if r2, ok := i.(*ssa.Return); ok && idx < len(r2.Results) {
						if k, ok := positive(r2.Results[idx]); ok {
							why = "the helper " + fnKey(x.Parent()) + " returns the constant " + c04ftoa(k) + " instead on one path"
						}
					}
				})
				if why != "" {
					return why
				}
			}
		case *ssa.Call:
			switch name := calleeName(&x.Call); name {
			case "builtin.min", "math.Min", "builtin.max", "math.Max":
				for _, a := range x.Call.Args {
					k, isK := c04constFloat(a)
					if !isK {
						continue
					}
					if strings.HasSuffix(name, "in") {
						return "it is capped with min(w, " + c04ftoa(k) + ")"
					}
					if k > 0 {
						return "it is raised with max(w, " + c04ftoa(k) + ")"
					}
				}
				if why := c04readAsGiven(x, seen, depth+1); why != "" {
					return why
				}
			default:
				if sc := c04repoCallee(&x.Call); sc != nil {
					for k, a := range x.Call.Args {
						if a == v && k < len(sc.Params) {
							if why := c04readAsGiven(sc.Params[k], seen, depth+1); why != "" {
								return why
							}
						}
					}
				}
			}
		}
	}
	return ""
}

// ---- C04.R8 ----------------------------------------------------------------------------------------------------------

// The targets are classified by the value of FixedWeight: the classes are the intervals and points into which the
// constants that FixedWeight is compared with in the region of the ring builder (always including 0) cut the real line.
// With 0 alone: FixedWeight < 0, == 0, > 0.
const c04maxCls = 9 // up to four constants

type c04part struct {
	c     *Ctx
	b     *c04builder
	reach map[*ssa.Function]*[c04maxCls]map[*ssa.BasicBlock]bool
	feas  [c04maxCls]bool
	n     int // number of classes
	reps  [c04maxCls]float64
	names [c04maxCls]string
	cuts  map[float64]bool
	// busy marks the functions whose blocks are being computed (recursion guard)
	busy map[*ssa.Function]bool
	// branch conditions on the target at hand that select a counted / assigned site and that truth() cannot read
	opaque map[ssa.Value]token.Pos
}

// truth: the value of the branch condition cond for a target of class s, when the condition is a classification by the
// value of FixedWeight: a comparison of a load of Target.FixedWeight (possibly clamped with min/max) with one of the
// cuts, inline or negated; a boolean constant; the verdict of a boolean repository helper all of whose returns that
// this class can reach agree; or a merged boolean (`a && b`, a verdict kept in a variable) all of whose definitions
// that this class can select agree.
func (p *c04part) truth(cond ssa.Value, s, depth int) (val, decided bool) {
	if cond == nil || depth > 4 {
		return false, false
	}
	if bv, ok := constBool(cond); ok {
		return bv, true
	}
	switch x := cond.(type) {
	case *ssa.UnOp:
		if x.Op == token.NOT {
			v, ok := p.truth(x.X, s, depth+1)
			return !v, ok
		}
	case *ssa.BinOp:
		// a nil test of a target (`t != nil && t.FixedWeight > 0`): the targets of a route are never nil (every loop over
		// them dereferences the element), so the test is the same for every class
		if x.Op == token.NEQ || x.Op == token.EQL {
			for k, side := range []ssa.Value{x.X, x.Y} {
				other := []ssa.Value{x.Y, x.X}[k]
				if pt, isPtr := side.Type().Underlying().(*types.Pointer); isPtr && isNilConst(other) && namedIs(pt, "route.Target") {
					return x.Op == token.NEQ, true
				}
			}
		}
		// FixedWeight (possibly clamped with min/max against a constant) compared with a constant
		if s >= p.n {
			return false, false
		}
		l, lfw, ok1 := p.evalFW(x.X, s, 0)
		r, rfw, ok2 := p.evalFW(x.Y, s, 0)
		if !ok1 || !ok2 || lfw == rfw {
			return false, false
		}
		switch x.Op {
		case token.LSS:
			return l < r, true
		case token.LEQ:
			return l <= r, true
		case token.GTR:
			return l > r, true
		case token.GEQ:
			return l >= r, true
		case token.EQL:
			return l == r, true
		case token.NEQ:
			return l != r, true
		}
	case *ssa.Phi:
		n := 0
		for k, e := range x.Edges {
			if !p.edgeByFacts(x.Block().Preds[k], x.Block(), s, depth+1) {
				continue
			}
			v, ok := p.truth(e, s, depth+1)
			if !ok || (n > 0 && v != val) {
				return false, false
			}
			val = v
			n++
		}
		return val, n > 0
	case *ssa.Call:
		sc := c04repoCallee(&x.Call)
		if sc == nil || sc.Signature.Results().Len() != 1 || p.busy[sc] {
			return false, false
		}
		n, bad := 0, false
		reach := p.reachable(sc, s)
		eachInstr(sc, func(i ssa.Instruction) {
			r, ok := i.(*ssa.Return)
			if !ok || len(r.Results) != 1 || !reach[r.Block()] || bad {
				return
			}
			v, ok := p.truth(r.Results[0], s, depth+1)
			if !ok || (n > 0 && v != val) {
				bad = true
				return
			}
			val = v
			n++
		})
		return val, !bad && n > 0
	}
	return false, false
}

// evalFW: the value of v for a target of class s, when v is a constant that is one of the cuts, or the FixedWeight of the
// target at hand, possibly converted or clamped with min/max against such constants (these functions map a class to
// one side of every cut, so the representative of the class decides a comparison with a cut). hasFW: v reads
// FixedWeight.
func (p *c04part) evalFW(v ssa.Value, s, depth int) (val float64, hasFW, ok bool) {
	if v == nil || depth > 4 {
		return 0, false, false
	}
	v = c04stripConv(v)
	if k, isK := c04constFloat(v); isK {
		return k, false, p.cuts[k]
	}
	if c04isFWLoad(v) {
		return p.reps[s], true, true
	}
	if call, isCall := v.(*ssa.Call); isCall {
		name := calleeName(&call.Call)
		isMax := name == "builtin.max" || name == "math.Max"
		if !isMax && name != "builtin.min" && name != "math.Min" {
			return 0, false, false
		}
		for n, a := range call.Call.Args {
			av, afw, aok := p.evalFW(a, s, depth+1)
			if !aok {
				return 0, false, false
			}
			hasFW = hasFW || afw
			if n == 0 || (isMax && av > val) || (!isMax && av < val) {
				val = av
			}
		}
		return val, hasFW, len(call.Call.Args) > 0
	}
	return 0, false, false
}

// reachable: the blocks of f that can execute while the target at hand is of class s: the edges of the branches on
// FixedWeight that this class does not take are removed.
func (p *c04part) reachable(f *ssa.Function, s int) map[*ssa.BasicBlock]bool {
	if r := p.reach[f]; r != nil {
		return r[s]
	}
	if p.busy[f] {
		return nil
	}
	p.busy[f] = true
	var r [c04maxCls]map[*ssa.BasicBlock]bool
	for cls := 0; cls < p.n; cls++ {
		seen := map[*ssa.BasicBlock]bool{}
		r[cls] = seen
		if len(f.Blocks) == 0 {
			continue
		}
		stack := []*ssa.BasicBlock{f.Blocks[0]}
		for len(stack) > 0 {
			blk := stack[len(stack)-1]
			stack = stack[:len(stack)-1]
			if seen[blk] {
				continue
			}
			seen[blk] = true
			succs := blk.Succs
			if len(succs) == 2 && succs[0] != succs[1] && len(blk.Instrs) > 0 {
				if iff, ok := blk.Instrs[len(blk.Instrs)-1].(*ssa.If); ok {
					if v, ok := p.truth(iff.Cond, cls, 0); ok {
						if v {
							succs = succs[:1]
						} else {
							succs = succs[1:2]
						}
					}
				}
			}
			stack = append(stack, succs...)
		}
	}
	delete(p.busy, f)
	p.reach[f] = &r
	return r[s]
}

// may: instruction i can execute for a target of class s (in its function, and - for a helper of the
// builder that is only called statically - at one of its call sites).
func (p *c04part) may(i ssa.Instruction, s, depth int) bool {
	fn := i.Parent()
	if fn == nil || !p.reachable(fn, s)[i.Block()] {
		return false
	}
	if fn == p.b.entry || depth > 3 {
		return true
	}
	sites, ok := c04staticSites(fn)
	if !ok {
		return true
	}
	for _, site := range sites {
		if !p.b.in[site.Parent()] || p.may(site, s, depth+1) {
			return true
		}
	}
	return false
}

// mayEdge: the edge from -> to can be taken for a target of class s.
func (p *c04part) mayEdge(from, to *ssa.BasicBlock, s int) bool {
	if from == nil || len(from.Instrs) == 0 {
		return false
	}
	if !p.reachable(from.Parent(), s)[from] {
		return false
	}
	if iff, ok := from.Instrs[len(from.Instrs)-1].(*ssa.If); ok && len(from.Succs) == 2 && from.Succs[0] != from.Succs[1] {
		if v, ok := p.truth(iff.Cond, s, 1); ok {
			if v {
				return from.Succs[0] == to
			}
			return from.Succs[1] == to
		}
	}
	return true
}

// readsTarget: the branch condition looks at a field of the target at hand (directly, through arithmetic, in a merged
// boolean or in a boolean helper) - a classification of the targets, whether truth() can read it or not.
func (p *c04part) readsTarget(cond ssa.Value, depth int) bool {
	if cond == nil || depth > 3 {
		return false
	}
	var direct func(v ssa.Value, d int) bool
	direct = func(v ssa.Value, d int) bool {
		if d > 4 {
			return false
		}
		switch x := c04stripConv(v).(type) {
		case *ssa.UnOp:
			if fa, ok := x.X.(*ssa.FieldAddr); ok && x.Op == token.MUL {
				return namedIs(fa.X.Type(), "route.Target")
			}
			return x.Op == token.SUB && direct(x.X, d+1)
		case *ssa.BinOp:
			return direct(x.X, d+1) || direct(x.Y, d+1)
		case *ssa.Call:
			if strings.HasPrefix(calleeName(&x.Call), "math.") || strings.HasPrefix(calleeName(&x.Call), "builtin.") {
				for _, a := range x.Call.Args {
					if direct(a, d+1) {
						return true
					}
				}
			}
		}
		return false
	}
	switch x := cond.(type) {
	case *ssa.UnOp:
		if x.Op == token.NOT {
			return p.readsTarget(x.X, depth+1)
		}
		return direct(x, 0) // a boolean field of the target
	case *ssa.BinOp:
		return direct(x.X, 0) || direct(x.Y, 0)
	case *ssa.Phi:
		for _, e := range x.Edges {
			if p.readsTarget(e, depth+1) {
				return true
			}
		}
	case *ssa.Call:
		sc := c04repoCallee(&x.Call)
		if sc == nil || sc.Signature.Results().Len() != 1 {
			return false
		}
		found := false
		eachInstr(sc, func(i ssa.Instruction) {
			switch y := i.(type) {
			case *ssa.Return:
				found = found || (len(y.Results) == 1 && p.readsTarget(y.Results[0], depth+1))
			case *ssa.If:
				found = found || p.readsTarget(y.Cond, depth+1)
			}
		})
		return found
	}
	return false
}

// edgeByFacts: like mayEdge, but decided from the branch conditions that dominate `from` instead of the reachable
// blocks (used while those are being computed): false only when a classification excludes the edge for class s.
func (p *c04part) edgeByFacts(from, to *ssa.BasicBlock, s, depth int) bool {
	if from == nil || len(from.Instrs) == 0 {
		return false
	}
	for _, f := range localFactsAt(from) {
		if _, isPhi := f.Cond.(*ssa.Phi); isPhi {
			continue
		}
		if v, ok := p.truth(f.Cond, s, depth+1); ok && v != f.Truth {
			return false
		}
	}
	if iff, ok := from.Instrs[len(from.Instrs)-1].(*ssa.If); ok && len(from.Succs) == 2 && from.Succs[0] != from.Succs[1] {
		if _, isPhi := iff.Cond.(*ssa.Phi); !isPhi {
			if v, ok := p.truth(iff.Cond, s, depth+1); ok {
				if v {
					return from.Succs[0] == to
				}
				return from.Succs[1] == to
			}
		}
	}
	return true
}

// noteBlock: the classes computed for something that executes in blk are exact only when every branch that selects blk
// is independent of the target or a classification truth() can read; a branch on a field of the target that it cannot
// read (a verdict merged with other conditions, another field, a comparison with something that is not a constant)
// makes the result of the rule "not decided".
func (p *c04part) noteBlock(blk *ssa.BasicBlock) {
	if blk == nil {
		return
	}
	for _, f := range localFactsAt(blk) {
		p.noteCond(f.Cond, blk)
	}
}

func (p *c04part) noteCond(cond ssa.Value, blk *ssa.BasicBlock) {
	if _, seen := p.opaque[cond]; seen || !p.readsTarget(cond, 0) {
		return
	}
	for s := 0; s < p.n; s++ {
		if _, ok := p.truth(cond, s, 0); !ok && p.feas[s] {
			p.opaque[cond] = c04blockPos(blk, token.NoPos)
			if cond.Pos().IsValid() {
				p.opaque[cond] = cond.Pos()
			}
			return
		}
	}
}

func (p *c04part) classes(i ssa.Instruction) (out [c04maxCls]bool) {
	p.noteBlock(i.Block())
	for s := 0; s < c04maxCls; s++ {
		out[s] = p.feas[s] && p.may(i, s, 0)
	}
	return
}

func (p *c04part) list(set [c04maxCls]bool) string {
	var names []string
	for s := 0; s < p.n; s++ {
		if set[s] && p.feas[s] {
			names = append(names, p.names[s])
		}
	}
	if len(names) == 0 {
		return "no target"
	}
	return "the targets with " + strings.Join(names, " or ")
}

// classify sets up the classes: the constants FixedWeight is compared with in the region of the builder.
func (p *c04part) classify(negative bool) {
	p.cuts = map[float64]bool{0: true}
	eachInstrOf(p.b.reg, func(_ *ssa.Function, i ssa.Instruction) {
		var ops []ssa.Value
		switch x := i.(type) {
		case *ssa.BinOp:
			switch x.Op {
			case token.LSS, token.LEQ, token.GTR, token.GEQ, token.EQL, token.NEQ:
				ops = []ssa.Value{x.X, x.Y}
			}
		case *ssa.Call:
			switch calleeName(&x.Call) {
			case "builtin.max", "builtin.min", "math.Max", "math.Min":
				ops = x.Call.Args
			}
		}
		// the constants FixedWeight (or a clamped FixedWeight) meets in a comparison or in min/max
		meetsFW := false
		for _, o := range ops {
			o = c04stripConv(o)
			if call, isCall := o.(*ssa.Call); isCall {
				for _, a := range call.Call.Args {
					meetsFW = meetsFW || c04isFWLoad(c04stripConv(a))
				}
			}
			meetsFW = meetsFW || c04isFWLoad(o)
		}
		for _, o := range ops {
			if k, isK := c04constFloat(o); isK && meetsFW {
				p.cuts[k] = true
			}
		}
	})
	if 2*len(p.cuts)+1 > c04maxCls {
		p.cuts = map[float64]bool{0: true} // too many: comparisons with other constants are not read
	}
	var ks []float64
	for k := range p.cuts {
		ks = append(ks, k)
	}
	sort.Float64s(ks)
	p.n = 0
	add := func(rep float64, name string) {
		p.reps[p.n], p.names[p.n] = rep, name
		p.feas[p.n] = rep >= 0 || negative
		p.n++
	}
	for j, k := range ks {
		if j == 0 {
			add(k-1, "FixedWeight < "+c04ftoa(k))
		} else {
			add((ks[j-1]+k)/2, c04ftoa(ks[j-1])+" < FixedWeight < "+c04ftoa(k))
		}
		add(k, "FixedWeight == "+c04ftoa(k))
	}
	add(ks[len(ks)-1]+1, "FixedWeight > "+c04ftoa(ks[len(ks)-1]))
}

// c04nonNegF: the float v, chosen when control leaves b towards to, is known not to be negative.
func c04nonNegF(v ssa.Value, b, to *ssa.BasicBlock, seen map[ssa.Value]bool, depth int) bool {
	if v == nil || depth > 16 {
		return false
	}
	if k, ok := c04constFloat(v); ok {
		return k >= 0
	}
	if b != nil {
		same := samePath(v)
		for _, f := range c04edgeFacts(b, to) {
			if x, op, k, _, ok := c04cmp(f); ok && (x == v || same(x)) && k >= 0 && (op == token.GEQ || op == token.GTR || op == token.EQL) {
				return true
			}
		}
	}
	if seen[v] {
		return true // a cycle through a loop variable: decided by the other definitions
	}
	seen[v] = true
	results := func(call *ssa.Call, idx int) bool {
		sc := c04repoCallee(&call.Call)
		if sc == nil {
			return false
		}
		n, all := 0, true
		eachInstr(sc, func(i ssa.Instruction) {
			if r, ok := i.(*ssa.Return); ok && idx < len(r.Results) && !c04errorReturn(r) {
				n++
				all = all && c04nonNegF(r.Results[idx], r.Block(), nil, seen, depth+1)
			}
		})
		return n > 0 && all
	}
	switch x := v.(type) {
	case *ssa.Phi:
		for k, e := range x.Edges {
			if !c04nonNegF(e, x.Block().Preds[k], x.Block(), seen, depth+1) {
				return false
			}
		}
		return true
	case *ssa.Convert:
		if c04isInt(x.X.Type()) {
			return c04nonNegI(x.X, map[ssa.Value]bool{}, 0)
		}
		return c04nonNegF(x.X, b, to, seen, depth+1)
	case *ssa.UnOp:
		if x.Op != token.MUL {
			return false
		}
		var cell *ssa.Alloc
		switch a := x.X.(type) {
		case *ssa.Alloc:
			cell = a
		case *ssa.FreeVar:
			cell = c04boundCell(a)
		}
		if cell == nil {
			return false
		}
		stores := c04cellStores(cell)
		for _, st := range stores {
			if !c04nonNegF(st.Val, st.Block(), nil, seen, depth+1) {
				return false
			}
		}
		return len(stores) > 0
	case *ssa.Parameter:
		sites, ok := c04staticSites(x.Parent())
		idx := c04paramIndex(x)
		if !ok || idx < 0 {
			return false
		}
		for _, s := range sites {
			if idx >= len(s.Common().Args) || !c04nonNegF(s.Common().Args[idx], s.Block(), nil, seen, depth+1) {
				return false
			}
		}
		return true
	case *ssa.Extract:
		if call, ok := x.Tuple.(*ssa.Call); ok {
			return results(call, x.Index)
		}
	case *ssa.Call:
		switch calleeName(&x.Call) {
		case "math.Abs":
			return true
		case "builtin.max", "math.Max":
			for _, a := range x.Call.Args {
				if c04nonNegF(a, x.Block(), nil, seen, depth+1) {
					return true
				}
			}
			return false
		case "builtin.min", "math.Min":
			for _, a := range x.Call.Args {
				if !c04nonNegF(a, x.Block(), nil, seen, depth+1) {
					return false
				}
			}
			return true
		}
		return results(x, 0)
	case *ssa.BinOp:
		switch x.Op {
		case token.MUL, token.QUO, token.ADD:
			return c04nonNegF(x.X, x.Block(), nil, seen, depth+1) && c04nonNegF(x.Y, x.Block(), nil, seen, depth+1)
		}
	}
	return false
}

// c04nonNegI: the integer v is a count: never negative.
func c04nonNegI(v ssa.Value, seen map[ssa.Value]bool, depth int) bool {
	if v == nil || depth > 16 {
		return false
	}
	v = c04stripConv(v)
	if bt, ok := v.Type().Underlying().(*types.Basic); ok && bt.Info()&types.IsUnsigned != 0 {
		return true
	}
	if k, ok := constInt(v); ok {
		return k >= 0
	}
	if seen[v] {
		return true
	}
	seen[v] = true
	results := func(call *ssa.Call, idx int) bool {
		sc := c04repoCallee(&call.Call)
		if sc == nil {
			return false
		}
		n, all := 0, true
		eachInstr(sc, func(i ssa.Instruction) {
			if r, ok := i.(*ssa.Return); ok && idx < len(r.Results) {
				n++
				all = all && c04nonNegI(r.Results[idx], seen, depth+1)
			}
		})
		return n > 0 && all
	}
	switch x := v.(type) {
	case *ssa.Phi:
		for _, e := range x.Edges {
			if !c04nonNegI(e, seen, depth+1) {
				return false
			}
		}
		return true
	case *ssa.BinOp:
		if x.Op == token.ADD || x.Op == token.MUL {
			return c04nonNegI(x.X, seen, depth+1) && c04nonNegI(x.Y, seen, depth+1)
		}
	case *ssa.Extract:
		if call, ok := x.Tuple.(*ssa.Call); ok {
			return results(call, x.Index)
		}
	case *ssa.Call:
		if n := calleeName(&x.Call); n == "builtin.len" || n == "builtin.cap" {
			return true
		}
		return results(x, 0)
	case *ssa.UnOp:
		if a, ok := x.X.(*ssa.Alloc); ok && x.Op == token.MUL {
			stores := c04cellStores(a)
			for _, st := range stores {
				if !c04nonNegI(st.Val, seen, depth+1) {
					return false
				}
			}
			return true // a cell without a store holds the zero value
		}
	}
	if i, ok := v.(ssa.Instruction); ok && i.Block() != nil {
		_, nn := c04bound(v, i.Block(), 0)
		return nn
	}
	return false
}

// c04constNum: v is a constant with an integral value (an integer, or a float such as 1.0).
func c04constNum(v ssa.Value) (int64, bool) {
	if k, ok := constInt(v); ok {
		return k, true
	}
	if f, ok := c04constFloat(v); ok && f == float64(int64(f)) {
		return int64(f), true
	}
	return 0, false
}

// c04isTargetsSlice: v is the target list of the route itself (Route.Targets, possibly handed on to a helper).
func c04isTargetsSlice(v ssa.Value, depth int) bool {
	if v == nil || depth > 6 {
		return false
	}
	switch x := v.(type) {
	case *ssa.UnOp:
		_, isFA := x.X.(*ssa.FieldAddr)
		return x.Op == token.MUL && isFA && c04isField(x.X, "route.Route", "Targets")
	case *ssa.Phi:
		for _, e := range x.Edges {
			if !c04isTargetsSlice(e, depth+1) {
				return false
			}
		}
		return len(x.Edges) > 0
	case *ssa.Parameter:
		sites, ok := c04staticSites(x.Parent())
		idx := c04paramIndex(x)
		if !ok || idx < 0 {
			return false
		}
		for _, s := range sites {
			if idx >= len(s.Common().Args) {
				return false
			}
			// the list itself, or the value the caller has just made the list (`r.Targets = clone; weigh(clone)`)
			if a := s.Common().Args[idx]; !c04isTargetsSlice(a, depth+1) && !c04storedAsTargets(a, s) {
				return false
			}
		}
		return true
	}
	return false
}

// c04sliceAppends: v is a slice built from nothing by appends (a partition of the targets collected in a loop); the
// result lists the append calls. Followed through phis, local cells, helper results and parameters.
func c04sliceAppends(v ssa.Value, seen map[ssa.Value]bool, depth int) ([]ssa.Instruction, bool) {
	if v == nil || depth > 12 {
		return nil, false
	}
	if seen[v] {
		return nil, true
	}
	seen[v] = true
	var out []ssa.Instruction
	all := func(vs []ssa.Value) bool {
		for _, w := range vs {
			as, ok := c04sliceAppends(w, seen, depth+1)
			if !ok {
				return false
			}
			out = append(out, as...)
		}
		return true
	}
	results := func(call *ssa.Call, idx int) bool {
		sc := c04repoCallee(&call.Call)
		if sc == nil {
			return false
		}
		var vs []ssa.Value
		eachInstr(sc, func(i ssa.Instruction) {
			if r, ok := i.(*ssa.Return); ok && idx < len(r.Results) {
				vs = append(vs, r.Results[idx])
			}
		})
		return len(vs) > 0 && all(vs)
	}
	ok := false
	switch x := v.(type) {
	case *ssa.Const:
		ok = x.Value == nil
	case *ssa.Phi:
		ok = all(x.Edges)
	case *ssa.MakeSlice:
		k, isK := constInt(x.Len)
		ok = isK && k == 0
	case *ssa.Slice:
		ok = all([]ssa.Value{x.X})
	case *ssa.Call:
		if calleeName(&x.Call) == "builtin.append" && len(x.Call.Args) >= 1 {
			out = append(out, x)
			ok = all([]ssa.Value{x.Call.Args[0]})
		} else {
			ok = results(x, 0)
		}
	case *ssa.Extract:
		if call, isCall := x.Tuple.(*ssa.Call); isCall {
			ok = results(call, x.Index)
		}
	case *ssa.Parameter:
		sites, known := c04staticSites(x.Parent())
		idx := c04paramIndex(x)
		if known && idx >= 0 {
			var args []ssa.Value
			ok = true
			for _, s := range sites {
				if idx >= len(s.Common().Args) {
					ok = false
					break
				}
				args = append(args, s.Common().Args[idx])
			}
			ok = ok && all(args)
		}
	case *ssa.UnOp:
		if a, isA := x.X.(*ssa.Alloc); isA && x.Op == token.MUL {
			var vs []ssa.Value
			for _, st := range c04cellStores(a) {
				vs = append(vs, st.Val)
			}
			ok = all(vs)
		}
	}
	return out, ok
}

// c04lin is an integer as a linear expression of the numbers of targets with a negative, zero and positive FixedWeight.
type c04lin struct {
	co [c04maxCls]int
	k  int64
}

func (a c04lin) plus(b c04lin, sign int) c04lin {
	for s := 0; s < c04maxCls; s++ {
		a.co[s] += sign * b.co[s]
	}
	a.k += int64(sign) * b.k
	return a
}

// c04structCells: the local cells that hold the struct v (an address when isAddr, a value otherwise), followed through
// whole-struct copies, parameters of statically called helpers and helper results.
func c04structCells(v ssa.Value, isAddr bool, seen map[ssa.Value]bool, depth int) ([]*ssa.Alloc, bool) {
	if v == nil || depth > 12 {
		return nil, false
	}
	if seen[v] {
		return nil, true
	}
	seen[v] = true
	var out []*ssa.Alloc
	merge := func(vs []ssa.Value, addr bool) bool {
		for _, w := range vs {
			cells, ok := c04structCells(w, addr, seen, depth+1)
			if !ok {
				return false
			}
			out = append(out, cells...)
		}
		return true
	}
	results := func(call *ssa.Call, idx int, addr bool) bool {
		sc := c04repoCallee(&call.Call)
		if sc == nil {
			return false
		}
		var vs []ssa.Value
		eachInstr(sc, func(i ssa.Instruction) {
			if r, ok := i.(*ssa.Return); ok && idx < len(r.Results) {
				vs = append(vs, r.Results[idx])
			}
		})
		return len(vs) > 0 && merge(vs, addr)
	}
	switch x := v.(type) {
	case *ssa.Alloc:
		if !isAddr {
			return nil, false
		}
		out = append(out, x)
		var copies []ssa.Value
		for _, st := range c04cellStores(x) {
			copies = append(copies, st.Val)
		}
		if !merge(copies, false) {
			return nil, false
		}
		return out, true
	case *ssa.UnOp:
		if isAddr || x.Op != token.MUL {
			return nil, false
		}
		if !merge([]ssa.Value{x.X}, true) {
			return nil, false
		}
		return out, true
	case *ssa.Phi:
		if !merge(x.Edges, isAddr) {
			return nil, false
		}
		return out, true
	case *ssa.Parameter:
		sites, ok := c04staticSites(x.Parent())
		idx := c04paramIndex(x)
		if !ok || idx < 0 {
			return nil, false
		}
		var args []ssa.Value
		for _, s := range sites {
			if idx >= len(s.Common().Args) {
				return nil, false
			}
			args = append(args, s.Common().Args[idx])
		}
		if !merge(args, isAddr) {
			return nil, false
		}
		return out, true
	case *ssa.Call:
		if !results(x, 0, isAddr) {
			return nil, false
		}
		return out, true
	case *ssa.Extract:
		if call, ok := x.Tuple.(*ssa.Call); ok && results(call, x.Index, isAddr) {
			return out, true
		}
	case *ssa.Const:
		return nil, !isAddr // the zero value of the struct
	}
	return nil, false
}

// c04stepOf: d is x+1, 1+x, x-(-1) (sign +1) or x-1, x+(-1) (sign -1): the operand x and the sign.
func c04stepOf(d ssa.Value) (ssa.Value, int, bool) {
	bo, ok := d.(*ssa.BinOp)
	if !ok || (bo.Op != token.ADD && bo.Op != token.SUB) {
		return nil, 0, false
	}
	sign := 1
	if bo.Op == token.SUB {
		sign = -1
	}
	if k, isK := c04constNum(bo.Y); isK && (k == 1 || k == -1) {
		return bo.X, sign * int(k), true
	}
	if k, isK := c04constNum(bo.X); isK && (k == 1 || k == -1) && bo.Op == token.ADD {
		return bo.Y, int(k), true
	}
	return nil, 0, false
}

// lin evaluates the number v (an integer, or a float that counts).
func (p *c04part) lin(v ssa.Value, seen map[ssa.Value]bool, depth int) (c04lin, bool) {
	var zero c04lin
	if v == nil || depth > 16 {
		return zero, false
	}
	v = c04stripConv(v)
	if k, ok := c04constNum(v); ok {
		return c04lin{k: k}, true
	}
	if seen[v] {
		return zero, false
	}
	seen[v] = true
	defer delete(seen, v)
	// the definitions merged into a variable: increments by one make it a counter of the targets the increment can
	// execute for, started at 0; otherwise all non-constant definitions must agree (a constant is a floor / default)
	merged := func(defs []ssa.Value, isStep func(ssa.Value) (ssa.Instruction, int, bool)) (c04lin, bool) {
		var res c04lin
		var steps []ssa.Instruction
		var signs []int
		var others []ssa.Value
		for _, d := range defs {
			if at, sign, ok := isStep(d); ok {
				steps = append(steps, at)
				signs = append(signs, sign)
			} else {
				others = append(others, d)
			}
		}
		if len(steps) > 0 {
			// a counter: it starts at 0 and is incremented for the targets it counts, or it starts at a number of
			// targets (len(Route.Targets), another count) and is decremented for the targets it leaves out
			n := 0
			for _, o := range others {
				if k, isK := c04constNum(o); isK {
					if k != 0 {
						return zero, false
					}
					continue
				}
				l, ok := p.lin(o, seen, depth+1)
				if !ok || (n > 0 && l != res) {
					return zero, false
				}
				res = l
				n++
			}
			if n > 0 {
				for _, o := range others {
					if _, isK := c04constNum(o); isK {
						return zero, false // started at 0 on one path and at a count on another
					}
				}
			}
			var up, down [c04maxCls]bool
			for k, at := range steps {
				p.noteBlock(at.Block())
				for s := 0; s < c04maxCls; s++ {
					if p.may(at, s, 0) {
						if signs[k] > 0 {
							up[s] = true
						} else {
							down[s] = true
						}
					}
				}
			}
			for s := 0; s < c04maxCls; s++ {
				switch {
				case up[s] && down[s]:
					return zero, false
				case up[s]:
					res.co[s]++
				case down[s]:
					res.co[s]--
				}
			}
			return res, true
		}
		n := 0
		for _, o := range others {
			if _, isK := c04constNum(o); isK {
				continue
			}
			l, ok := p.lin(o, seen, depth+1)
			if !ok || (n > 0 && l != res) {
				return zero, false
			}
			res = l
			n++
		}
		if n == 0 {
			for _, o := range others {
				k, _ := c04constNum(o)
				if n > 0 && res.k != k {
					return zero, false
				}
				res.k = k
				n++
			}
		}
		return res, true // no definition at all: the zero value
	}
	// step: d is self+1 (sign +1) or self-1 (sign -1)
	step := func(d ssa.Value, isSelf func(ssa.Value) bool) (int, bool) {
		operand, sign, ok := c04stepOf(d)
		if !ok || !isSelf(operand) {
			return 0, false
		}
		return sign, true
	}
	results := func(call *ssa.Call, idx int) (c04lin, bool) {
		sc := c04repoCallee(&call.Call)
		if sc == nil {
			return zero, false
		}
		var res c04lin
		n, ok := 0, true
		eachInstr(sc, func(i ssa.Instruction) {
			if r, isR := i.(*ssa.Return); isR && idx < len(r.Results) && ok {
				l, lok := p.lin(r.Results[idx], seen, depth+1)
				if !lok || (n > 0 && l != res) {
					ok = false
					return
				}
				res = l
				n++
			}
		})
		return res, ok && n > 0
	}
	fieldOfCells := func(base ssa.Value, isAddr bool, field int) (c04lin, bool) {
		cells, ok := c04structCells(base, isAddr, map[ssa.Value]bool{}, 0)
		if !ok || len(cells) == 0 {
			return zero, false
		}
		isCell := map[ssa.Value]bool{}
		for _, a := range cells {
			isCell[a] = true
		}
		var defs []ssa.Value
		at := map[ssa.Value]ssa.Instruction{}
		for _, a := range cells {
			if a.Referrers() == nil {
				continue
			}
			for _, r := range *a.Referrers() {
				fa, ok := r.(*ssa.FieldAddr)
				if !ok || fa.Field != field || fa.Referrers() == nil {
					continue
				}
				for _, r2 := range *fa.Referrers() {
					if st, ok := r2.(*ssa.Store); ok && st.Addr == fa {
						defs = append(defs, st.Val)
						at[st.Val] = st
					}
				}
			}
		}
		isSelf := func(w ssa.Value) bool {
			u, ok := w.(*ssa.UnOp)
			if !ok || u.Op != token.MUL {
				return false
			}
			fa, ok := u.X.(*ssa.FieldAddr)
			return ok && fa.Field == field && isCell[fa.X]
		}
		return merged(defs, func(d ssa.Value) (ssa.Instruction, int, bool) {
			if sign, ok := step(d, isSelf); ok {
				return at[d], sign, true
			}
			return nil, 0, false
		})
	}
	switch x := v.(type) {
	case *ssa.BinOp:
		if x.Op != token.ADD && x.Op != token.SUB {
			return zero, false
		}
		l, ok1 := p.lin(x.X, seen, depth+1)
		r, ok2 := p.lin(x.Y, seen, depth+1)
		if !ok1 || !ok2 {
			return zero, false
		}
		if x.Op == token.SUB {
			return l.plus(r, -1), true
		}
		return l.plus(r, 1), true
	case *ssa.Phi:
		// the phis of the variable (loop header and merge points inside the loop) and the definitions merged into them
		phis := map[ssa.Value]bool{x: true}
		work := []*ssa.Phi{x}
		var defs []ssa.Value
		join := func(o ssa.Value) {
			if q, ok := o.(*ssa.Phi); ok && !phis[q] {
				phis[q] = true
				work = append(work, q)
			}
		}
		for len(work) > 0 {
			ph := work[0]
			work = work[1:]
			for _, e := range ph.Edges {
				if _, ok := e.(*ssa.Phi); ok {
					join(e)
					continue
				}
				if operand, _, ok := c04stepOf(e); ok {
					join(operand)
				}
				defs = append(defs, e)
			}
		}
		isSelf := func(w ssa.Value) bool { return phis[w] }
		return merged(defs, func(d ssa.Value) (ssa.Instruction, int, bool) {
			if sign, ok := step(d, isSelf); ok {
				return d.(*ssa.BinOp), sign, true
			}
			return nil, 0, false
		})
	case *ssa.Parameter:
		sites, ok := c04staticSites(x.Parent())
		idx := c04paramIndex(x)
		if !ok || idx < 0 {
			return zero, false
		}
		var res c04lin
		for n, s := range sites {
			if idx >= len(s.Common().Args) {
				return zero, false
			}
			l, ok := p.lin(s.Common().Args[idx], seen, depth+1)
			if !ok || (n > 0 && l != res) {
				return zero, false
			}
			res = l
		}
		return res, true
	case *ssa.Extract:
		if call, ok := x.Tuple.(*ssa.Call); ok {
			return results(call, x.Index)
		}
	case *ssa.Call:
		if n := calleeName(&x.Call); n == "builtin.len" && len(x.Call.Args) == 1 {
			if c04isTargetsSlice(x.Call.Args[0], 0) {
				var all c04lin
				for s := 0; s < p.n; s++ {
					all.co[s] = 1
				}
				return all, true
			}
			// a partition of the targets collected by appends: as many as the appends executed
			if apps, ok := c04sliceAppends(x.Call.Args[0], map[ssa.Value]bool{}, 0); ok && len(apps) > 0 {
				var res c04lin
				for _, at := range apps {
					p.noteBlock(at.Block())
					for s := 0; s < c04maxCls; s++ {
						if p.may(at, s, 0) {
							res.co[s] = 1
						}
					}
				}
				return res, true
			}
			return zero, false
		}
		return results(x, 0)
	case *ssa.Field:
		return fieldOfCells(x.X, false, x.Field)
	case *ssa.UnOp:
		if x.Op != token.MUL {
			return zero, false
		}
		switch a := x.X.(type) {
		case *ssa.FieldAddr:
			return fieldOfCells(a.X, true, a.Field)
		case *ssa.Alloc, *ssa.FreeVar:
			cell, _ := a.(*ssa.Alloc)
			if fv, ok := a.(*ssa.FreeVar); ok {
				cell = c04boundCell(fv)
			}
			if cell == nil {
				return zero, false
			}
			var defs []ssa.Value
			at := map[ssa.Value]ssa.Instruction{}
			for _, st := range c04cellStores(cell) {
				defs = append(defs, st.Val)
				at[st.Val] = st
			}
			isSelf := func(w ssa.Value) bool {
				u, ok := w.(*ssa.UnOp)
				if !ok || u.Op != token.MUL {
					return false
				}
				if u.X == cell {
					return true
				}
				fv, ok := u.X.(*ssa.FreeVar)
				return ok && c04boundCell(fv) == cell
			}
			return merged(defs, func(d ssa.Value) (ssa.Instruction, int, bool) {
				if sign, ok := step(d, isSelf); ok {
					return at[d], sign, true
				}
				return nil, 0, false
			})
		}
	}
	return zero, false
}

// runC04R8: the divisor of the remainder counts the targets that receive the remainder.
func runC04R8(c *Ctx) {
	b := c04cachedBuilder(c)
	if b == nil {
		c.undecided("C04.R8", "anchor|ring builder", "the ring builder does not resolve")
		return
	}
	p := &c04part{c: c, b: b, reach: map[*ssa.Function]*[c04maxCls]map[*ssa.BasicBlock]bool{}, busy: map[*ssa.Function]bool{}, opaque: map[ssa.Value]token.Pos{}}
	// which values of FixedWeight can occur: negative ones unless every store to the field is proved non-negative
	var negAt *ssa.Store
	for _, f := range c.AllFns {
		eachInstr(f, func(i ssa.Instruction) {
			if st, ok := c04fwStore(i); ok && negAt == nil && !c04nonNegF(st.Val, st.Block(), nil, map[ssa.Value]bool{}, 0) {
				negAt = st
			}
		})
	}
	negNote := ""
	if negAt != nil {
		negNote = " (a negative FixedWeight can occur: the store at " + c.pos(negAt.Pos()) + " is not proved non-negative - 'route weight ... weight -1' means no fixed weight)"
	}
	p.classify(negAt != nil)

	isFloatSub := func(v ssa.Value) bool {
		bo, ok := v.(*ssa.BinOp)
		return ok && bo.Op == token.SUB && c04isFloat(bo.Type())
	}
	type divisor struct {
		quo  *ssa.BinOp
		recv [c04maxCls]bool
	}
	var divs []*divisor
	byQuo := map[*ssa.BinOp]*divisor{}
	var covered [c04maxCls]bool
	nShares := 0
	// a share: a value stored to Target.Weight of the target `base`, for targets of the classes cls. A store of a
	// helper's parameter stands for one share per call site of the helper (the argument, stored when the call executes),
	// a store of a merged value for one share per definition (stored when the edge that selects it is taken).
	type share struct {
		val  ssa.Value
		base ssa.Value
		cls  [c04maxCls]bool
	}
	var expand func(sh share, depth int) []share
	expand = func(sh share, depth int) []share {
		if depth > 3 {
			return []share{sh}
		}
		switch x := c04stripConv(sh.val).(type) {
		case *ssa.Phi:
			var out []share
			for k, e := range x.Edges {
				pred := x.Block().Preds[k]
				p.noteBlock(pred)
				if iff, ok := pred.Instrs[len(pred.Instrs)-1].(*ssa.If); ok {
					p.noteCond(iff.Cond, pred)
				}
				cls := sh.cls
				for s := 0; s < c04maxCls; s++ {
					cls[s] = cls[s] && p.mayEdge(x.Block().Preds[k], x.Block(), s)
				}
				out = append(out, expand(share{e, sh.base, cls}, depth+1)...)
			}
			return out
		case *ssa.Call:
			// the share is chosen by a helper of the builder: one share per return
			sc := c04repoCallee(&x.Call)
			if sc == nil || !b.in[sc] || sc.Signature.Results().Len() != 1 {
				return []share{sh}
			}
			base := sh.base
			for k, a := range x.Call.Args {
				if a == sh.base && k < len(sc.Params) {
					base = sc.Params[k]
				}
			}
			var out []share
			eachInstr(sc, func(i ssa.Instruction) {
				if r, ok := i.(*ssa.Return); ok && len(r.Results) == 1 {
					cls, at := sh.cls, p.classes(r)
					for s := 0; s < c04maxCls; s++ {
						cls[s] = cls[s] && at[s]
					}
					out = append(out, expand(share{r.Results[0], base, cls}, depth+1)...)
				}
			})
			if len(out) == 0 {
				return []share{sh}
			}
			return out
		case *ssa.Parameter:
			sites, ok := c04staticSites(x.Parent())
			idx := c04paramIndex(x)
			if !ok || idx < 0 {
				return []share{sh}
			}
			for _, s := range sites {
				if !b.in[s.Parent()] || idx >= len(s.Common().Args) {
					return []share{sh}
				}
			}
			var out []share
			for _, site := range sites {
				args := site.Common().Args
				base := sh.base
				if bp, ok := sh.base.(*ssa.Parameter); ok && bp.Parent() == x.Parent() {
					if bi := c04paramIndex(bp); bi >= 0 && bi < len(args) {
						base = args[bi]
					}
				}
				cls, at := sh.cls, p.classes(site)
				for s := 0; s < c04maxCls; s++ {
					cls[s] = cls[s] && at[s]
				}
				out = append(out, expand(share{args[idx], base, cls}, depth+1)...)
			}
			return out
		}
		return []share{sh}
	}
	eachInstrOf(b.reg, func(f *ssa.Function, i ssa.Instruction) {
		st, ok := i.(*ssa.Store)
		if !ok || !c04isWeight(st.Addr) {
			return
		}
		fa, ok := st.Addr.(*ssa.FieldAddr)
		if !ok {
			return
		}
		for _, sh := range expand(share{st.Val, fa.X, p.classes(st)}, 0) {
			// the fixed share: derived from the FixedWeight of the same target
			fixed := derives(sh.val, func(w ssa.Value) bool {
				if !c04isFWLoad(w) {
					return false
				}
				la, ok := w.(*ssa.UnOp).X.(*ssa.FieldAddr)
				if !ok {
					return false
				}
				_, isParam := la.X.(*ssa.Parameter)
				return la.X == sh.base || isParam
			})
			// the remainder share: derived from a floating-point difference (1 - sum of the fixed weights); its divisors
			// are the integer counts it is divided by on the way
			var quos []*ssa.BinOp
			remainder := false
			if !fixed {
				derives(sh.val, func(w ssa.Value) bool {
					bo, ok := w.(*ssa.BinOp)
					if !ok || bo.Op != token.QUO || !c04isFloat(bo.Type()) {
						return false
					}
					if _, isK := bo.Y.(*ssa.Const); isK {
						return false
					}
					byCount := c04isInt(c04stripConv(bo.Y).Type())
					if kx, isK := c04constFloat(bo.X); isK {
						if kx == 1 && byCount {
							quos = append(quos, bo) // the reciprocal of a count, multiplied with the remainder
						}
					} else if byCount || derives(bo.X, isFloatSub) {
						quos = append(quos, bo)
					}
					return false
				})
				remainder = derives(sh.val, isFloatSub)
			}
			if !fixed && !remainder {
				continue // the equal share of a route without fixed weights
			}
			nShares++
			cls := sh.cls
			// the target comes from a partition of the targets collected by appends: the classes that were collected
			if ld, ok := sh.base.(*ssa.UnOp); ok && ld.Op == token.MUL {
				if ia, ok := ld.X.(*ssa.IndexAddr); ok && !c04isTargetsSlice(ia.X, 0) {
					if apps, ok := c04sliceAppends(ia.X, map[ssa.Value]bool{}, 0); ok && len(apps) > 0 {
						var in [c04maxCls]bool
						for _, at := range apps {
							ac := p.classes(at)
							for s := 0; s < c04maxCls; s++ {
								in[s] = in[s] || ac[s]
							}
						}
						for s := 0; s < c04maxCls; s++ {
							cls[s] = cls[s] && in[s]
						}
					}
				}
			}
			for s := 0; s < c04maxCls; s++ {
				covered[s] = covered[s] || cls[s]
			}
			if !remainder {
				continue
			}
			for _, q := range quos {
				d := byQuo[q]
				if d == nil {
					d = &divisor{quo: q}
					byQuo[q] = d
					divs = append(divs, d)
				}
				for s := 0; s < c04maxCls; s++ {
					d.recv[s] = d.recv[s] || cls[s]
				}
			}
		}
	})
	// a finding that rests on a classification the rule does not understand is not a violation: it is not decided
	report := func(key string, pos token.Pos, ok bool, detail string) {
		if !ok && len(p.opaque) > 0 {
			var at []string
			for _, pos := range p.opaque {
				at = append(at, c.pos(pos))
			}
			sort.Strings(at)
			c.undecided("C04.R8", key, "not decided: the ring builder classifies the targets by a condition on the target that is not a comparison of its FixedWeight with a constant ("+strings.Join(at, ", ")+"); read as if that condition were independent of FixedWeight: "+detail)
			return
		}
		c.check("C04.R8", key, pos, ok, detail)
	}
	for _, d := range divs {
		key := "ring builder|the remainder is divided by the number of targets that receive it"
		if len(divs) > 1 {
			key = fnKey(c04outer(d.quo.Parent())) + "|the remainder is divided by the number of targets that receive it"
		}
		l, ok := p.lin(d.quo.Y, map[ssa.Value]bool{}, 0)
		if !ok && !c04isInt(c04stripConv(d.quo.Y).Type()) {
			continue // a floating-point divisor that is not a count of targets (a normalisation by a sum)
		}
		if !ok {
			c.undecided("C04.R8", key, "the divisor "+shortPath(d.quo.Y)+" of the share left over by the fixed weights ("+c.pos(d.quo.Pos())+") is not a sum/difference of len(Route.Targets) and of per-target counters that the rule can follow: which targets it counts is not decided")
			continue
		}
		var counted, tooFew, tooMany [c04maxCls]bool
		okAll := l.k == 0
		for s := 0; s < c04maxCls; s++ {
			if !p.feas[s] {
				continue
			}
			counted[s] = l.co[s] != 0
			want := 0
			if d.recv[s] {
				want = 1
			}
			if l.co[s] != want {
				okAll = false
				if want == 1 {
					tooFew[s] = true
				} else {
					tooMany[s] = true
				}
			}
		}
		var why []string
		if tooFew != [c04maxCls]bool{} {
			why = append(why, p.list(tooFew)+" receive the remainder share but are not counted")
		}
		if tooMany != [c04maxCls]bool{} {
			why = append(why, p.list(tooMany)+" are counted but do not receive the remainder share")
		}
		if l.k != 0 {
			why = append(why, "a constant "+strconv.FormatInt(l.k, 10)+" is added to the count")
		}
		report(key, d.quo.Pos(), okAll,
			"the share left over by the fixed weights is divided by a number that counts "+p.list(counted)+", but it is assigned to "+p.list(d.recv)+": "+strings.Join(why, "; ")+negNote+". The remaining targets must share the remainder equally and the effective weights must sum to one: with a divisor that is too small every dynamic target gets too much (the ring then has more than 10000 slots and the fixed weights are not honoured), with a count of 0 the fixed weights are scaled up to 100% and a target that should share the remainder is starved")
	}
	if nShares > 0 {
		var missing [c04maxCls]bool
		okAll := true
		for s := 0; s < c04maxCls; s++ {
			if p.feas[s] && !covered[s] {
				missing[s], okAll = true, false
			}
		}
		report("ring builder|every target receives its fixed or the remainder share", b.entry.Pos(), okAll,
			p.list(missing)+" receive neither the scaled fixed weight nor the remainder share when the route has a fixed weight"+negNote+": they keep the effective weight of an earlier build (or 0), so the weights do not sum to one and a target is starved or keeps traffic it should have lost")
	}
	c.atLeast("C04.R8", "remainder shares divided by a count of targets in the ring builder", len(divs), 1)
	c.atLeast("C04.R8", "stores of a fixed or remainder share to Target.Weight in the ring builder", nShares, 2)
}
