package main

// C15.P1 / V1 / V2: robustness of loading and the "an accepted configuration can be run" clause.

import (
	"go/token"
	"go/types"
	"sort"
	"strings"

	"golang.org/x/tools/go/ssa"
)

// c15loadRegion: the functions of package config that config.Load (exported, stable) can enter.
func c15loadRegion(c *Ctx) (entry *ssa.Function, reg []*ssa.Function) {
	entry = c.fn("config", "Load")
	if entry == nil {
		return nil, nil
	}
	return entry, c.c15closure(6, entry)
}

func runC15P(c *Ctx) {
	load := c.fn("config", "Load")
	if load == nil {
		return
	}
	scope := map[*ssa.Function]bool{}
	for f := range c.reach(load) {
		if rootPkg(f) == c.spkg("config") {
			scope[f] = true
		}
	}
	n := runPartialOps(c, "C15.P1", scope)
	// splitting that cannot fail (strings.Cut and friends) is the other way to write a guarded split: it counts as a
	// resolved site of this rule, not as a lost anchor
	total := 0
	for f := range scope {
		eachInstr(f, func(i ssa.Instruction) {
			if cc := callCommon(i); cc != nil {
				switch calleeName(cc) {
				case "strings.Cut", "strings.CutPrefix", "strings.CutSuffix", "bytes.Cut":
					total++
				}
			}
		})
	}
	c.atLeast("C15.P1", "constant indices / Index-derived bounds (or total splits) reachable from config.Load", n+total, 3)
}

// c15cfgField: v is the value of a field of a struct type of package config ("Proxy.NoRouteStatus").
func c15cfgField(v ssa.Value) (string, bool) {
	var base ssa.Value
	idx := 0
	switch x := v.(type) {
	case *ssa.UnOp:
		fa, ok := x.X.(*ssa.FieldAddr)
		if x.Op != token.MUL || !ok {
			return "", false
		}
		base, idx = fa.X, fa.Field
	case *ssa.Field:
		base, idx = x.X, x.Field
	default:
		return "", false
	}
	k := typeKey(base.Type())
	if !strings.HasPrefix(k, repoMod+"/config.") {
		return "", false
	}
	return strings.TrimPrefix(k, repoMod+"/config.") + "." + fieldName(base.Type(), idx), true
}

// c15fromCfgField: the integer configuration field v derives from ("" if none).
func c15fromCfgField(v ssa.Value) string {
	field := ""
	c15derives(v, func(x ssa.Value) bool {
		if fn, ok := c15cfgField(x); ok && isIntType(x.Type()) {
			field = fn
			return true
		}
		return false
	})
	return field
}

// c15validation answers "does loading reject a configuration whose option F is out of range, for every
// configuration it returns?" independently of how loading is cut into functions.
type c15validation struct {
	c     *Ctx
	entry *ssa.Function
	reg   []*ssa.Function
	sites c15siteIndex
	memo  map[string]bool
}

func c15newValidation(c *Ctx) *c15validation {
	entry, reg := c15loadRegion(c)
	if entry == nil {
		return nil
	}
	return &c15validation{c: c, entry: entry, reg: reg, sites: c15buildSites(reg), memo: map[string]bool{}}
}

func c15errResult(f *ssa.Function) int {
	res := f.Signature.Results()
	if res.Len() == 0 || !c15isErrorType(res.At(res.Len()-1).Type()) {
		return -1
	}
	return res.Len() - 1
}

// c15rejects: block b ends in a return that reports an error.
func c15rejects(b *ssa.BasicBlock) bool {
	if len(b.Instrs) == 0 {
		return false
	}
	r, ok := b.Instrs[len(b.Instrs)-1].(*ssa.Return)
	k := c15errResult(b.Parent())
	return ok && k >= 0 && k < len(r.Results) && !isNilConst(r.Results[k])
}

// c15inevitablyRejects: once the edge from -> to is taken, every return that can be reached reports an error. A
// block that branches on a merge of constants (the value form of `a || b`, as in a tagless switch case) is followed
// only along the branch that the constant of the incoming edge selects.
func c15inevitablyRejects(from, to *ssa.BasicBlock) bool {
	type edge struct{ p, b *ssa.BasicBlock }
	seen := map[edge]bool{}
	nRet := 0
	var walk func(p, b *ssa.BasicBlock) bool
	walk = func(p, b *ssa.BasicBlock) bool {
		if seen[edge{p, b}] {
			return true
		}
		seen[edge{p, b}] = true
		if len(b.Instrs) == 0 {
			return true
		}
		switch t := b.Instrs[len(b.Instrs)-1].(type) {
		case *ssa.Return:
			nRet++
			return c15rejects(b)
		case *ssa.If:
			if ph, ok := t.Cond.(*ssa.Phi); ok && ph.Block() == b && len(b.Succs) == 2 {
				for k, pp := range b.Preds {
					if pp == p {
						if kb, isK := constBool(ph.Edges[k]); isK {
							if kb {
								return walk(b, b.Succs[0])
							}
							return walk(b, b.Succs[1])
						}
					}
				}
			}
		}
		for _, s := range b.Succs {
			if !walk(b, s) {
				return false
			}
		}
		return true
	}
	return walk(from, to) && nRet > 0
}

// c15successReturn: r may hand a configuration (or "no error") to the caller.
func c15successReturn(r *ssa.Return) bool {
	k := c15errResult(r.Parent())
	if k < 0 || k >= len(r.Results) {
		return true
	}
	e := r.Results[k]
	if !isNilConst(e) {
		switch x := e.(type) {
		case *ssa.MakeInterface:
			return false
		case *ssa.Call:
			if n := calleeName(&x.Call); n == "fmt.Errorf" || n == "errors.New" {
				return false
			}
		}
		if knownNonNil(r.Block(), sameVal(e)) {
			return false
		}
	}
	if k > 0 && isNilConst(r.Results[0]) && isNilConst(e) {
		if _, isPtr := r.Results[0].Type().Underlying().(*types.Pointer); isPtr {
			return false // (nil, nil): nothing is returned that could be run (-version)
		}
	}
	return true
}

// enforced: instruction `at` is executed before every successful return of its function, and — when that function
// is not the entry — every call of it is enforced in the same sense and its error is handed on.
func (v *c15validation) enforced(at ssa.Instruction, depth int) bool {
	fn := at.Parent()
	if fn == nil || depth > 5 {
		return false
	}
	ok := true
	eachInstr(fn, func(i ssa.Instruction) {
		if r, isR := i.(*ssa.Return); isR && c15successReturn(r) {
			if !(at.Block() == r.Block() || at.Block().Dominates(r.Block())) {
				ok = false
			}
		}
	})
	if !ok {
		return false
	}
	if fn == v.entry {
		return true
	}
	ss := v.sites[fn]
	if len(ss) == 0 {
		return false
	}
	k := c15errResult(fn)
	for _, s := range ss {
		call, isCall := s.(*ssa.Call)
		if !isCall || k < 0 {
			return false
		}
		// the error of the call reaches a return of the caller
		var ev ssa.Value = call
		if fn.Signature.Results().Len() > 1 {
			ev = nil
			for _, r := range *call.Referrers() {
				if ex, isEx := r.(*ssa.Extract); isEx && ex.Index == k {
					ev = ex
				}
			}
		}
		handed := false
		if ev != nil {
			eachInstr(s.Parent(), func(i ssa.Instruction) {
				r, isR := i.(*ssa.Return)
				ck := c15errResult(s.Parent())
				if !isR || ck < 0 || ck >= len(r.Results) {
					return
				}
				if r.Results[ck] == ev || (!c15successReturn(r) && knownNonNil(r.Block(), sameVal(ev))) {
					handed = true
				}
			})
		}
		if !handed || !v.enforced(s, depth+1) {
			return false
		}
	}
	return true
}

// rangeChecked: somewhere in the loading region the option is compared with a constant, the failing edge returns an
// error, and that test is enforced.
func (v *c15validation) rangeChecked(field string) bool {
	if v == nil {
		return false
	}
	if r, ok := v.memo[field]; ok {
		return r
	}
	found := false
	eachInstrOf(v.reg, func(_ *ssa.Function, i ssa.Instruction) {
		b, ok := i.(*ssa.BinOp)
		if !ok || found {
			return
		}
		switch b.Op {
		case token.LSS, token.LEQ, token.GTR, token.GEQ:
		default:
			return
		}
		// an operand is the option when it is the field, or a parameter that receives the field at a call of this
		// helper (checkRange(name, cfg.X, lo, hi)); the other operand is a constant or another parameter
		isOpt := func(x ssa.Value) bool {
			if f, ok := c15cfgField(x); ok {
				return f == field
			}
			p, ok := x.(*ssa.Parameter)
			if !ok {
				return false
			}
			for k, q := range p.Parent().Params {
				if q != p {
					continue
				}
				for _, s := range v.sites[p.Parent()] {
					if cc := callCommon(s); cc != nil && k < len(cc.Args) {
						if f, ok := c15cfgField(cc.Args[k]); ok && f == field {
							return true
						}
					}
				}
			}
			return false
		}
		isBound := func(x ssa.Value) bool {
			switch x.(type) {
			case *ssa.Const, *ssa.Parameter:
				return true
			}
			return false
		}
		if !(isOpt(b.X) && isBound(b.Y)) && !(isOpt(b.Y) && isBound(b.X)) {
			return
		}
		for _, r := range *b.Referrers() {
			iff, isIf := r.(*ssa.If)
			if !isIf || len(iff.Block().Succs) != 2 {
				continue
			}
			for _, s := range iff.Block().Succs {
				if c15inevitablyRejects(iff.Block(), s) && v.enforced(iff, 0) {
					found = true
				}
			}
		}
	})
	v.memo[field] = found
	return found
}

// c15factNonNeg: the fact implies e >= 0.
func c15factNonNeg(f Fact, e ssa.Value) bool {
	cmp, ok := f.Cond.(*ssa.BinOp)
	if !ok {
		return false
	}
	same := samePath(e)
	op, x, y := cmp.Op, cmp.X, cmp.Y
	if !same(x) && same(y) {
		// k OP e  ==  e OP' k
		x, y = y, x
		switch op {
		case token.LSS:
			op = token.GTR
		case token.LEQ:
			op = token.GEQ
		case token.GTR:
			op = token.LSS
		case token.GEQ:
			op = token.LEQ
		}
	}
	if !same(x) {
		return false
	}
	k, isK := constInt(y)
	if !isK {
		return false
	}
	switch op {
	case token.GEQ:
		return f.Truth && k >= 0
	case token.GTR:
		return f.Truth && k >= -1
	case token.LSS:
		return !f.Truth && k >= 0
	case token.LEQ:
		return !f.Truth && k >= -1
	}
	return false
}

// c15nonNegative: v cannot be negative where it is used: a constant, a merge all of whose inputs are constants or
// are taken on an edge on which they were compared, max(x, k) — the ways a clamp is written.
func c15nonNegative(v ssa.Value, depth int) bool {
	if v == nil || depth > 5 {
		return false
	}
	switch x := v.(type) {
	case *ssa.Const:
		k, ok := constInt(x)
		return ok && k >= 0
	case *ssa.Convert:
		return c15nonNegative(x.X, depth+1)
	case *ssa.ChangeType:
		return c15nonNegative(x.X, depth+1)
	case *ssa.Call:
		switch calleeName(&x.Call) {
		case "builtin.len", "builtin.cap":
			return true
		case "builtin.max":
			for _, a := range x.Call.Args {
				if c15nonNegative(a, depth+1) {
					return true
				}
			}
			return false
		case "builtin.min":
			for _, a := range x.Call.Args {
				if !c15nonNegative(a, depth+1) {
					return false
				}
			}
			return len(x.Call.Args) > 0
		}
	case *ssa.Phi:
		for k, e := range x.Edges {
			if c15nonNegative(e, depth+1) {
				continue
			}
			p := x.Block().Preds[k]
			facts := localFactsAt(p)
			if n := len(p.Instrs); n > 0 {
				if iff, ok := p.Instrs[n-1].(*ssa.If); ok && len(p.Succs) == 2 && p.Succs[0] != p.Succs[1] {
					cond, truth := iff.Cond, p.Succs[0] == x.Block()
					for {
						u, isNot := cond.(*ssa.UnOp)
						if !isNot || u.Op != token.NOT {
							break
						}
						cond, truth = u.X, !truth
					}
					facts = append(facts, Fact{cond, truth})
				}
			}
			okEdge := false
			for _, f := range facts {
				if c15factNonNeg(f, e) {
					okEdge = true
				}
			}
			if !okEdge {
				return false
			}
		}
		return len(x.Edges) > 0
	}
	return false
}

// c15guardedAt: a branch fact at block b implies v >= 0.
func c15guardedAt(b *ssa.BasicBlock, v ssa.Value) bool {
	for _, f := range factsAt(b) {
		if c15factNonNeg(f, v) {
			return true
		}
	}
	return false
}

// runC15V1: int options that reach a size / capacity / status sink.
func runC15V1(c *Ctx) {
	if c.spkg("config") == nil {
		return
	}
	val := c15newValidation(c)
	if val == nil {
		c.undecided("C15.V1", "anchor|config.Load", "not found")
		return
	}
	roles := map[string]bool{}
	// 1. repository functions with an int parameter that flows into a make size/capacity, called with an option
	type sizeParam struct {
		f   *ssa.Function
		idx int
	}
	var sized []sizeParam
	for _, f := range c.AllFns {
		for k, p := range f.Params {
			if !isIntType(p.Type()) {
				continue
			}
			hit := false
			isP := func(v ssa.Value) bool { return v == ssa.Value(p) }
			eachInstr(f, func(i ssa.Instruction) {
				switch x := i.(type) {
				case *ssa.MakeSlice:
					if derives(x.Len, isP) || derives(x.Cap, isP) {
						hit = true
					}
				case *ssa.MakeChan:
					if derives(x.Size, isP) {
						hit = true
					}
				}
			})
			if hit {
				sized = append(sized, sizeParam{f, k})
			}
		}
	}
	for _, sp := range sized {
		for _, s := range gSites[sp.f] {
			cc := s.Common()
			if sp.idx >= len(cc.Args) {
				continue
			}
			field, ok := c15cfgField(cc.Args[sp.idx])
			if !ok {
				continue
			}
			roles[field] = true
			c.check("C15.V1", "config."+field+"|allocation size in "+fnKey(sp.f), s.Pos(), val.rangeChecked(field),
				"the int option "+field+" is used as an allocation size in "+fnKey(sp.f)+" but loading accepts any value, or validates it only under a condition on another option: a negative value passes validation and panics when the listeners are created (makeslice: len out of range)")
		}
	}
	// 2. options used as make size / chan capacity: range check in loading, or a clamp at the use
	for _, f := range c.AllFns {
		ff := f
		eachInstr(f, func(i ssa.Instruction) {
			var size ssa.Value
			switch x := i.(type) {
			case *ssa.MakeChan:
				size = x.Size
			case *ssa.MakeSlice:
				size = x.Len
				if _, isK := x.Len.(*ssa.Const); isK {
					size = x.Cap // make([]T, 0, n)
				}
			default:
				return
			}
			if call, isCall := size.(*ssa.Call); isCall {
				if n := calleeName(&call.Call); n == "builtin.len" || n == "builtin.cap" {
					return // sized after a collection, not by an option
				}
			}
			field := c15fromCfgField(size)
			if field == "" {
				return
			}
			roles[field] = true
			ok := val.rangeChecked(field) || c15nonNegative(size, 0) || c15guardedAt(i.Block(), size)
			c.check("C15.V1", "config."+field+"|size in "+fnKey(ff), i.Pos(), ok, "the int option "+field+" sizes an allocation/channel in "+fnKey(ff)+" without an unconditional range check in loading or a clamp at the use")
		})
	}
	// 3. status code written by the HTTP proxy
	if serve := c.method("proxy", "HTTPProxy", "ServeHTTP"); serve != nil {
		eachInstrOf(c.region(serve), func(_ *ssa.Function, i ssa.Instruction) {
			cc := callCommon(i)
			if cc == nil || !cc.IsInvoke() || cc.Method.Name() != "WriteHeader" || len(cc.Args) != 1 {
				return
			}
			field := c15fromCfgField(cc.Args[0])
			if field == "" {
				return
			}
			roles[field] = true
			c.check("C15.V1", "config."+field+"|status code in ServeHTTP", i.Pos(), val.rangeChecked(field), "a configured status code must be range-checked in loading (net/http panics on codes outside 100-999)")
		})
	}
	var names []string
	for r := range roles {
		names = append(names, r)
	}
	sort.Strings(names)
	c.atLeast("C15.V1", "int options reaching a size/capacity/status sink ("+strings.Join(names, ",")+")", len(roles), 2)
}

// runC15V2 (ERRUSE): the primary result of (v, err) := f() is used on a path on which err != nil was observed and
// control was not left. Scope: start-up code of the configuration-driven sources.
func runC15V2(c *Ctx) {
	n := 0
	for _, f := range c.AllFns {
		pkgOK := false
		for _, p := range []string{"cert", "registry/custom", "registry/consul", "registry/file", "registry/static", "main", "config", "metrics", "auth"} {
			if rootPkg(f) == c.spkg(p) {
				pkgOK = true
			}
		}
		if !pkgOK {
			continue
		}
		eachInstr(f, func(i ssa.Instruction) {
			call, ok := i.(*ssa.Call)
			if !ok {
				return
			}
			res := call.Call.Signature().Results()
			if res.Len() < 2 || typeStr(res.At(res.Len()-1).Type()) != "error" {
				return
			}
			if _, isPtr := res.At(0).Type().Underlying().(*types.Pointer); !isPtr {
				return
			}
			var v, e ssa.Value
			for _, r := range *call.Referrers() {
				if ex, ok := r.(*ssa.Extract); ok {
					if ex.Index == 0 {
						v = ex
					}
					if ex.Index == res.Len()-1 {
						e = ex
					}
				}
			}
			if v == nil || e == nil || v.Referrers() == nil {
				return
			}
			// blocks entered on the err != nil edge
			for _, b := range f.Blocks {
				if len(b.Preds) != 1 || !knownNonNil(b, sameVal(e)) || knownNonNil(b.Preds[0], sameVal(e)) {
					continue
				}
				n++
				// does a dereferencing use of v stay reachable from b?
				var bad ssa.Instruction
				for _, r := range *v.Referrers() {
					ri, ok := r.(ssa.Instruction)
					if !ok {
						continue
					}
					deref := false
					switch x := r.(type) {
					case *ssa.FieldAddr:
						deref = x.X == v
					case *ssa.UnOp:
						deref = x.Op == token.MUL && x.X == v
					case *ssa.Call:
						deref = len(x.Call.Args) > 0 && x.Call.Args[0] == v && x.Call.StaticCallee() != nil && x.Call.StaticCallee().Signature.Recv() != nil
						if x.Call.StaticCallee() != nil && !deref {
							for _, a := range x.Call.Args {
								if a == v && !isRepoFn(x.Call.StaticCallee()) {
									deref = true // handed to library code that dereferences it (api.NewClient(config), watchers)
								}
							}
						}
					case *ssa.Go:
						for _, a := range x.Call.Args {
							if a == v {
								deref = true
							}
						}
					}
					if !deref {
						continue
					}
					if ri.Block() == b || reachableFrom([]*ssa.BasicBlock{b}, nil)[ri.Block()] {
						// not if the use is itself guarded by err == nil / v != nil
						if knownNil(ri.Block(), sameVal(e)) || knownNonNil(ri.Block(), sameVal(v)) {
							continue
						}
						bad = ri
					}
				}
				pos := b.Instrs[0].Pos()
				detail := "the error edge leaves the function (or the value is not used afterwards)"
				if bad != nil {
					pos = bad.Pos()
					detail = "after " + strings.TrimPrefix(calleeName(&call.Call), repoMod+"/") + " failed its nil result is still used here: configuration that makes the constructor fail (an invalid URL, host or scheme) is accepted by load and then panics at start-up instead of being reported"
				}
				c.check("C15.V2", fnKey(f)+"|result of "+strings.TrimPrefix(calleeName(&call.Call), repoMod+"/")+" not used after its error", pos, bad == nil, detail)
			}
		})
	}
	c.atLeast("C15.V2", "error edges of pointer-returning constructors in start-up code", n, 5)
}
