package main

// Program points for the length reasoning of C14.B1 (hardening round 3).
//
// The conditions that DOMINATE a block (factsAt) do not see what a merge knows: the body of `case a, b, c:` or of
// `if a || b` is entered over several edges, each of which carries its own condition, and none of them dominates the
// body. c14where keeps the block next to the facts; c14lenAt adds, for every merge on the dominator chain of the block,
// the WEAKEST of what the incoming edges establish (a small meet-over-edges, bounded, cycles cut).

import (
	"go/token"
	"go/types"

	"golang.org/x/tools/go/ssa"
)

type c14where struct {
	facts []Fact
	at    *ssa.BasicBlock // the block whose entry (or, for an edge, whose exit) is meant; nil: only the facts are known
}

func c14atBlock(b *ssa.BasicBlock) c14where { return c14where{factsAt(b), b} }

// c14onEdge: the edge pred -> succ: what holds in pred plus the branch taken.
func c14onEdge(pred, succ *ssa.BasicBlock) c14where { return c14where{edgeFacts(pred, succ), pred} }

// c14lenAt: a lower bound of len(x) at w, not below start.
func c14lenAt(w c14where, x ssa.Value, start int64) int64 {
	if w.at != nil {
		if m := c14mergeLB(w.at, x, start); m > start {
			start = m
		}
	}
	return c14lenFromFacts(w.facts, x, start)
}

// c14edgeLocalFacts: the conditions of the function itself that hold on the edge pred -> succ.
func c14edgeLocalFacts(pred, succ *ssa.BasicBlock) []Fact {
	out := localFactsAt(pred)
	if len(pred.Instrs) == 0 || len(pred.Succs) != 2 || pred.Succs[0] == pred.Succs[1] {
		return out
	}
	if iff, ok := pred.Instrs[len(pred.Instrs)-1].(*ssa.If); ok {
		out = appendCondFacts(out, iff.Cond, pred.Succs[0] == succ, 0)
	}
	return out
}

// c14mergeLB: the lower bound of len(x) that holds at the entry of b on EVERY path: at each merge block on b's
// dominator chain (not above the block that defines x: a condition up there speaks about the x of an earlier iteration)
// the minimum over the incoming edges of what the edge's conditions and the edge's source establish.
func c14mergeLB(b *ssa.BasicBlock, x ssa.Value, start int64) int64 {
	var def *ssa.BasicBlock
	if in, ok := x.(ssa.Instruction); ok && !c14pathStable(x) {
		def = in.Block()
	}
	memo := map[*ssa.BasicBlock]int64{}
	busy := map[*ssa.BasicBlock]bool{}
	var at func(b *ssa.BasicBlock, d int) int64
	at = func(b *ssa.BasicBlock, d int) int64 {
		if v, ok := memo[b]; ok {
			return v
		}
		lb := c14lenFromFacts(localFactsAt(b), x, start)
		if d > 6 {
			return lb
		}
		for cur := b; cur != nil && cur != def; cur = cur.Idom() {
			if len(cur.Preds) < 2 || busy[cur] {
				continue
			}
			busy[cur] = true
			first := true
			var m int64
			for _, p := range cur.Preds {
				e := c14lenFromFacts(c14edgeLocalFacts(p, cur), x, at(p, d+1))
				if first || e < m {
					m = e
				}
				first = false
			}
			busy[cur] = false
			if m > lb {
				lb = m
			}
		}
		memo[b] = lb
		return lb
	}
	return at(b, 0)
}

// c14memberFact: the fact establishes that the text s is one of a closed set of constants: slices.Contains(list, s)
// or set[s] for a list / set literal of constant strings that nothing modifies (a package-level table only its
// initialiser writes, or a literal written in place). min: the length of the shortest member.
func c14memberFact(f Fact) (s ssa.Value, min int64, ok bool) {
	if !f.Truth {
		return nil, 0, false
	}
	var table ssa.Value
	switch c := f.Cond.(type) {
	case *ssa.Call:
		if n := stripTypeArgs(calleeName(&c.Call)); n != "slices.Contains" || len(c.Call.Args) != 2 {
			return nil, 0, false
		}
		table, s = c.Call.Args[0], c.Call.Args[1]
	case *ssa.Lookup:
		if _, isMap := c.X.Type().Underlying().(*types.Map); !isMap || c.CommaOk {
			return nil, 0, false
		}
		table, s = c.X, c.Index
	case *ssa.Extract:
		lk, isLk := c.Tuple.(*ssa.Lookup)
		if !isLk || c.Index != 1 {
			return nil, 0, false
		}
		if _, isMap := lk.X.Type().Underlying().(*types.Map); !isMap {
			return nil, 0, false
		}
		table, s = lk.X, lk.Index
	default:
		return nil, 0, false
	}
	if !c14closedTable(table) {
		return nil, 0, false
	}
	elems := c14constElems(table, 0)
	if len(elems) == 0 {
		return nil, 0, false
	}
	min = int64(len(elems[0]))
	for _, e := range elems[1:] {
		if int64(len(e)) < min {
			min = int64(len(e))
		}
	}
	return s, min, true
}

// c14closedTable: the list / set holds nothing but the constants of its literal: every element written is a constant,
// and - for a package-level variable - only the initialiser assigns it and every other use reads it.
func c14closedTable(v ssa.Value) bool {
	readOnly := func(ld ssa.Value) bool {
		if ld.Referrers() == nil {
			return true
		}
		for _, r := range *ld.Referrers() {
			switch y := r.(type) {
			case *ssa.Lookup, *ssa.Range, *ssa.DebugRef, *ssa.Index:
			case *ssa.Call:
				switch stripTypeArgs(calleeName(&y.Call)) {
				case "slices.Contains", "slices.Index", "builtin.len":
				default:
					return false
				}
			default:
				return false
			}
		}
		return true
	}
	allConst := func(lit ssa.Value) bool {
		switch x := lit.(type) {
		case *ssa.Slice:
			arr, ok := x.X.(*ssa.Alloc)
			if !ok || arr.Referrers() == nil || x.Low != nil || x.High != nil {
				return false
			}
			for _, r := range *arr.Referrers() {
				switch y := r.(type) {
				case *ssa.IndexAddr:
					if y.Referrers() == nil {
						continue
					}
					for _, u := range *y.Referrers() {
						st, isStore := u.(*ssa.Store)
						if !isStore || st.Addr != y {
							return false
						}
						if _, isK := constString(st.Val); !isK {
							return false
						}
					}
				case *ssa.Slice, *ssa.DebugRef:
				default:
					return false
				}
			}
			return true
		case *ssa.MakeMap:
			if x.Referrers() == nil {
				return false
			}
			for _, r := range *x.Referrers() {
				switch y := r.(type) {
				case *ssa.MapUpdate:
					if _, isK := constString(y.Key); !isK || y.Map != x {
						return false
					}
				case *ssa.Store, *ssa.DebugRef, *ssa.Lookup, *ssa.Range:
				case *ssa.Call:
					if n := stripTypeArgs(calleeName(&y.Call)); n != "builtin.len" {
						return false
					}
				default:
					return false
				}
			}
			return true
		}
		return false
	}
	switch x := v.(type) {
	case *ssa.Slice, *ssa.MakeMap:
		return allConst(x) && readOnly(x)
	case *ssa.UnOp:
		g, ok := x.X.(*ssa.Global)
		if !ok || x.Op != token.MUL || g.Pkg == nil {
			return false
		}
		init := g.Pkg.Func("init")
		nInit, good := 0, true
		for _, f := range c14scanFns(c14ctx) {
			if rootPkg(f) != g.Pkg {
				continue
			}
			eachInstr(f, func(i ssa.Instruction) {
				switch y := i.(type) {
				case *ssa.Store:
					if y.Addr == g {
						if f != init || !allConst(y.Val) {
							good = false
						}
						nInit++
					}
					if y.Val == ssa.Value(g) {
						good = false // the address of the table is kept somewhere
					}
				case *ssa.UnOp:
					if y.X == ssa.Value(g) && y.Op == token.MUL && !readOnly(y) {
						good = false
					}
				default:
					for _, op := range i.Operands(nil) {
						if op != nil && *op == ssa.Value(g) {
							good = false // &table handed on
						}
					}
				}
			})
		}
		return good && nInit == 1
	}
	return false
}

// c14containsFact: the fact establishes that the text s contains the text sub: strings.HasPrefix / HasSuffix /
// Contains (true), strings.Index / LastIndex compared with 0 or -1 the right way, strings.Count with 1 or more, the found-flag of strings.CutPrefix /
// CutSuffix / Cut.
func c14containsFact(f Fact) (s, sub ssa.Value, ok bool) {
	switch c := f.Cond.(type) {
	case *ssa.Call:
		if !f.Truth || len(c.Call.Args) != 2 {
			return nil, nil, false
		}
		switch calleeName(&c.Call) {
		case "strings.HasPrefix", "strings.HasSuffix", "strings.Contains", "bytes.HasPrefix", "bytes.HasSuffix", "bytes.Contains":
			return c.Call.Args[0], c.Call.Args[1], true
		}
	case *ssa.Extract:
		call, isCall := c.Tuple.(*ssa.Call)
		if !isCall || !f.Truth || len(call.Call.Args) != 2 {
			return nil, nil, false
		}
		switch calleeName(&call.Call) {
		case "strings.CutPrefix", "strings.CutSuffix", "bytes.CutPrefix", "bytes.CutSuffix":
			if c.Index == 1 {
				return call.Call.Args[0], call.Call.Args[1], true
			}
		case "strings.Cut", "bytes.Cut":
			if c.Index == 2 {
				return call.Call.Args[0], call.Call.Args[1], true
			}
		}
	case *ssa.BinOp:
		x0, op, y0, isCmp := c14cmp(f)
		if !isCmp {
			return nil, nil, false
		}
		call, isCall := x0.(*ssa.Call)
		k, isK := constInt(y0)
		if !isCall || !isK {
			call, isCall = y0.(*ssa.Call)
			k, isK = constInt(x0)
			op = c14flip(op)
		}
		if !isCall || !isK || len(call.Call.Args) != 2 {
			return nil, nil, false
		}
		switch calleeName(&call.Call) {
		case "strings.Count", "bytes.Count":
			// at least one occurrence
			if w, isW := constString(call.Call.Args[1]); isW && w == "" {
				return nil, nil, false
			}
			if (op == token.GEQ && k >= 1) || (op == token.GTR && k >= 0) || (op == token.NEQ && k == 0) || (op == token.EQL && k >= 1) {
				return call.Call.Args[0], call.Call.Args[1], true
			}
		case "strings.Index", "strings.LastIndex", "bytes.Index", "bytes.LastIndex":
			if (op == token.GEQ && k >= 0) || (op == token.GTR && k >= -1) || (op == token.NEQ && k == -1) || (op == token.EQL && k >= 0) {
				return call.Call.Args[0], call.Call.Args[1], true
			}
		}
	}
	return nil, nil, false
}

// c14splitFindsSep: call is strings.Split / SplitN / SplitAfter(N)(s, sep[, n]) (n absent, negative or >= 2) and at w
// the text s is known to contain sep (a constant text that contains the constant separator, or the very same value):
// the result has at least two parts.
func c14splitFindsSep(call *ssa.Call, w c14where) bool {
	switch calleeName(&call.Call) {
	case "strings.Split", "strings.SplitAfter", "bytes.Split":
	case "strings.SplitN", "strings.SplitAfterN", "bytes.SplitN":
		if n, isK := constInt(call.Call.Args[2]); !isK || (n >= 0 && n < 2) {
			return false
		}
	default:
		return false
	}
	s, sep := call.Call.Args[0], call.Call.Args[1]
	sepK, sepIsK := constString(sep)
	if sepIsK && sepK == "" {
		return false
	}
	holds := func(facts []Fact) bool {
		for _, f := range facts {
			s2, sub, ok := c14containsFact(f)
			if !ok || !c14sameText(s2, s) {
				continue
			}
			if subK, isK := constString(sub); isK && sepIsK {
				if len(subK) >= len(sepK) && c14hasSub(subK, sepK) {
					return true
				}
				continue
			}
			if c14sameValue(sub, sep) {
				return true
			}
		}
		return false
	}
	if holds(w.facts) {
		return true
	}
	// at a merge: on every incoming edge of the nearest merge on the way up
	if w.at == nil {
		return false
	}
	for cur := w.at; cur != nil && cur != call.Block(); cur = cur.Idom() {
		if len(cur.Preds) < 2 {
			continue
		}
		for _, p := range cur.Preds {
			if !holds(c14edgeLocalFacts(p, cur)) {
				return false
			}
		}
		return true
	}
	return false
}

// c14sameText: the same value, or the same piece (constant bounds) of the same text written twice.
func c14sameText(a, b ssa.Value) bool {
	if c14sameValue(a, b) {
		return true
	}
	sa, ok1 := a.(*ssa.Slice)
	sb, ok2 := b.(*ssa.Slice)
	if !ok1 || !ok2 || !c14sameValue(sa.X, sb.X) || sa.Max != nil || sb.Max != nil {
		return false
	}
	bound := func(p, q ssa.Value) bool {
		if p == nil || q == nil {
			return p == nil && q == nil
		}
		kp, okp := constInt(p)
		kq, okq := constInt(q)
		return (okp && okq && kp == kq) || (!okp && !okq && c14sameValue(p, q))
	}
	return bound(sa.Low, sb.Low) && bound(sa.High, sb.High)
}

func c14hasSub(s, sub string) bool {
	for i := 0; i+len(sub) <= len(s); i++ {
		if s[i:i+len(sub)] == sub {
			return true
		}
	}
	return false
}
