package main

import (
	"os"
	"strings"
)

// Overlay mutants of C09, hardening round 3: the hand-written io.ReadFull (B3 / B4), array-backed buffers (B3), the
// buffer-full test of a collecting read loop kept in a boolean or in a predicate helper (P1), an in-place helper that
// is handed the relayed buffer at one call and another buffer at another call (M1).

const (
	c09m3sni      = "proxy/tcp/sni_proxy.go"
	c09m3ws       = "proxy/ws_handler.go"
	c09m3cpb      = "proxy/tcp/copy_buffer.go"
	c09m3rdFull   = "\t_, err = io.ReadFull(tlsReader, data)\n"
	c09m3replay   = "\t// write the data already read from the connection\n"
	c09m3cpBlock  = "\terrc := make(chan error, 2)\n\tcp := func(dst io.Writer, src io.Reader, c gkm.Counter) {\n\t\terrc <- copyBuffer(dst, src, c)\n\t}\n\n"
	c09m3rd1      = "\t\tn, err := out.Read(b)\n\t\tif err != nil {\n\t\t\tlog.Printf(\"[ERROR] Error reading handshake for %s: %s\", r.URL, err)\n\t\t\thttp.Error(w, \"error reading handshake\", http.StatusInternalServerError)\n\t\t\treturn\n\t\t}\n"
	c09m3fail     = "\t\t\tif err != nil {\n\t\t\t\tlog.Printf(\"[ERROR] Error reading handshake for %s: %s\", r.URL, err)\n\t\t\t\thttp.Error(w, \"error reading handshake\", http.StatusInternalServerError)\n\t\t\t\treturn\n\t\t\t}\n"
	c09m3crlf     = "[]byte(\"\\r\\n\\r\\n\")"
	c09m3wsDecl   = "// newWSHandler returns"
	c09m3chunkFns = "func readChunk(src io.Reader, buf []byte) (int, error) { return src.Read(buf) }\n\nfunc writeChunk(dst io.Writer, p []byte) (int, error) { return dst.Write(p) }\n\n"
	c09m3fillFn   = "func fillBytes(dst []byte, v byte) {\n\tfor i := range dst {\n\t\tdst[i] = v\n\t}\n}\n\n"
)

// c09m3loop: the handshake read of the websocket handler as a collecting loop.
func c09m3loop(head, pre, post string) string {
	return "\t\tn := 0\n\t\tfor " + head + " {\n" + pre + "\t\t\tm, err := out.Read(b[n:])\n" + c09m3fail + "\t\t\tn += m\n" + post + "\t\t}\n"
}

var c09mutants3 = []mutant{
	// ---- the hand-written io.ReadFull ------------------------------------------------------------------------------
	{Name: "benign: ClientHello collected by a hand-written ReadFull loop that returns on a read error, replayed whole", File: c09m3sni,
		Old:    c09m3rdFull,
		New:    "\tfor got := 0; got < len(data); {\n\t\tm, rerr := tlsReader.Read(data[got:])\n\t\tif rerr != nil {\n\t\t\tif p.ConnFail != nil {\n\t\t\t\tp.ConnFail.Add(1)\n\t\t\t}\n\t\t\treturn rerr\n\t\t}\n\t\tgot += m\n\t}\n",
		Expect: ""},
	{Name: "benign: hand-written ReadFull loop left with `err = rerr; break`, the error tested behind the loop", File: c09m3sni,
		Old:    c09m3rdFull,
		New:    "\tfor got := 0; got < len(data); {\n\t\tm, rerr := tlsReader.Read(data[got:])\n\t\tif rerr != nil {\n\t\t\terr = rerr\n\t\t\tbreak\n\t\t}\n\t\tgot += m\n\t}\n",
		Expect: ""},
	{Name: "benign: hand-written ReadFull loop `for got < len(data) && err == nil`", File: c09m3sni,
		Old:    c09m3rdFull,
		New:    "\tfor got := 0; got < len(data) && err == nil; {\n\t\tvar m int\n\t\tm, err = tlsReader.Read(data[got:])\n\t\tgot += m\n\t}\n",
		Expect: ""},
	{Name: "benign: hand-written ReadFull loop bounded by the size the buffer was made with", File: c09m3sni,
		Old:    c09m3rdFull,
		New:    "\tgot := 0\n\tfor got < bufferSize {\n\t\tm, rerr := tlsReader.Read(data[got:])\n\t\tif rerr != nil {\n\t\t\treturn rerr\n\t\t}\n\t\tgot += m\n\t}\n\tif got != len(data) {\n\t\treturn io.ErrUnexpectedEOF\n\t}\n",
		Expect: ""},
	{Name: "hand-written ReadFull loop that ends quietly on io.EOF: the whole buffer is replayed although only a part was filled", File: c09m3sni,
		Old:    c09m3rdFull,
		New:    "\tfor got := 0; got < len(data); {\n\t\tm, rerr := tlsReader.Read(data[got:])\n\t\tif rerr == io.EOF {\n\t\t\tbreak\n\t\t}\n\t\tif rerr != nil {\n\t\t\treturn rerr\n\t\t}\n\t\tgot += m\n\t}\n",
		Expect: "C09.B3"},
	{Name: "hand-written ReadFull loop that stops one byte short of the buffer", File: c09m3sni,
		Old:    c09m3rdFull,
		New:    "\tfor got := 0; got < len(data)-1; {\n\t\tm, rerr := tlsReader.Read(data[got:])\n\t\tif rerr != nil {\n\t\t\treturn rerr\n\t\t}\n\t\tgot += m\n\t}\n",
		Expect: "C09.B3"},
	{Name: "hand-written ReadFull loop that gives up after three reads, the buffer replayed whatever was read", File: c09m3sni,
		Old:    c09m3rdFull,
		New:    "\tfor got, tries := 0, 0; got < len(data) && tries < 3; tries++ {\n\t\tm, rerr := tlsReader.Read(data[got:])\n\t\tif rerr != nil {\n\t\t\treturn rerr\n\t\t}\n\t\tgot += m\n\t}\n",
		Expect: "C09.B3"},
	{Name: "hand-written ReadFull loop, the first copy goroutine started before the ClientHello is replayed", File: c09m3sni,
		Old: c09m3rdFull,
		New: "\tfor got := 0; got < len(data); {\n\t\tm, rerr := tlsReader.Read(data[got:])\n\t\tif rerr != nil {\n\t\t\treturn rerr\n\t\t}\n\t\tgot += m\n\t}\n",
		More: []repl{
			{c09m3cpBlock, ""},
			{c09m3replay, c09m3cpBlock + "\tgo cp(out, tlsReader, t.TxCounter)\n" + c09m3replay},
			{"\tgo cp(in, out, t.RxCounter)\n\tgo cp(out, tlsReader, t.TxCounter)\n", "\tgo cp(in, out, t.RxCounter)\n"}},
		Expect: "C09.B4"},

	// ---- array-backed buffers ----------------------------------------------------------------------------------------
	{Name: "benign: websocket handshake buffer is a local array, read through hs[:], relayed as hs[:n]", File: c09m3ws,
		Old: "\t\tb := make([]byte, 1024)\n", New: "\t\tvar hs [1024]byte\n",
		More:   []repl{{"n, err := out.Read(b)", "n, err := out.Read(hs[:])"}, {"\t\tb = b[:n]\n", "\t\tb := hs[:n]\n"}},
		Expect: ""},
	{Name: "benign: copy loop over an array-backed buffer", File: c09m3cpb,
		Old: "\tbuf := make([]byte, 32*1024)\n", New: "\tvar arr [32 * 1024]byte\n\tbuf := arr[:]\n", Expect: ""},
	{Name: "benign: copy loop reads into arr[:] and writes arr[:nr]", File: c09m3cpb,
		Old: "\tbuf := make([]byte, 32*1024)\n", New: "\tvar buf [32 * 1024]byte\n",
		More:   []repl{{"src.Read(buf)", "src.Read(buf[:])"}},
		Expect: ""},
	{Name: "array-backed handshake buffer relayed one byte short", File: c09m3ws,
		Old: "\t\tb := make([]byte, 1024)\n", New: "\t\tvar hs [1024]byte\n",
		More:   []repl{{"n, err := out.Read(b)", "n, err := out.Read(hs[:])"}, {"\t\tb = b[:n]\n", "\t\tb := hs[:n-1]\n"}},
		Expect: "C09.B3"},
	{Name: "array-backed copy buffer masked between Read and Write", File: c09m3cpb,
		Old: "\tbuf := make([]byte, 32*1024)\n", New: "\tvar buf [32 * 1024]byte\n",
		More:   []repl{{"src.Read(buf)", "src.Read(buf[:])"}, {"\t\tif nr > 0 {\n", "\t\tfor i := 0; i < nr; i++ {\n\t\t\tbuf[i] &= 0x7f\n\t\t}\n\t\tif nr > 0 {\n"}},
		Expect: "C09.M1"},

	// ---- P1: the buffer-full test kept in a boolean / in a predicate --------------------------------------------------
	{Name: "benign: handshake read loop, `done := n >= len(b) || found` decides the break", File: c09m3ws,
		Old:    c09m3rd1,
		New:    c09m3loop("", "", "\t\t\tdone := n >= len(b) || bytes.Contains(b[:n], "+c09m3crlf+")\n\t\t\tif done {\n\t\t\t\tbreak\n\t\t\t}\n"),
		Expect: ""},
	{Name: "benign: handshake read loop, `more := n < len(b) && !found` is the loop condition", File: c09m3ws,
		Old:    c09m3rd1,
		New:    "\t\tn := 0\n\t\tfor more := true; more; more = n < len(b) && !bytes.Contains(b[:n], " + c09m3crlf + ") {\n\t\t\tm, err := out.Read(b[n:])\n" + c09m3fail + "\t\t\tn += m\n\t\t}\n",
		Expect: ""},
	{Name: "benign: handshake read loop, the buffer-full test is a predicate helper full(b, n)", File: c09m3ws,
		Old:    c09m3rd1,
		New:    c09m3loop("!bufFull(b, n) && !bytes.Contains(b[:n], "+c09m3crlf+")", "", ""),
		More:   []repl{{c09m3wsDecl, "func bufFull(b []byte, n int) bool { return n >= len(b) }\n\n" + c09m3wsDecl}},
		Expect: ""},
	{Name: "benign: handshake read loop, one predicate complete(b, n) tests blank line and room", File: c09m3ws,
		Old:    c09m3rd1,
		New:    c09m3loop("!hsComplete(b, n)", "", ""),
		More:   []repl{{c09m3wsDecl, "func hsComplete(b []byte, n int) bool {\n\tif n == len(b) {\n\t\treturn true\n\t}\n\treturn bytes.Contains(b[:n], " + c09m3crlf + ")\n}\n\n" + c09m3wsDecl}},
		Expect: ""},
	{Name: "handshake read loop whose predicate helper only looks for the blank line", File: c09m3ws,
		Old:    c09m3rd1,
		New:    c09m3loop("!hsComplete(b, n)", "", ""),
		More:   []repl{{c09m3wsDecl, "func hsComplete(b []byte, n int) bool {\n\treturn bytes.Contains(b[:n], " + c09m3crlf + ")\n}\n\n" + c09m3wsDecl}},
		Expect: "C09.P1"},
	{Name: "handshake read loop, `done` is computed from the blank line only, the room test only logs", File: c09m3ws,
		Old:    c09m3rd1,
		New:    c09m3loop("", "", "\t\t\tdone := bytes.Contains(b[:n], "+c09m3crlf+")\n\t\t\tif n >= len(b) {\n\t\t\t\tlog.Printf(\"[WARN] long handshake for %s\", r.URL)\n\t\t\t}\n\t\t\tif done {\n\t\t\t\tbreak\n\t\t\t}\n"),
		Expect: "C09.P1"},

	// ---- M1: an in-place helper with several call sites -------------------------------------------------------------------
	{Name: "benign: in-place helper fills a scratch buffer between capture and replay, and scrubs the ClientHello after the replay", File: c09m3sni,
		Old: "\tif host == \"\" {\n", New: "\tpad := make([]byte, 4)\n\tfillBytes(pad, 0)\n\tif host == \"\" {\n",
		More:   []repl{{"\terrc := make(chan error, 2)\n", "\tfillBytes(data, 0)\n\terrc := make(chan error, 2)\n"}, {c09sniFunc, c09m3fillFn + c09sniFunc}},
		Expect: ""},
	{Name: "in-place helper applied to the captured ClientHello before the replay (and to a scratch buffer after it)", File: c09m3sni,
		Old: "\tif host == \"\" {\n", New: "\tfillBytes(data[1:3], 3)\n\tif host == \"\" {\n",
		More:   []repl{{"\terrc := make(chan error, 2)\n", "\tpad := make([]byte, 4)\n\tfillBytes(pad, 0)\n\terrc := make(chan error, 2)\n"}, {c09sniFunc, c09m3fillFn + c09sniFunc}},
		Expect: "C09.M1"},
	{Name: "benign: the copy loop scrubs its buffer through a helper after the write; the helper also prepares a scratch buffer before the loop", File: c09m3cpb,
		Old: "\t\tif er != nil {\n\t\t\tif er != io.EOF {", New: "\t\tfillBytes(buf, 0)\n\t\tif er != nil {\n\t\t\tif er != io.EOF {",
		More:   []repl{{"\tfor {\n", "\tfillBytes(make([]byte, 8), 1)\n\tfor {\n"}, {"// copyBuffer is", c09m3fillFn + "// copyBuffer is"}},
		Expect: ""},

	// ---- the Read and the Write of a relay behind forwarding helpers (c09_fwd.go) --------------------------------------
	{Name: "benign: the copy loop's Read and Write extracted into one-line helpers readChunk / writeChunk", File: c09m3cpb,
		Old: "nr, er := src.Read(buf)", New: "nr, er := readChunk(src, buf)",
		More:   []repl{{"nw, ew := dst.Write(buf[0:nr])", "nw, ew := writeChunk(dst, buf[0:nr])"}, {"// copyBuffer is", c09m3chunkFns + "// copyBuffer is"}},
		Expect: ""},
	{Name: "benign: the copy loop reads through a method of a small reader object that reads from its field", File: c09m3cpb,
		Old: "nr, er := src.Read(buf)", New: "nr, er := cr.next(buf)",
		More: []repl{{"\tfor {\n", "\tcr := &chunkReader{src: src}\n\tfor {\n"},
			{"// copyBuffer is", "type chunkReader struct{ src io.Reader }\n\nfunc (r *chunkReader) next(p []byte) (n int, err error) {\n\tn, err = r.src.Read(p)\n\treturn n, err\n}\n\n// copyBuffer is"}},
		Expect: ""},
	{Name: "Read / Write helpers, the write helper is handed buf[1:nr]", File: c09m3cpb,
		Old: "nr, er := src.Read(buf)", New: "nr, er := readChunk(src, buf)",
		More:   []repl{{"nw, ew := dst.Write(buf[0:nr])", "nw, ew := writeChunk(dst, buf[1:nr])"}, {"// copyBuffer is", c09m3chunkFns + "// copyBuffer is"}},
		Expect: "C09.B3"},
	{Name: "Read / Write helpers, the read error is looked at before the bytes returned with it are written", File: c09m3cpb,
		Old: "nr, er := src.Read(buf)", New: "nr, er := readChunk(src, buf)\n\t\tif er != nil && er != io.EOF {\n\t\t\treturn er\n\t\t}",
		More:   []repl{{"nw, ew := dst.Write(buf[0:nr])", "nw, ew := writeChunk(dst, buf[0:nr])"}, {"// copyBuffer is", c09m3chunkFns + "// copyBuffer is"}},
		Expect: "C09.B3"},
	{Name: "read helper that swallows the read error (not a forwarding helper: the relay is not found)", File: c09m3cpb,
		Old: "nr, er := src.Read(buf)", New: "nr, er := readChunk(src, buf)",
		More: []repl{{"nw, ew := dst.Write(buf[0:nr])", "nw, ew := writeChunk(dst, buf[0:nr])"},
			{"// copyBuffer is", "func readChunk(src io.Reader, buf []byte) (int, error) {\n\tn, _ := src.Read(buf)\n\treturn n, nil\n}\n\nfunc writeChunk(dst io.Writer, p []byte) (int, error) { return dst.Write(p) }\n\n// copyBuffer is"}},
		Expect: "C09.B3"},
	{Name: "Read / Write helpers, the bytes are masked between the two calls", File: c09m3cpb,
		Old: "nr, er := src.Read(buf)", New: "nr, er := readChunk(src, buf)\n\t\tfor i := range buf[:nr] {\n\t\t\tbuf[i] &= 0x7f\n\t\t}",
		More:   []repl{{"nw, ew := dst.Write(buf[0:nr])", "nw, ew := writeChunk(dst, buf[0:nr])"}, {"// copyBuffer is", c09m3chunkFns + "// copyBuffer is"}},
		Expect: "C09.M1"},

	// ---- the replay handed over through a reader -------------------------------------------------------------------------
	{Name: "benign: ClientHello replayed with io.Copy(out, bytes.NewReader(data))", File: c09m3sni,
		Old: "n, err := out.Write(data)", New: "n, err := io.Copy(out, bytes.NewReader(data))",
		More: []repl{{"import (\n", "import (\n\t\"bytes\"\n"}}, Expect: ""},
	{Name: "replay through bytes.NewReader of the ClientHello without its record header", File: c09m3sni,
		Old: "n, err := out.Write(data)", New: "n, err := io.Copy(out, bytes.NewReader(data[5:]))",
		More: []repl{{"import (\n", "import (\n\t\"bytes\"\n"}}, Expect: "C09.B4"},
	{Name: "replay through bytes.NewReader, record version rewritten before it", File: c09m3sni,
		Old: "n, err := out.Write(data)", New: "data[1], data[2] = 3, 1\n\tn, err := io.Copy(out, bytes.NewReader(data))",
		More: []repl{{"import (\n", "import (\n\t\"bytes\"\n"}}, Expect: "C09.M1"},

	// ---- the hand-written io.ReadFull in a helper of its own ---------------------------------------------------------------
	{Name: "benign: ClientHello collected by a helper fillFrom(r, buf) (hand-written io.ReadFull), replayed whole by the caller", File: c09m3sni,
		Old: c09m3rdFull, New: "\t_, err = fillFrom(tlsReader, data)\n",
		More:   []repl{{c09sniFunc, c09m3fillFrom("") + c09sniFunc}},
		Expect: ""},
	{Name: "fill helper that reports success on io.EOF: the caller replays a buffer that was filled in part", File: c09m3sni,
		Old: c09m3rdFull, New: "\t_, err = fillFrom(tlsReader, data)\n",
		More:   []repl{{c09sniFunc, c09m3fillFrom("\t\tif err == io.EOF {\n\t\t\treturn n, nil\n\t\t}\n") + c09sniFunc}},
		Expect: "C09.B3"},
	{Name: "fill helper, the caller replays the buffer without its record header", File: c09m3sni,
		Old: c09m3rdFull, New: "\t_, err = fillFrom(tlsReader, data)\n",
		More:   []repl{{c09sniFunc, c09m3fillFrom("") + c09sniFunc}, {"out.Write(data)", "out.Write(data[5:])"}},
		Expect: "C09.B3"},

	// ---- the write block of a copy loop extracted into a helper that returns an error only (c09writeThrough) ------------
	c09m3flushMutant("benign: the copy loop's write block extracted into flush(dst, buf[:nr], c) error", c09m3flushCall, c09m3flushShort, ""),
	c09m3flushMutant("write helper that does not look at short writes", c09m3flushCall, "", "C09.B3"),
	c09m3flushMutant("write helper whose error the copy loop drops", "\t\tflush(dst, buf[:nr], c)\n", c09m3flushShort, "C09.B3"),
	c09m3flushMutant("write helper handed half of what was read", "\t\tif werr := flush(dst, buf[:nr/2], c); werr != nil {\n\t\t\terr = werr\n\t\t\tbreak\n\t\t}\n", c09m3flushShort, "C09.B3"),
	c09m3flushMutant("write helper called only when the read returned no error", "\t\tif er != nil && er != io.EOF {\n\t\t\terr = er\n\t\t\tbreak\n\t\t}\n"+c09m3flushCall, c09m3flushShort, "C09.B3"),

	// ---- further extract-function shapes ---------------------------------------------------------------------------------
	{Name: "benign: the websocket handshake is forwarded by a helper that returns an error only (short write tested inside)", File: c09m3ws,
		Old: c09m3wsFwdOld, New: c09m3wsFwdNew, More: []repl{{c09m3wsDecl, "func forwardHandshake(in net.Conn, b []byte) error {\n\tm, err := in.Write(b)\n\tif err == nil && m != len(b) {\n\t\terr = io.ErrShortWrite\n\t}\n\treturn err\n}\n\n" + c09m3wsDecl}}, Expect: ""},
	{Name: "handshake forwarding helper that ignores the count Write returned", File: c09m3ws,
		Old: c09m3wsFwdOld, New: c09m3wsFwdNew, More: []repl{{c09m3wsDecl, "func forwardHandshake(in net.Conn, b []byte) error {\n\t_, err := in.Write(b)\n\treturn err\n}\n\n" + c09m3wsDecl}}, Expect: "C09.B3"},
	{Name: "benign: the ClientHello is replayed by a one-line helper replayHello(out, data)", File: c09m3sni,
		Old: "n, err := out.Write(data)", New: "n, err := replayHello(out, data)",
		More:   []repl{{c09sniFunc, "func replayHello(out net.Conn, hello []byte) (int, error) {\n\treturn out.Write(hello)\n}\n\n" + c09sniFunc}},
		Expect: ""},
	{Name: "replay helper that skips the record header", File: c09m3sni,
		Old: "n, err := out.Write(data)", New: "n, err := replayHello(out, data)",
		More:   []repl{{c09sniFunc, "func replayHello(out net.Conn, hello []byte) (int, error) {\n\treturn out.Write(hello[5:])\n}\n\n" + c09sniFunc}},
		Expect: "C09.B4"},
	{Name: "benign: the body of the copy loop extracted into step(dst, src, buf, c) (done bool, err error)", File: c09m3cpb,
		Old: c09m3cpFuncOld, New: c09m3cpStep, Expect: ""},
}

const (
	c09m3wsFwdOld  = "\t\tb = b[:n]\n\t\tif m, err := in.Write(b); err != nil || n != m {\n\t\t\tlog.Printf(\"[ERROR] Error sending handshake for %s: %s\", r.URL, err)\n\t\t\thttp.Error(w, \"error sending handshake\", http.StatusInternalServerError)\n\t\t\treturn\n\t\t}\n\n"
	c09m3wsFwdNew  = "\t\tb = b[:n]\n\t\tif err := forwardHandshake(in, b); err != nil {\n\t\t\tlog.Printf(\"[ERROR] Error sending handshake for %s: %s\", r.URL, err)\n\t\t\thttp.Error(w, \"error sending handshake\", http.StatusInternalServerError)\n\t\t\treturn\n\t\t}\n\n"
	c09m3cpFuncOld = "func copyBuffer(dst io.Writer, src io.Reader, c gkm.Counter) (err error) {\n\tbuf := make([]byte, 32*1024)\n\tfor {\n\t\tnr, er := src.Read(buf)\n\t\tif nr > 0 {\n\t\t\tnw, ew := dst.Write(buf[0:nr])\n\t\t\tif nw > 0 {\n\t\t\t\tif c != nil {\n\t\t\t\t\tc.Add(float64(nw))\n\t\t\t\t}\n\t\t\t}\n\t\t\tif ew != nil {\n\t\t\t\terr = ew\n\t\t\t\tbreak\n\t\t\t}\n\t\t\tif nr != nw {\n\t\t\t\terr = io.ErrShortWrite\n\t\t\t\tbreak\n\t\t\t}\n\t\t}\n\t\tif er != nil {\n\t\t\tif er != io.EOF {\n\t\t\t\terr = er\n\t\t\t}\n\t\t\tbreak\n\t\t}\n\t}\n\treturn err\n}\n"
	c09m3cpStep    = "func copyBuffer(dst io.Writer, src io.Reader, c gkm.Counter) error {\n\tbuf := make([]byte, 32*1024)\n\tfor {\n\t\tif done, err := step(dst, src, buf, c); done {\n\t\t\treturn err\n\t\t}\n\t}\n}\n\n// step moves one chunk.\nfunc step(dst io.Writer, src io.Reader, buf []byte, c gkm.Counter) (bool, error) {\n\tnr, er := src.Read(buf)\n\tif nr > 0 {\n\t\tnw, ew := dst.Write(buf[0:nr])\n\t\tif nw > 0 && c != nil {\n\t\t\tc.Add(float64(nw))\n\t\t}\n\t\tif ew != nil {\n\t\t\treturn true, ew\n\t\t}\n\t\tif nr != nw {\n\t\t\treturn true, io.ErrShortWrite\n\t\t}\n\t}\n\tif er == io.EOF {\n\t\treturn true, nil\n\t}\n\treturn er != nil, er\n}\n"
)

const (
	c09m3cpLoop     = "\tfor {\n\t\tnr, er := src.Read(buf)\n\t\tif nr > 0 {\n\t\t\tnw, ew := dst.Write(buf[0:nr])\n\t\t\tif nw > 0 {\n\t\t\t\tif c != nil {\n\t\t\t\t\tc.Add(float64(nw))\n\t\t\t\t}\n\t\t\t}\n\t\t\tif ew != nil {\n\t\t\t\terr = ew\n\t\t\t\tbreak\n\t\t\t}\n\t\t\tif nr != nw {\n\t\t\t\terr = io.ErrShortWrite\n\t\t\t\tbreak\n\t\t\t}\n\t\t}\n\t\tif er != nil {\n\t\t\tif er != io.EOF {\n\t\t\t\terr = er\n\t\t\t}\n\t\t\tbreak\n\t\t}\n\t}\n"
	c09m3flushCall  = "\t\tif werr := flush(dst, buf[:nr], c); werr != nil {\n\t\t\terr = werr\n\t\t\tbreak\n\t\t}\n"
	c09m3flushShort = "\tif nw != len(p) {\n\t\treturn io.ErrShortWrite\n\t}\n"
)

// c09m3flushMutant: copyBuffer's loop with its write block in a helper `flush`; call is the text of the call in the
// loop, short the short-write test inside the helper.
func c09m3flushMutant(name, call, short, expect string) mutant {
	loop := "\tfor {\n\t\tnr, er := src.Read(buf)\n" + call + "\t\tif er == io.EOF {\n\t\t\tbreak\n\t\t}\n\t\tif er != nil {\n\t\t\terr = er\n\t\t\tbreak\n\t\t}\n\t}\n"
	helper := "// flush writes p to dst and counts the bytes written.\nfunc flush(dst io.Writer, p []byte, c gkm.Counter) error {\n\tif len(p) == 0 {\n\t\treturn nil\n\t}\n\tnw, ew := dst.Write(p)\n\tif nw > 0 && c != nil {\n\t\tc.Add(float64(nw))\n\t}\n\tif ew != nil {\n\t\treturn ew\n\t}\n" + short + "\treturn nil\n}\n\n"
	return mutant{Name: name, File: c09m3cpb, Old: c09m3cpLoop, New: loop,
		More: []repl{{"// copyBuffer is", helper + "// copyBuffer is"}}, Expect: expect}
}

// c09m3fillFrom: a hand-written io.ReadFull; extra is placed between the Read and the test of its error.
func c09m3fillFrom(extra string) string {
	return "func fillFrom(r io.Reader, buf []byte) (int, error) {\n\tn := 0\n\tfor n < len(buf) {\n\t\tm, err := r.Read(buf[n:])\n\t\tn += m\n" + extra + "\t\tif err != nil {\n\t\t\treturn n, err\n\t\t}\n\t}\n\treturn n, nil\n}\n\n"
}

// c09devFilter: development aid. With C09_MUTANTS set, only the overlay mutants whose name contains that text are kept
// (`verifcheck mutants C09` then runs in seconds); unset, which is how devloop and the evaluation run, all are kept.
func c09devFilter(ms ...mutant) []mutant {
	want := os.Getenv("C09_MUTANTS")
	if want == "" {
		return ms
	}
	var out []mutant
	for _, m := range ms {
		if strings.Contains(m.Name, want) {
			out = append(out, m)
		}
	}
	return out
}
