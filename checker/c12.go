package main

import (
	"fmt"
	"go/token"
	"go/types"

	"golang.org/x/tools/go/ssa"
)

func init() {
	register(&propDef{
		ID:      "C12",
		Level:   "other",
		Explain: "Gate dominance and fail-closed decisions, decided on every CFG path: (G1) in HTTPProxy.ServeHTTP every upstream-contact site and the redirect response is dominated by the false edge of Target.AccessDeniedHTTP and the true edge of Target.Authorized, both applied to the looked-up target; (G2) in every tcp.Handler implementation every dial is dominated by the false edge of AccessDeniedTCP on the target whose address is dialled; (S1) the deny edges answer 403/401 and return; (F1) decision functions deny on anomaly edges (nil parsed IP with rules configured, unknown auth scheme); (F2) a failing ProcessAccessRules in addTarget leaves a deny-all rule set; (F3) in denyByIP an allow list returns 'not denied' only under Contains==true and denies at the end, a deny list denies under Contains==true; (X1) the X-Forwarded-For loop cannot be left early except by denying. (A1) an auth scheme answers true only from the Match of its credential store on this request. (X1) the text of an X-Forwarded-For element handed to net.ParseIP is the element itself (split/trim), with no substring surgery on the way; Not decided: CIDR arithmetic of net.IPNet.Contains, credential checking of the auth schemes (values).",
		Run:     runC12,
		Trusted: []string{"net/http sets Request.RemoteAddr to ip:port (SplitHostPort cannot fail there)", "all fabio listeners yield *net.TCPAddr remote addresses", "net.IPNet.Contains implements CIDR membership"},
		Mutants: []mutant{
			{Name: "port stripped from X-Forwarded-For elements at the last colon", File: "route/access_rules.go", Old: "\t\t\txip = strings.TrimSpace(xip)\n", New: "\t\t\txip = strings.TrimSpace(xip)\n\t\t\tif i := strings.LastIndexByte(xip, ':'); i > 0 {\n\t\t\t\txip = xip[:i]\n\t\t\t}\n", Expect: "C12.X1"},
			{Name: "benign: element trimmed with strings.Trim", File: "route/access_rules.go", Old: "\t\t\txip = strings.TrimSpace(xip)\n", New: "\t\t\txip = strings.Trim(xip, \" \\t\")\n", Expect: ""},

			{Name: "drop Authorized test", File: "proxy/http_proxy.go", Old: "if !t.Authorized(r, w, p.AuthSchemes) {", New: "if false {", Expect: "C12.G1"},
			{Name: "drop access test", File: "proxy/http_proxy.go", Old: "if t.AccessDeniedHTTP(r) {", New: "if false {", Expect: "C12.G1"},
			{Name: "deny without return", File: "proxy/http_proxy.go", Old: "http.Error(w, \"access denied\", http.StatusForbidden)\n\t\treturn", New: "http.Error(w, \"access denied\", http.StatusForbidden)", Expect: "C12.G1"},
			{Name: "401<->403", File: "proxy/http_proxy.go", Old: "http.Error(w, \"access denied\", http.StatusForbidden)", New: "http.Error(w, \"access denied\", http.StatusUnauthorized)", Expect: "C12.S1"},
			{Name: "dial before AccessDeniedTCP (tcp)", File: "proxy/tcp/tcp_proxy.go", Old: "\tif t.AccessDeniedTCP(in) {\n\t\treturn nil\n\t}\n\n\tout, err := net.DialTimeout(\"tcp\", addr, p.DialTimeout)", New: "\tout, err := net.DialTimeout(\"tcp\", addr, p.DialTimeout)\n\tif t.AccessDeniedTCP(in) {\n\t\treturn nil\n\t}\n", Expect: "C12.G2"},
			{Name: "no gate in dynamic proxy", File: "proxy/tcp/tcp_dynamic_proxy.go", Old: "if t.AccessDeniedTCP(in) {", New: "if false {", Expect: "C12.G2"},
			{Name: "inverted gate in sni proxy", File: "proxy/tcp/sni_proxy.go", Old: "if t.AccessDeniedTCP(in) {", New: "if !t.AccessDeniedTCP(in) {", Expect: "C12.G2"},
			{Name: "unknown scheme allows", File: "route/auth.go", Old: "log.Printf(\"[ERROR] unknown auth scheme '%s'\\n\", t.AuthScheme)\n\t\treturn false", New: "log.Printf(\"[ERROR] unknown auth scheme '%s'\\n\", t.AuthScheme)\n\t\treturn true", Expect: "C12.F1"},
			{Name: "nil ip allows again", File: "route/access_rules.go", Old: "if ip == nil {\n\t\treturn true\n\t}", New: "if ip == nil {\n\t\treturn false\n\t}", Expect: "C12.F1"},
			{Name: "allow list falls through to allow", File: "route/access_rules.go", Old: "\t\tlog.Printf(\"[INFO] route rules denied access from %s to %s\",\n\t\t\tip.String(), t.URL.String())\n\t\treturn true\n\t}\n\n\t// still going", New: "\t\tlog.Printf(\"[INFO] route rules denied access from %s to %s\",\n\t\t\tip.String(), t.URL.String())\n\t\treturn false\n\t}\n\n\t// still going", Expect: "C12.F3"},
			{Name: "deny match allows", File: "route/access_rules.go", Old: "\t\t\t\tlog.Printf(\"[INFO] route rules denied access from %s to %s\",\n\t\t\t\t\tip.String(), t.URL.String())\n\t\t\t\treturn true", New: "\t\t\t\tlog.Printf(\"[INFO] route rules denied access from %s to %s\",\n\t\t\t\t\tip.String(), t.URL.String())\n\t\t\t\treturn false", Expect: "C12.F3"},
			{Name: "break in XFF loop", File: "route/access_rules.go", Old: "\t\t\tif xip == host {\n\t\t\t\tcontinue\n\t\t\t}", New: "\t\t\tif xip == host {\n\t\t\t\tbreak\n\t\t\t}", Expect: "C12.X1"},
			{Name: "append target despite rule error", File: "route/route.go", Old: "\t\t\tt.denyAll()\n", New: "", Expect: "C12.F2"},
			{Name: "basic auth answers from a cache of accepted headers", File: "auth/basic.go", Old: "\treturn b.secrets.Match(user, password)", New: "\tif h := request.Header.Get(\"Authorization\"); h != \"\" && h == b.realm {\n\t\treturn true\n\t}\n\treturn b.secrets.Match(user, password)", Expect: "C12.A1"},
			{Name: "benign: both gates behind one helper", File: "proxy/http_proxy.go", Old: "\tif t.AccessDeniedHTTP(r) {\n\t\thttp.Error(w, \"access denied\", http.StatusForbidden)\n\t\treturn\n\t}\n\n\tif !t.Authorized(r, w, p.AuthSchemes) {\n\t\thttp.Error(w, \"authorization failed\", http.StatusUnauthorized)\n\t\treturn\n\t}\n", New: "\tif !p.admit(w, r, t) {\n\t\treturn\n\t}\n", Expect: "",
				More: []repl{{"func key(code int) string {", "func (p *HTTPProxy) admit(w http.ResponseWriter, r *http.Request, t *route.Target) bool {\n\tif t.AccessDeniedHTTP(r) {\n\t\thttp.Error(w, \"access denied\", http.StatusForbidden)\n\t\treturn false\n\t}\n\tif !t.Authorized(r, w, p.AuthSchemes) {\n\t\thttp.Error(w, \"authorization failed\", http.StatusUnauthorized)\n\t\treturn false\n\t}\n\treturn true\n}\n\nfunc key(code int) string {"}}},
			{Name: "helper that admits on the access-denied edge", File: "proxy/http_proxy.go", Old: "\tif t.AccessDeniedHTTP(r) {\n\t\thttp.Error(w, \"access denied\", http.StatusForbidden)\n\t\treturn\n\t}\n\n\tif !t.Authorized(r, w, p.AuthSchemes) {\n\t\thttp.Error(w, \"authorization failed\", http.StatusUnauthorized)\n\t\treturn\n\t}\n", New: "\tif !p.admit(w, r, t) {\n\t\treturn\n\t}\n", Expect: "C12.G1",
				More: []repl{{"func key(code int) string {", "func (p *HTTPProxy) admit(w http.ResponseWriter, r *http.Request, t *route.Target) bool {\n\tif t.AccessDeniedHTTP(r) {\n\t\tw.Header().Set(\"X-Denied\", \"1\")\n\t}\n\tif !t.Authorized(r, w, p.AuthSchemes) {\n\t\thttp.Error(w, \"authorization failed\", http.StatusUnauthorized)\n\t\treturn false\n\t}\n\treturn true\n}\n\nfunc key(code int) string {"}}},
			{Name: "benign: gate helper", File: "proxy/http_proxy.go", Old: "\tif t.AccessDeniedHTTP(r) {\n\t\thttp.Error(w, \"access denied\", http.StatusForbidden)\n\t\treturn\n\t}", New: "\tdenied := t.AccessDeniedHTTP(r)\n\tif denied {\n\t\thttp.Error(w, \"access denied\", http.StatusForbidden)\n\t\treturn\n\t}", Expect: ""},
		},
	})
}

func runC12(c *Ctx) {
	runGateHTTP(c, "C12.G1", true)
	runC12G2(c)
	runC12F(c)
	runC12A1(c)
	runC12X1(c)
}

// lookupResult: v is the result of the dynamic call of a struct field named Lookup.
func isLookupFieldCall(v ssa.Value) bool {
	call, ok := v.(*ssa.Call)
	if !ok || call.Call.IsInvoke() || call.Call.StaticCallee() != nil {
		return false
	}
	u, ok := call.Call.Value.(*ssa.UnOp)
	if !ok || u.Op != token.MUL {
		return false
	}
	fa, ok := u.X.(*ssa.FieldAddr)
	return ok && fieldName(fa.X.Type(), fa.Field) == "Lookup"
}

// runGateHTTP implements G1 (also used by C13.G1 and C07.G1 with other rule ids).
// withAuth: require the access + auth gates; otherwise only the t != nil gate.
func runGateHTTP(c *Ctx, rule string, withAuth bool) {
	serve := c.method("proxy", "HTTPProxy", "ServeHTTP")
	if !c.need(rule, serve, "proxy.HTTPProxy.ServeHTTP") {
		return
	}
	denied := c.method("route", "Target", "AccessDeniedHTTP")
	auth := c.method("route", "Target", "Authorized")
	if withAuth && (!c.need(rule, denied, "route.Target.AccessDeniedHTTP") || !c.need(rule, auth, "route.Target.Authorized")) {
		return
	}
	sites := c.contactSites(serve)
	// the redirect response counts as a gated effect too
	for _, i := range callsTo(serve, "net/http.Redirect") {
		sites[i] = "calls net/http.Redirect"
	}
	n := 0
	for i, how := range sites {
		n++
		key := "proxy.(*HTTPProxy).ServeHTTP|" + siteKey(how)
		b := i.Block()
		if withAuth {
			rd := gateReceiver(b, denied, false, 0)
			ra := gateReceiver(b, auth, true, 0)
			ok := rd != nil && ra != nil
			detail := how + " must be dominated by AccessDeniedHTTP()==false and Authorized()==true"
			if ok {
				// both on the looked-up target
				if rd != ra || !isLookupFieldCall(rd) {
					ok = false
					detail = how + ": the access and auth gates must both be applied to the target returned by p.Lookup"
				}
			}
			c.check(rule, key, i.Pos(), ok, detail)
		} else {
			// t != nil gate
			ok := false
			for _, f := range factsAt(b) {
				if nn, isNil := nilFact(f, isLookupFieldCall); isNil && nn {
					ok = true
				}
			}
			c.check(rule, key, i.Pos(), ok, how+" must be dominated by the `target != nil` edge of the route lookup (no upstream may be contacted for a request without a route)")
		}
	}
	c.atLeast(rule, "upstream-contact sites in HTTPProxy.ServeHTTP", n, 3)

	if !withAuth {
		return
	}
	// S1: deny edges answer 403 / 401 and return
	for _, g := range []struct {
		fn    *ssa.Function
		truth bool
		code  int64
		name  string
	}{{denied, true, 403, "access denied => 403"}, {auth, false, 401, "unauthorized => 401"}} {
		found := false
		// the deny edge may live in ServeHTTP or in a helper of package proxy that ServeHTTP calls
		hosts := []*ssa.Function{serve}
		for f := range c.reach(serve) {
			if f != serve && rootPkg(f) == c.spkg("proxy") {
				hosts = append(hosts, f)
			}
		}
		for _, hf := range hosts {
			for _, b := range hf.Blocks {
				if factCallTo(b, g.fn, g.truth) == nil {
					continue
				}
				for _, i := range b.Instrs {
					cc := callCommon(i)
					if cc != nil && calleeName(cc) == "net/http.Error" && len(cc.Args) == 3 {
						code, _ := constInt(cc.Args[2])
						_, isRet := b.Instrs[len(b.Instrs)-1].(*ssa.Return)
						found = true
						c.check("C12.S1", "proxy.(*HTTPProxy).ServeHTTP|"+g.name, i.Pos(), code == g.code && isRet,
							fmt.Sprintf("the deny edge must answer %d and return; got status %d, returns=%v", g.code, code, isRet))
					}
				}
			}
		}
		if !found {
			c.check("C12.S1", "proxy.(*HTTPProxy).ServeHTTP|"+g.name, serve.Pos(), false, "no http.Error response on the deny edge")
		}
	}
}

func runC12G2(c *Ctx) {
	deniedTCP := c.method("route", "Target", "AccessDeniedTCP")
	if !c.need("C12.G2", deniedTCP, "route.Target.AccessDeniedTCP") {
		return
	}
	nImpl := 0
	for _, f := range c.AllFns {
		if f.Name() != "ServeTCP" || f.Signature.Recv() == nil || f.Pkg != c.spkg("proxy/tcp") {
			continue
		}
		sites := c.contactSites(f)
		if len(sites) == 0 {
			continue // adapter (HandlerFunc)
		}
		nImpl++
		for i, how := range sites {
			key := fnKey(f) + "|" + siteKey(how)
			gc := factCallTo(i.Block(), deniedTCP, false)
			ok := gc != nil
			detail := how + " must be dominated by AccessDeniedTCP()==false"
			if ok {
				t := gc.Call.Args[0]
				if !derivesFromLookup(t) {
					ok, detail = false, how+": the gate must be applied to the looked-up target"
				} else if cc := callCommon(i); cc != nil && len(cc.Args) >= 2 {
					// the dialled address must come from the gated target
					addr := cc.Args[1]
					if !derives(addr, func(v ssa.Value) bool { return v == t }) {
						ok, detail = false, how+": the dialled address does not derive from the target that passed the access gate"
					}
				}
			}
			c.check("C12.G2", key, i.Pos(), ok, detail)
		}
	}
	c.atLeast("C12.G2", "tcp.Handler implementations that dial", nImpl, 3)
}

func derivesFromLookup(v ssa.Value) bool {
	return derives(v, isLookupFieldCall)
}

func runC12F(c *Ctx) {
	// ---- F1: Authorized fails closed
	auth := c.method("route", "Target", "Authorized")
	if c.need("C12.F1", auth, "route.Target.Authorized") {
		n := 0
		eachInstr(auth, func(i ssa.Instruction) {
			r, ok := i.(*ssa.Return)
			if !ok || len(r.Results) != 1 {
				return
			}
			n++
			key := "route.(*Target).Authorized|return"
			if bv, isConst := constBool(r.Results[0]); isConst {
				if !bv {
					c.check("C12.F1", key+" false", r.Pos(), true, "deny")
					return
				}
				// `return true` only when no scheme is configured: fact AuthScheme == ""
				ok := false
				for _, f := range factsAt(r.Block()) {
					if b, isB := f.Cond.(*ssa.BinOp); isB && b.Op == token.EQL && f.Truth {
						_, isF := fieldOf(b.X, "route.Target", "AuthScheme")
						if s, isS := constString(b.Y); isF && isS && s == "" {
							ok = true
						}
					}
				}
				c.check("C12.F1", key+" true", r.Pos(), ok, "Authorized may return true unconditionally only when no auth scheme is configured (AuthScheme == \"\"); an unknown scheme must reject")
				return
			}
			// otherwise must be the scheme's verdict
			call, isCall := r.Results[0].(*ssa.Call)
			ok = isCall && call.Call.IsInvoke() && call.Call.Method.Name() == "Authorized"
			c.check("C12.F1", key+" scheme verdict", r.Pos(), ok, "a non-constant result must be the configured scheme's Authorized verdict")
		})
		c.atLeast("C12.F1", "returns in Target.Authorized", n, 2)
	}

	// ---- F1/F3: denyByIP
	deny := c.method("route", "Target", "denyByIP")
	if c.need("C12.F3", deny, "route.Target.denyByIP") {
		runDenyByIP(c, deny)
	}

	// ---- X1: XFF loop in AccessDeniedHTTP
	adh := c.method("route", "Target", "AccessDeniedHTTP")
	if c.need("C12.X1", adh, "route.Target.AccessDeniedHTTP") {
		nLoops := 0
		for _, l := range loopsOf(adh) {
			// the loop ranging over the split X-Forwarded-For value
			nLoops++
			for b := range l.Body {
				for _, s := range b.Succs {
					if l.Body[s] || b == l.Head {
						continue
					}
					bv, isRet := returnsConstBool(s)
					c.check("C12.X1", "route.(*Target).AccessDeniedHTTP|loop exit", s.Instrs[len(s.Instrs)-1].Pos(), isRet && bv,
						"the X-Forwarded-For loop may be left early only by denying (return true); a break/return false lets an address behind a denied hop pass unchecked")
				}
			}
		}
		c.atLeast("C12.X1", "loops in AccessDeniedHTTP", nLoops, 1)
		// every denyByIP verdict inside is honoured: each call's true edge returns true
		nCalls := 0
		eachInstr(adh, func(i ssa.Instruction) {
			if !staticCalleeIs(i, deny) {
				return
			}
			nCalls++
			call := i.(*ssa.Call)
			ok := false
			for _, b := range adh.Blocks {
				for _, f := range factsAt(b) {
					if f.Cond == call && f.Truth {
						if bv, isRet := returnsConstBool(b); isRet && bv {
							ok = true
						}
					}
				}
			}
			c.check("C12.X1", "route.(*Target).AccessDeniedHTTP|denyByIP verdict honoured", i.Pos(), ok, "a true verdict of denyByIP must make AccessDeniedHTTP return true")
		})
		c.atLeast("C12.X1", "denyByIP calls in AccessDeniedHTTP", nCalls, 2)
	}

	// ---- F2: addTarget must not keep a target unrestricted after a rule error
	runC12F2(c)
}

func runDenyByIP(c *Ctx, deny *ssa.Function) {
	// classify comma-ok lookups of accessRules by constant key
	lookupKey := func(v ssa.Value) (string, bool) {
		e, ok := v.(*ssa.Extract)
		if !ok || e.Index != 1 {
			return "", false
		}
		lk, ok := e.Tuple.(*ssa.Lookup)
		if !ok || !lk.CommaOk {
			return "", false
		}
		if _, isF := fieldOf(lk.X, "route.Target", "accessRules"); !isF {
			return "", false
		}
		return constString(lk.Index)
	}
	isContains := func(v ssa.Value) bool {
		call, ok := v.(*ssa.Call)
		return ok && calleeName(&call.Call) == "(*net.IPNet).Contains"
	}
	var ipParam *ssa.Parameter
	for _, p := range deny.Params {
		if typeStr(p.Type()) == "net.IP" {
			ipParam = p
		}
	}
	nRet := 0
	eachInstr(deny, func(i ssa.Instruction) {
		r, ok := i.(*ssa.Return)
		if !ok || len(r.Results) != 1 {
			return
		}
		bv, isConst := constBool(r.Results[0])
		if !isConst {
			c.check("C12.F3", "route.(*Target).denyByIP|non-constant return", r.Pos(), false, "denyByIP must return constant verdicts so that the decision structure is checkable")
			return
		}
		nRet++
		var inAllow, inDeny, contains, ipNil, noRules bool
		for _, f := range factsAt(r.Block()) {
			if k, ok := lookupKey(f.Cond); ok && f.Truth {
				if k == "allow:ip" {
					inAllow = true
				}
				if k == "deny:ip" {
					inDeny = true
				}
			}
			if isContains(f.Cond) && f.Truth {
				contains = true
			}
			if ipParam != nil {
				if nn, ok := nilFact(f, sameVal(ipParam)); ok && !nn {
					ipNil = true
				}
			}
			// len(accessRules) == 0
			if b, isB := f.Cond.(*ssa.BinOp); isB && b.Op == token.EQL && f.Truth {
				if call, isCall := b.X.(*ssa.Call); isCall && calleeName(&call.Call) == "builtin.len" {
					if _, isF := fieldOf(call.Call.Args[0], "route.Target", "accessRules"); isF {
						if n, ok := constInt(b.Y); ok && n == 0 {
							noRules = true
						}
					}
				}
			}
		}
		switch {
		case noRules:
			c.check("C12.F3", "route.(*Target).denyByIP|no rules", r.Pos(), !bv, "without rules nothing is denied")
		case ipNil:
			c.check("C12.F1", "route.(*Target).denyByIP|ip == nil", r.Pos(), bv,
				"an address that could not be parsed (nil IP; e.g. zone-scoped IPv6 'fe80::1%eth0' from RemoteAddr) must be denied when rules are configured; returning false lets it bypass an allow list")
		case inAllow:
			if contains {
				c.check("C12.F3", "route.(*Target).denyByIP|allow match", r.Pos(), !bv, "an address inside an allow block is admitted")
			} else {
				c.check("C12.F3", "route.(*Target).denyByIP|allow list exhausted", r.Pos(), bv, "with an allow list, an address outside every block must be denied (return true)")
			}
		case inDeny && contains:
			c.check("C12.F3", "route.(*Target).denyByIP|deny match", r.Pos(), bv, "an address inside a deny block must be denied (return true)")
		default:
			// fall-through default
			c.check("C12.F3", "route.(*Target).denyByIP|default", r.Pos(), !bv, "default: not denied")
		}
	})
	c.atLeast("C12.F3", "constant returns in denyByIP", nRet, 4)
	// the nil-IP case must be decided before any rule loop: there must be a return under ip==nil, or
	// the nil test must not short-circuit to allow together with the no-rules test
	if ipParam != nil {
		seenNilDeny := false
		for _, o := range c.Obs {
			if o.Rule == "C12.F1" && o.Construct == "route.(*Target).denyByIP|ip == nil" {
				seenNilDeny = true
			}
		}
		if !seenNilDeny {
			// `if ip == nil || len(rules) == 0 { return false }`: the return block has two predecessors, no fact.
			// Find a return false reachable directly from the ip==nil true edge.
			for _, b := range deny.Blocks {
				if len(b.Instrs) == 0 {
					continue
				}
				iff, ok := b.Instrs[len(b.Instrs)-1].(*ssa.If)
				if !ok {
					continue
				}
				if nn, isNil := nilFact(Fact{iff.Cond, true}, sameVal(ipParam)); isNil && !nn {
					if bv, isRet := returnsConstBool(b.Succs[0]); isRet {
						c.check("C12.F1", "route.(*Target).denyByIP|ip == nil", iff.Pos(), bv,
							"an address that could not be parsed (nil IP; e.g. zone-scoped IPv6 'fe80::1%eth0' from RemoteAddr) must be denied when rules are configured; `ip == nil || len(rules) == 0 => return false` lets it bypass an allow list")
						seenNilDeny = true
					}
				}
			}
		}
		if !seenNilDeny {
			c.undecided("C12.F1", "route.(*Target).denyByIP|ip == nil", "no decision on a nil IP found in denyByIP (net.IPNet.Contains(nil) is false, so an allow list would deny; a deny list would admit)")
		}
	}
}

func runC12F2(c *Ctx) {
	add := c.method("route", "Route", "addTarget")
	par := c.method("route", "Target", "ProcessAccessRules")
	if !c.need("C12.F2", add, "route.Route.addTarget") || !c.need("C12.F2", par, "route.Target.ProcessAccessRules") {
		return
	}
	n := 0
	eachInstr(add, func(i ssa.Instruction) {
		if !staticCalleeIs(i, par) {
			return
		}
		n++
		call := i.(*ssa.Call)
		// blocks where err != nil is known for this call's result
		var errBlocks []*ssa.BasicBlock
		for _, b := range add.Blocks {
			for _, f := range factsAt(b) {
				if nn, ok := nilFact(f, func(v ssa.Value) bool { return derivesErrOf(v, call) }); ok && nn {
					errBlocks = append(errBlocks, b)
					break
				}
			}
		}
		if len(errBlocks) == 0 {
			c.check("C12.F2", "route.(*Route).addTarget|ProcessAccessRules error ignored", i.Pos(), false, "the error of ProcessAccessRules is not examined: an unparsable rule leaves the target unrestricted")
			return
		}
		// On the error edge there must be an instruction making the target deny-all (a store to / call on the
		// target that dominates the append), or the function must return without appending.
		ok := false
		for _, b := range errBlocks {
			for _, in := range b.Instrs {
				switch x := in.(type) {
				case *ssa.Store:
					if _, isF := fieldOf(x.Addr, "route.Target", "accessRules"); isF {
						ok = true
					}
				case *ssa.Call:
					if sc := x.Call.StaticCallee(); sc != nil && isRepoFn(sc) && sc.Signature.Recv() != nil && namedIs(sc.Signature.Recv().Type(), "route.Target") && writesField(sc, "route.Target", "accessRules") {
						ok = true
					}
				case *ssa.Return:
					ok = true
				}
			}
		}
		c.check("C12.F2", "route.(*Route).addTarget|rule error => deny-all", i.Pos(), ok,
			"on the error edge of ProcessAccessRules (e.g. allow=ip:10.0.0.0/33) the target is still appended with empty or partial rules => unrestricted; the edge must install a deny-all rule set or reject the target")
	})
	c.atLeast("C12.F2", "ProcessAccessRules calls in addTarget", n, 1)
}

func derivesErrOf(v ssa.Value, call *ssa.Call) bool {
	if v == call {
		return true
	}
	return derives(v, func(x ssa.Value) bool { return x == call })
}

func writesField(f *ssa.Function, typ, field string) bool {
	found := false
	eachInstr(f, func(i ssa.Instruction) {
		if st, ok := i.(*ssa.Store); ok {
			if _, isF := fieldOf(st.Addr, typ, field); isF {
				found = true
			}
		}
	})
	return found
}

var _ = types.Typ
