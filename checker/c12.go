package main

import (
	"go/token"

	"golang.org/x/tools/go/ssa"
)

func init() {
	register(&propDef{
		ID:      "C12",
		Level:   "other",
		Explain: "Gate dominance and fail-closed decisions, decided on every CFG path; the exported methods (HTTPProxy.ServeHTTP, every ServeTCP, Target.AccessDeniedHTTP / AccessDeniedTCP / Authorized / ProcessAccessRules, the auth schemes' Authorized) are named, everything else is found by role, and a verdict counts wherever it is established (directly, through bool / status-code / error helpers, flags, && and ||, in the entry point or in a helper it calls): (G1) every upstream-contact site and every redirect reachable from HTTPProxy.ServeHTTP lies behind AccessDeniedHTTP()==false and Authorized()==true, both applied to the target the route lookup returned; (G2) in every tcp.Handler implementation every dial lies behind AccessDeniedTCP()==false on the looked-up target, and the dialled address stems from that very lookup; (S1) the deny edges answer 403/401 and go on to no gated effect; (F1) decision functions deny on anomaly edges (nil parsed IP with rules configured, unknown auth scheme) and AccessDeniedHTTP/TCP answer `not denied` without consulting the per-address decision only on the no-rules edge and the trusted anomalies; (F2) wherever ProcessAccessRules is called, its error edge installs a deny-all rule set (an allow tag without blocks) or gives the target up; (F3) the per-address decision (bool function taking a net.IP that consults the target's rule set by tag and net.IPNet.Contains - the rule set being the field of route.Target that ProcessAccessRules fills, any value of that field's named type, or a parameter fed with it; a wrapper has the decision table of what it wraps): with the allow tag present `not denied` only under Contains==true and `denied` otherwise, with the deny tag present `denied` under Contains==true, each of these outcomes present; (X1) the X-Forwarded-For walk puts elements to the per-address decision, can be left early only by denying, a denying verdict is returned by AccessDeniedHTTP/TCP, and both the peer address and the X-Forwarded-For elements are put to it; (A1) an auth scheme (an implementation of the interface method through which Target.Authorized gets its verdict) answers true only from the Match of its credential store on this request, or as the positive verdict of another scheme it asks; (X1) the text of an X-Forwarded-For element handed to net.ParseIP is the element itself (split/trimmed at characters no address contains), with no substring surgery on the way. Not decided: CIDR arithmetic of net.IPNet.Contains, credential checking of the auth schemes (values).",
		Run:     runC12,
		Trusted: []string{"net/http sets Request.RemoteAddr to ip:port (SplitHostPort cannot fail there)", "all fabio listeners yield *net.TCPAddr remote addresses", "net.IPNet.Contains implements CIDR membership"},
		Mutants: append([]mutant{
			{Name: "port stripped from X-Forwarded-For elements at the last colon", File: "route/access_rules.go", Old: "\t\t\txip = strings.TrimSpace(xip)\n", New: "\t\t\txip = strings.TrimSpace(xip)\n\t\t\tif i := strings.LastIndexByte(xip, ':'); i > 0 {\n\t\t\t\txip = xip[:i]\n\t\t\t}\n", Expect: "C12.X1"},
			{Name: "benign: element trimmed with strings.Trim", File: "route/access_rules.go", Old: "\t\t\txip = strings.TrimSpace(xip)\n", New: "\t\t\txip = strings.Trim(xip, \" \\t\")\n", Expect: ""},

			{Name: "drop Authorized test", File: "proxy/http_proxy.go", Old: "if !t.Authorized(r, w, p.AuthSchemes) {", New: "if false {", Expect: "C12.G1"},
			{Name: "drop access test", File: "proxy/http_proxy.go", Old: "if t.AccessDeniedHTTP(r) {", New: "if false {", Expect: "C12.G1"},
			{Name: "deny without return", File: "proxy/http_proxy.go", Old: "http.Error(w, \"access denied\", http.StatusForbidden)\n\t\treturn", New: "http.Error(w, \"access denied\", http.StatusForbidden)", Expect: "C12.G1"},
			{Name: "401<->403", File: "proxy/http_proxy.go", Old: "http.Error(w, \"access denied\", http.StatusForbidden)", New: "http.Error(w, \"access denied\", http.StatusUnauthorized)", Expect: "C12.S1"},
			{Name: "dial before AccessDeniedTCP (tcp)", File: "proxy/tcp/tcp_proxy.go", Old: "\tif t.AccessDeniedTCP(in) {\n\t\treturn nil\n\t}\n\n\tout, err := net.DialTimeout(\"tcp\", addr, p.DialTimeout)", New: "\tout, err := net.DialTimeout(\"tcp\", addr, p.DialTimeout)\n\tif t.AccessDeniedTCP(in) {\n\t\treturn nil\n\t}\n", Expect: "C12.G2"},
			{Name: "no gate in dynamic proxy", File: "proxy/tcp/tcp_dynamic_proxy.go", Old: "if t.AccessDeniedTCP(in) {", New: "if false {", Expect: "C12.G2"},
			{Name: "inverted gate in sni proxy", File: "proxy/tcp/sni_proxy.go", Old: "if t.AccessDeniedTCP(in) {", New: "if !t.AccessDeniedTCP(in) {", Expect: "C12.G2"},
			{Name: "unknown scheme allows", File: "route/auth.go", Old: "log.Printf(\"[ERROR] unknown auth scheme '%s'\\n\", t.AuthScheme)\n\t\treturn false", New: "log.Printf(\"[ERROR] unknown auth scheme '%s'\\n\", t.AuthScheme)\n\t\treturn true", Expect: "C12.F1"},
			{Name: "nil ip allows again", File: "route/access_rules.go", Old: "if ip == nil {\n\t\treturn true\n\t}", New: "if ip == nil {\n\t\treturn false\n\t}", Expect: "C12.F1"},
			{Name: "allow list falls through to allow", File: "route/access_rules.go", Old: "\t\tlog.Printf(\"[INFO] route rules denied access from %s to %s\",\n\t\t\tip.String(), t.URL.String())\n\t\treturn true\n\t}\n\n\t// still going", New: "\t\tlog.Printf(\"[INFO] route rules denied access from %s to %s\",\n\t\t\tip.String(), t.URL.String())\n\t\treturn false\n\t}\n\n\t// still going", Expect: "C12.F3"},
			{Name: "deny match allows", File: "route/access_rules.go", Old: "\t\t\t\tlog.Printf(\"[INFO] route rules denied access from %s to %s\",\n\t\t\t\t\tip.String(), t.URL.String())\n\t\t\t\treturn true", New: "\t\t\t\tlog.Printf(\"[INFO] route rules denied access from %s to %s\",\n\t\t\t\t\tip.String(), t.URL.String())\n\t\t\t\treturn false", Expect: "C12.F3"},
			{Name: "break in XFF loop", File: "route/access_rules.go", Old: "\t\t\tif xip == host {\n\t\t\t\tcontinue\n\t\t\t}", New: "\t\t\tif xip == host {\n\t\t\t\tbreak\n\t\t\t}", Expect: "C12.X1"},
			{Name: "append target despite rule error", File: "route/route.go", Old: "\t\t\tt.denyAll()\n", New: "", Expect: "C12.F2"},
			{Name: "basic auth answers from a cache of accepted headers", File: "auth/basic.go", Old: "\treturn b.secrets.Match(user, password)", New: "\tif h := request.Header.Get(\"Authorization\"); h != \"\" && h == b.realm {\n\t\treturn true\n\t}\n\treturn b.secrets.Match(user, password)", Expect: "C12.A1"},
			{Name: "benign: both gates behind one helper", File: "proxy/http_proxy.go", Old: "\tif t.AccessDeniedHTTP(r) {\n\t\thttp.Error(w, \"access denied\", http.StatusForbidden)\n\t\treturn\n\t}\n\n\tif !t.Authorized(r, w, p.AuthSchemes) {\n\t\thttp.Error(w, \"authorization failed\", http.StatusUnauthorized)\n\t\treturn\n\t}\n", New: "\tif !p.admit(w, r, t) {\n\t\treturn\n\t}\n", Expect: "",
				More: []repl{{"func key(code int) string {", "func (p *HTTPProxy) admit(w http.ResponseWriter, r *http.Request, t *route.Target) bool {\n\tif t.AccessDeniedHTTP(r) {\n\t\thttp.Error(w, \"access denied\", http.StatusForbidden)\n\t\treturn false\n\t}\n\tif !t.Authorized(r, w, p.AuthSchemes) {\n\t\thttp.Error(w, \"authorization failed\", http.StatusUnauthorized)\n\t\treturn false\n\t}\n\treturn true\n}\n\nfunc key(code int) string {"}}},
			{Name: "helper that admits on the access-denied edge", File: "proxy/http_proxy.go", Old: "\tif t.AccessDeniedHTTP(r) {\n\t\thttp.Error(w, \"access denied\", http.StatusForbidden)\n\t\treturn\n\t}\n\n\tif !t.Authorized(r, w, p.AuthSchemes) {\n\t\thttp.Error(w, \"authorization failed\", http.StatusUnauthorized)\n\t\treturn\n\t}\n", New: "\tif !p.admit(w, r, t) {\n\t\treturn\n\t}\n", Expect: "C12.G1",
				More: []repl{{"func key(code int) string {", "func (p *HTTPProxy) admit(w http.ResponseWriter, r *http.Request, t *route.Target) bool {\n\tif t.AccessDeniedHTTP(r) {\n\t\tw.Header().Set(\"X-Denied\", \"1\")\n\t}\n\tif !t.Authorized(r, w, p.AuthSchemes) {\n\t\thttp.Error(w, \"authorization failed\", http.StatusUnauthorized)\n\t\treturn false\n\t}\n\treturn true\n}\n\nfunc key(code int) string {"}}},
			{Name: "benign: gate helper", File: "proxy/http_proxy.go", Old: "\tif t.AccessDeniedHTTP(r) {\n\t\thttp.Error(w, \"access denied\", http.StatusForbidden)\n\t\treturn\n\t}", New: "\tdenied := t.AccessDeniedHTTP(r)\n\tif denied {\n\t\thttp.Error(w, \"access denied\", http.StatusForbidden)\n\t\treturn\n\t}", Expect: ""},
		}, append(c12MoreMutants(), append(c12Round2Mutants(), c12Round5Mutants()...)...)...),
	})
}

func runC12(c *Ctx) {
	runGateHTTP(c, "C12.G1", true)
	runC12G2(c)
	runC12F(c)
	runC12A1(c)
	runC12X1(c)
}

// lookupResult: v is the result of the dynamic call of a struct field named Lookup.
func isLookupFieldCall(v ssa.Value) bool {
	call, ok := v.(*ssa.Call)
	if !ok || call.Call.IsInvoke() || call.Call.StaticCallee() != nil {
		return false
	}
	u, ok := call.Call.Value.(*ssa.UnOp)
	if !ok || u.Op != token.MUL {
		return false
	}
	fa, ok := u.X.(*ssa.FieldAddr)
	return ok && fieldName(fa.X.Type(), fa.Field) == "Lookup"
}

func derivesFromLookup(v ssa.Value) bool {
	return derives(v, isLookupFieldCall)
}
