package main

// C17 typestate engine. The order rules of the property (headers fixed before they are sent; pooled writer Reset
// before it is used; Close before Put; nothing after Put) are evaluated on the paths of each method of the response
// writer with the same-package helpers it calls INLINED (depth-bounded, context-sensitive): it does not matter
// whether a landmark is in the method, in a helper, or whether two landmarks moved together into one helper.

import (
	"go/token"
	"go/types"
	"sort"
	"strings"

	"golang.org/x/tools/go/ssa"
)

// c17st is the abstract state along one path.
type c17st struct {
	del    bool  // Content-Length deleted
	enc    bool  // Content-Encoding: gzip set
	inst   bool  // the gzip writer was made the active writer
	sent   bool  // the wrapped WriteHeader ran while the headers were not (yet) fixed
	reset  bool  // the pooled writer was Reset to the wrapped writer since it was taken from the pool
	closed bool  // gzip.Writer.Close ran
	put    bool  // the writer went back to the pool
	dm     uint8 // which of the current function's defer statements have been executed on this path
	gz     uint8 // what the branches taken so far say about the gzip-writer field: 0 nothing, c17gzNil, c17gzSet
}

const (
	c17gzNil uint8 = 1 // the response was passed through: no writer was taken from the pool
	c17gzSet uint8 = 2 // a pooled writer is held
)

type c17event int

const (
	evNone c17event = iota
	evDel
	evEnc
	evInstall
	evSend
	evGet
	evReset
	evBadReset
	evUse   // Write through the decided writer
	evClose // gzip.Writer.Close
	evGzUse // any other method of the gzip writer
	evPut
	evGzWrite // (selected representation) the body written straight into the gzip-writer field
)

type c17site struct {
	rule, what, detail string
	pos                token.Pos
	fn                 *ssa.Function
	bad                bool
}

type c17flow struct {
	k     *c17kit
	sites map[string]*c17site // every landmark evaluated, keyed by rule|construct
	order []string
	memo  map[c17memoKey][]c17st
	stack map[*ssa.Function]bool
	nEv   map[c17event]int
	inst  map[ssa.Instruction]bool // where the gzip writer becomes the active writer
}

type c17memoKey struct {
	fn *ssa.Function
	in c17st
}

func newC17flow(k *c17kit) *c17flow {
	e := &c17flow{k: k, sites: map[string]*c17site{}, memo: map[c17memoKey][]c17st{}, stack: map[*ssa.Function]bool{}, nEv: map[c17event]int{}, inst: map[ssa.Instruction]bool{}}
	// the installation point: the store into the decided-writer field; when one store serves both arms (the value was
	// chosen before, `w := plain; if compress { w = gz }; grw.writer = w`), the point where the gzip writer is chosen
	eachInstrOf(k.fns, func(_ *ssa.Function, i ssa.Instruction) {
		st, ok := i.(*ssa.Store)
		if ok && k.sel {
			if k.isInstall(i) {
				e.inst[i] = true
			}
			return
		}
		if !ok || !k.isW(st.Addr) {
			return
		}
		ls := k.origins(st.Val, k.isGzipValue)
		all := len(ls) > 0
		for _, l := range ls {
			if !k.isGzipValue(l.v) {
				all = false
			}
		}
		if all {
			e.inst[i] = true
			return
		}
		for _, l := range ls {
			if li, isI := l.v.(ssa.Instruction); isI && k.isGzipValue(l.v) {
				e.inst[li] = true
			}
		}
	})
	return e
}

func (e *c17flow) site(rule string, i ssa.Instruction, what, detail string, ok bool) {
	construct := fnKey(i.Parent()) + "|" + what
	key := rule + "|" + construct
	s := e.sites[key]
	if s == nil {
		s = &c17site{rule: rule, what: construct, detail: detail, pos: i.Pos(), fn: i.Parent()}
		e.sites[key] = s
		e.order = append(e.order, key)
	}
	if !ok {
		s.bad = true
	}
}

func (e *c17flow) emit(c *Ctx) {
	sort.Strings(e.order)
	for _, key := range e.order {
		s := e.sites[key]
		c.check(s.rule, s.what, s.pos, !s.bad, s.detail)
	}
}

// ---- landmarks by role ---------------------------------------------------------------------------------------------

// isInstall: a store of a *gzip.Writer into the decided-writer field; in the selected representation (c17_select.go)
// a non-nil store into the gzip-writer field, whose nil-ness is what selects the destination of the body.
func (k *c17kit) isInstall(i ssa.Instruction) bool {
	st, ok := i.(*ssa.Store)
	if ok && k.sel {
		return k.isGz(st.Addr) && !isNilConst(st.Val)
	}
	if !ok || !k.isW(st.Addr) {
		return false
	}
	return k.storesGzip(st)
}

func (k *c17kit) storesGzip(st *ssa.Store) bool {
	for _, l := range k.origins(st.Val, k.isGzipValue) {
		if k.isGzipValue(l.v) {
			return true
		}
	}
	return false
}

// isSend: the wrapped ResponseWriter's WriteHeader.
func (k *c17kit) isSend(i ssa.Instruction) bool {
	cc := callCommon(i)
	return cc != nil && cc.IsInvoke() && cc.Method.Name() == "WriteHeader" && c17typeStr(cc.Value.Type()) == "net/http.ResponseWriter"
}

func c17isPoolPut(i ssa.Instruction) bool {
	cc := callCommon(i)
	return cc != nil && !cc.IsInvoke() && calleeName(cc) == "(*sync.Pool).Put"
}

func c17isPoolGet(i ssa.Instruction) bool {
	cc := callCommon(i)
	return cc != nil && !cc.IsInvoke() && calleeName(cc) == "(*sync.Pool).Get"
}

// wrapsUnderlying: every origin of v is the wrapped ResponseWriter (the field of T, or what was stored into it).
func (k *c17kit) wrapsUnderlying(v ssa.Value) bool {
	ls := k.origins(v, k.isRW)
	if len(ls) == 0 {
		return false
	}
	for _, l := range ls {
		if !k.isRW(l.v) {
			return false
		}
	}
	return true
}

// classify: the event of instruction i. Deferred calls do not happen where they are written: run() replays them at
// the function's RunDefers with deferred == true.
func (e *c17flow) classify(i ssa.Instruction, deferred bool) c17event {
	k := e.k
	if e.inst[i] && !deferred {
		return evInstall
	}
	var cc *ssa.CallCommon
	switch x := i.(type) {
	case *ssa.Call:
		cc = &x.Call
	case *ssa.Defer:
		if !deferred {
			return evNone
		}
		cc = &x.Call
	default:
		return evNone
	}
	if k.isSend(i) {
		return evSend
	}
	if key, _, ok := headerCall(i, "Del"); ok && key == "Content-Length" {
		return evDel
	}
	if key, hc, ok := headerCall(i, "Set"); ok && key == "Content-Encoding" {
		if v, _ := constString(hc.Args[2]); v == "gzip" {
			return evEnc
		}
	}
	if cc.IsInvoke() {
		if cc.Method.Name() == "Write" && k.isWval(cc.Value) {
			return evUse
		}
		return evNone
	}
	switch n := calleeName(cc); {
	case n == "(*sync.Pool).Get":
		return evGet
	case n == "(*sync.Pool).Put":
		return evPut
	case n == "(*compress/gzip.Writer).Reset":
		if len(cc.Args) == 2 && k.wrapsUnderlying(cc.Args[1]) {
			return evReset
		}
		return evBadReset
	case n == "(*compress/gzip.Writer).Close":
		return evClose
	case n == "(*compress/gzip.Writer).Write" && k.sel && len(cc.Args) == 2 && k.isGzLoad(cc.Args[0]):
		return evGzWrite // the body written straight into the pooled writer: a use of the decided writer
	case len(n) > len("(*compress/gzip.Writer).") && n[:len("(*compress/gzip.Writer).")] == "(*compress/gzip.Writer).":
		return evGzUse
	}
	return evNone
}

const (
	c17dDel   = "on the compress edge Del(Content-Length) must happen before the headers are sent: a stale Content-Length truncates or stalls the compressed body"
	c17dEnc   = "on the compress edge Set(Content-Encoding, gzip) must happen before the headers are sent: without it the client shows compressed bytes"
	c17dLate  = "the decision to compress (and with it the header changes) is taken on a path on which the wrapped WriteHeader has already sent the headers"
	c17dReset = "a gzip.Writer taken from the pool still points at the previous response: it must be Reset to this response's writer before it is written to"
	c17dClose = "the gzip stream must be finished (Close writes the last block and the trailer) before the writer is recycled: on this path - through the methods of the response writer and the handler's deferred calls, which run last-in-first-out - sync.Pool.Put is reached while gzip.Writer.Close has not run; another response can take the writer from the pool and Reset it while this one still has to write its tail"
	c17dAfter = "after Put the writer may already serve another response; using it corrupts that response"
)

func (e *c17flow) step(i ssa.Instruction, s c17st, deferred bool) c17st {
	if st, ok := i.(*ssa.Store); ok && e.k.isGz(st.Addr) {
		s.gz = c17gzSet
		if isNilConst(st.Val) {
			s.gz = c17gzNil
		}
	}
	ev := e.classify(i, deferred)
	if ev != evNone {
		e.nEv[ev]++
	}
	switch ev {
	case evDel:
		s.del = true
	case evEnc:
		s.enc = true
	case evGet:
		s.reset = false
	case evReset:
		s.reset = true
	case evBadReset:
		e.site("C17.T2", i, "pooled writer Reset to the wrapped writer", "Reset must point the pooled writer at this response's wrapped ResponseWriter", false)
	case evInstall:
		e.site("C17.H1", i, "compression decided before the headers are sent", c17dLate, !s.sent)
		s.inst = true
	case evSend:
		e.site("C17.H1", i, "Del(Content-Length) before the underlying WriteHeader", c17dDel, !s.inst || s.del)
		e.site("C17.H1", i, "Set(Content-Encoding, gzip) before the underlying WriteHeader", c17dEnc, !s.inst || s.enc)
		if !s.inst {
			s.sent = true
		}
	case evUse:
		e.site("C17.T2", i, "pooled writer Reset to the wrapped writer before use", c17dReset, !s.inst || s.reset)
	case evClose:
		e.site("C17.T2", i, "no use after Put", c17dAfter, !s.put)
		s.closed = true
	case evGzUse:
		e.site("C17.T2", i, "no use after Put", c17dAfter, !s.put)
	case evGzWrite:
		e.site("C17.T2", i, "no use after Put", c17dAfter, !s.put)
		e.site("C17.T2", i, "pooled writer Reset to the wrapped writer before use", c17dReset, !s.inst || s.reset)
	case evPut:
		e.site("C17.T2", i, "Close before Put", c17dClose, s.closed)
		s.put = true
	}
	return s
}

// run explores fn from state in; returns the states at its returns.
func (e *c17flow) run(fn *ssa.Function, in c17st, depth int) []c17st {
	mk := c17memoKey{fn, in}
	if out, ok := e.memo[mk]; ok {
		return out
	}
	// (the memo key includes the caller's defer mask, which is handed back unchanged)
	if e.stack[fn] || depth > 4 || len(fn.Blocks) == 0 {
		return []c17st{in}
	}
	e.stack[fn] = true
	defer delete(e.stack, fn)
	type bs struct {
		b *ssa.BasicBlock
		s c17st
	}
	var defers []*ssa.Defer
	defIdx := map[ssa.Instruction]uint{}
	eachInstr(fn, func(i ssa.Instruction) {
		if d, ok := i.(*ssa.Defer); ok && len(defers) < 8 {
			defIdx[i] = uint(len(defers))
			defers = append(defers, d)
		}
	})
	callerDm := in.dm
	in.dm = 0
	seen := map[bs]bool{}
	outSet := map[c17st]bool{}
	work := []bs{{fn.Blocks[0], in}}
	seen[work[0]] = true
	for len(work) > 0 {
		it := work[len(work)-1]
		work = work[:len(work)-1]
		cur := []c17st{it.s}
		returned := false
		for _, i := range it.b.Instrs {
			var next []c17st
			for _, s := range cur {
				switch x := i.(type) {
				case *ssa.Defer:
					if n, ok := defIdx[i]; ok {
						s.dm |= 1 << n
					}
					next = append(next, s)
				case *ssa.RunDefers:
					// replay the defer statements executed on this path, last first
					states := []c17st{s}
					for n := len(defers) - 1; n >= 0; n-- {
						if s.dm&(1<<uint(n)) == 0 {
							continue
						}
						var after []c17st
						for _, t := range states {
							after = append(after, e.call(defers[n], &defers[n].Call, t, depth, true)...)
						}
						states = after
					}
					next = append(next, states...)
				case *ssa.Call:
					next = append(next, e.call(i, &x.Call, s, depth, false)...)
				default:
					next = append(next, e.step(i, s, false))
				}
			}
			// dedupe
			uniq := map[c17st]bool{}
			cur = cur[:0]
			for _, s := range next {
				if !uniq[s] {
					uniq[s] = true
					cur = append(cur, s)
				}
			}
			if _, ok := i.(*ssa.Return); ok {
				returned = true
			}
		}
		if returned {
			for _, s := range cur {
				outSet[s] = true
			}
			continue
		}
		for idx, succ := range it.b.Succs {
			for _, s := range cur {
				// `if gz != nil` in the method that finishes the stream and again in the method that recycles the writer: the
				// two tests agree, a path that takes the nil arm of one and the non-nil arm of the other does not exist
				if ft, ok := c17edgeFact(it.b, idx); ok {
					if nn, isNil := e.k.gzFact(ft); isNil {
						want := c17gzNil
						if nn {
							want = c17gzSet
						}
						if s.gz != 0 && s.gz != want {
							continue
						}
						s.gz = want
					}
				}
				if n := (bs{succ, s}); !seen[n] {
					seen[n] = true
					work = append(work, n)
				}
			}
		}
	}
	var out []c17st
	uniqOut := map[c17st]bool{}
	for s := range outSet {
		s.dm = callerDm
		if !uniqOut[s] {
			uniqOut[s] = true
			out = append(out, s)
		}
	}
	sort.Slice(out, func(a, b int) bool { return c17stKey(out[a]) < c17stKey(out[b]) })
	e.memo[mk] = out
	return out
}

// call: the effect of one call (or replayed deferred call) in state s: a landmark, or a same-package function inlined.
func (e *c17flow) call(i ssa.Instruction, cc *ssa.CallCommon, s c17st, depth int, deferred bool) []c17st {
	if e.classify(i, deferred) == evNone {
		if callees := e.k.callees(cc); len(callees) > 0 {
			// a call through an interface of the package (or on the decided writer) or of a function value kept in a field:
			// any of the package's implementations may run - the states after each of them are all possible
			var out []c17st
			uniq := map[c17st]bool{}
			for _, g := range callees {
				for _, t := range e.run(g, s, depth+1) {
					if !uniq[t] {
						uniq[t] = true
						out = append(out, t)
					}
				}
			}
			return out
		}
	}
	if ev := e.classify(i, deferred); ev == evNone && e.k.handsOutT(cc) {
		s.gz = 0 // code outside the region gets hold of the response writer: it may run WriteHeader (which takes a writer)
	}
	return []c17st{e.step(i, s, deferred)}
}

// isGzLoad: v is the gzip-writer field, or a local copy of it (`gz := grw.gzipWriter; if gz == nil`).
func (k *c17kit) isGzLoad(v ssa.Value) bool {
	if k.isGz(v) {
		return true
	}
	if !c17isGzipType(v.Type()) {
		return false
	}
	ls := k.origins(v, k.isGz)
	for _, l := range ls {
		if !k.isGz(l.v) {
			return false
		}
	}
	return len(ls) > 0
}

// handsOutT: the call passes the compressing response writer (as itself or boxed in an interface) to its callee.
func (k *c17kit) handsOutT(cc *ssa.CallCommon) bool {
	vals := append([]ssa.Value{}, cc.Args...)
	if cc.IsInvoke() {
		vals = append(vals, cc.Value)
	}
	for _, v := range vals {
		for _, l := range k.origins(v, func(x ssa.Value) bool { return k.isT(x.Type()) }) {
			if k.isT(l.v.Type()) {
				return true
			}
		}
	}
	return false
}

// flowEntries: where the typestate engine starts with an empty state: every method of the response writer that code
// outside the region can call (the interface methods Write, WriteHeader, Close ...), and the handler that creates the
// writer and serves with it. A method all of whose call sites are visible static calls inside the region (the
// unexported `release` that the handler defers next to Close) is NOT evaluated on its own - what it may assume depends
// on what its callers did before - but in the context of each of its callers, where it is inlined.
func (k *c17kit) flowEntries() []*ssa.Function {
	var out []*ssa.Function
	seen := map[*ssa.Function]bool{}
	var add func(f *ssa.Function, d int)
	add = func(f *ssa.Function, d int) {
		if f == nil || seen[f] {
			return
		}
		seen[f] = true
		if d < 4 && k.contextOnly(f) {
			for _, s := range gSites[f] {
				add(s.Parent(), d+1)
			}
			return
		}
		out = append(out, f)
	}
	for _, m := range k.methods {
		add(m, 0)
	}
	for _, sv := range k.serveSites() {
		if len(sv.created) > 0 {
			add(sv.i.Parent(), 0)
		}
	}
	return out
}

func (k *c17kit) contextOnly(f *ssa.Function) bool {
	if f.Parent() == nil && f.Signature.Recv() != nil {
		// a method: never used as a value, and no call through an interface can reach it
		if len(gSites[f]) == 0 || gAddrTaken[f] || k.invokable(f) {
			return false
		}
	} else if !c17closed(f) {
		return false
	}
	for _, s := range gSites[f] {
		if _, isGo := s.(*ssa.Go); isGo || s.Parent() == nil || s.Parent() == f || !k.inRegion(s.Parent()) {
			return false
		}
	}
	return true
}

// callees: the functions of the region that a call may execute: the static callee, the region's implementations of an
// interface method, or the functions a function value can denote (closure, bound method, named function - also when
// the value is kept in a field of a struct of the region). Empty when the call leaves the region or is not resolvable.
func (k *c17kit) callees(cc *ssa.CallCommon) []*ssa.Function {
	var cands []*ssa.Function
	switch {
	case cc.StaticCallee() != nil:
		cands = []*ssa.Function{cc.StaticCallee()}
	case cc.IsInvoke():
		return k.implementations(cc)
	default:
		cands = funcsOf(cc.Value)
		if len(cands) == 0 {
			for _, l := range k.origins(cc.Value, c17isFuncValue) {
				switch x := l.v.(type) {
				case *ssa.MakeClosure:
					if fn, ok := x.Fn.(*ssa.Function); ok {
						cands = append(cands, fn)
					}
				case *ssa.Function:
					cands = append(cands, x)
				default:
					return nil // may be a function we do not see
				}
			}
		}
	}
	var out []*ssa.Function
	seen := map[*ssa.Function]bool{}
	for _, g := range cands {
		g = unwrap(g)
		if len(g.Blocks) == 0 || !k.inRegion(g) {
			return nil
		}
		if !seen[g] {
			seen[g] = true
			out = append(out, g)
		}
	}
	return out
}

func c17isFuncValue(x ssa.Value) bool {
	switch x.(type) {
	case *ssa.MakeClosure, *ssa.Function:
		return true
	}
	return false
}

// implementations: for a call through an interface declared in the region, or through the decided-writer field, the
// methods of the region's types that may be executed (deterministic order).
func (k *c17kit) implementations(cc *ssa.CallCommon) []*ssa.Function {
	if !cc.IsInvoke() {
		return nil
	}
	it, ok := cc.Value.Type().Underlying().(*types.Interface)
	if !ok {
		return nil
	}
	if n := c17namedExact(cc.Value.Type()); (n == nil || !k.inRegionType(n)) && !k.isWval(cc.Value) {
		return nil
	}
	var out []*ssa.Function
	seen := map[*ssa.Function]bool{}
	for _, tn := range k.regionTypes() {
		for _, t := range []types.Type{tn, types.NewPointer(tn)} {
			if !types.Implements(t, it) {
				continue
			}
			sel := k.c.Prog.MethodSets.MethodSet(t).Lookup(cc.Method.Pkg(), cc.Method.Name())
			if sel == nil {
				continue
			}
			f := k.c.Prog.MethodValue(sel)
			if f == nil {
				continue
			}
			f = unwrap(f)
			if len(f.Blocks) > 0 && k.inRegion(f) && !seen[f] {
				seen[f] = true
				out = append(out, f)
			}
			break // *T has the methods of T: one entry per type
		}
	}
	return out
}

// regionTypes: the named non-interface types declared in the region, sorted by name.
func (k *c17kit) regionTypes() []*types.Named {
	if k.types != nil {
		return k.types
	}
	seen := map[*types.Named]bool{}
	add := func(t types.Type) {
		n := c17named(t)
		if n == nil || seen[n] || !k.inRegionType(n) {
			return
		}
		if _, isI := n.Underlying().(*types.Interface); isI {
			return
		}
		seen[n] = true
		k.types = append(k.types, n)
	}
	for _, sp := range k.c.spkgs {
		if p := sp.Pkg.Path(); p != k.pkg.Pkg.Path() && !strings.HasPrefix(p, k.pkg.Pkg.Path()+"/") {
			continue
		}
		for _, m := range sp.Members {
			if tm, ok := m.(*ssa.Type); ok {
				add(tm.Type())
			}
		}
	}
	// types declared inside functions
	eachInstrOf(k.fns, func(_ *ssa.Function, i ssa.Instruction) {
		if mi, ok := i.(*ssa.MakeInterface); ok {
			add(mi.X.Type())
		}
	})
	sort.Slice(k.types, func(a, b int) bool { return k.types[a].String() < k.types[b].String() })
	return k.types
}

func c17stKey(s c17st) int {
	n := 0
	for i, b := range []bool{s.del, s.enc, s.inst, s.sent, s.reset, s.closed, s.put} {
		if b {
			n |= 1 << i
		}
	}
	return n | int(s.dm)<<8 | int(s.gz)<<16
}

// invokable: some call through an interface in the repository can reach method f: same name (an unexported name
// belongs to its package: only an interface of f's own package can have it) and the same parameters and results.
// (c17closed asks gInvoked for the bare name, which makes `release` dynamic as soon as any interface anywhere in
// the repository has a method of that name.)
//
// The interface the call goes through must also be one that the receiver type satisfies (a `Serve(h, r)` method is
// not reached by calls through an interface whose other methods the response writer does not have) - unless some
// struct type embeds the receiver type: then the outer type's method set decides, which is not looked at here.
func (k *c17kit) invokable(f *ssa.Function) bool {
	if v, ok := k.invok[f]; ok {
		return v
	}
	if k.invok == nil {
		k.invok = map[*ssa.Function]bool{}
	}
	var recv types.Type
	if r := f.Signature.Recv(); r != nil {
		if n := c17named(r.Type()); n != nil && !k.embedded(n) {
			recv = types.NewPointer(n) // the method set of *T includes that of T
		}
	}
	found := false
	eachInstrOf(k.c.AllFns, func(_ *ssa.Function, i ssa.Instruction) {
		cc := callCommon(i)
		if found || cc == nil || !cc.IsInvoke() || cc.Method.Name() != f.Name() {
			return
		}
		if !token.IsExported(f.Name()) && (f.Pkg == nil || cc.Method.Pkg() != f.Pkg.Pkg) {
			return
		}
		ms, ok := cc.Method.Type().(*types.Signature)
		if !ok || !types.Identical(ms.Params(), f.Signature.Params()) || !types.Identical(ms.Results(), f.Signature.Results()) || ms.Variadic() != f.Signature.Variadic() {
			return
		}
		if it, isI := cc.Value.Type().Underlying().(*types.Interface); isI && recv != nil && !types.Implements(recv, it) {
			return
		}
		found = true
	})
	k.invok[f] = found
	return found
}

// embedded: some struct type of the program embeds n (or *n): n's methods are then promoted into another method set.
func (k *c17kit) embedded(n *types.Named) bool {
	if v, ok := k.embeds[n]; ok {
		return v
	}
	if k.embeds == nil {
		k.embeds = map[*types.Named]bool{}
	}
	found := false
	var visit func(t types.Type, d int)
	visit = func(t types.Type, d int) {
		if found || t == nil || d > 3 {
			return
		}
		st, ok := t.Underlying().(*types.Struct)
		if !ok {
			return
		}
		for i := 0; i < st.NumFields(); i++ {
			fl := st.Field(i)
			if fl.Embedded() && c17named(fl.Type()) == n {
				found = true
			}
			if _, anon := types.Unalias(fl.Type()).(*types.Struct); anon {
				visit(fl.Type(), d+1)
			}
		}
	}
	for _, sp := range k.c.spkgs {
		for _, m := range sp.Members {
			if tm, ok := m.(*ssa.Type); ok {
				visit(tm.Type(), 0)
			}
		}
	}
	eachInstrOf(k.c.AllFns, func(_ *ssa.Function, i ssa.Instruction) {
		if a, ok := i.(*ssa.Alloc); ok { // struct types declared inside functions, anonymous structs
			if p, isP := a.Type().Underlying().(*types.Pointer); isP {
				visit(p.Elem(), 0)
			}
		}
	})
	k.embeds[n] = found
	return found
}
