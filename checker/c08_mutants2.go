package main

// Overlay mutants of C08 added in the second hardening round: larger restructurings (a function split in two with a
// changed signature, "not found" spelled as a second result / a sentinel / an error, small carrier types with methods,
// a scheme table instead of a switch, one setter shared by request and response headers) - each benign shape with a
// break of the same shape that the rule concerned must still report.

func init() {
	p := props["C08"]
	if p == nil {
		return
	}
	const headers = "proxy/http_headers.go"

	// the scheme detector of proxy/http_headers.go as it is today (replaced as a whole by the variants below)
	const schemeOld = `func scheme(r *http.Request) string {
	xfp := r.Header.Get("X-Forwarded-Proto")
	fwd := r.Header.Get("Forwarded")
	switch {
	case xfp != "" && fwd == "":
		return xfp

	case fwd != "" && xfp == "":
		p := strings.SplitAfterN(fwd, "proto=", 2)
		if len(p) == 1 {
			break
		}
		n := strings.IndexRune(p[1], ';')
		if n >= 0 {
			return p[1][:n]
		}
		return p[1]
	}

	ws := isWebsocketUpgrade(r)
	switch {
	case ws && r.TLS != nil:
		return "wss"
	case ws && r.TLS == nil:
		return "ws"
	case r.TLS != nil:
		return "https"
	default:
		return "http"
	}
}
`
	const connSwitch = `	ws := isWebsocketUpgrade(r)
	switch {
	case ws && r.TLS != nil:
		return "wss"
	case ws && r.TLS == nil:
		return "ws"
	case r.TLS != nil:
		return "https"
	default:
		return "http"
	}
}
`
	// connScheme(websocket, secure bool): the connection half of the split detector
	const connScheme = `
func connScheme(websocket, secure bool) string {
	switch {
	case websocket && secure:
		return "wss"
	case websocket:
		return "ws"
	case secure:
		return "https"
	default:
		return "http"
	}
}
`
	// headerScheme with a second result; NOTFOUND is what the not-found paths return
	headerSchemeOK := func(notFoundInForwarded, notFound string) string {
		return `
func headerScheme(h http.Header) (proto string, ok bool) {
	xfp := h.Get("X-Forwarded-Proto")
	fwd := h.Get("Forwarded")
	switch {
	case xfp != "" && fwd == "":
		return xfp, true
	case fwd != "" && xfp == "":
		_, params, found := strings.Cut(fwd, "proto=")
		if !found {
			` + notFoundInForwarded + `
		}
		proto, _, _ = strings.Cut(params, ";")
		return proto, true
	}
	` + notFound + `
}
`
	}
	splitOK := func(told string) string {
		return `func scheme(r *http.Request) string {
	if proto, ok := headerScheme(r.Header); ok {
		return proto
	}
	return connScheme(` + told + `, r.TLS != nil)
}
`
	}
	const toldUpgrade = `isWebsocketUpgrade(r)`

	// headerScheme returning the empty text for "not found", the caller testing it
	headerSchemeSentinel := `
func headerScheme(h http.Header) string {
	xfp := h.Get("X-Forwarded-Proto")
	fwd := h.Get("Forwarded")
	switch {
	case xfp != "" && fwd == "":
		return xfp
	case fwd != "" && xfp == "":
		if _, params, found := strings.Cut(fwd, "proto="); found {
			proto, _, _ := strings.Cut(params, ";")
			return proto
		}
	}
	return ""
}
`
	// headerScheme returning an error for "not found"
	headerSchemeErr := func(notFoundInForwarded string) string {
		return `
var errNoScheme = errors.New("no scheme recorded by a previous proxy")

func headerScheme(h http.Header) (string, error) {
	xfp := h.Get("X-Forwarded-Proto")
	fwd := h.Get("Forwarded")
	switch {
	case xfp != "" && fwd == "":
		return xfp, nil
	case fwd != "" && xfp == "":
		_, params, found := strings.Cut(fwd, "proto=")
		if !found {
			` + notFoundInForwarded + `
		}
		proto, _, _ := strings.Cut(params, ";")
		return proto, nil
	}
	return "", errors.New("none or both of the headers are set")
}
`
	}
	const schemeErrCaller = `func scheme(r *http.Request) string {
	proto, err := headerScheme(r.Header)
	if err != nil {
		return connScheme(isWebsocketUpgrade(r), r.TLS != nil)
	}
	return proto
}
`
	// one exit, verdict kept in a flag that is merged at the same places as the value
	singleExit := func(cutBranch string) string {
		return `func scheme(r *http.Request) string {
	xfp := r.Header.Get("X-Forwarded-Proto")
	fwd := r.Header.Get("Forwarded")
	var proto string
	found := false
	switch {
	case xfp != "" && fwd == "":
		proto, found = xfp, true
	case fwd != "" && xfp == "":
` + cutBranch + `
	}
	if !found {
		proto = connScheme(isWebsocketUpgrade(r), r.TLS != nil)
	}
	return proto
}
`
	}

	// ---- the scheme detector (A4, X1)
	p.Mutants = append(p.Mutants,
		mutant{Name: "benign: scheme split into headerScheme (proto, ok) and connScheme(websocket, secure bool)", File: headers, Old: schemeOld,
			New: splitOK(toldUpgrade) + headerSchemeOK("break", `return "", false`) + connScheme, Expect: ""},
		mutant{Name: "split scheme: headerScheme reports ok with the empty text when Forwarded has no proto", File: headers, Old: schemeOld,
			New: splitOK(toldUpgrade) + headerSchemeOK(`return "", true`, `return "", false`) + connScheme, Expect: "C08.A4"},
		mutant{Name: "split scheme: connScheme is told 'websocket' from the Connection header", File: headers, Old: schemeOld,
			New: splitOK(`r.Header.Get("Connection") == "Upgrade"`) + headerSchemeOK("break", `return "", false`) + connScheme, Expect: "C08.X1"},
		mutant{Name: "benign: headerScheme returns \"\" for not found and the caller falls back to the connection", File: headers, Old: schemeOld,
			New: "func scheme(r *http.Request) string {\n\tif proto := headerScheme(r.Header); proto != \"\" {\n\t\treturn proto\n\t}\n\treturn connScheme(isWebsocketUpgrade(r), r.TLS != nil)\n}\n" + headerSchemeSentinel + connScheme, Expect: ""},
		mutant{Name: "headerScheme returns \"\" for not found and the caller uses it when Forwarded is set", File: headers, Old: schemeOld,
			New: "func scheme(r *http.Request) string {\n\tif proto := headerScheme(r.Header); proto != \"\" || r.Header.Get(\"Forwarded\") != \"\" {\n\t\treturn proto\n\t}\n\treturn connScheme(isWebsocketUpgrade(r), r.TLS != nil)\n}\n" + headerSchemeSentinel + connScheme, Expect: "C08.A4"},
		mutant{Name: "benign: headerScheme reports not found as an error", File: headers, Old: schemeOld,
			New: schemeErrCaller + headerSchemeErr(`return "", errNoScheme`) + connScheme, Expect: ""},
		mutant{Name: "headerScheme returns (\"\", nil) when Forwarded has no proto", File: headers, Old: schemeOld,
			New: schemeErrCaller + headerSchemeErr(`return "", nil`) + connScheme, Expect: "C08.A4"},
		mutant{Name: "benign: scheme with one exit and a found flag", File: headers, Old: schemeOld,
			New: singleExit("\t\tif _, params, ok := strings.Cut(fwd, \"proto=\"); ok {\n\t\t\tproto, _, _ = strings.Cut(params, \";\")\n\t\t\tfound = true\n\t\t}") + connScheme, Expect: ""},
		mutant{Name: "scheme with one exit: found set although Forwarded has no proto", File: headers, Old: schemeOld,
			New: singleExit("\t\tif _, params, ok := strings.Cut(fwd, \"proto=\"); ok {\n\t\t\tproto, _, _ = strings.Cut(params, \";\")\n\t\t}\n\t\tfound = true") + connScheme, Expect: "C08.A4"},
		mutant{Name: "benign: connection scheme from a package-level table", File: headers, Old: connSwitch,
			New: "\treturn connSchemes[connKind{websocket: isWebsocketUpgrade(r), secure: r.TLS != nil}]\n}\n\ntype connKind struct{ websocket, secure bool }\n\nvar connSchemes = map[connKind]string{\n\t{websocket: true, secure: true}:   \"wss\",\n\t{websocket: true, secure: false}:  \"ws\",\n\t{websocket: false, secure: true}:  \"https\",\n\t{websocket: false, secure: false}: \"http\",\n}\n", Expect: ""},
		mutant{Name: "scheme table indexed by the Connection header", File: headers, Old: connSwitch,
			New: "\treturn connSchemes[connKind{websocket: r.Header.Get(\"Connection\") == \"Upgrade\", secure: r.TLS != nil}]\n}\n\ntype connKind struct{ websocket, secure bool }\n\nvar connSchemes = map[connKind]string{\n\t{websocket: true, secure: true}:   \"wss\",\n\t{websocket: true, secure: false}:  \"ws\",\n\t{websocket: false, secure: true}:  \"https\",\n\t{websocket: false, secure: false}: \"http\",\n}\n", Expect: "C08.X1"},
		mutant{Name: "benign: connection scheme built as \"ws\"/\"http\" plus \"s\"", File: headers, Old: connSwitch,
			New: "\ts := \"http\"\n\tif isWebsocketUpgrade(r) {\n\t\ts = \"ws\"\n\t}\n\tif r.TLS != nil {\n\t\ts += \"s\"\n\t}\n\treturn s\n}\n", Expect: ""},
	)

	// ---- a carrier type for what is known about the client connection (A1, A2, A3, X1, X2, X3)
	const tlsBlock = "\tif cfg.TLSHeader != \"\" {\n\t\tif r.TLS != nil {\n\t\t\tr.Header.Set(cfg.TLSHeader, cfg.TLSHeaderValue)\n\t\t} else {\n\t\t\tr.Header.Del(cfg.TLSHeader)\n\t\t}\n\t}\n"
	carrier := func(lit string) []repl {
		return []repl{
			{"\tremoteIP, _, err := net.SplitHostPort(r.RemoteAddr)\n", "\tc := connOf(r)\n\tremoteIP, _, err := net.SplitHostPort(c.remoteAddr)\n"},
			{"\tws := isWebsocketUpgrade(r)\n\tif ws {\n", "\tif c.websocket {\n"},
			{"\tif r.Header.Get(\"X-Forwarded-Host\") == \"\" && r.Host != \"\" {\n\t\tr.Header.Set(\"X-Forwarded-Host\", r.Host)\n", "\tif r.Header.Get(\"X-Forwarded-Host\") == \"\" && c.host != \"\" {\n\t\tr.Header.Set(\"X-Forwarded-Host\", c.host)\n"},
			{tlsBlock, "\tif cfg.TLSHeader != \"\" {\n\t\tif c.secure {\n\t\t\tr.Header.Set(cfg.TLSHeader, cfg.TLSHeaderValue)\n\t\t} else {\n\t\t\tr.Header.Del(cfg.TLSHeader)\n\t\t}\n\t}\n"},
			{"var tlsver = map[uint16]string{", "// clientConn is what fabio knows about the connection of the client.\ntype clientConn struct {\n\tremoteAddr string\n\thost       string\n\tsecure     bool\n\twebsocket  bool\n}\n\nfunc connOf(r *http.Request) clientConn {\n\treturn " + lit + "\n}\n\nvar tlsver = map[uint16]string{"},
		}
	}
	const nop = "// * TLS connection: Set header with name from `cfg.TLSHeader` to `cfg.TLSHeaderValue`\n"
	p.Mutants = append(p.Mutants,
		mutant{Name: "benign: connection facts carried in a clientConn struct (peer, host, secure, websocket)", File: headers, Old: nop, New: nop, Expect: "",
			More: carrier("clientConn{remoteAddr: r.RemoteAddr, host: r.Host, secure: r.TLS != nil, websocket: isWebsocketUpgrade(r)}")},
		mutant{Name: "clientConn.secure also trusts X-Forwarded-Proto", File: headers, Old: nop, New: nop, Expect: "C08.A1",
			More: carrier("clientConn{remoteAddr: r.RemoteAddr, host: r.Host, secure: r.TLS != nil || r.Header.Get(\"X-Forwarded-Proto\") == \"https\", websocket: isWebsocketUpgrade(r)}")},
		mutant{Name: "clientConn built without the secure field", File: headers, Old: nop, New: nop, Expect: "C08.A1",
			More: carrier("clientConn{remoteAddr: r.RemoteAddr, host: r.Host, websocket: isWebsocketUpgrade(r)}")},
		mutant{Name: "clientConn.websocket told from the derived scheme", File: headers, Old: nop, New: nop, Expect: "C08.X3",
			More: carrier("clientConn{remoteAddr: r.RemoteAddr, host: r.Host, secure: r.TLS != nil, websocket: strings.HasPrefix(scheme(r), \"ws\")}")},
		mutant{Name: "clientConn.remoteAddr taken from X-Real-Ip", File: headers, Old: nop, New: nop, Expect: "C08.A1",
			More: carrier("clientConn{remoteAddr: r.Header.Get(\"X-Real-Ip\") + \":0\", host: r.Host, secure: r.TLS != nil, websocket: isWebsocketUpgrade(r)}")},
		mutant{Name: "clientConn.host taken from the upstream URL", File: headers, Old: nop, New: nop, Expect: "C08.A2",
			More: carrier("clientConn{remoteAddr: r.RemoteAddr, host: r.URL.Host, secure: r.TLS != nil, websocket: isWebsocketUpgrade(r)}")},
	)

	// ---- the TLS header as a small type with a method; the connection state carried as a pointer field
	tlsMarker := func(call string) string {
		return "\t" + call + "\n\n\treturn nil\n}\n\n// tlsMarker tells the upstream whether the client used TLS.\ntype tlsMarker struct {\n\tname, value string\n}\n\nfunc (m tlsMarker) mark(h http.Header, secure bool) {\n\tif m.name == \"\" {\n\t\treturn\n\t}\n\tif !secure {\n\t\th.Del(m.name)\n\t\treturn\n\t}\n\th.Set(m.name, m.value)\n}\n"
	}
	tlsOld := tlsBlock + "\n\treturn nil\n}\n"
	connState := func(lit string) string {
		return "\tcs := " + lit + "\n\tif cfg.TLSHeader != \"\" {\n\t\tif cs.tls != nil {\n\t\t\tr.Header.Set(cfg.TLSHeader, cfg.TLSHeaderValue)\n\t\t} else {\n\t\t\tr.Header.Del(cfg.TLSHeader)\n\t\t}\n\t}\n\n\treturn nil\n}\n\ntype connState struct {\n\tpeer string\n\ttls  *tls.ConnectionState\n}\n"
	}
	p.Mutants = append(p.Mutants,
		mutant{Name: "benign: TLS header written by a method of a tlsMarker{name, value} type", File: headers, Old: tlsOld,
			New: tlsMarker("tlsMarker{name: cfg.TLSHeader, value: cfg.TLSHeaderValue}.mark(r.Header, r.TLS != nil)"), Expect: ""},
		mutant{Name: "tlsMarker is told 'secure' from the derived scheme", File: headers, Old: tlsOld,
			New: tlsMarker("tlsMarker{name: cfg.TLSHeader, value: cfg.TLSHeaderValue}.mark(r.Header, scheme(r) == \"https\")"), Expect: "C08.A1"},
		mutant{Name: "tlsMarker keeps the value the client sent", File: headers, Old: tlsOld,
			New: tlsMarker("tlsMarker{name: cfg.TLSHeader, value: r.Header.Get(cfg.TLSHeader)}.mark(r.Header, r.TLS != nil)"), Expect: "C08.A1"},
		mutant{Name: "benign: connection state carried in a struct field (connState.tls)", File: headers, Old: tlsOld,
			New: connState("connState{peer: remoteIP, tls: r.TLS}"), Expect: ""},
		mutant{Name: "connState built without the tls field", File: headers, Old: tlsOld,
			New: connState("connState{peer: remoteIP}"), Expect: "C08.A1"},
	)

	// ---- one setter shared by the request and the response headers (S1 through a helper parameter)
	shared := func(stsCond string) []repl {
		return []repl{
			{"\tif r.TLS != nil && cfg.STSHeader.MaxAge > 0 {\n", stsCond},
			{"w.Header().Set(\"Strict-Transport-Security\", sts)", "setHeader(w.Header(), \"Strict-Transport-Security\", sts)"},
			{"r.Header.Set(\"X-Forwarded-Host\", r.Host)", "setHeader(r.Header, \"X-Forwarded-Host\", r.Host)"},
			{"r.Header.Set(\"Forwarded\", fwd)", "setHeader(r.Header, \"Forwarded\", fwd)"},
			{"var tlsver = map[uint16]string{", "func setHeader(h http.Header, key, value string) {\n\th.Set(key, value)\n}\n\nvar tlsver = map[uint16]string{"},
		}
	}
	p.Mutants = append(p.Mutants,
		mutant{Name: "benign: one setHeader(h, key, value) helper for request and response headers", File: headers, Old: "r.Header.Set(\"X-Real-Ip\", remoteIP)", New: "setHeader(r.Header, \"X-Real-Ip\", remoteIP)", Expect: "",
			More: shared("\tif r.TLS != nil && cfg.STSHeader.MaxAge > 0 {\n")},
		mutant{Name: "shared setHeader helper: HSTS without the TLS test", File: headers, Old: "r.Header.Set(\"X-Real-Ip\", remoteIP)", New: "setHeader(r.Header, \"X-Real-Ip\", remoteIP)", Expect: "C08.S1",
			More: shared("\tif cfg.STSHeader.MaxAge > 0 {\n")},
	)

	// ---- the Forwarded value built by a small type (A3 without a "for=" literal)
	fwdOld := "\tfwd := r.Header.Get(\"Forwarded\")\n\tif fwd == \"\" {\n\t\tfwd = \"for=\" + remoteIP + \"; proto=\" + proto\n\t}\n\tif cfg.LocalIP != \"\" {\n\t\tfwd += \"; by=\" + cfg.LocalIP\n\t}\n\tif r.Proto != \"\" {\n\t\tfwd += \"; httpproto=\" + strings.ToLower(r.Proto)\n\t}\n"
	fwdType := func(peer string) []repl {
		return []repl{
			{"\t\tfwd += \"; tlsver=\" + v\n", "\t\tfwd.add(\"tlsver\", v)\n"},
			{"\t\tfwd += \"; tlscipher=\" + uint16base16(r.TLS.CipherSuite)\n", "\t\tfwd.add(\"tlscipher\", uint16base16(r.TLS.CipherSuite))\n"},
			{"r.Header.Set(\"Forwarded\", fwd)", "r.Header.Set(\"Forwarded\", fwd.String())"},
			{"var tlsver = map[uint16]string{", "// forwarded builds the value of the Forwarded header.\ntype forwarded struct {\n\tprior  string\n\tparams []string\n}\n\nfunc (f *forwarded) add(name, value string) {\n\tf.params = append(f.params, name+\"=\"+value)\n}\n\nfunc (f *forwarded) String() string {\n\tif f.prior == \"\" {\n\t\treturn strings.Join(f.params, \"; \")\n\t}\n\treturn strings.Join(append([]string{f.prior}, f.params...), \"; \")\n}\n\nvar tlsver = map[uint16]string{"},
		}
	}
	fwdNew := func(peer string) string {
		return "\tfwd := forwarded{prior: r.Header.Get(\"Forwarded\")}\n\tif fwd.prior == \"\" {\n\t\tfwd.add(\"for\", " + peer + ")\n\t\tfwd.add(\"proto\", proto)\n\t}\n\tif cfg.LocalIP != \"\" {\n\t\tfwd.add(\"by\", cfg.LocalIP)\n\t}\n\tif r.Proto != \"\" {\n\t\tfwd.add(\"httpproto\", strings.ToLower(r.Proto))\n\t}\n"
	}
	p.Mutants = append(p.Mutants,
		mutant{Name: "benign: Forwarded value built by a forwarded{prior, params} type", File: headers, Old: fwdOld, New: fwdNew("remoteIP"), Expect: "", More: fwdType("")},
		mutant{Name: "forwarded type: for= is the first X-Forwarded-For entry", File: headers, Old: fwdOld,
			New: fwdNew("strings.TrimSpace(strings.Split(r.Header.Get(\"X-Forwarded-For\")+\",\"+remoteIP, \",\")[0])"), Expect: "C08.A3", More: fwdType("")},
	)

	// ---- a wrapper type around the request's header map with get / set / del / setDefault methods
	wrapper := func(test string) []repl {
		return []repl{
			{"\tif r.Header.Get(\"X-Real-Ip\") == \"\" {\n\t\tr.Header.Set(\"X-Real-Ip\", remoteIP)\n\t}\n", "\th.setDefault(\"X-Real-Ip\", remoteIP)\n"},
			{"\tif r.Header.Get(\"X-Forwarded-Port\") == \"\" {\n\t\tr.Header.Set(\"X-Forwarded-Port\", localPort(r))\n\t}\n", "\th.setDefault(\"X-Forwarded-Port\", localPort(r))\n"},
			{"r.Header.Set(cfg.ClientIPHeader, remoteIP)", "h.set(cfg.ClientIPHeader, remoteIP)"},
			{"r.Header.Set(cfg.TLSHeader, cfg.TLSHeaderValue)", "h.set(cfg.TLSHeader, cfg.TLSHeaderValue)"},
			{"r.Header.Del(cfg.TLSHeader)", "h.del(cfg.TLSHeader)"},
			{"r.Header.Set(\"Forwarded\", fwd)", "h.set(\"Forwarded\", fwd)"},
			{"var tlsver = map[uint16]string{", "// reqHeaders wraps the header map of the request.\ntype reqHeaders struct {\n\th http.Header\n}\n\nfunc (rh *reqHeaders) get(key string) string { return rh.h.Get(key) }\n\nfunc (rh *reqHeaders) set(key, value string) { rh.h.Set(key, value) }\n\nfunc (rh *reqHeaders) del(key string) { rh.h.Del(key) }\n\nfunc (rh *reqHeaders) setDefault(key, value string) {\n\tif " + test + " {\n\t\trh.set(key, value)\n\t}\n}\n\nvar tlsver = map[uint16]string{"},
		}
	}
	const peerLine = "\tremoteIP, _, err := net.SplitHostPort(r.RemoteAddr)\n"
	p.Mutants = append(p.Mutants,
		mutant{Name: "benign: request headers behind a reqHeaders wrapper type (get/set/del/setDefault)", File: headers, Old: peerLine, New: "\th := &reqHeaders{h: r.Header}\n" + peerLine, Expect: "",
			More: wrapper("rh.get(key) == \"\"")},
		mutant{Name: "reqHeaders.setDefault tests X-Forwarded-For instead of the key it writes", File: headers, Old: peerLine, New: "\th := &reqHeaders{h: r.Header}\n" + peerLine, Expect: "C08.A2",
			More: wrapper("rh.get(\"X-Forwarded-For\") == \"\"")},
		mutant{Name: "reqHeaders.setDefault overwrites when the value differs", File: headers, Old: peerLine, New: "\th := &reqHeaders{h: r.Header}\n" + peerLine, Expect: "C08.A2",
			More: wrapper("rh.get(key) != value")},
	)

	// ---- the Forwarded value assembled in a strings.Builder
	builder := func(peer string) string {
		return "\tvar fwd strings.Builder\n\tif prior := r.Header.Get(\"Forwarded\"); prior != \"\" {\n\t\tfwd.WriteString(prior)\n\t} else {\n\t\tfwd.WriteString(\"for=\")\n\t\tfwd.WriteString(" + peer + ")\n\t\tfwd.WriteString(\"; proto=\")\n\t\tfwd.WriteString(proto)\n\t}\n\tif cfg.LocalIP != \"\" {\n\t\tfwd.WriteString(\"; by=\")\n\t\tfwd.WriteString(cfg.LocalIP)\n\t}\n\tif r.Proto != \"\" {\n\t\tfwd.WriteString(\"; httpproto=\")\n\t\tfwd.WriteString(strings.ToLower(r.Proto))\n\t}\n"
	}
	builderMore := []repl{
		{"\t\tfwd += \"; tlsver=\" + v\n", "\t\tfwd.WriteString(\"; tlsver=\" + v)\n"},
		{"\t\tfwd += \"; tlscipher=\" + uint16base16(r.TLS.CipherSuite)\n", "\t\tfwd.WriteString(\"; tlscipher=\" + uint16base16(r.TLS.CipherSuite))\n"},
		{"r.Header.Set(\"Forwarded\", fwd)", "r.Header.Set(\"Forwarded\", fwd.String())"},
	}
	p.Mutants = append(p.Mutants,
		mutant{Name: "benign: Forwarded value assembled in a strings.Builder", File: headers, Old: fwdOld, New: builder("remoteIP"), Expect: "", More: builderMore},
		mutant{Name: "strings.Builder: for= written from X-Real-Ip", File: headers, Old: fwdOld, New: builder("r.Header.Get(\"X-Real-Ip\")"), Expect: "C08.A3", More: builderMore},
	)

	// ---- handler selection over a request-kind enum computed by a classifier (X3 through a non-boolean verdict)
	const httpProxy = "proxy/http_proxy.go"
	kindMore := func(first, second string) []repl {
		return []repl{
			{"\tcase accept == \"text/event-stream\":\n", "\tcase kindEventStream:\n"},
			{"\taccept := r.Header.Get(\"Accept\")\n", ""},
			{"\nfunc key(code int) string {", "\n// reqKind tells how a request has to be forwarded.\ntype reqKind int\n\nconst (\n\tkindPlain reqKind = iota\n\tkindWebsocket\n\tkindEventStream\n)\n\nfunc kindOf(r *http.Request) reqKind {\n\tswitch {\n" + first + second + "\tdefault:\n\t\treturn kindPlain\n\t}\n}\n\nfunc key(code int) string {"},
		}
	}
	const caseWS = "\tcase isWebsocketUpgrade(r):\n\t\treturn kindWebsocket\n"
	const caseSSE = "\tcase r.Header.Get(\"Accept\") == \"text/event-stream\":\n\t\treturn kindEventStream\n"
	const selOld = "\tvar h http.Handler\n\tswitch {\n\tcase isWebsocketUpgrade(r):\n"
	const selNew = "\tvar h http.Handler\n\tswitch kindOf(r) {\n\tcase kindWebsocket:\n"
	p.Mutants = append(p.Mutants,
		mutant{Name: "benign: handler selected by a request-kind enum (websocket classified first)", File: httpProxy, Old: selOld, New: selNew, Expect: "", More: kindMore(caseWS, caseSSE)},
		mutant{Name: "request-kind enum: event-stream classified before websocket", File: httpProxy, Old: selOld, New: selNew, Expect: "C08.X3", More: kindMore(caseSSE, caseWS)},
	)

	// ---- defaults applied by a loop over a literal table of {key, val} (A2 per element of the table)
	const portHost = "\tif r.Header.Get(\"X-Forwarded-Port\") == \"\" {\n\t\tr.Header.Set(\"X-Forwarded-Port\", localPort(r))\n\t}\n\n\tif r.Header.Get(\"X-Forwarded-Host\") == \"\" && r.Host != \"\" {\n\t\tr.Header.Set(\"X-Forwarded-Host\", r.Host)\n\t}\n"
	table := func(host, test string) string {
		return "\tfor _, d := range []struct{ key, val string }{\n\t\t{\"X-Forwarded-Port\", localPort(r)},\n\t\t{\"X-Forwarded-Host\", " + host + "},\n\t} {\n\t\tif " + test + " {\n\t\t\tr.Header.Set(d.key, d.val)\n\t\t}\n\t}\n"
	}
	p.Mutants = append(p.Mutants,
		mutant{Name: "benign: X-Forwarded-Port/-Host defaults applied by a loop over a literal table", File: headers, Old: portHost, New: table("r.Host", "d.val != \"\" && r.Header.Get(d.key) == \"\""), Expect: ""},
		mutant{Name: "defaults table: X-Forwarded-Host row holds the upstream host", File: headers, Old: portHost, New: table("r.URL.Host", "d.val != \"\" && r.Header.Get(d.key) == \"\""), Expect: "C08.A2"},
		mutant{Name: "defaults table: rows written without the absent test", File: headers, Old: portHost, New: table("r.Host", "d.val != \"\""), Expect: "C08.A2"},
		mutant{Name: "defaults table: absent test on another column", File: headers, Old: portHost, New: table("r.Host", "d.val != \"\" && r.Header.Get(d.val) == \"\""), Expect: "C08.A2"},
	)

	// ---- a helper that performs the TLS Set, called from two places, each under its own r.TLS != nil test
	twoSites := func(first string) []repl {
		return []repl{
			{"\tif r.Header.Get(\"X-Real-Ip\") == \"\" {\n", first + "\tif r.Header.Get(\"X-Real-Ip\") == \"\" {\n"},
			{"var tlsver = map[uint16]string{", "func markTLS(r *http.Request, cfg config.Proxy) {\n\tr.Header.Set(cfg.TLSHeader, cfg.TLSHeaderValue)\n}\n\nvar tlsver = map[uint16]string{"},
		}
	}
	const tlsSetOld = "\t\tif r.TLS != nil {\n\t\t\tr.Header.Set(cfg.TLSHeader, cfg.TLSHeaderValue)\n\t\t} else {"
	const tlsSetNew = "\t\tif r.TLS != nil {\n\t\t\tmarkTLS(r, cfg)\n\t\t} else {"
	p.Mutants = append(p.Mutants,
		mutant{Name: "benign: TLS Set in a helper with two call sites, each on its own r.TLS != nil edge", File: headers, Old: tlsSetOld, New: tlsSetNew, Expect: "",
			More: twoSites("\tif cfg.TLSHeader != \"\" && r.TLS != nil {\n\t\tmarkTLS(r, cfg)\n\t}\n")},
		mutant{Name: "TLS Set helper: second call site without the TLS test", File: headers, Old: tlsSetOld, New: tlsSetNew, Expect: "C08.A1",
			More: twoSites("\tif cfg.TLSHeader != \"\" && r.Header.Get(\"X-Forwarded-Proto\") == \"https\" {\n\t\tmarkTLS(r, cfg)\n\t}\n")},
	)

	// ---- the client-IP Set in a helper with two call sites, one of them only when the client sent none
	p.Mutants = append(p.Mutants,
		mutant{Name: "client-IP helper with two call sites, one of them only when the header is absent", File: headers, Old: "\t\tr.Header.Set(cfg.ClientIPHeader, remoteIP)\n\t}\n", New: "\t\tif r.TLS != nil {\n\t\t\tforcePeer(r, cfg, remoteIP)\n\t\t} else if r.Header.Get(cfg.ClientIPHeader) == \"\" {\n\t\t\tforcePeer(r, cfg, remoteIP)\n\t\t}\n\t}\n", Expect: "C08.A1",
			More: []repl{{"var tlsver = map[uint16]string{", "func forcePeer(r *http.Request, cfg config.Proxy, ip string) {\n\tr.Header.Set(cfg.ClientIPHeader, ip)\n}\n\nvar tlsver = map[uint16]string{"}}},
		mutant{Name: "benign: client-IP helper with two call sites (TLS and plain)", File: headers, Old: "\t\tr.Header.Set(cfg.ClientIPHeader, remoteIP)\n\t}\n", New: "\t\tif r.TLS != nil {\n\t\t\tforcePeer(r, cfg, remoteIP)\n\t\t} else {\n\t\t\tforcePeer(r, cfg, remoteIP)\n\t\t}\n\t}\n", Expect: "",
			More: []repl{{"var tlsver = map[uint16]string{", "func forcePeer(r *http.Request, cfg config.Proxy, ip string) {\n\tr.Header.Set(cfg.ClientIPHeader, ip)\n}\n\nvar tlsver = map[uint16]string{"}}},
	)
}
