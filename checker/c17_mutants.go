package main

// Overlay mutants of C17 added while hardening the rules: behaviour-preserving rewrites (Expect "") of kinds that are
// not in the benign corpus, and breaking changes that exercise every rewritten rule.

const c17file = "proxy/gzip/gzip_handler.go"

const (
	c17srcHandlerBody = "\t\tif acceptsGzip(r) {\n\t\t\tgzWriter := NewGzipResponseWriter(w, contentTypes)\n\t\t\tdefer gzWriter.Close()\n\t\t\th.ServeHTTP(gzWriter, r)\n\t\t} else {\n\t\t\th.ServeHTTP(w, r)\n\t\t}"
	c17srcDecide      = "\t\tif isCompressable(grw.Header(), grw.contentTypes) {\n\t\t\tgrw.Header().Del(headerContentLength)\n\t\t\tgrw.Header().Set(headerContentEncoding, encodingGzip)\n\t\t\tgrw.gzipWriter = gzipWriterPool.Get().(*gzip.Writer)\n\t\t\tgrw.gzipWriter.Reset(grw.ResponseWriter)\n\n\t\t\tgrw.writer = grw.gzipWriter\n\t\t} else {\n\t\t\tgrw.writer = grw.ResponseWriter\n\t\t}\n"
	c17srcWH          = "func (grw *GzipResponseWriter) WriteHeader(code int) {\n\tif grw.writer == nil {\n" + c17srcDecide + "\t}\n\tgrw.ResponseWriter.WriteHeader(code)\n}\n"
	c17srcClose       = "func (grw *GzipResponseWriter) Close() {\n\tif grw.gzipWriter != nil {\n\t\tgrw.gzipWriter.Close()\n\t\tgzipWriterPool.Put(grw.gzipWriter)\n\t}\n}\n"
	c17srcIsComp      = "\tif header.Get(headerContentEncoding) != \"\" {\n\t\treturn false\n\t}\n\treturn contentTypes.MatchString(header.Get(headerContentType))\n"
	c17srcWriteTail   = "\t\tgrw.WriteHeader(http.StatusOK)\n\t}\n\treturn grw.writer.Write(b)\n}\n"
	c17srcAcceptRet   = "\treturn strings.Contains(r.Header.Get(headerAcceptEncoding), encodingGzip)\n"
	c17srcHandlerFunc = "\treturn http.HandlerFunc(func(w http.ResponseWriter, r *http.Request) {\n\t\tw.Header().Add(headerVary, headerAcceptEncoding)\n\n" + c17srcHandlerBody + "\n\t})\n}\n"
)

func c17moreMutants() []mutant {
	b := func(name, old, new string, more ...repl) mutant {
		return mutant{Name: "benign: " + name, File: c17file, Old: old, New: new, More: more, Expect: ""}
	}
	x := func(name, expect, old, new string, more ...repl) mutant {
		return mutant{Name: name, File: c17file, Old: old, New: new, More: more, Expect: expect}
	}
	return []mutant{
		// ---- behaviour-preserving rewrites ------------------------------------------------------------------------
		b("acceptsGzip inlined into the handler (flag + loop)", c17srcHandlerBody,
			"\t\tok := strings.Contains(r.Header.Get(headerAcceptEncoding), encodingGzip)\n\t\tfor _, ct := range blacklistedAcceptContentTypes {\n\t\t\tif strings.Contains(r.Header.Get(headerAccept), ct) {\n\t\t\t\tok = false\n\t\t\t}\n\t\t}\n\t\tif ok {\n\t\t\tgzWriter := NewGzipResponseWriter(w, contentTypes)\n\t\t\tdefer gzWriter.Close()\n\t\t\th.ServeHTTP(gzWriter, r)\n\t\t} else {\n\t\t\th.ServeHTTP(w, r)\n\t\t}",
			repl{"func acceptsGzip(r *http.Request) bool {", "func acceptsGzipUnused(r *http.Request) bool {"}),
		b("isCompressable inlined into WriteHeader as one && condition", "\t\tif isCompressable(grw.Header(), grw.contentTypes) {\n",
			"\t\tif grw.Header().Get(headerContentEncoding) == \"\" && grw.contentTypes.MatchString(grw.Header().Get(headerContentType)) {\n",
			repl{"func isCompressable(header http.Header", "func isCompressableUnused(header http.Header"}),
		b("isCompressable as a method of the response writer", "\t\tif isCompressable(grw.Header(), grw.contentTypes) {\n", "\t\tif grw.compressable() {\n",
			repl{"func isCompressable(header http.Header, contentTypes *regexp.Regexp) bool {\n", "func (grw *GzipResponseWriter) compressable() bool {\n\theader, contentTypes := grw.Header(), grw.contentTypes\n"}),
		b("WriteHeader as a switch", c17srcWH,
			"func (grw *GzipResponseWriter) WriteHeader(code int) {\n\tswitch {\n\tcase grw.writer != nil:\n\tcase !isCompressable(grw.Header(), grw.contentTypes):\n\t\tgrw.writer = grw.ResponseWriter\n\tdefault:\n\t\th := grw.Header()\n\t\th.Del(headerContentLength)\n\t\th.Set(headerContentEncoding, encodingGzip)\n\t\tgz := gzipWriterPool.Get().(*gzip.Writer)\n\t\tgz.Reset(grw.ResponseWriter)\n\t\tgrw.gzipWriter = gz\n\t\tgrw.writer = gz\n\t}\n\tgrw.ResponseWriter.WriteHeader(code)\n}\n"),
		b("Close deferred through a closure", "\t\t\tdefer gzWriter.Close()\n", "\t\t\tdefer func() { gzWriter.Close() }()\n"),
		b("one serve call, writer chosen before it", c17srcHandlerBody,
			"\t\tvar rw http.ResponseWriter = w\n\t\tif acceptsGzip(r) {\n\t\t\tgzWriter := NewGzipResponseWriter(w, contentTypes)\n\t\t\tdefer gzWriter.Close()\n\t\t\trw = gzWriter\n\t\t}\n\t\th.ServeHTTP(rw, r)"),
		b("constructor literal -> field assignments", "\treturn &GzipResponseWriter{ResponseWriter: w, contentTypes: contentTypes}\n",
			"\tgrw := new(GzipResponseWriter)\n\tgrw.ResponseWriter = w\n\tgrw.contentTypes = contentTypes\n\treturn grw\n"),
		b("Write with named locals", "\treturn grw.writer.Write(b)\n}\n", "\tn, err := grw.writer.Write(b)\n\treturn n, err\n}\n"),
		b("Write forwards through a helper", "\treturn grw.writer.Write(b)\n}\n", "\treturn grw.forward(b)\n}\n\nfunc (grw *GzipResponseWriter) forward(p []byte) (int, error) {\n\treturn grw.writer.Write(p)\n}\n"),
		b("header changes in a helper", "\t\t\tgrw.Header().Del(headerContentLength)\n\t\t\tgrw.Header().Set(headerContentEncoding, encodingGzip)\n", "\t\t\tmarkCompressed(grw.Header())\n",
			repl{"func acceptsGzip(", "func markCompressed(h http.Header) {\n\th.Del(headerContentLength)\n\th.Set(headerContentEncoding, encodingGzip)\n}\n\nfunc acceptsGzip("}),
		b("handler closure -> named handler type", c17srcHandlerFunc,
			"\treturn &gzipHandler{next: h, types: contentTypes}\n}\n\ntype gzipHandler struct {\n\tnext  http.Handler\n\ttypes *regexp.Regexp\n}\n\nfunc (g *gzipHandler) ServeHTTP(w http.ResponseWriter, r *http.Request) {\n\tw.Header().Add(headerVary, headerAcceptEncoding)\n\tif !acceptsGzip(r) {\n\t\tg.next.ServeHTTP(w, r)\n\t\treturn\n\t}\n\tg.serveCompressed(w, r)\n}\n\nfunc (g *gzipHandler) serveCompressed(w http.ResponseWriter, r *http.Request) {\n\tgzWriter := NewGzipResponseWriter(w, g.types)\n\tdefer gzWriter.Close()\n\tg.next.ServeHTTP(gzWriter, r)\n}\n"),
		b("wrapped WriteHeader through a local, code through a local", "\tgrw.ResponseWriter.WriteHeader(code)\n}\n", "\tstatus, rw := code, grw.ResponseWriter\n\trw.WriteHeader(status)\n}\n"),
		b("Reset after the writer is installed", "\t\t\tgrw.gzipWriter.Reset(grw.ResponseWriter)\n\n\t\t\tgrw.writer = grw.gzipWriter\n", "\t\t\tgrw.writer = grw.gzipWriter\n\t\t\tgrw.gzipWriter.Reset(grw.ResponseWriter)\n"),
		b("strings.Index instead of strings.Contains", c17srcAcceptRet, "\treturn strings.Index(r.Header.Get(headerAcceptEncoding), encodingGzip) >= 0\n"),
		b("fields renamed", "\twriter       io.Writer\n\tgzipWriter   *gzip.Writer\n", "\tout          io.Writer\n\tgz           *gzip.Writer\n",
			repl{c17srcWH, "func (grw *GzipResponseWriter) WriteHeader(code int) {\n\tif grw.out == nil {\n\t\tif isCompressable(grw.Header(), grw.contentTypes) {\n\t\t\tgrw.Header().Del(headerContentLength)\n\t\t\tgrw.Header().Set(headerContentEncoding, encodingGzip)\n\t\t\tgrw.gz = gzipWriterPool.Get().(*gzip.Writer)\n\t\t\tgrw.gz.Reset(grw.ResponseWriter)\n\n\t\t\tgrw.out = grw.gz\n\t\t} else {\n\t\t\tgrw.out = grw.ResponseWriter\n\t\t}\n\t}\n\tgrw.ResponseWriter.WriteHeader(code)\n}\n"},
			repl{"\tif grw.writer == nil {\n\t\tif _, ok :=", "\tif grw.out == nil {\n\t\tif _, ok :="},
			repl{"\treturn grw.writer.Write(b)\n", "\treturn grw.out.Write(b)\n"},
			repl{c17srcClose, "func (grw *GzipResponseWriter) Close() {\n\tif grw.gz != nil {\n\t\tgrw.gz.Close()\n\t\tgzipWriterPool.Put(grw.gz)\n\t}\n}\n"}),
		b("decision in a method shared by Write and WriteHeader", c17srcWH,
			"func (grw *GzipResponseWriter) WriteHeader(code int) {\n\tif grw.writer == nil {\n\t\tgrw.decide()\n\t}\n\tgrw.ResponseWriter.WriteHeader(code)\n}\n\nfunc (grw *GzipResponseWriter) decide() {\n"+c17srcDecide+"}\n",
			repl{c17srcWriteTail, "\t\tgrw.decide()\n\t\tgrw.ResponseWriter.WriteHeader(http.StatusOK)\n\t}\n\treturn grw.writer.Write(b)\n}\n"}),
		b("Close split into Close and release, release idempotent", c17srcClose,
			"func (grw *GzipResponseWriter) Close() {\n\tgrw.release()\n}\n\nfunc (grw *GzipResponseWriter) release() {\n\tgz := grw.gzipWriter\n\tif gz == nil {\n\t\treturn\n\t}\n\tgz.Close()\n\tgzipWriterPool.Put(gz)\n}\n"),
		b("compress flag computed first", "\t\tif isCompressable(grw.Header(), grw.contentTypes) {\n", "\t\tcompress := isCompressable(grw.Header(), grw.contentTypes)\n\t\tif compress {\n"),
		b("isCompressable with len() and explicit bool", c17srcIsComp, "\tif len(header.Get(headerContentEncoding)) > 0 {\n\t\treturn false\n\t}\n\tmatched := contentTypes.MatchString(header.Get(headerContentType))\n\treturn matched == true\n"),
		b("one store for both arms, writer chosen before it", c17srcDecide,
			"\t\tvar out io.Writer = grw.ResponseWriter\n\t\tif isCompressable(grw.Header(), grw.contentTypes) {\n\t\t\tgrw.Header().Del(headerContentLength)\n\t\t\tgrw.Header().Set(headerContentEncoding, encodingGzip)\n\t\t\tgrw.gzipWriter = gzipWriterPool.Get().(*gzip.Writer)\n\t\t\tgrw.gzipWriter.Reset(grw.ResponseWriter)\n\t\t\tout = grw.gzipWriter\n\t\t}\n\t\tgrw.writer = out\n"),
		{Name: "benign: response writer type renamed", File: c17file, Old: "GzipResponseWriter", New: "CompressingWriter", All: true, Expect: ""},
		b("independent statements of the compress edge reordered", "\t\t\tgrw.Header().Del(headerContentLength)\n\t\t\tgrw.Header().Set(headerContentEncoding, encodingGzip)\n\t\t\tgrw.gzipWriter = gzipWriterPool.Get().(*gzip.Writer)\n\t\t\tgrw.gzipWriter.Reset(grw.ResponseWriter)\n",
			"\t\t\tgrw.gzipWriter = gzipWriterPool.Get().(*gzip.Writer)\n\t\t\tgrw.gzipWriter.Reset(grw.ResponseWriter)\n\t\t\tgrw.Header().Set(headerContentEncoding, encodingGzip)\n\t\t\tgrw.Header().Del(headerContentLength)\n"),
		b("Write with an early return for the decided case", "func (grw *GzipResponseWriter) Write(b []byte) (int, error) {\n\tif grw.writer == nil {\n", "func (grw *GzipResponseWriter) Write(b []byte) (int, error) {\n\tif grw.writer != nil {\n\t\treturn grw.writer.Write(b)\n\t}\n\t{\n"),
		b("Put deferred inside Close", "\t\tgrw.gzipWriter.Close()\n\t\tgzipWriterPool.Put(grw.gzipWriter)\n", "\t\tdefer gzipWriterPool.Put(grw.gzipWriter)\n\t\tgrw.gzipWriter.Close()\n"),
		b("decision in a local closure", c17srcWH, "func (grw *GzipResponseWriter) WriteHeader(code int) {\n\tdecide := func() {\n"+c17srcDecide+"\t}\n\tif grw.writer == nil {\n\t\tdecide()\n\t}\n\tgrw.ResponseWriter.WriteHeader(code)\n}\n"),
		b("helpers exported", "isCompressable(", "IsCompressible(", repl{"isCompressable(", "IsCompressible("}, repl{"acceptsGzip(", "AcceptsGzip("}, repl{"acceptsGzip(", "AcceptsGzip("}),
		b("decision in an exported method", c17srcWH,
			"func (grw *GzipResponseWriter) WriteHeader(code int) {\n\tif grw.writer == nil {\n\t\tgrw.SelectWriter()\n\t}\n\tgrw.ResponseWriter.WriteHeader(code)\n}\n\nfunc (grw *GzipResponseWriter) SelectWriter() {\n"+c17srcDecide+"}\n"),
		b("acceptsGzip verdict in a variable, blacklist via strings.Contains on a joined guard", "\t\tif acceptsGzip(r) {\n", "\t\tcompress := acceptsGzip(r)\n\t\tif compress {\n"),

		b("Write returns a literal nil error where err == nil", "\treturn grw.writer.Write(b)\n}\n", "\tn, err := grw.writer.Write(b)\n\tif err != nil {\n\t\treturn n, err\n\t}\n\treturn n, nil\n}\n"),

		b("switch on the verdict of acceptsGzip", c17srcHandlerBody,
			"\t\tswitch acceptsGzip(r) {\n\t\tcase true:\n\t\t\tgzWriter := NewGzipResponseWriter(w, contentTypes)\n\t\t\tdefer gzWriter.Close()\n\t\t\th.ServeHTTP(gzWriter, r)\n\t\tdefault:\n\t\t\th.ServeHTTP(w, r)\n\t\t}"),
		b("two levels of helpers for the decision", c17srcWH,
			"func (grw *GzipResponseWriter) WriteHeader(code int) {\n\tif grw.writer == nil {\n\t\tgrw.selectWriter()\n\t}\n\tgrw.ResponseWriter.WriteHeader(code)\n}\n\nfunc (grw *GzipResponseWriter) selectWriter() {\n\tif !isCompressable(grw.Header(), grw.contentTypes) {\n\t\tgrw.writer = grw.ResponseWriter\n\t\treturn\n\t}\n\tgrw.useGzip()\n}\n\nfunc (grw *GzipResponseWriter) useGzip() {\n\tgrw.Header().Del(headerContentLength)\n\tgrw.Header().Set(headerContentEncoding, encodingGzip)\n\tgrw.gzipWriter = gzipWriterPool.Get().(*gzip.Writer)\n\tgrw.gzipWriter.Reset(grw.ResponseWriter)\n\tgrw.writer = grw.gzipWriter\n}\n"),
		b("decision returns the writer", c17srcWH,
			"func (grw *GzipResponseWriter) WriteHeader(code int) {\n\tif grw.writer == nil {\n\t\tgrw.writer = grw.chooseWriter()\n\t}\n\tgrw.ResponseWriter.WriteHeader(code)\n}\n\nfunc (grw *GzipResponseWriter) chooseWriter() io.Writer {\n\tif !isCompressable(grw.Header(), grw.contentTypes) {\n\t\treturn grw.ResponseWriter\n\t}\n\tgrw.Header().Del(headerContentLength)\n\tgrw.Header().Set(headerContentEncoding, encodingGzip)\n\tgz := gzipWriterPool.Get().(*gzip.Writer)\n\tgz.Reset(grw.ResponseWriter)\n\tgrw.gzipWriter = gz\n\treturn gz\n}\n"),
		b("Close as guard clause with deferred Put", c17srcClose, "func (grw *GzipResponseWriter) Close() {\n\tif grw.gzipWriter == nil {\n\t\treturn\n\t}\n\tdefer gzipWriterPool.Put(grw.gzipWriter)\n\tgrw.gzipWriter.Close()\n}\n"),
		b("else-if chain in WriteHeader, header hoisted", c17srcWH,
			"func (grw *GzipResponseWriter) WriteHeader(code int) {\n\thdr := grw.Header()\n\tif grw.writer != nil {\n\t\t// decided\n\t} else if isCompressable(hdr, grw.contentTypes) {\n\t\thdr.Del(headerContentLength)\n\t\thdr.Set(headerContentEncoding, encodingGzip)\n\t\tgrw.gzipWriter = gzipWriterPool.Get().(*gzip.Writer)\n\t\tgrw.gzipWriter.Reset(grw.ResponseWriter)\n\t\tgrw.writer = grw.gzipWriter\n\t} else {\n\t\tgrw.writer = grw.ResponseWriter\n\t}\n\tgrw.ResponseWriter.WriteHeader(code)\n}\n"),

		b("Vary added by a helper", "\t\tw.Header().Add(headerVary, headerAcceptEncoding)\n", "\t\taddVary(w)\n",
			repl{"func acceptsGzip(", "func addVary(w http.ResponseWriter) {\n\tw.Header().Add(headerVary, headerAcceptEncoding)\n}\n\nfunc acceptsGzip("}),
		b("constructor inlined into the handler", "\t\t\tgzWriter := NewGzipResponseWriter(w, contentTypes)\n", "\t\t\tgzWriter := &GzipResponseWriter{ResponseWriter: w, contentTypes: contentTypes}\n"),
		b("compress branch in an immediately invoked closure", c17srcHandlerBody,
			"\t\tif acceptsGzip(r) {\n\t\t\tfunc() {\n\t\t\t\tgzWriter := NewGzipResponseWriter(w, contentTypes)\n\t\t\t\tdefer gzWriter.Close()\n\t\t\t\th.ServeHTTP(gzWriter, r)\n\t\t\t}()\n\t\t\treturn\n\t\t}\n\t\th.ServeHTTP(w, r)"),
		b("expression wrapped in a small matcher type", "\tcontentTypes *regexp.Regexp\n\thttp.ResponseWriter\n", "\tcontentTypes matcher\n\thttp.ResponseWriter\n",
			repl{"\treturn &GzipResponseWriter{ResponseWriter: w, contentTypes: contentTypes}\n", "\treturn &GzipResponseWriter{ResponseWriter: w, contentTypes: matcher{contentTypes}}\n"},
			repl{"func isCompressable(header http.Header, contentTypes *regexp.Regexp) bool {", "type matcher struct{ *regexp.Regexp }\n\nfunc isCompressable(header http.Header, contentTypes matcher) bool {"}),
		b("handler as a method value", c17srcHandlerFunc,
			"\tg := gzipHandler{next: h, types: contentTypes}\n\treturn http.HandlerFunc(g.serve)\n}\n\ntype gzipHandler struct {\n\tnext  http.Handler\n\ttypes *regexp.Regexp\n}\n\nfunc (g gzipHandler) serve(w http.ResponseWriter, r *http.Request) {\n\tw.Header().Add(headerVary, headerAcceptEncoding)\n\tif acceptsGzip(r) {\n\t\tgzWriter := NewGzipResponseWriter(w, g.types)\n\t\tdefer gzWriter.Close()\n\t\tg.next.ServeHTTP(gzWriter, r)\n\t} else {\n\t\tg.next.ServeHTTP(w, r)\n\t}\n}\n"),

		// ---- breaking changes ---------------------------------------------------------------------------------
		x("Content-Length deleted on the pass-through edge too", "C17.H1", "\t\t} else {\n\t\t\tgrw.writer = grw.ResponseWriter\n", "\t\t} else {\n\t\t\tgrw.Header().Del(headerContentLength)\n\t\t\tgrw.writer = grw.ResponseWriter\n"),
		x("Content-Length cleared through the map on the pass-through edge", "C17.H1", "\t\t} else {\n\t\t\tgrw.writer = grw.ResponseWriter\n", "\t\t} else {\n\t\t\tgrw.Header()[headerContentLength] = nil\n\t\t\tgrw.writer = grw.ResponseWriter\n"),
		x("content types matched against a package-level expression", "C17.D1", "\treturn contentTypes.MatchString(header.Get(headerContentType))\n", "\treturn defaultTypes.MatchString(header.Get(headerContentType))\n",
			repl{"var blacklistedAcceptContentTypes =", "var defaultTypes = regexp.MustCompile(\"^text/\")\n\nvar blacklistedAcceptContentTypes ="}),
		x("acceptsGzip looks at Accept instead of Accept-Encoding", "C17.D1", c17srcAcceptRet, "\treturn strings.Contains(r.Header.Get(headerAccept), encodingGzip)\n"),
		x("acceptsGzip also accepts a wildcard", "C17.D1", c17srcAcceptRet, "\tae := r.Header.Get(headerAcceptEncoding)\n\treturn strings.Contains(ae, encodingGzip) || strings.Contains(ae, \"*\")\n"),
		x("Content-Encoding test with the wrong polarity", "C17.D1", "\tif header.Get(headerContentEncoding) != \"\" {\n\t\treturn false", "\tif header.Get(headerContentEncoding) == \"\" {\n\t\treturn false"),
		x("both branches of the handler compress", "C17.D1", "\t\t} else {\n\t\t\th.ServeHTTP(w, r)\n", "\t\t} else {\n\t\t\th.ServeHTTP(NewGzipResponseWriter(w, contentTypes), r)\n"),
		x("pooled writer Reset to something else", "C17.T2", "\t\t\tgrw.gzipWriter.Reset(grw.ResponseWriter)\n", "\t\t\tgrw.gzipWriter.Reset(io.Discard)\n"),
		x("active gzip writer is a shared package-level writer", "C17.T2", "\t\t\tgrw.gzipWriter = gzipWriterPool.Get().(*gzip.Writer)\n", "\t\t\tgrw.gzipWriter = sharedWriter\n",
			repl{"var blacklistedAcceptContentTypes =", "var sharedWriter = gzip.NewWriter(nil)\n\nvar blacklistedAcceptContentTypes ="}),
		x("Close without the nil test", "C17.T2", c17srcClose, "func (grw *GzipResponseWriter) Close() {\n\tgrw.gzipWriter.Close()\n\tgzipWriterPool.Put(grw.gzipWriter)\n}\n"),
		x("plain writer wrapped in an unflushed bufio.Writer", "C17.T1", "\t\t\tgrw.writer = grw.ResponseWriter\n", "\t\t\tgrw.writer = bufio.NewWriter(grw.ResponseWriter)\n"),
		x("headers sent before the decision", "C17.H1", c17srcWH, "func (grw *GzipResponseWriter) WriteHeader(code int) {\n\tgrw.ResponseWriter.WriteHeader(code)\n\tif grw.writer == nil {\n"+c17srcDecide+"\t}\n}\n"),
		x("Write reports len(b) instead of the writer's count", "C17.W1", "\treturn grw.writer.Write(b)\n}\n", "\t_, err := grw.writer.Write(b)\n\treturn len(b), err\n}\n"),
		x("decision extracted to a helper, Del(Content-Length) lost", "C17.H1", c17srcWH,
			"func (grw *GzipResponseWriter) WriteHeader(code int) {\n\tif grw.writer == nil {\n\t\tgrw.selectWriter()\n\t}\n\tgrw.ResponseWriter.WriteHeader(code)\n}\n\nfunc (grw *GzipResponseWriter) selectWriter() {\n\tif !isCompressable(grw.Header(), grw.contentTypes) {\n\t\tgrw.writer = grw.ResponseWriter\n\t\treturn\n\t}\n\tgrw.Header().Set(headerContentEncoding, encodingGzip)\n\tgrw.gzipWriter = gzipWriterPool.Get().(*gzip.Writer)\n\tgrw.gzipWriter.Reset(grw.ResponseWriter)\n\tgrw.writer = grw.gzipWriter\n}\n"),
		x("pool wrapped in a typed helper, Reset lost", "C17.T2", "\t\t\tgrw.gzipWriter = gzipWriterPool.Get().(*gzip.Writer)\n\t\t\tgrw.gzipWriter.Reset(grw.ResponseWriter)\n", "\t\t\tgrw.gzipWriter = getWriter(grw.ResponseWriter)\n",
			repl{"func acceptsGzip(", "func getWriter(dst io.Writer) *gzip.Writer {\n\tgz := gzipWriterPool.Get().(*gzip.Writer)\n\t_ = dst\n\treturn gz\n}\n\nfunc acceptsGzip("}),
		x("release helper called from Close and from Write on error", "C17.T3", c17srcClose,
			"func (grw *GzipResponseWriter) Close() {\n\tgrw.release()\n}\n\nfunc (grw *GzipResponseWriter) release() {\n\tif grw.gzipWriter != nil {\n\t\tgrw.gzipWriter.Close()\n\t\tgzipWriterPool.Put(grw.gzipWriter)\n\t}\n}\n",
			repl{"\treturn grw.writer.Write(b)\n}\n", "\tn, err := grw.writer.Write(b)\n\tif err != nil {\n\t\tgrw.release()\n\t}\n\treturn n, err\n}\n"}),
		x("Vary added only after the pass-through serve", "C17.V1", c17srcHandlerFunc,
			"\treturn http.HandlerFunc(func(w http.ResponseWriter, r *http.Request) {\n\t\tif !acceptsGzip(r) {\n\t\t\th.ServeHTTP(w, r)\n\t\t\treturn\n\t\t}\n\t\tw.Header().Add(headerVary, headerAcceptEncoding)\n\t\tgzWriter := NewGzipResponseWriter(w, contentTypes)\n\t\tdefer gzWriter.Close()\n\t\th.ServeHTTP(gzWriter, r)\n\t})\n}\n"),
		x("writer decided again in Write", "C17.T1", "\treturn grw.writer.Write(b)\n}\n", "\tif len(b) > 1<<20 {\n\t\tgrw.writer = grw.ResponseWriter\n\t}\n\treturn grw.writer.Write(b)\n}\n"),
		x("Write swallows the writer's error", "C17.W1", "\treturn grw.writer.Write(b)\n}\n", "\tn, _ := grw.writer.Write(b)\n\treturn n, nil\n}\n"),
		x("decision returns the writer, taken on the wrong edge", "C17.D1", c17srcWH,
			"func (grw *GzipResponseWriter) WriteHeader(code int) {\n\tif grw.writer == nil {\n\t\tgrw.writer = grw.chooseWriter()\n\t}\n\tgrw.ResponseWriter.WriteHeader(code)\n}\n\nfunc (grw *GzipResponseWriter) chooseWriter() io.Writer {\n\tif isCompressable(grw.Header(), grw.contentTypes) {\n\t\treturn grw.ResponseWriter\n\t}\n\tgrw.Header().Del(headerContentLength)\n\tgrw.Header().Set(headerContentEncoding, encodingGzip)\n\tgz := gzipWriterPool.Get().(*gzip.Writer)\n\tgz.Reset(grw.ResponseWriter)\n\tgrw.gzipWriter = gz\n\treturn gz\n}\n"),
		x("decision returns the writer, Content-Encoding not set", "C17.H1", c17srcWH,
			"func (grw *GzipResponseWriter) WriteHeader(code int) {\n\tif grw.writer == nil {\n\t\tgrw.writer = grw.chooseWriter()\n\t}\n\tgrw.ResponseWriter.WriteHeader(code)\n}\n\nfunc (grw *GzipResponseWriter) chooseWriter() io.Writer {\n\tif !isCompressable(grw.Header(), grw.contentTypes) {\n\t\treturn grw.ResponseWriter\n\t}\n\tgrw.Header().Del(headerContentLength)\n\tgz := gzipWriterPool.Get().(*gzip.Writer)\n\tgz.Reset(grw.ResponseWriter)\n\tgrw.gzipWriter = gz\n\treturn gz\n}\n"),
	}
}
