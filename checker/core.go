package main

import (
	"encoding/json"
	"fmt"
	"go/token"
	"go/types"
	"os"
	"path/filepath"
	"sort"
	"strings"
	"time"

	"golang.org/x/tools/go/packages"
	"golang.org/x/tools/go/ssa"
	"golang.org/x/tools/go/ssa/ssautil"
)

const repoMod = "github.com/fabiolb/fabio"

// Status of one obligation.
type Status int

const (
	OK Status = iota
	Viol
	Undecided
)

func (s Status) String() string {
	switch s {
	case OK:
		return "discharged"
	case Viol:
		return "VIOLATED"
	}
	return "UNDECIDED"
}

// Ob is the unit of evidence: (property, rule, construct).
type Ob struct {
	Rule      string `json:"rule"`
	Construct string `json:"construct"`
	Pos       string `json:"pos"`
	Status    string `json:"status"`
	Detail    string `json:"detail,omitempty"`
	st        Status
}

// Ctx carries the loaded program and collects obligations.
type Ctx struct {
	Prop string
	Tier string
	Dir  string

	Pkgs  []*packages.Package
	Fset  *token.FileSet
	Prog  *ssa.Program
	spkgs map[string]*ssa.Package
	ppkgs map[string]*packages.Package

	AllFns []*ssa.Function // repo functions with bodies (named, methods, closures)

	Obs         []Ob
	Trusted     []string
	Assumptions []string
	Explain     string

	cg *callGraph
}

// load type-checks /repo (or an overlay variant) and builds SSA for the repo packages.
// scratchModfile copies dir/go.mod and go.sum into a fresh temporary directory and returns the copy's path.
func scratchModfile(dir string) (string, func()) {
	mod, err := os.ReadFile(filepath.Join(dir, "go.mod"))
	if err != nil {
		return "", nil
	}
	tmp, err := os.MkdirTemp("", "verifmod.")
	if err != nil {
		return "", nil
	}
	cleanup := func() { os.RemoveAll(tmp) }
	if err := os.WriteFile(filepath.Join(tmp, "go.mod"), mod, 0o644); err != nil {
		cleanup()
		return "", nil
	}
	if sum, err := os.ReadFile(filepath.Join(dir, "go.sum")); err == nil {
		os.WriteFile(filepath.Join(tmp, "go.sum"), sum, 0o644)
	}
	return filepath.Join(tmp, "go.mod"), cleanup
}

func load(dir string, overlay map[string][]byte, goos string) (*Ctx, error) {
	env := append(os.Environ(), "GOFLAGS=-mod=mod", "GOPROXY=off", "GOWORK=off")
	if goos != "" {
		env = append(env, "GOOS="+goos)
	}
	cfg := &packages.Config{
		Mode:    packages.LoadSyntax,
		Dir:     dir,
		Env:     env,
		Overlay: overlay,
		Tests:   false,
	}
	// The go command may rewrite go.mod under -mod=mod (an in-memory variant that imports a package of an indirect
	// dependency directly makes it move the requirement): give it a scratch copy, so that analysing never writes
	// into the analysed tree.
	if mf, cleanup := scratchModfile(dir); mf != "" {
		defer cleanup()
		cfg.BuildFlags = []string{"-modfile=" + mf}
	}
	pkgs, err := packages.Load(cfg, "./...")
	if err != nil {
		return nil, err
	}
	if len(pkgs) == 0 {
		return nil, fmt.Errorf("no packages loaded from %s", dir)
	}
	var errs []string
	for _, p := range pkgs {
		for _, e := range p.Errors {
			errs = append(errs, e.Error())
		}
	}
	if len(errs) > 0 {
		return nil, fmt.Errorf("type-check errors:\n  %s", strings.Join(errs, "\n  "))
	}
	prog, spkgs := ssautil.Packages(pkgs, ssa.InstantiateGenerics)
	prog.Build()
	c := &Ctx{Dir: dir, Pkgs: pkgs, Fset: pkgs[0].Fset, Prog: prog,
		spkgs: map[string]*ssa.Package{}, ppkgs: map[string]*packages.Package{}}
	for i, p := range pkgs {
		if spkgs[i] == nil {
			return nil, fmt.Errorf("no SSA for %s", p.PkgPath)
		}
		c.spkgs[p.PkgPath] = spkgs[i]
		c.ppkgs[p.PkgPath] = p
	}
	c.collectFns()
	return c, nil
}

func (c *Ctx) collectFns() {
	seen := map[*ssa.Function]bool{}
	var add func(f *ssa.Function)
	add = func(f *ssa.Function) {
		if f == nil || seen[f] {
			return
		}
		seen[f] = true
		// source functions and closures; the body of a range-over-func loop is a synthetic closure of its function
		// and holds source statements like any other closure
		if len(f.Blocks) > 0 && (f.Synthetic == "" || f.Synthetic == "range-over-func yield") {
			c.AllFns = append(c.AllFns, f)
		}
		for _, a := range f.AnonFuncs {
			add(a)
		}
	}
	for _, sp := range c.spkgs {
		for _, m := range sp.Members {
			switch m := m.(type) {
			case *ssa.Function:
				add(m)
			case *ssa.Type:
				nt := m.Type()
				for _, t := range []types.Type{nt, types.NewPointer(nt)} {
					ms := c.Prog.MethodSets.MethodSet(t)
					for i := 0; i < ms.Len(); i++ {
						f := c.Prog.MethodValue(ms.At(i))
						if f != nil && f.Pkg == sp {
							add(f)
						}
					}
				}
			}
		}
		if init := sp.Func("init"); init != nil {
			add(init)
		}
	}
	sort.Slice(c.AllFns, func(i, j int) bool { return c.AllFns[i].String() < c.AllFns[j].String() })
	// call sites and value uses also occur in the synthetic package initialisers (tables of function values)
	scan := append([]*ssa.Function{}, c.AllFns...)
	for _, sp := range c.spkgs {
		if initFn := sp.Func("init"); initFn != nil && len(initFn.Blocks) > 0 && !seen[initFn] {
			scan = append(scan, initFn)
		} else if initFn != nil && len(initFn.Blocks) > 0 && initFn.Synthetic != "" {
			scan = append(scan, initFn)
		}
	}
	buildSites(scan)
	// memo tables keyed by objects of a loaded program: dropped with the previous program, otherwise the thorough
	// tier (hundreds of in-memory variants in one process) keeps every program alive
	blockingQueryMemo = map[*ssa.Function]int{}
	c06lockMemo = map[c06lockMemoKey]bool{}
	c04builders = map[*ssa.Program]*c04builder{}
	c14stateCache = map[*Ctx]*c14state{}
	c14dynCache = map[*Ctx]*c14dynIndex{}
	c14dynSitesCache = map[*Ctx]map[*ssa.Function][]ssa.CallInstruction{}
	c14fnsCache = map[*Ctx][]*ssa.Function{}
	c17phiBusy = map[c17phiKey]bool{}
	gAddrTaken = map[*ssa.Function]bool{}
	gInvoked = map[string]bool{}
	gGlobalStores = map[*ssa.Global][]*ssa.Store{}
	gGlobalEscapes = map[*ssa.Global]bool{}
	for _, f := range scan {
		for _, b := range f.Blocks {
			for _, i := range b.Instrs {
				if st, ok := i.(*ssa.Store); ok {
					if g, ok := st.Addr.(*ssa.Global); ok {
						gGlobalStores[g] = append(gGlobalStores[g], st)
					}
				}
				for _, op := range i.Operands(nil) {
					if op == nil || *op == nil {
						continue
					}
					if g, ok := (*op).(*ssa.Global); ok {
						switch x := i.(type) {
						case *ssa.UnOp:
						case *ssa.Store:
							if x.Addr != g {
								gGlobalEscapes[g] = true
							}
						default:
							gGlobalEscapes[g] = true // address taken: field/element address, passed on, captured
						}
					}
				}
				cc := callCommon(i)
				if cc != nil && cc.IsInvoke() {
					gInvoked[cc.Method.Name()] = true
				}
				mc, isMC := i.(*ssa.MakeClosure)
				for _, op := range i.Operands(nil) {
					if op == nil || *op == nil || (cc != nil && !cc.IsInvoke() && *op == cc.Value) {
						continue
					}
					if isMC && *op == mc.Fn {
						continue // making the closure is not a use of it; uses of the closure VALUE count
					}
					switch x := (*op).(type) {
					case *ssa.Function:
						gAddrTaken[x] = true
						gAddrTaken[unwrap(x)] = true // method values / expressions go through $bound / $thunk wrappers
					case *ssa.MakeClosure:
						if fn, ok := x.Fn.(*ssa.Function); ok {
							gAddrTaken[fn] = true
							gAddrTaken[unwrap(fn)] = true
						}
					}
				}
			}
		}
	}
}

// ---- obligations -----------------------------------------------------------

func (c *Ctx) ob(rule, construct string, pos token.Pos, st Status, detail string) {
	c.Obs = append(c.Obs, Ob{Rule: rule, Construct: construct, Pos: c.pos(pos), Status: st.String(), Detail: detail, st: st})
}

// check records OK or Viol.
func (c *Ctx) check(rule, construct string, pos token.Pos, ok bool, detail string) {
	if ok {
		c.ob(rule, construct, pos, OK, detail)
	} else {
		c.ob(rule, construct, pos, Viol, detail)
	}
}

func (c *Ctx) undecided(rule, construct string, detail string) {
	c.ob(rule, construct, token.NoPos, Undecided, detail)
}

// atLeast fails (undecided) when a rule matched fewer sites than its vacuity guard.
func (c *Ctx) atLeast(rule string, what string, n, min int) {
	if n < min {
		c.undecided(rule, "anchor|"+what, fmt.Sprintf("only %d site(s) resolved for %q, need >= %d: the anchor of this rule no longer resolves, so the rule cannot be evaluated", n, what, min))
	}
}

func (c *Ctx) pos(p token.Pos) string {
	if !p.IsValid() {
		return "-"
	}
	ps := c.Fset.Position(p)
	rel, err := filepath.Rel(c.Dir, ps.Filename)
	if err != nil {
		rel = ps.Filename
	}
	return fmt.Sprintf("%s:%d", rel, ps.Line)
}

// ---- known findings --------------------------------------------------------

type knownFinding struct {
	Prop, Rule, Construct, Fails string
}

func readKnown(path string) []knownFinding {
	data, err := os.ReadFile(path)
	if err != nil {
		return nil
	}
	var out []knownFinding
	for _, line := range strings.Split(string(data), "\n") {
		line = strings.TrimSpace(line)
		if !strings.HasPrefix(line, "known:") {
			continue
		}
		kf := knownFinding{}
		rest := strings.TrimSpace(strings.TrimPrefix(line, "known:"))
		if i := strings.Index(rest, " fails="); i >= 0 {
			kf.Fails = strings.Trim(strings.TrimSpace(rest[i+len(" fails="):]), `"`)
			rest = rest[:i]
		}
		if i := strings.Index(rest, " construct="); i >= 0 {
			kf.Construct = strings.TrimSpace(rest[i+len(" construct="):])
			rest = rest[:i]
		}
		for _, f := range strings.Fields(rest) {
			switch {
			case strings.HasPrefix(f, "property="):
				kf.Prop = f[len("property="):]
			case strings.HasPrefix(f, "rule="):
				kf.Rule = f[len("rule="):]
			}
		}
		out = append(out, kf)
	}
	return out
}

// ---- evidence --------------------------------------------------------------

type evidence struct {
	PropertyID  string                 `json:"property_id"`
	Tier        string                 `json:"tier"`
	Seed        int                    `json:"seed"`
	Level       string                 `json:"level"`
	Coverage    map[string]interface{} `json:"coverage"`
	Assumptions []string               `json:"assumptions"`
	WallS       float64                `json:"wall_s"`
	Violations  int                    `json:"violations"`
}

type propDef struct {
	ID      string
	Level   string
	Explain string
	Run     func(c *Ctx)
	Mutants []mutant
	Trusted []string
	Assume  []string
}

var props = map[string]*propDef{}

func register(p *propDef) { props[p.ID] = p }

func verifDir() string {
	if d := os.Getenv("VERIF_DIR"); d != "" {
		return d
	}
	return "/verif"
}

func repoDir() string {
	if d := os.Getenv("VERIF_REPO"); d != "" {
		return d
	}
	return "/repo"
}

// runProp runs one property's rules against the tree and reports.
func runProp(id, tier string) int {
	t0 := time.Now()
	p := props[id]
	if p == nil {
		fmt.Fprintf(os.Stderr, "unknown property %s\n", id)
		return 2
	}
	c, err := load(repoDir(), nil, "")
	if err != nil {
		fmt.Fprintf(os.Stderr, "CHECKER-CANNOT-RUN property=%s: %v\n", id, err)
		return 2
	}
	c.Prop, c.Tier = id, tier
	func() {
		defer func() {
			if r := recover(); r != nil {
				c.undecided(id+".PANIC", "checker", fmt.Sprintf("checker panicked: %v", r))
			}
		}()
		p.Run(c)
	}()

	known := readKnown(filepath.Join(verifDir(), "known-findings.txt"))
	evDir := filepath.Join(verifDir(), "evidence")
	os.MkdirAll(filepath.Join(evDir, "replay"), 0o755)
	// remove stale replay files of this property
	if old, _ := filepath.Glob(filepath.Join(evDir, "replay", id+"-*.json")); old != nil {
		for _, f := range old {
			os.Remove(f)
		}
	}

	sort.SliceStable(c.Obs, func(i, j int) bool {
		if c.Obs[i].Rule != c.Obs[j].Rule {
			return c.Obs[i].Rule < c.Obs[j].Rule
		}
		return c.Obs[i].Construct < c.Obs[j].Construct
	})

	nViol, nKnown, discharged := 0, 0, 0
	usedKnown := map[int]bool{}
	distinct := map[string]bool{}
	var samples []Ob
	var violObs []Ob
	for _, o := range c.Obs {
		distinct[o.Rule+"|"+o.Construct] = true
		if o.st == OK {
			discharged++
			continue
		}
		matched := false
		if o.st == Viol {
			for i, k := range known {
				if k.Prop == id && id+"."+k.Rule == o.Rule && k.Construct == o.Construct {
					matched = true
					usedKnown[i] = true
					fmt.Printf("KNOWN-FINDING: property=%s rule=%s construct=%s at %s: %s\n", id, k.Rule, o.Construct, o.Pos, k.Fails)
					break
				}
			}
		}
		if matched {
			nKnown++
			continue
		}
		nViol++
		violObs = append(violObs, o)
		rp := filepath.Join("evidence", "replay", fmt.Sprintf("%s-%d.json", id, nViol))
		data, _ := json.MarshalIndent(map[string]interface{}{
			"property": id, "rule": o.Rule, "construct": o.Construct, "pos": o.Pos,
			"status": o.Status, "detail": o.Detail,
			"how_to_replay": "cd /verif && ./run.sh explain " + rp,
		}, "", " ")
		os.WriteFile(filepath.Join(verifDir(), rp), data, 0o644)
		fmt.Printf("  %s %s [%s] at %s: %s\n", o.Status, o.Rule, o.Construct, o.Pos, o.Detail)
		fmt.Printf("VIOLATION property=%s replay=%s\n", id, rp)
	}
	for i, k := range known {
		if k.Prop == id && !usedKnown[i] {
			fmt.Fprintf(os.Stderr, "STALE-FINDING: property=%s rule=%s construct=%s no longer violates\n", id, k.Rule, k.Construct)
		}
	}
	// samples: a spread over rules
	perRule := map[string]int{}
	for _, o := range c.Obs {
		if perRule[o.Rule] < 3 && len(samples) < 40 {
			perRule[o.Rule]++
			samples = append(samples, o)
		}
	}

	cov := map[string]interface{}{
		"explanation":         p.Explain,
		"obligations":         len(c.Obs),
		"discharged":          discharged,
		"known_findings":      nKnown,
		"evaluations":         len(c.Obs),
		"distinct_nontrivial": len(distinct),
		"rule":                "one obligation per (rule, construct) pair resolved on the type-checked SSA/AST of /repo; distinct = distinct (rule, construct) keys; every one is non-trivial in that it names a resolved site in fabio's source",
		"samples":             samples,
		"checker_cmd":         "./run.sh " + id + " " + tier,
		"trusted_base":        append([]string{"Go 1.24 type checker", "golang.org/x/tools v0.29.0 go/packages + go/ssa", "hand-confirmed instance tables in checker/" + strings.ToLower(id) + ".go"}, p.Trusted...),
		"packages_analysed":   len(c.Pkgs),
		"functions_analysed":  len(c.AllFns),
		"rules":               ruleCounts(c.Obs),
	}
	if nViol > 0 {
		cov["violations_reported"] = violObs
	}
	if tier == "thorough" {
		cov["mutation_selfcheck"] = runMutants(p)
		cov["goos_variants"] = runGOOSVariants(p)
		cov["callgraph_crosscheck_vta"] = vtaCrossCheck(c)
	}
	ev := evidence{PropertyID: id, Tier: tier, Seed: seedEnv(), Level: p.Level, Coverage: cov,
		Assumptions: append([]string{"the deciding step is static: nothing from /repo is executed", "test files are not loaded: a test-only call site neither discharges nor violates an obligation"}, p.Assume...),
		WallS:       time.Since(t0).Seconds(), Violations: nViol}
	data, _ := json.MarshalIndent(ev, "", " ")
	if err := os.WriteFile(filepath.Join(evDir, id+".json"), data, 0o644); err != nil {
		fmt.Fprintf(os.Stderr, "cannot write evidence: %v\n", err)
		return 2
	}
	fmt.Printf("property=%s tier=%s packages=%d functions=%d obligations=%d discharged=%d known=%d violations=%d wall=%.1fs\n",
		id, tier, len(c.Pkgs), len(c.AllFns), len(c.Obs), discharged, nKnown, nViol, time.Since(t0).Seconds())
	if nViol > 0 {
		return 1
	}
	return 0
}

func ruleCounts(obs []Ob) map[string]int {
	m := map[string]int{}
	for _, o := range obs {
		m[o.Rule]++
	}
	return m
}

func seedEnv() int {
	var n int
	fmt.Sscanf(os.Getenv("VERIF_SEED"), "%d", &n)
	return n
}

// ---- overlay mutants (verifying the verifier) ------------------------------

// mutant is one seeded break (or benign rewrite) applied in memory through
// go/packages' Overlay; nothing is written under /repo.
type mutant struct {
	Name   string
	File   string // relative to /repo
	Old    string
	New    string
	Expect string // rule id that must report; "" = benign rewrite, nothing may report
	All    bool   // replace all occurrences
	More   []repl // further replacements in the same file
}

type repl struct{ Old, New string }

func applyMutant(m mutant) (map[string][]byte, bool) {
	path := filepath.Join(repoDir(), m.File)
	data, err := os.ReadFile(path)
	if err != nil {
		return nil, false
	}
	s := string(data)
	if !strings.Contains(s, m.Old) {
		return nil, false
	}
	if m.All {
		s = strings.ReplaceAll(s, m.Old, m.New)
	} else {
		s = strings.Replace(s, m.Old, m.New, 1)
	}
	for _, r := range m.More {
		if !strings.Contains(s, r.Old) {
			return nil, false
		}
		s = strings.Replace(s, r.Old, r.New, 1)
	}
	return map[string][]byte{path: []byte(s)}, true
}

type mutResult struct {
	Name     string   `json:"name"`
	Expect   string   `json:"expect"`
	Outcome  string   `json:"outcome"`
	Reported []string `json:"reported,omitempty"`
}

func runOneMutant(p *propDef, m mutant, baseline map[string]bool) mutResult {
	r := mutResult{Name: m.Name, Expect: m.Expect}
	ov, ok := applyMutant(m)
	if !ok {
		r.Outcome = "skipped: patch does not apply to the current tree"
		return r
	}
	c, err := load(repoDir(), ov, "")
	if err != nil {
		r.Outcome = "skipped: variant does not type-check: " + firstLine(err.Error())
		return r
	}
	c.Prop, c.Tier = p.ID, "mutant"
	currentOverlay = ov
	defer func() { currentOverlay = nil }()
	func() {
		defer func() {
			if rec := recover(); rec != nil {
				c.undecided(p.ID+".PANIC", "checker", fmt.Sprint(rec))
			}
		}()
		p.Run(c)
	}()
	hit := false
	for _, o := range c.Obs {
		if o.st == OK || baseline[o.Rule+"|"+o.Construct] {
			continue
		}
		r.Reported = append(r.Reported, o.Rule+" ["+o.Construct+"]")
		if m.Expect != "" && (o.Rule == m.Expect || strings.HasPrefix(o.Rule, m.Expect)) {
			hit = true
		}
	}
	switch {
	case m.Expect == "" && len(r.Reported) == 0:
		r.Outcome = "silent (benign rewrite accepted)"
	case m.Expect == "":
		r.Outcome = "FALSE-ALARM on benign rewrite"
	case hit:
		r.Outcome = "killed"
	case len(r.Reported) > 0:
		r.Outcome = "killed by another rule"
	default:
		r.Outcome = "SURVIVED"
	}
	return r
}

// baselineViolations returns the (rule|construct) keys that already fail on the unmodified tree.
func baselineViolations(p *propDef) map[string]bool {
	base := map[string]bool{}
	c, err := load(repoDir(), nil, "")
	if err != nil {
		return base
	}
	func() {
		defer func() { recover() }()
		p.Run(c)
	}()
	for _, o := range c.Obs {
		if o.st != OK {
			base[o.Rule+"|"+o.Construct] = true
		}
	}
	return base
}

func runMutants(p *propDef) interface{} {
	base := baselineViolations(p)
	var res []mutResult
	killed, survived, falseAlarm, skipped := 0, 0, 0, 0
	for _, m := range p.Mutants {
		r := runOneMutant(p, m, base)
		res = append(res, r)
		switch {
		case strings.HasPrefix(r.Outcome, "killed"), strings.HasPrefix(r.Outcome, "silent"):
			killed++
		case strings.HasPrefix(r.Outcome, "skipped"):
			skipped++
		case strings.HasPrefix(r.Outcome, "FALSE"):
			falseAlarm++
		default:
			survived++
		}
	}
	return map[string]interface{}{
		"note":         "seeded breaks / benign rewrites applied in memory (go/packages Overlay); evidence about the checker only, never changes the exit code",
		"as_expected":  killed,
		"survived":     survived,
		"false_alarms": falseAlarm,
		"skipped":      skipped,
		"results":      res,
	}
}

func runGOOSVariants(p *propDef) interface{} {
	out := map[string]string{}
	for _, goos := range []string{"darwin", "windows"} {
		c, err := load(repoDir(), nil, goos)
		if err != nil {
			out[goos] = "file set does not load from source in this sandbox (not fatal; linux is the tested build): " + firstLine(err.Error())
			continue
		}
		c.Prop, c.Tier = p.ID, "goos-"+goos
		func() {
			defer func() {
				if rec := recover(); rec != nil {
					c.undecided(p.ID+".PANIC", "checker", fmt.Sprint(rec))
				}
			}()
			p.Run(c)
		}()
		bad := 0
		for _, o := range c.Obs {
			if o.st != OK {
				bad++
			}
		}
		out[goos] = fmt.Sprintf("%d obligations, %d not discharged", len(c.Obs), bad)
	}
	return out
}

func firstLine(s string) string {
	if i := strings.Index(s, "\n"); i >= 0 {
		// keep the first two lines for context
		rest := s[i+1:]
		if j := strings.Index(rest, "\n"); j >= 0 {
			return s[:i] + " | " + strings.TrimSpace(rest[:j])
		}
		return s[:i] + " | " + strings.TrimSpace(rest)
	}
	return s
}

func explain(path string) int {
	if !filepath.IsAbs(path) {
		path = filepath.Join(verifDir(), path)
	}
	data, err := os.ReadFile(path)
	if err != nil {
		fmt.Fprintln(os.Stderr, err)
		return 2
	}
	var m map[string]interface{}
	json.Unmarshal(data, &m)
	id, _ := m["property"].(string)
	rule, _ := m["rule"].(string)
	construct, _ := m["construct"].(string)
	fmt.Printf("replaying %s [%s] of %s on the current tree\n", rule, construct, id)
	p := props[id]
	if p == nil {
		return 2
	}
	c, err := load(repoDir(), nil, "")
	if err != nil {
		fmt.Fprintln(os.Stderr, err)
		return 2
	}
	p.Run(c)
	rc := 0
	found := false
	for _, o := range c.Obs {
		if o.Rule == rule && o.Construct == construct {
			found = true
			fmt.Printf("%s %s [%s] at %s\n  %s\n", o.Status, o.Rule, o.Construct, o.Pos, o.Detail)
			if o.st != OK {
				rc = 1
			}
		}
	}
	if !found {
		fmt.Println("the construct no longer produces this obligation on the current tree")
	}
	return rc
}
