package main

import (
	"go/token"
	"go/types"
	"sort"
	"strings"

	"golang.org/x/tools/go/ssa"
)

// ---- O1 -----------------------------------------------------------------------------------------------------------

func c03IsRoutes(t types.Type) bool {
	if namedIs(t, "route.Routes") {
		return true
	}
	if s, ok := t.Underlying().(*types.Slice); ok {
		if p, ok := s.Elem().(*types.Pointer); ok {
			return namedIs(p.Elem(), "route.Route")
		}
	}
	return false
}

// c03IsElemSort: a sort of one host's routes.
func c03IsElemSort(i ssa.Instruction) bool {
	s, ok := c03SortCall(i)
	return ok && c03IsRoutes(s.list.Type())
}

// c03IsSortAll: i is the range over a route.Table whose loop sorts the routes of each host (directly or through a
// helper that sorts on all of its paths).
func c03IsSortAll(i ssa.Instruction) bool {
	sorts := liftMust(c03IsElemSort, 1)
	if v, isV := i.(ssa.Value); isV && c03KeyList(v) {
		// for _, host := range slices.Sorted(maps.Keys(t)) { sort.Sort(t[host]) }
		for _, l := range loopsOf(i.Parent()) {
			if !c03LoopIterates(l, v) {
				continue
			}
			for b := range l.Body {
				for _, in := range b.Instrs {
					if sorts(in) {
						return true
					}
				}
			}
		}
		return false
	}
	if call, isCall := i.(*ssa.Call); isCall && !call.Call.IsInvoke() && call.Call.StaticCallee() == nil && len(call.Call.Args) == 1 {
		// for h := range maps.Values(t) { sort.Sort(h) }: the iterator of the standard library calls the loop body
		// (a closure) for every entry of the table
		if seq, isSeq := call.Call.Value.(*ssa.Call); isSeq && len(seq.Call.Args) == 1 && c03IsTableT(seq.Call.Args[0].Type()) {
			switch c03Name(&seq.Call) {
			case "maps.Values", "maps.All":
				fns := funcsOf(call.Call.Args[0])
				for _, g := range fns {
					if !mustExec(g, c03IsElemSort, 1) {
						return false
					}
				}
				return len(fns) > 0
			}
		}
		return false
	}
	rg, ok := i.(*ssa.Range)
	if !ok {
		return false
	}
	x := rg.X
	for !c03IsTableT(x.Type()) {
		ct, ok := x.(*ssa.ChangeType)
		if !ok {
			return false
		}
		x = ct.X
	}
	for _, l := range loopsOf(rg.Parent()) {
		mine := false
		for _, in := range l.Head.Instrs {
			if nx, ok := in.(*ssa.Next); ok && nx.Iter == rg {
				mine = true
			}
		}
		if !mine {
			continue
		}
		for b := range l.Body {
			for _, in := range b.Instrs {
				if sorts(in) {
					return true
				}
			}
		}
	}
	return false
}

func c03TableResult(f *ssa.Function) int {
	res := f.Signature.Results()
	for k := 0; k < res.Len(); k++ {
		if c03IsTableT(res.At(k).Type()) {
			if _, isPtr := res.At(k).Type().(*types.Pointer); !isPtr {
				return k
			}
		}
	}
	return -1
}

// c03IsApplier: a function that applies one route command to a table (a route.Table and a *route.RouteDef among its
// parameters, receiver included).
func c03IsApplier(g *ssa.Function) bool {
	if g == nil || g.Parent() != nil || len(g.Blocks) == 0 {
		return false
	}
	tbl, def := false, false
	for _, p := range g.Params {
		if c03IsTableT(p.Type()) {
			tbl = true
		}
		if ptr, ok := p.Type().(*types.Pointer); ok && namedIs(ptr.Elem(), "route.RouteDef") {
			def = true
		}
	}
	return tbl && def
}

// c03HoldsAppliers: a (pointer to a) map, slice, array or plain value of functions taking a route.Table and a
// *route.RouteDef.
func c03HoldsAppliers(t types.Type) bool {
	for d := 0; d < 4; d++ {
		switch u := t.Underlying().(type) {
		case *types.Pointer:
			t = u.Elem()
		case *types.Map:
			t = u.Elem()
		case *types.Slice:
			t = u.Elem()
		case *types.Array:
			t = u.Elem()
		case *types.Signature:
			tbl, def := false, false
			for k := 0; k < u.Params().Len(); k++ {
				pt := u.Params().At(k).Type()
				if c03IsTableT(pt) {
					tbl = true
				}
				if ptr, ok := pt.(*types.Pointer); ok && namedIs(ptr.Elem(), "route.RouteDef") {
					def = true
				}
			}
			return tbl && def
		default:
			return false
		}
	}
	return false
}

// c03GlobalFuncs: the functions the package initialiser puts into package-level variable g (a function value, a map
// or slice literal of functions).
func c03GlobalFuncs(c *Ctx, g *ssa.Global) []*ssa.Function {
	var out []*ssa.Function
	if g.Pkg == nil {
		return nil
	}
	init := g.Pkg.Func("init")
	if init == nil {
		return nil
	}
	add := func(v ssa.Value) { out = append(out, funcsOf(v)...) }
	eachInstr(init, func(i ssa.Instruction) {
		st, ok := i.(*ssa.Store)
		if !ok || st.Addr != ssa.Value(g) {
			return
		}
		add(st.Val)
		switch v := st.Val.(type) {
		case *ssa.MakeMap:
			for _, ref := range *v.Referrers() {
				if mu, ok := ref.(*ssa.MapUpdate); ok && mu.Map == ssa.Value(v) {
					add(mu.Value)
				}
			}
		case *ssa.Slice:
			if arr, ok := v.X.(*ssa.Alloc); ok {
				for _, ref := range *arr.Referrers() {
					if ia, ok := ref.(*ssa.IndexAddr); ok {
						for _, r2 := range *ia.Referrers() {
							if s2, ok := r2.(*ssa.Store); ok && s2.Addr == ssa.Value(ia) {
								add(s2.Val)
							}
						}
					}
				}
			}
		}
	})
	return out
}

type c03ctorCk struct {
	c    *Ctx
	memo map[*ssa.Function]int // 1 in progress, 2 sorted, 3 not
}

// reachesApplier: calling g may apply a route command.
func (k *c03ctorCk) reachesApplier(g *ssa.Function) bool {
	reg := k.c.regionDepth(3, g)
	for _, h := range reg {
		if c03IsApplier(h) {
			return true
		}
	}
	// table-driven dispatch: the region calls a function value that takes a route.Table and a *route.RouteDef
	hit := false
	eachInstrOf(reg, func(_ *ssa.Function, i ssa.Instruction) {
		if cc := callCommon(i); cc != nil && !cc.IsInvoke() && cc.StaticCallee() == nil && c03HoldsAppliers(cc.Value.Type()) {
			hit = true
		}
	})
	return hit
}

// appliesCommands: the call may apply a route command: a static call of a repository function that reaches an
// applier, a call of a function value that does, or a call that is handed such a function (an iterator driving the
// loop body `for d := range seq { t.addRoute(d) }`, a visitor).
func (k *c03ctorCk) appliesCommands(call *ssa.Call) bool {
	if sc := call.Call.StaticCallee(); sc != nil {
		if isRepoFn(sc) && k.reachesApplier(sc) {
			return true
		}
	} else if !call.Call.IsInvoke() {
		for _, g := range c03CalleesOf(call.Call.Value) {
			if isRepoFn(g) && k.reachesApplier(g) {
				return true
			}
		}
	}
	for _, a := range call.Call.Args {
		if _, isFn := a.Type().Underlying().(*types.Signature); !isFn {
			continue
		}
		for _, g := range c03CalleesOf(a) {
			if isRepoFn(g) && k.reachesApplier(g) {
				return true
			}
		}
	}
	return false
}

// sortedReturn: the table carried by return r of f has every host's routes sorted.
func (k *c03ctorCk) sortedReturn(f *ssa.Function, r *ssa.Return, v ssa.Value, depth int) bool {
	if c03IsNilValue(v, 0) {
		return true
	}
	ok := !c03ReachFromEntry(f, r, c03IsSortAll)
	if ok {
		// ... and the sort comes after the last command was applied
		eachInstr(f, func(i ssa.Instruction) {
			call, isCall := i.(*ssa.Call)
			if !isCall || !ok {
				return
			}
			if !k.appliesCommands(call) {
				return
			}
			if pathAvoiding(i, r, c03IsSortAll) {
				ok = false
			}
		})
	}
	if ok {
		return true
	}
	// delegated: the table is the result of a repository function that hands out sorted tables only
	x := v
	idx := 0
	if e, isE := x.(*ssa.Extract); isE {
		x, idx = e.Tuple, e.Index
	}
	if call, isCall := x.(*ssa.Call); isCall && depth < 3 {
		if g := call.Call.StaticCallee(); g != nil && isRepoFn(g) && len(g.Blocks) > 0 && c03TableResult(g) == idx {
			return k.allSorted(g, depth+1)
		}
	}
	return false
}

func (k *c03ctorCk) allSorted(g *ssa.Function, depth int) bool {
	switch k.memo[g] {
	case 1, 2:
		return true
	case 3:
		return false
	}
	k.memo[g] = 1
	idx := c03TableResult(g)
	ok := true
	eachInstr(g, func(i ssa.Instruction) {
		if r, isR := i.(*ssa.Return); isR && idx >= 0 && idx < len(r.Results) && !(r.Block() == g.Recover && !c03Recovers(g)) && !k.sortedReturn(g, r, r.Results[idx], depth) {
			ok = false
		}
	})
	if ok {
		k.memo[g] = 2
	} else {
		k.memo[g] = 3
	}
	return ok
}

func runC03O1(c *Ctx) {
	k := &c03ctorCk{c: c, memo: map[*ssa.Function]int{}}
	isMadeTable := func(v ssa.Value) bool {
		m, ok := v.(*ssa.MakeMap)
		return ok && c03IsTableT(m.Type())
	}
	const detail = "lookup returns the first route whose path matches; 'longest matching path wins' therefore needs every host's routes sorted (descending path) after the last command was applied and before the table is handed out"
	checkCtor := func(f *ssa.Function, label string) int {
		idx := c03TableResult(f)
		n := 0
		eachInstr(f, func(i ssa.Instruction) {
			r, ok := i.(*ssa.Return)
			if !ok || idx < 0 || idx >= len(r.Results) || c03IsNilValue(r.Results[idx], 0) {
				return
			}
			if r.Block() == f.Recover && !c03Recovers(f) {
				return // the return after a recovered panic, in a function none of whose deferred calls recovers
			}
			n++
			c.check("C03.O1", label+"|routes of every host sorted before the table is returned", r.Pos(), k.sortedReturn(f, r, r.Results[idx], 0), detail)
		})
		return n
	}
	named := map[*ssa.Function]bool{}
	var sets []string
	for _, name := range []string{"NewTable", "NewTableCustom"} {
		f := c.fn("route", name)
		if !c.need("C03.O1", f, "route."+name) {
			continue
		}
		named[f] = true
		c.atLeast("C03.O1", "returns of route."+name+" that carry a table", checkCtor(f, "route."+name), 1)
		// the leaf command appliers this constructor reaches
		var cmds []string
		reg := c.regionDepth(4, f)
		// table-driven dispatch: a package-level table of command appliers read by the region is filled by the
		// package initialiser
		var tables []*ssa.Global
		eachInstrOf(reg, func(_ *ssa.Function, i ssa.Instruction) {
			if u, ok := i.(*ssa.UnOp); ok && u.Op == token.MUL {
				if g, ok := u.X.(*ssa.Global); ok && c03HoldsAppliers(g.Type()) {
					tables = append(tables, g)
				}
			}
		})
		for _, g := range tables {
			reg = append(reg, c03GlobalFuncs(c, g)...)
		}
		for _, g := range reg {
			if !c03IsApplier(g) || g == f {
				continue
			}
			leaf := true
			for _, h := range c.regionDepth(3, g) {
				if h != g && c03IsApplier(h) {
					leaf = false
				}
			}
			if leaf {
				cmds = append(cmds, fnKey(g))
			}
		}
		sort.Strings(cmds)
		sets = append(sets, strings.Join(cmds, ","))
	}
	if len(sets) == 2 {
		c.check("C03.O1", "route.NewTable/NewTableCustom|same command dispatch", token.NoPos, sets[0] == sets[1] && strings.Count(sets[0], ",") >= 2,
			"both constructors must apply add, del and weight commands (same post-processing): ["+sets[0]+"] vs ["+sets[1]+"]")
	}
	// any other function of the package that hands a freshly made table to callers the analysis cannot enumerate
	for _, f := range c.fnsWhere("route", func(f *ssa.Function) bool {
		return f.Parent() == nil && !named[f] && c03TableResult(f) >= 0 && !onlyStaticallyCalled(f)
	}) {
		idx := c03TableResult(f)
		makes := false
		eachInstr(f, func(i ssa.Instruction) {
			if r, ok := i.(*ssa.Return); ok && idx < len(r.Results) && derives(r.Results[idx], isMadeTable) {
				makes = true
			}
		})
		if makes {
			checkCtor(f, fnKey(f))
		}
	}
}
