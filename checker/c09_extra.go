package main

// C09 rules B3..B7, W1. Sites are found by role in the regions of the tunnels (c09.go), values compared by identity
// (c09_flow.go).

import (
	"go/token"
	"go/types"
	"sort"
	"strings"

	"golang.org/x/tools/go/ssa"
)

// ---- B3: copy loops ---------------------------------------------------------------------------------------------------

func isZero(v ssa.Value) bool {
	k, ok := constInt(v)
	return ok && k == 0
}

// c09inLoop: the instruction runs once per iteration of a loop: in a loop of its function, or in a helper all of
// whose static call sites are in loops.
func c09inLoop(i ssa.Instruction, depth int) bool {
	f := i.Parent()
	for _, l := range loopsOf(f) {
		if l.Body[i.Block()] {
			return true
		}
	}
	sites := gSites[f]
	if depth >= 2 || len(sites) == 0 || !onlyStaticallyCalled(f) {
		return false
	}
	for _, s := range sites {
		if s.Parent() == f || !c09inLoop(s, depth+1) {
			return false
		}
	}
	return true
}

func runC09B3(c *Ctx, tunnels []*c09tunnel) {
	done := map[*ssa.Call]bool{}
	for _, t := range tunnels {
		// vacuity: the tunnel's region contains something that moves the stream, and every Read into a byte buffer
		// found there is relayed by a Write of that buffer
		nCopy := len(t.relays)
		eachInstrOf(t.reg, func(f *ssa.Function, i ssa.Instruction) {
			if !t.relayRead[i] && t.isCopyInstr(i) {
				nCopy++
			}
		})
		if nCopy == 0 {
			c.undecided("C09.B3", t.label+"|relay write", "nothing that copies a stream (a Write of a buffer filled by Read, io.Copy) found in the region of this tunnel")
		}
		for _, rd := range t.unmatched {
			name := fnKey(rd.Parent())
			if rd.Parent() == t.entry {
				name = t.label + " (handshake relay)"
			}
			c.undecided("C09.B3", name+"|relay write", "no Write of a buffer filled by Read found")
		}
		for _, r := range t.relays {
			if done[r.wr] {
				continue
			}
			done[r.wr] = true
			name := fnKey(r.fn)
			if r.fn == t.entry {
				name = t.label + " (handshake relay)"
			}
			c09checkRelay(c, name, r)
		}
	}
}

func c09checkRelay(c *Ctx, name string, r c09relay) {
	f, rd, call, sl := r.fn, r.rd, r.wr, r.sl
	okSlice := sl != nil && (sl.Low == nil || isZero(sl.Low)) && sl.High != nil
	if okSlice {
		e, isE := sl.High.(*ssa.Extract)
		okSlice = isE && e.Tuple == ssa.Value(rd) && e.Index == 0
	}
	// same iteration: the read dominates the write
	okSlice = okSlice && dominatesInstr(rd, call)
	accum := false
	if r.rsl != nil {
		// an accumulating read `m, err := src.Read(buf[n:]); n += m` in a loop, relayed after the loop by ONE write of
		// buf[0:n]: n counts what all reads returned (round 4)
		accum = true
		okSlice = c09accumRelay(r)
	}
	c.check("C09.B3", name+"|writes exactly the bytes just read", call.Pos(), okSlice,
		"the relay must write buf[0:n] with n the count returned by the read of the same buffer in this iteration; anything else drops, duplicates or invents bytes")
	// short write / write error leave with an error
	var nw, ew, nr ssa.Value
	for _, ref := range *call.Referrers() {
		if e, ok := ref.(*ssa.Extract); ok {
			if e.Index == 0 {
				nw = e
			} else {
				ew = e
			}
		}
	}
	for _, ref := range *rd.Referrers() {
		if e, ok := ref.(*ssa.Extract); ok && e.Index == 0 {
			nr = e
		}
	}
	isLenOfWritten := func(v ssa.Value) bool {
		// len(buf[:nr]) is nr
		lc, ok := v.(*ssa.Call)
		if !ok || calleeName(&lc.Call) != "builtin.len" || len(lc.Call.Args) != 1 {
			return false
		}
		return sl != nil && lc.Call.Args[0] == ssa.Value(sl)
	}
	isNr := func(v ssa.Value) bool {
		if accum {
			return sl != nil && (v == sl.High || isLenOfWritten(v)) // the count accumulated over the reads
		}
		return nr != nil && (v == nr || isLenOfWritten(v))
	}
	shortChecked, errChecked := false, false
	eachInstr(f, func(j ssa.Instruction) {
		b, ok := j.(*ssa.BinOp)
		if !ok {
			return
		}
		switch b.Op {
		case token.NEQ, token.EQL, token.LSS, token.GTR, token.LEQ, token.GEQ:
			if nw != nil && ((isNr(b.X) && b.Y == nw) || (b.X == nw && isNr(b.Y))) {
				shortChecked = true
			}
		}
		if (b.Op == token.NEQ || b.Op == token.EQL) && ew != nil && ((b.X == ew && isNilConst(b.Y)) || (b.Y == ew && isNilConst(b.X))) {
			errChecked = true
		}
	})
	c.check("C09.B3", name+"|short or failed writes end the relay with an error", call.Pos(), shortChecked && errChecked,
		"a write that fails or accepts fewer bytes than were read must end the copy (error): continuing silently loses the remainder")
	// a streaming relay (one Read per iteration) writes what the Read returned before it looks at the Read's error;
	// a one-shot relay (handshake) may give up on a read error
	if !c09inLoop(rd, 0) || accum {
		return // the loop of an accumulating read collects ONE message (a handshake), it does not stream
	}
	isReadErr := func(v ssa.Value) bool {
		e, ok := v.(*ssa.Extract)
		return ok && e.Tuple == ssa.Value(rd) && e.Index == 1
	}
	dep := false
	for _, ft := range factsAt(call.Block()) {
		if _, ok := nilFact(ft, isReadErr); ok {
			dep = true
		}
		if b, ok := ft.Cond.(*ssa.BinOp); ok && (isReadErr(b.X) || isReadErr(b.Y)) {
			dep = true
		}
	}
	// ... nor lies behind a branch on the read error that can be taken between the Read and the Write (a compound
	// condition such as `er != nil && er != io.EOF` leaves no single fact at the Write's block)
	isRd := func(j ssa.Instruction) bool { return j == ssa.Instruction(rd) }
	isWr := func(j ssa.Instruction) bool { return j == ssa.Instruction(call) }
	eachInstr(f, func(j ssa.Instruction) {
		iff, ok := j.(*ssa.If)
		if !ok || dep {
			return
		}
		b, ok := iff.Cond.(*ssa.BinOp)
		if !ok || !(isReadErr(b.X) || isReadErr(b.Y)) {
			return
		}
		if pathAvoiding(rd, iff, isWr) && pathAvoiding(iff, call, isRd) {
			dep = true
		}
	})
	c.check("C09.B3", name+"|bytes returned together with an error are still written", call.Pos(), !dep,
		"io.Reader may return n > 0 together with an error (crypto/tls returns the last record with io.EOF when close_notify arrives in the same segment); the relay must write buf[0:n] before it examines the read error, otherwise the final bytes of a stream are dropped")
}

// c09accumRelay: the relay reads into the window buf[n:] and writes buf[0:hi] where n is a counter that starts at 0 and
// grows by the count every such read returned, hi is that counter, the counter has been advanced past the last read on
// every path from the read to the write, and the write is outside the read's loop (inside it, it would send the
// bytes of the earlier reads again).
func c09accumRelay(r c09relay) bool {
	sl, win := r.sl, r.rsl
	if sl == nil || win == nil || win.High != nil || sl.High == nil || !(sl.Low == nil || isZero(sl.Low)) {
		return false
	}
	var adds []ssa.Instruction
	seen := map[ssa.Value]bool{}
	var counter func(v ssa.Value) bool
	counter = func(v ssa.Value) bool {
		if seen[v] {
			return true
		}
		switch x := v.(type) {
		case *ssa.Phi:
			seen[v] = true
			for _, e := range x.Edges {
				if !isZero(e) && !counter(e) {
					return false
				}
			}
			return true
		case *ssa.BinOp:
			if x.Op != token.ADD {
				return false
			}
			isCount := func(y ssa.Value) bool {
				e, ok := y.(*ssa.Extract)
				return ok && e.Tuple == ssa.Value(r.rd) && e.Index == 0
			}
			if (isCount(x.Y) && counter(x.X)) || (isCount(x.X) && counter(x.Y)) {
				seen[v] = true
				adds = append(adds, x)
				return true
			}
		}
		return false
	}
	if !counter(win.Low) || !counter(sl.High) || len(adds) == 0 {
		return false
	}
	for _, l := range loopsOf(r.fn) {
		if l.Body[r.rd.Block()] && l.Body[r.wr.Block()] {
			return false
		}
	}
	isAdd := func(i ssa.Instruction) bool {
		for _, a := range adds {
			if a == i {
				return true
			}
		}
		return false
	}
	return !pathAvoiding(r.rd, r.wr, isAdd)
}

// ---- B6: Peek --------------------------------------------------------------------------------------------------------

// runC09B6: a Peek on a default-sized bufio.Reader cannot return more than its buffer (4096 bytes):
// a computed Peek length makes the handler fail for larger first records.
func runC09B6(t *c09tunnel) {
	c := t.c
	eachInstrOf(t.reg, func(f *ssa.Function, i ssa.Instruction) {
		call, ok := i.(*ssa.Call)
		if !ok || calleeName(&call.Call) != "(*bufio.Reader).Peek" {
			return
		}
		_, hi, isK := c09intRange(call.Call.Args[1])
		sized := false
		derives(call.Call.Args[0], func(v ssa.Value) bool {
			if _, ok := isCallTo(v, "bufio.NewReaderSize"); ok {
				sized = true
			}
			return false
		})
		name := fnKey(f)
		if f == t.entry {
			name = t.label
		}
		c.check("C09.B6", name+"|Peek length within the reader's buffer", call.Pos(), (isK && hi <= 4096) || sized,
			"bufio.Reader.Peek(n) fails with ErrBufferFull when n exceeds the reader's buffer (4096 bytes for bufio.NewReader): peeking a computed length (e.g. a whole ClientHello) rejects every connection whose first record is larger; read it with io.ReadFull and replay it instead")
	})
}

// ---- B4 / B5: PROXY header, replay of consumed bytes --------------------------------------------------------------------

// c09proxyHeaderFn: the function of proxy/tcp that writes the PROXY protocol line: WriteProxyHeader if it still does,
// otherwise the innermost package-level function whose region builds a string starting with "PROXY " and writes.
func c09proxyHeaderFn(c *Ctx) *ssa.Function {
	role := func(f *ssa.Function) bool {
		if f.Parent() != nil || f.Signature.Recv() != nil {
			return false
		}
		line, writes := false, false
		eachInstrOf(c.region(f), func(g *ssa.Function, i ssa.Instruction) {
			for _, op := range i.Operands(nil) {
				if op != nil && *op != nil {
					if s, ok := constString(*op); ok && strings.HasPrefix(s, "PROXY ") {
						line = true
					}
				}
			}
			if call, ok := i.(*ssa.Call); ok {
				if _, _, ok := c09ioCall(&call.Call, "Write"); ok {
					writes = true
				}
			}
		})
		return line && writes
	}
	if f := c.fn("proxy/tcp", "WriteProxyHeader"); f != nil && role(f) {
		return f
	}
	cands := c.fnsWhere("proxy/tcp", role)
	var inner []*ssa.Function
	for _, f := range cands {
		callsOther := false
		for _, g := range c.region(f) {
			for _, h := range cands {
				if g == h && h != f {
					callsOther = true
				}
			}
		}
		if !callsOther {
			inner = append(inner, f)
		}
	}
	if len(inner) == 1 {
		return inner[0]
	}
	return nil
}

func runC09B4(t *c09tunnel) {
	c := t.c
	wph := c09proxyHeaderFn(c)
	if !c.need("C09.B4", wph, "tcp.WriteProxyHeader") {
		return
	}
	inWph := map[*ssa.Function]bool{}
	for _, g := range c.region(wph) {
		inWph[g] = true
	}
	// the upstream connection: what a dial in the region returns
	up := map[c09key]ssa.Value{}
	eachInstrOf(t.reg, func(f *ssa.Function, i ssa.Instruction) {
		call, ok := i.(*ssa.Call)
		if !ok || !contactPrims[calleeName(&call.Call)] || !strings.Contains(calleeName(&call.Call), "Dial") {
			return
		}
		for _, r := range *call.Referrers() {
			if e, ok := r.(*ssa.Extract); ok && e.Index == 0 {
				up[c09key{v: call, idx: 1}] = e
			}
		}
	})
	if len(up) == 0 {
		c.undecided("C09.B4", t.label+"|upstream connection", "dial result not found")
		return
	}
	upMemo := map[ssa.Value]bool{}
	isUp := func(v ssa.Value) bool {
		if r, ok := upMemo[v]; ok {
			return r
		}
		r := c09meet(c09roots(v), up)
		upMemo[v] = r
		return r
	}
	isHdr := func(i ssa.Instruction) bool {
		_, isCall := i.(*ssa.Call)
		return isCall && staticCalleeIs(i, wph)
	}
	var hdr []ssa.Instruction
	eachInstrOf(t.reg, func(f *ssa.Function, i ssa.Instruction) {
		if !inWph[f] && isHdr(i) {
			hdr = append(hdr, i)
		}
	})
	isPP := func(v ssa.Value) bool { _, ok := fieldOf(v, "route.Target", "ProxyProto"); return ok }
	okHdr := len(hdr) > 0
	for _, h := range hdr {
		guard := false
		for _, ft := range factsAt(h.Block()) {
			if ft.Truth && (isPP(ft.Cond) || derives(ft.Cond, isPP)) {
				guard = true
			}
		}
		toUp := false
		for _, a := range callCommon(h).Args {
			if isUp(a) {
				toUp = true
			}
		}
		if !guard || !toUp {
			okHdr = false
		}
	}
	c.check("C09.B5", t.label+"|PROXY protocol header supported", t.entry.Pos(), okHdr,
		"every tunnel handler must write the PROXY header to the upstream on the Target.ProxyProto edge like its siblings; an upstream configured for the PROXY protocol otherwise parses the client's first bytes as the header")

	// anything that writes to the upstream: Write on it, a copy / formatted write into it, a goroutine that does so
	var isWriter func(i ssa.Instruction) bool
	isWriter = func(i ssa.Instruction) bool {
		if i.Parent() != nil && inWph[i.Parent()] {
			return false // the header write itself
		}
		switch x := i.(type) {
		case *ssa.Call:
			if recv, _, ok := c09ioCall(&x.Call, "Write"); ok && isUp(recv) {
				return true
			}
			n := calleeName(&x.Call)
			if (c09copyFns[n] || n == "io.WriteString" || strings.HasPrefix(n, "fmt.Fprint")) && len(x.Call.Args) > 0 && isUp(x.Call.Args[0]) {
				return true
			}
		case *ssa.Go:
			if len(x.Call.Args) >= 1 && isUp(x.Call.Args[0]) {
				return true
			}
			for _, fn := range c09goTargets(x) {
				if !inWph[fn] && mayExec(fn, isWriter, 1) {
					return true
				}
			}
		}
		return false
	}
	liftWriter := func(i ssa.Instruction) bool {
		if isHdr(i) {
			return false
		}
		return liftMay(isWriter)(i)
	}
	if len(hdr) > 0 {
		bad := false
		for _, f := range t.reg {
			if inWph[f] {
				continue
			}
			var hs, ws []ssa.Instruction
			eachInstr(f, func(i ssa.Instruction) {
				if liftMay(isHdr)(i) {
					hs = append(hs, i)
				}
				if liftWriter(i) {
					ws = append(ws, i)
				}
			})
			for _, h := range hs {
				for _, w := range ws {
					if w != h && pathAvoiding(w, h, nil) {
						bad = true
					}
				}
			}
		}
		c.check("C09.B4", t.label+"|PROXY header is the first write on the upstream", hdr[0].Pos(), !bad,
			"the PROXY line must precede every other byte on the upstream connection; a write that can run before it makes the upstream misparse the stream")
	}

	// consuming reads before the tunnel starts
	eachInstrOf(t.reg, func(f *ssa.Function, i ssa.Instruction) {
		call, ok := i.(*ssa.Call)
		if !ok {
			return
		}
		n := calleeName(&call.Call)
		if n != "io.ReadFull" && n != "io.ReadAtLeast" {
			return
		}
		bufRoots := c09roots(call.Call.Args[1])
		isReplay := func(j ssa.Instruction) bool {
			wc, ok := j.(*ssa.Call)
			if !ok {
				return false
			}
			recv, args, ok := c09ioCall(&wc.Call, "Write")
			return ok && len(args) == 1 && isUp(recv) && c09meet(c09roots(args[0]), bufRoots)
		}
		replay := false
		eachInstrOf(t.reg, func(g *ssa.Function, j ssa.Instruction) {
			if isReplay(j) {
				replay = true
			}
		})
		isRead := func(j ssa.Instruction) bool { return j == i }
		if replay {
			// no path from the read to a start of the copy goroutines that avoids the replay, in whichever function
			// of the region the two meet
			for _, g := range t.reg {
				var as, bs []ssa.Instruction
				eachInstr(g, func(j ssa.Instruction) {
					if liftMay(isRead)(j) {
						as = append(as, j)
					}
					if liftMay(t.isCopyStart)(j) {
						bs = append(bs, j)
					}
				})
				for _, a := range as {
					for _, b := range bs {
						if a != b && pathAvoiding(a, b, isReplay) {
							replay = false
						}
					}
				}
			}
		}
		name := fnKey(f)
		if f == t.entry {
			name = t.label
		}
		c.check("C09.B4", name+"|bytes consumed before the tunnel are replayed whole", call.Pos(), replay,
			"bytes read from the client to make the routing decision (the captured ClientHello) are gone from the connection; the very same buffer must be written to the upstream, whole, before the copy goroutines start — the upstream must see the client's stream from its first byte")
	})
}

// ---- B7: no abortive close ---------------------------------------------------------------------------------------------

func runC09B7(c *Ctx, tunnels []*c09tunnel) {
	// every function of the tunnel packages and of the tunnels' regions
	seen := map[*ssa.Function]bool{}
	var fns []*ssa.Function
	for _, f := range c.AllFns {
		if rootPkg(f) == c.spkg("proxy/tcp") || rootPkg(f) == c.spkg("proxy") {
			seen[f] = true
			fns = append(fns, f)
		}
	}
	for _, t := range tunnels {
		for _, f := range t.reg {
			if !seen[f] {
				seen[f] = true
				fns = append(fns, f)
			}
		}
	}
	eachInstrOf(fns, func(f *ssa.Function, i ssa.Instruction) {
		cc := callCommon(i)
		if cc == nil || !strings.HasSuffix(calleeName(cc), ".SetLinger") || len(cc.Args) == 0 {
			return
		}
		_, hi, isK := c09intRange(cc.Args[len(cc.Args)-1])
		c.check("C09.B7", fnKey(f)+"|SetLinger on a tunnel connection", i.Pos(), isK && hi < 0,
			"SetLinger(n >= 0) makes Close discard data that is still queued (n == 0 sends RST at once): when the other side finishes first, the deferred Close of this connection throws away the tail of the stream — whichever side finishes first must have had all of its data delivered")
	})
	c.ob("C09.B7", "proxy, proxy/tcp|no linger override on tunnel connections", token.NoPos, OK, "scanned for SetLinger calls")
}

// ---- W1: the connection wrapper ------------------------------------------------------------------------------------------

// c09readsThroughReader: recv is a load of another field F of the wrapper struct nt, and whatever is stored in F
// anywhere in the repository is a reader placed over the connection stored in the wrapped-connection field `inner`
// of the same object (`&T{Conn: c, r: bufio.NewReader(c)}`): the "buffered connection" idiom. Reading through F
// delivers the wrapped connection's stream from its first byte (trusted: bufio.Reader).
func c09readsThroughReader(recv ssa.Value, nt types.Type, inner string) bool {
	st, _ := nt.Underlying().(*types.Struct)
	if st == nil {
		return false
	}
	fIdx := -1
	for k := 0; k < st.NumFields(); k++ {
		if name := st.Field(k).Name(); name != inner {
			if _, ok := fieldOf(recv, typeStr(nt), name); ok {
				fIdx = k
			}
		}
	}
	return fIdx >= 0 && c09readerFieldOver(nt, fIdx, inner)
}

// c09readerFieldOver: every value stored in field fIdx of the wrapper struct nt is a reader over the connection stored
// in field `inner` of the same object.
func c09readerFieldOver(nt types.Type, fIdx int, inner string) bool {
	st, _ := nt.Underlying().(*types.Struct)
	innerIdx := -1
	for k := 0; st != nil && k < st.NumFields(); k++ {
		if st.Field(k).Name() == inner {
			innerIdx = k
		}
	}
	if innerIdx < 0 || fIdx < 0 || fIdx >= st.NumFields() || fIdx == innerIdx {
		return false
	}
	stores := c09storesOf(st.Field(fIdx))
	if len(stores) == 0 {
		return false
	}
	for _, sto := range stores {
		fa := sto.Addr.(*ssa.FieldAddr)
		rw := c09newWalker()
		rw.through = true
		rw.walk(sto.Val)
		// the connection(s) stored in `inner` of the same object
		cw := c09newWalker()
		cw.through = true
		cw.field(fa.X, fa.X.Type(), innerIdx, fa.X)
		over := false
		for k, v := range rw.roots {
			if _, ok := cw.roots[k]; ok && k.s == "" && c09connLike(v.Type()) {
				over = true
			}
		}
		if !over {
			return false
		}
	}
	return true
}

// c09forwards: method f (Read/Write/Close named mn) of wrapper type tn hands its arguments, as received, to the same
// method of the wrapped connection (field `inner`; for Read also a reader placed over it) and returns what that call
// returned, unchanged - on every return, whichever of several forwarding calls (one per branch) produced it; the
// forwarding call may sit in a method of the same type that is called with the arguments as received. No other call
// of that method on the wrapped connection is made (a Write that also writes something of its own invents bytes).
func c09forwards(f *ssa.Function, mn string, nt types.Type, tn, inner string, depth int) bool {
	if f == nil || len(f.Blocks) == 0 || depth > 2 {
		return false
	}
	sameArgs := func(args []ssa.Value) bool {
		if len(args) != len(f.Params)-1 {
			return false
		}
		for k := range args {
			if args[k] != ssa.Value(f.Params[k+1]) {
				return false
			}
		}
		return true
	}
	good := map[ssa.Value]bool{}
	bad := false
	eachInstr(f, func(i ssa.Instruction) {
		call, isC := i.(*ssa.Call)
		if !isC {
			return
		}
		if recv, args, isM := c09ioCall(&call.Call, mn); isM {
			_, isInner := fieldOf(recv, "tcp."+tn, inner)
			through := !isInner && mn == "Read" && c09readsThroughReader(recv, nt, inner)
			if isInner || through {
				if sameArgs(args) {
					good[call] = true
				} else {
					bad = true
				}
				return
			}
		}
		// a method of the same wrapper type, given the receiver and the arguments as received, that forwards
		if sc := call.Call.StaticCallee(); sc != nil && isRepoFn(sc) && sc != f && sc.Signature.Recv() != nil && len(call.Call.Args) == len(f.Params) &&
			namedIs(sc.Signature.Recv().Type(), "tcp."+tn) && sameArgs(call.Call.Args[1:]) && types.Identical(sc.Signature.Results(), f.Signature.Results()) {
			if c09forwards(sc, mn, nt, tn, inner, depth+1) {
				good[call] = true
			}
		}
	})
	if bad || len(good) == 0 {
		return false
	}
	ret := true
	eachInstr(f, func(j ssa.Instruction) {
		r, isR := j.(*ssa.Return)
		if !isR {
			return
		}
		var from ssa.Value
		for k, res := range r.Results {
			var src ssa.Value
			if len(r.Results) == 1 {
				src = res
			} else if e, isE := res.(*ssa.Extract); isE && e.Index == k {
				src = e.Tuple
			}
			if src == nil || !good[src] || (from != nil && src != from) {
				ret = false
			}
			from = src
		}
	})
	return ret
}

// runC09W1: every struct of proxy/tcp that wraps a net.Conn and is itself a connection (Read, Write, Close) forwards
// those three unchanged. The wrapper is found by that role, not by its name.
func runC09W1(c *Ctx) {
	sp := c.spkg("proxy/tcp")
	if sp == nil {
		return
	}
	var names []string
	for n, m := range sp.Members {
		if _, ok := m.(*ssa.Type); ok {
			names = append(names, n)
		}
	}
	sort.Strings(names)
	nWrappers := 0
	for _, tn := range names {
		nt := sp.Members[tn].(*ssa.Type).Type()
		st, _ := nt.Underlying().(*types.Struct)
		if st == nil {
			continue
		}
		inner := ""
		for k := 0; k < st.NumFields(); k++ {
			ft := st.Field(k).Type()
			if _, isIface := ft.Underlying().(*types.Interface); typeStr(ft) == "net.Conn" || (isIface && inner == "" && c09connLike(ft)) {
				inner = st.Field(k).Name() // the wrapped connection: a net.Conn, or an interface with a connection's methods
			}
		}
		ms := c.Prog.MethodSets.MethodSet(types.NewPointer(nt))
		if inner == "" || ms.Lookup(sp.Pkg, "Read") == nil || ms.Lookup(sp.Pkg, "Write") == nil || ms.Lookup(sp.Pkg, "Close") == nil {
			continue
		}
		nWrappers++
		n := 0
		for _, mn := range []string{"Read", "Write", "Close"} {
			sel := ms.Lookup(sp.Pkg, mn)
			key := "(*proxy/tcp." + tn + ")." + mn + "|forwards unchanged to the wrapped connection"
			detail := "the timeout wrapper sits in every tunnel: " + mn + " must pass its argument to the wrapped connection as received and return its results unchanged"
			if idx := sel.Index(); len(idx) > 1 {
				// promoted from the embedded connection: forwarded by construction; a Read promoted from an embedded
				// reader (struct{ *bufio.Reader; c net.Conn }) forwards when that reader is over the wrapped connection
				n++
				if st.Field(idx[0]).Name() == inner {
					c.ob("C09.W1", key, token.NoPos, OK, detail+" (promoted from the embedded net.Conn)")
				} else {
					c.check("C09.W1", key, st.Field(idx[0]).Pos(), mn == "Read" && c09readerFieldOver(nt, idx[0], inner), detail+" ("+mn+" is promoted from the embedded field "+st.Field(idx[0]).Name()+", which must be a reader over the wrapped connection)")
				}
				continue
			}
			f := c.Prog.MethodValue(sel)
			if obj, isF := sel.Obj().(*types.Func); isF {
				// the declared method, not the wrapper synthesised for the pointer type of a value-receiver method
				if d := c.Prog.FuncValue(obj); d != nil && len(d.Blocks) > 0 {
					f = d
				}
			}
			if f == nil || len(f.Blocks) == 0 {
				continue
			}
			n++
			ok := c09forwards(f, mn, nt, tn, inner, 0)
			c.check("C09.W1", key, f.Pos(), ok, detail)
		}
		c.atLeast("C09.W1", "Read/Write/Close of the "+tn+" wrapper", n, 3)
	}
	if nWrappers == 0 {
		c.undecided("C09.W1", "proxy/tcp.conn|wrapper type", "no struct of proxy/tcp wraps a net.Conn and implements Read/Write/Close")
	}
}
