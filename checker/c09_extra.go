package main

// C09 rules B3..B7, W1. Sites are found by role in the regions of the tunnels (c09.go), values compared by identity
// (c09_flow.go).

import (
	"go/token"
	"go/types"
	"sort"
	"strings"

	"golang.org/x/tools/go/ssa"
)

// ---- B3: copy loops ---------------------------------------------------------------------------------------------------

func isZero(v ssa.Value) bool {
	k, ok := constInt(v)
	return ok && k == 0
}

// c09inLoop: the instruction runs once per iteration of a loop: in a loop of its function, or in a helper all of
// whose static call sites are in loops.
func c09inLoop(i ssa.Instruction, depth int) bool {
	f := i.Parent()
	for _, l := range loopsOf(f) {
		if l.Body[i.Block()] {
			return true
		}
	}
	sites := gSites[f]
	if depth >= 2 || len(sites) == 0 || !onlyStaticallyCalled(f) {
		return false
	}
	for _, s := range sites {
		if s.Parent() == f || !c09inLoop(s, depth+1) {
			return false
		}
	}
	return true
}

func runC09B3(c *Ctx, tunnels []*c09tunnel) {
	done := map[*ssa.Call]bool{}
	for _, t := range tunnels {
		// vacuity: the tunnel's region contains something that moves the stream, and every Read into a byte buffer
		// found there is relayed by a Write of that buffer
		nCopy := len(t.relays)
		eachInstrOf(t.reg, func(f *ssa.Function, i ssa.Instruction) {
			if !t.relayRead[i] && t.isCopyInstr(i) {
				nCopy++
			}
		})
		if nCopy == 0 {
			c.undecided("C09.B3", t.label+"|relay write", "nothing that copies a stream (a Write of a buffer filled by Read, io.Copy) found in the region of this tunnel")
		}
		for _, rd := range t.unmatched {
			if c09filledAndRelayed(rd) {
				continue // the hand-written io.ReadFull in a helper: its callers relay the buffer whole (B4 asks where)
			}
			name := fnKey(rd.Parent())
			if rd.Parent() == t.entry {
				name = t.label + " (handshake relay)"
			}
			c.undecided("C09.B3", name+"|relay write", "no Write of a buffer filled by Read found")
		}
		for _, r := range t.relays {
			if done[r.wr] {
				continue
			}
			done[r.wr] = true
			name := fnKey(r.fn)
			if r.fn == t.entry {
				name = t.label + " (handshake relay)"
			}
			c09checkRelay(c, name, r)
		}
	}
}

// c09filledAndRelayed: rd is the read of a fill helper (c09fillHelper) and every caller of the helper writes the buffer
// it handed to the helper, whole and unsliced, at a place the call can reach.
func c09filledAndRelayed(rd *ssa.Call) bool {
	k, ok := c09fillHelper(rd)
	if !ok {
		return false
	}
	sites := c09sitesOf(rd.Parent())
	if len(sites) == 0 {
		return false
	}
	for _, s := range sites {
		cc := s.Common()
		if _, isCall := s.(*ssa.Call); !isCall || k >= len(cc.Args) {
			return false
		}
		bufRoots := c09roots(cc.Args[k])
		relayed := false
		eachInstr(s.Parent(), func(i ssa.Instruction) {
			wc, isCall := i.(*ssa.Call)
			if !isCall {
				return
			}
			if _, wbuf, isWr := c09ioFwd(wc, "Write", 0); isWr && c09meet(c09roots(wbuf), bufRoots) && canReach(s, wc) {
				relayed = true
			}
		})
		if !relayed {
			return false
		}
	}
	return true
}

func c09checkRelay(c *Ctx, name string, r c09relay) {
	f, rd, call, sl := r.fn, r.rd, r.wr, r.sl
	okSlice := sl != nil && (sl.Low == nil || isZero(sl.Low)) && sl.High != nil
	if okSlice {
		e, isE := sl.High.(*ssa.Extract)
		okSlice = isE && e.Tuple == ssa.Value(rd) && e.Index == 0
	}
	// same iteration: the read dominates the write
	okSlice = okSlice && dominatesInstr(rd, call)
	accum, full := false, false
	if r.rsl != nil {
		// an accumulating read `m, err := src.Read(buf[n:]); n += m` in a loop, relayed after the loop by ONE write of
		// buf[0:n]: n counts what all reads returned (round 4)
		accum = true
		okSlice = c09accumRelay(r)
		// ... or the hand-written io.ReadFull: the loop fills the WHOLE buffer (it is left towards the write only when
		// the counter has reached len(buf)) and the buffer is written unsliced (hardening round 3)
		if !okSlice && c09fullRelay(r) {
			okSlice, full = true, true
		}
	}
	c.check("C09.B3", name+"|writes exactly the bytes just read", call.Pos(), okSlice,
		"the relay must write buf[0:n] with n the count returned by the read of the same buffer in this iteration; anything else drops, duplicates or invents bytes")
	// short write / write error leave with an error
	// (the Write itself: call, or the one Write inside the write-through helper that call calls)
	wcall, wfn := call, f
	var wparam ssa.Value
	if r.inner != nil {
		wcall, wfn = r.inner, r.inner.Parent()
		_, wparam, _ = c09ioFwd(r.inner, "Write", 0)
	}
	var nw, ew, nr ssa.Value
	for _, ref := range *wcall.Referrers() {
		if e, ok := ref.(*ssa.Extract); ok {
			if e.Index == 0 {
				nw = e
			} else {
				ew = e
			}
		}
	}
	for _, ref := range *rd.Referrers() {
		if e, ok := ref.(*ssa.Extract); ok && e.Index == 0 {
			nr = e
		}
	}
	isLenOfWritten := func(v ssa.Value) bool {
		// len(buf[:nr]) is nr
		lc, ok := v.(*ssa.Call)
		if !ok || calleeName(&lc.Call) != "builtin.len" || len(lc.Call.Args) != 1 {
			return false
		}
		if wparam != nil {
			return lc.Call.Args[0] == wparam // inside the helper: the length of the buffer it was handed
		}
		return sl != nil && lc.Call.Args[0] == ssa.Value(sl)
	}
	isNr := func(v ssa.Value) bool {
		if wparam != nil {
			return isLenOfWritten(v)
		}
		if full {
			return c09isLenOf(v, r.rsl.X)
		}
		if accum {
			return sl != nil && (v == sl.High || isLenOfWritten(v)) // the count accumulated over the reads
		}
		return nr != nil && (v == nr || isLenOfWritten(v))
	}
	shortChecked, errChecked := false, false
	eachInstr(wfn, func(j ssa.Instruction) {
		b, ok := j.(*ssa.BinOp)
		if !ok {
			return
		}
		switch b.Op {
		case token.NEQ, token.EQL, token.LSS, token.GTR, token.LEQ, token.GEQ:
			if nw != nil && ((isNr(b.X) && b.Y == nw) || (b.X == nw && isNr(b.Y))) {
				shortChecked = true
			}
		}
		if (b.Op == token.NEQ || b.Op == token.EQL) && ew != nil && ((b.X == ew && isNilConst(b.Y)) || (b.Y == ew && isNilConst(b.X))) {
			errChecked = true
		}
	})
	if r.inner != nil {
		// the helper's verdict reaches the loop: its last result is an error and the caller compares it with nil
		var verdict ssa.Value
		res := wfn.Signature.Results()
		if res.Len() == 1 && typeStr(res.At(0).Type()) == "error" {
			verdict = call
		} else if res.Len() > 1 && typeStr(res.At(res.Len()-1).Type()) == "error" {
			for _, ref := range *call.Referrers() {
				if e, ok := ref.(*ssa.Extract); ok && e.Index == res.Len()-1 {
					verdict = e
				}
			}
		}
		looked := false
		if verdict != nil {
			eachInstr(f, func(j ssa.Instruction) {
				if b, ok := j.(*ssa.BinOp); ok && (b.Op == token.NEQ || b.Op == token.EQL) && ((b.X == verdict && isNilConst(b.Y)) || (b.Y == verdict && isNilConst(b.X))) {
					looked = true
				}
			})
		}
		errChecked = errChecked && looked
	}
	// (the whole buffer handed to one Write, as after io.ReadFull: a Write that accepts less returns an error - the
	// io.Writer contract B4 relies on for the replay of a buffer filled by io.ReadFull)
	c.check("C09.B3", name+"|short or failed writes end the relay with an error", call.Pos(), (shortChecked || full) && errChecked,
		"a write that fails or accepts fewer bytes than were read must end the copy (error): continuing silently loses the remainder")
	// a streaming relay (one Read per iteration) writes what the Read returned before it looks at the Read's error;
	// a one-shot relay (handshake) may give up on a read error
	if !c09inLoop(rd, 0) || accum {
		return // the loop of an accumulating read collects ONE message (a handshake), it does not stream
	}
	isReadErr := func(v ssa.Value) bool {
		e, ok := v.(*ssa.Extract)
		return ok && e.Tuple == ssa.Value(rd) && e.Index == 1
	}
	dep := false
	for _, ft := range factsAt(call.Block()) {
		if _, ok := nilFact(ft, isReadErr); ok {
			dep = true
		}
		if b, ok := ft.Cond.(*ssa.BinOp); ok && (isReadErr(b.X) || isReadErr(b.Y)) {
			dep = true
		}
	}
	// ... nor lies behind a branch on the read error that can be taken between the Read and the Write (a compound
	// condition such as `er != nil && er != io.EOF` leaves no single fact at the Write's block)
	isRd := func(j ssa.Instruction) bool { return j == ssa.Instruction(rd) }
	isWr := func(j ssa.Instruction) bool { return j == ssa.Instruction(call) }
	eachInstr(f, func(j ssa.Instruction) {
		iff, ok := j.(*ssa.If)
		if !ok || dep {
			return
		}
		b, ok := iff.Cond.(*ssa.BinOp)
		if !ok || !(isReadErr(b.X) || isReadErr(b.Y)) {
			return
		}
		if pathAvoiding(rd, iff, isWr) && pathAvoiding(iff, call, isRd) {
			dep = true
		}
	})
	c.check("C09.B3", name+"|bytes returned together with an error are still written", call.Pos(), !dep,
		"io.Reader may return n > 0 together with an error (crypto/tls returns the last record with io.EOF when close_notify arrives in the same segment); the relay must write buf[0:n] before it examines the read error, otherwise the final bytes of a stream are dropped")
}

// c09accumRelay: the relay reads into the window buf[n:] and writes buf[0:hi] where n is a counter that starts at 0 and
// grows by the count every such read returned, hi is that counter, the counter has been advanced past the last read on
// every path from the read to the write, and the write is outside the read's loop (inside it, it would send the
// bytes of the earlier reads again).
func c09accumRelay(r c09relay) bool {
	sl, win := r.sl, r.rsl
	if sl == nil || win == nil || win.High != nil || sl.High == nil || !(sl.Low == nil || isZero(sl.Low)) {
		return false
	}
	var adds []ssa.Instruction
	seen := map[ssa.Value]bool{}
	var counter func(v ssa.Value) bool
	counter = func(v ssa.Value) bool {
		if seen[v] {
			return true
		}
		switch x := v.(type) {
		case *ssa.Phi:
			seen[v] = true
			for _, e := range x.Edges {
				if !isZero(e) && !counter(e) {
					return false
				}
			}
			return true
		case *ssa.BinOp:
			if x.Op != token.ADD {
				return false
			}
			isCount := func(y ssa.Value) bool {
				e, ok := y.(*ssa.Extract)
				return ok && e.Tuple == ssa.Value(r.rd) && e.Index == 0
			}
			if (isCount(x.Y) && counter(x.X)) || (isCount(x.X) && counter(x.Y)) {
				seen[v] = true
				adds = append(adds, x)
				return true
			}
		}
		return false
	}
	if !counter(win.Low) || !counter(sl.High) || len(adds) == 0 {
		return false
	}
	for _, l := range loopsOf(r.fn) {
		if l.Body[r.rd.Block()] && l.Body[r.wr.Block()] {
			return false
		}
	}
	isAdd := func(i ssa.Instruction) bool {
		for _, a := range adds {
			if a == i {
				return true
			}
		}
		return false
	}
	return !pathAvoiding(r.rd, r.wr, isAdd)
}

// c09counterOf: v is a counter of what read rd returned: a merge of the constant 0 and such a counter plus the count
// of rd. Returns the additions found.
func c09counterOf(v ssa.Value, rd *ssa.Call) (adds []ssa.Instruction, ok bool) {
	seen := map[ssa.Value]bool{}
	var counter func(v ssa.Value) bool
	counter = func(v ssa.Value) bool {
		if seen[v] {
			return true
		}
		switch x := v.(type) {
		case *ssa.Phi:
			seen[v] = true
			for _, e := range x.Edges {
				if !isZero(e) && !counter(e) {
					return false
				}
			}
			return true
		case *ssa.BinOp:
			if x.Op != token.ADD {
				return false
			}
			isCount := func(y ssa.Value) bool {
				e, ok := y.(*ssa.Extract)
				return ok && e.Tuple == ssa.Value(rd) && e.Index == 0
			}
			if (isCount(x.Y) && counter(x.X)) || (isCount(x.X) && counter(x.Y)) {
				seen[v] = true
				adds = append(adds, x)
				return true
			}
		}
		return false
	}
	if !counter(v) || len(adds) == 0 {
		return nil, false
	}
	return adds, true
}

// c09isLenOf: v is the length of buffer buf: len(x) of a value that denotes the same buffer, or the very value (or
// constant) the buffer was made with.
func c09isLenOf(v, buf ssa.Value) bool {
	br := c09roots(buf)
	if lc, ok := v.(*ssa.Call); ok && calleeName(&lc.Call) == "builtin.len" && len(lc.Call.Args) == 1 {
		return c09meet(c09roots(lc.Call.Args[0]), br)
	}
	if len(br) == 0 {
		return false
	}
	for _, r := range br {
		var n ssa.Value
		switch x := r.(type) {
		case *ssa.MakeSlice:
			if x.Len != x.Cap {
				return false
			}
			n = x.Len
		case *ssa.Slice: // make([]byte, K): a slice of a new array
			al, isAlloc := x.X.(*ssa.Alloc)
			if !isAlloc || x.Low != nil || x.High != nil {
				return false
			}
			arr, isArr := al.Type().Underlying().(*types.Pointer).Elem().Underlying().(*types.Array)
			k, isK := constInt(v)
			if !isArr || !isK || k != arr.Len() {
				return false
			}
			continue
		default:
			return false
		}
		if n != v {
			a, okA := constInt(n)
			b, okB := constInt(v)
			if !okA || !okB || a != b {
				return false
			}
		}
	}
	return true
}

// c09nilOperand: fact f says "v is nil" / "v is not nil": v and which.
func c09nilOperand(f Fact) (v ssa.Value, nonNil, ok bool) {
	b, isB := f.Cond.(*ssa.BinOp)
	if !isB || (b.Op != token.EQL && b.Op != token.NEQ) {
		return nil, false, false
	}
	switch {
	case isNilConst(b.Y):
		v = b.X
	case isNilConst(b.X):
		v = b.Y
	default:
		return nil, false, false
	}
	return v, (b.Op == token.NEQ) == f.Truth, true
}

// c09contradicts: the two facts cannot hold together: the same condition with opposite truth, or the nil-ness of the
// same value stated both ways.
func c09contradicts(a, b Fact) bool {
	if a.Cond == b.Cond {
		return a.Truth != b.Truth
	}
	va, na, oka := c09nilOperand(a)
	vb, nb, okb := c09nilOperand(b)
	return oka && okb && va == vb && na != nb
}

// c09factsAt: factsAt(b), sharpened at the merge points on the dominator chain of b: where several edges enter a block
// (the block behind a loop that is left by its condition AND by `err = rerr; break`), an edge is infeasible when the
// condition it was taken on, or the value a merge receives on it (an error known to be non-nil there), contradicts what
// is known at b; when one edge remains, its condition and the facts of its source hold at b as well. Only merges that
// lie in no loop are resolved (what is known at b about a value then still speaks of the value on that edge).
func c09factsAt(b *ssa.BasicBlock) []Fact {
	facts := factsAt(b)
	for cur, round := b, 0; cur != nil && round < 64; cur, round = cur.Idom(), round+1 {
		if len(cur.Preds) < 2 {
			continue
		}
		inCycle := false
		for _, l := range loopsOf(cur.Parent()) {
			if l.Body[cur] {
				inCycle = true
			}
		}
		if inCycle {
			continue
		}
		edgeFacts := func(k int) []Fact {
			p := cur.Preds[k]
			var out []Fact
			if n := len(p.Instrs); n > 0 {
				if iff, ok := p.Instrs[n-1].(*ssa.If); ok && len(p.Succs) == 2 && p.Succs[0] != p.Succs[1] {
					out = appendCondFacts(out, iff.Cond, p.Succs[0] == cur, 0)
				}
			}
			return append(out, localFactsAt(p)...)
		}
		feasible, n := -1, 0
		for k := range cur.Preds {
			ef := edgeFacts(k)
			bad := false
			for _, f := range facts {
				for _, e := range ef {
					if c09contradicts(e, f) {
						bad = true
					}
				}
				// a merged value that is known (not) nil at b: the edge delivers the opposite
				if v, nonNil, ok := c09nilOperand(f); ok {
					if phi, isPhi := v.(*ssa.Phi); isPhi && phi.Block() == cur && k < len(phi.Edges) {
						in := phi.Edges[k]
						if nonNil && isNilConst(in) {
							bad = true
						}
						for _, e := range ef {
							if w, nn, ok := c09nilOperand(e); ok && w == in && nn != nonNil {
								bad = true
							}
						}
					}
				}
			}
			if !bad {
				feasible = k
				n++
			}
		}
		if n == 1 {
			facts = append(facts, edgeFacts(feasible)...)
		}
	}
	return facts
}

// c09fullRelay: the hand-written io.ReadFull. The relay reads into the window buf[n:] with n a counter that starts at 0
// and grows by what every such read returned, the write hands over buf itself, unsliced, outside the read's loop, and
// wherever the write runs the counter is known to have reached len(buf) (a branch fact: the loop condition
// `n < len(buf)` was false, or a later test `n != len(buf)` left): every byte of the buffer was filled by the reads.
func c09fullRelay(r c09relay) bool {
	win := r.rsl
	if r.sl != nil || win == nil || win.High != nil {
		return false
	}
	if _, wbuf, ok := c09ioFwd(r.wr, "Write", 0); !ok || !c09meet(c09roots(wbuf), c09roots(win.X)) {
		return false
	}
	if _, ok := c09counterOf(win.Low, r.rd); !ok {
		return false
	}
	for _, l := range loopsOf(r.fn) {
		if l.Body[r.rd.Block()] && l.Body[r.wr.Block()] {
			return false
		}
	}
	return c09fullAt(r.wr.Block(), r.rd, win.X)
}

// c09fullAt: wherever block b runs, the counter of what read rd returned has reached len(buf) (a branch fact).
func c09fullAt(b *ssa.BasicBlock, rd *ssa.Call, buf ssa.Value) bool {
	isCounter := func(v ssa.Value) bool {
		_, ok := c09counterOf(v, rd)
		return ok
	}
	for _, ft := range c09factsAt(b) {
		b, ok := ft.Cond.(*ssa.BinOp)
		if !ok {
			continue
		}
		op, x, y := b.Op, b.X, b.Y
		if c09isLenOf(x, buf) && isCounter(y) {
			// bound OP counter: mirror
			x, y = y, x
			switch op {
			case token.LSS:
				op = token.GTR
			case token.GTR:
				op = token.LSS
			case token.LEQ:
				op = token.GEQ
			case token.GEQ:
				op = token.LEQ
			}
		}
		if !isCounter(x) || !c09isLenOf(y, buf) {
			continue
		}
		// counter OP len(buf) with the given truth means counter >= len(buf)
		switch {
		case op == token.LSS && !ft.Truth, op == token.GEQ && ft.Truth, op == token.EQL && ft.Truth, op == token.NEQ && !ft.Truth:
			return true
		}
	}
	return false
}

// c09fillHelper: rd is the read of a hand-written io.ReadFull that lives in a helper of its own
// (`func readFull(r io.Reader, buf []byte) (int, error)`): it reads into the window p[n:] of the helper's k-th
// parameter p, n counts what the reads returned, and every return of the helper either knows the counter has reached
// len(p) or hands back an error that is not nil there. As seen from its callers the helper is io.ReadFull(r, args[k]).
func c09fillHelper(rd *ssa.Call) (k int, ok bool) {
	h := rd.Parent()
	_, buf, isRd := c09ioFwd(rd, "Read", 0)
	if h == nil || !isRd {
		return 0, false
	}
	win := c09window(buf)
	if win == nil || win.High != nil {
		return 0, false
	}
	k = -1
	for idx, p := range h.Params {
		if ssa.Value(p) == win.X {
			k = idx
		}
	}
	if k < 0 {
		return 0, false
	}
	if _, isCounter := c09counterOf(win.Low, rd); !isCounter {
		return 0, false
	}
	res := h.Signature.Results()
	if res.Len() == 0 || typeStr(res.At(res.Len()-1).Type()) != "error" {
		return 0, false
	}
	good, nRet := true, 0
	eachInstr(h, func(i ssa.Instruction) {
		r, isRet := i.(*ssa.Return)
		if !isRet || len(r.Results) != res.Len() {
			return
		}
		nRet++
		if c09fullAt(r.Block(), rd, win.X) {
			return
		}
		e := r.Results[len(r.Results)-1]
		if !c09nonNilAt(e, r.Block()) {
			good = false
		}
	})
	return k, good && nRet > 0
}

// c09nonNilAt: the error value e is not nil wherever block b runs: a branch fact says so, it is a freshly made error
// or a sentinel (a package-level error variable of the standard library, or one of the repository that is assigned once).
func c09nonNilAt(e ssa.Value, b *ssa.BasicBlock) bool {
	if isNilConst(e) {
		return false
	}
	for _, f := range c09factsAt(b) {
		if v, nonNil, ok := c09nilOperand(f); ok && v == e && nonNil {
			return true
		}
	}
	if sentinelError(e) {
		return true
	}
	if u, ok := e.(*ssa.UnOp); ok && u.Op == token.MUL {
		if g, isG := u.X.(*ssa.Global); isG && g.Pkg != nil && !strings.HasPrefix(g.Pkg.Pkg.Path(), repoMod) && typeStr(g.Type().(*types.Pointer).Elem()) == "error" {
			return true
		}
	}
	if call, ok := stripIface(e).(*ssa.Call); ok {
		switch calleeName(&call.Call) {
		case "errors.New", "fmt.Errorf":
			return true
		}
	}
	return false
}

// ---- B6: Peek --------------------------------------------------------------------------------------------------------

// runC09B6: a Peek on a default-sized bufio.Reader cannot return more than its buffer (4096 bytes):
// a computed Peek length makes the handler fail for larger first records.
func runC09B6(t *c09tunnel) {
	c := t.c
	eachInstrOf(t.reg, func(f *ssa.Function, i ssa.Instruction) {
		call, ok := i.(*ssa.Call)
		if !ok || calleeName(&call.Call) != "(*bufio.Reader).Peek" {
			return
		}
		_, hi, isK := c09intRange(call.Call.Args[1])
		sized := false
		derives(call.Call.Args[0], func(v ssa.Value) bool {
			if _, ok := isCallTo(v, "bufio.NewReaderSize"); ok {
				sized = true
			}
			return false
		})
		name := fnKey(f)
		if f == t.entry {
			name = t.label
		}
		c.check("C09.B6", name+"|Peek length within the reader's buffer", call.Pos(), (isK && hi <= 4096) || sized,
			"bufio.Reader.Peek(n) fails with ErrBufferFull when n exceeds the reader's buffer (4096 bytes for bufio.NewReader): peeking a computed length (e.g. a whole ClientHello) rejects every connection whose first record is larger; read it with io.ReadFull and replay it instead")
	})
}

// ---- B4 / B5: PROXY header, replay of consumed bytes --------------------------------------------------------------------

// c09proxyHeaderFn: the function of proxy/tcp that writes the PROXY protocol line: WriteProxyHeader if it still does,
// otherwise the innermost package-level function whose region builds a string starting with "PROXY " and writes.
func c09proxyHeaderFn(c *Ctx) *ssa.Function {
	role := func(f *ssa.Function) bool {
		if f.Parent() != nil || f.Signature.Recv() != nil {
			return false
		}
		line, writes := false, false
		eachInstrOf(c.region(f), func(g *ssa.Function, i ssa.Instruction) {
			for _, op := range i.Operands(nil) {
				if op != nil && *op != nil {
					if s, ok := constString(*op); ok && strings.HasPrefix(s, "PROXY ") {
						line = true
					}
				}
			}
			if call, ok := i.(*ssa.Call); ok {
				if _, _, ok := c09ioCall(&call.Call, "Write"); ok {
					writes = true
				}
			}
		})
		return line && writes
	}
	if f := c.fn("proxy/tcp", "WriteProxyHeader"); f != nil && role(f) {
		return f
	}
	cands := c.fnsWhere("proxy/tcp", role)
	var inner []*ssa.Function
	for _, f := range cands {
		callsOther := false
		for _, g := range c.region(f) {
			for _, h := range cands {
				if g == h && h != f {
					callsOther = true
				}
			}
		}
		if !callsOther {
			inner = append(inner, f)
		}
	}
	if len(inner) == 1 {
		return inner[0]
	}
	return nil
}

func runC09B4(t *c09tunnel) {
	c := t.c
	wph := c09proxyHeaderFn(c)
	if !c.need("C09.B4", wph, "tcp.WriteProxyHeader") {
		return
	}
	inWph := map[*ssa.Function]bool{}
	for _, g := range c.region(wph) {
		inWph[g] = true
	}
	// the upstream connection: what a dial in the region returns
	up := map[c09key]ssa.Value{}
	eachInstrOf(t.reg, func(f *ssa.Function, i ssa.Instruction) {
		call, ok := i.(*ssa.Call)
		if !ok || !contactPrims[calleeName(&call.Call)] || !strings.Contains(calleeName(&call.Call), "Dial") {
			return
		}
		for _, r := range *call.Referrers() {
			if e, ok := r.(*ssa.Extract); ok && e.Index == 0 {
				up[c09key{v: call, idx: 1}] = e
			}
		}
	})
	if len(up) == 0 {
		c.undecided("C09.B4", t.label+"|upstream connection", "dial result not found")
		return
	}
	upMemo := map[ssa.Value]bool{}
	isUp := func(v ssa.Value) bool {
		if r, ok := upMemo[v]; ok {
			return r
		}
		r := c09meet(c09roots(v), up)
		upMemo[v] = r
		return r
	}
	isHdr := func(i ssa.Instruction) bool {
		_, isCall := i.(*ssa.Call)
		return isCall && staticCalleeIs(i, wph)
	}
	var hdr []ssa.Instruction
	eachInstrOf(t.reg, func(f *ssa.Function, i ssa.Instruction) {
		if !inWph[f] && isHdr(i) {
			hdr = append(hdr, i)
		}
	})
	isPP := func(v ssa.Value) bool { _, ok := fieldOf(v, "route.Target", "ProxyProto"); return ok }
	okHdr := len(hdr) > 0
	for _, h := range hdr {
		guard := false
		for _, ft := range factsAt(h.Block()) {
			if ft.Truth && (isPP(ft.Cond) || derives(ft.Cond, isPP)) {
				guard = true
			}
		}
		toUp := false
		for _, a := range callCommon(h).Args {
			if isUp(a) {
				toUp = true
			}
		}
		if !guard || !toUp {
			okHdr = false
		}
	}
	c.check("C09.B5", t.label+"|PROXY protocol header supported", t.entry.Pos(), okHdr,
		"every tunnel handler must write the PROXY header to the upstream on the Target.ProxyProto edge like its siblings; an upstream configured for the PROXY protocol otherwise parses the client's first bytes as the header")

	// anything that writes to the upstream: Write on it, a copy / formatted write into it, a goroutine that does so
	var isWriter func(i ssa.Instruction) bool
	isWriter = func(i ssa.Instruction) bool {
		if i.Parent() != nil && inWph[i.Parent()] {
			return false // the header write itself
		}
		switch x := i.(type) {
		case *ssa.Call:
			if recv, _, ok := c09ioCall(&x.Call, "Write"); ok && isUp(recv) {
				return true
			}
			n := calleeName(&x.Call)
			if (c09copyFns[n] || n == "io.WriteString" || strings.HasPrefix(n, "fmt.Fprint")) && len(x.Call.Args) > 0 && isUp(x.Call.Args[0]) {
				return true
			}
		case *ssa.Go:
			if len(x.Call.Args) >= 1 && isUp(x.Call.Args[0]) {
				return true
			}
			for _, fn := range c09goTargets(x) {
				if !inWph[fn] && mayExec(fn, isWriter, 1) {
					return true
				}
			}
		}
		return false
	}
	liftWriter := func(i ssa.Instruction) bool {
		if isHdr(i) {
			return false
		}
		return liftMay(isWriter)(i)
	}
	if len(hdr) > 0 {
		bad := false
		for _, f := range t.reg {
			if inWph[f] {
				continue
			}
			var hs, ws []ssa.Instruction
			eachInstr(f, func(i ssa.Instruction) {
				if liftMay(isHdr)(i) {
					hs = append(hs, i)
				}
				if liftWriter(i) {
					ws = append(ws, i)
				}
			})
			for _, h := range hs {
				for _, w := range ws {
					if w != h && pathAvoiding(w, h, nil) {
						bad = true
					}
				}
			}
		}
		c.check("C09.B4", t.label+"|PROXY header is the first write on the upstream", hdr[0].Pos(), !bad,
			"the PROXY line must precede every other byte on the upstream connection; a write that can run before it makes the upstream misparse the stream")
	}

	// consuming reads before the tunnel starts
	eachInstrOf(t.reg, func(f *ssa.Function, i ssa.Instruction) {
		call, ok := i.(*ssa.Call)
		if !ok {
			return
		}
		var bufRoots map[c09key]ssa.Value
		if n := calleeName(&call.Call); (n == "io.ReadFull" || n == "io.ReadAtLeast") && len(call.Call.Args) >= 2 {
			bufRoots = c09roots(call.Call.Args[1])
		} else if _, args, isRd := c09ioCall(&call.Call, "Read"); isRd && len(args) == 1 && c09isByteSlice(args[0].Type()) && !c09forwardingRead(f, call) {
			// the hand-written io.ReadFull: a Read into a window buf[n:] whose lower bound counts what the reads
			// returned collects one message in buf (hardening round 3)
			win := c09window(args[0])
			if win == nil {
				return
			}
			if _, isCounter := c09counterOf(win.Low, call); !isCounter {
				return
			}
			bufRoots = c09roots(win.X)
		} else {
			return
		}
		isReplay := func(j ssa.Instruction) bool {
			wc, ok := j.(*ssa.Call)
			if !ok {
				return false
			}
			if recv, wbuf, ok := c09ioFwd(wc, "Write", 0); ok {
				return isUp(recv) && c09meet(c09roots(wbuf), bufRoots)
			}
			// io.Copy(upstream, bytes.NewReader(buf)): the buffer handed over through a reader that delivers exactly it
			if c09copyFns[calleeName(&wc.Call)] && len(wc.Call.Args) >= 2 && calleeName(&wc.Call) != "io.CopyN" && isUp(wc.Call.Args[0]) {
				rs := c09roots(wc.Call.Args[1])
				all := len(rs) > 0
				for _, rv := range rs {
					nr, isCall := rv.(*ssa.Call)
					if !isCall || len(nr.Call.Args) != 1 || !(calleeName(&nr.Call) == "bytes.NewReader" || calleeName(&nr.Call) == "bytes.NewBuffer") || !c09meet(c09roots(nr.Call.Args[0]), bufRoots) {
						all = false
					}
				}
				return all
			}
			return false
		}
		replay := false
		eachInstrOf(t.reg, func(g *ssa.Function, j ssa.Instruction) {
			if isReplay(j) {
				replay = true
			}
		})
		isRead := func(j ssa.Instruction) bool { return j == i }
		if replay {
			// no path from the read to a start of the copy goroutines that avoids the replay, in whichever function
			// of the region the two meet
			for _, g := range t.reg {
				var as, bs []ssa.Instruction
				eachInstr(g, func(j ssa.Instruction) {
					if liftMay(isRead)(j) {
						as = append(as, j)
					}
					if liftMay(t.isCopyStart)(j) {
						bs = append(bs, j)
					}
				})
				for _, a := range as {
					for _, b := range bs {
						if a != b && pathAvoiding(a, b, isReplay) {
							replay = false
						}
					}
				}
			}
		}
		name := fnKey(f)
		if f == t.entry {
			name = t.label
		}
		c.check("C09.B4", name+"|bytes consumed before the tunnel are replayed whole", call.Pos(), replay,
			"bytes read from the client to make the routing decision (the captured ClientHello) are gone from the connection; the very same buffer must be written to the upstream, whole, before the copy goroutines start — the upstream must see the client's stream from its first byte")
	})
}

// ---- B7: no abortive close ---------------------------------------------------------------------------------------------

func runC09B7(c *Ctx, tunnels []*c09tunnel) {
	// every function of the tunnel packages and of the tunnels' regions
	seen := map[*ssa.Function]bool{}
	var fns []*ssa.Function
	for _, f := range c.AllFns {
		if rootPkg(f) == c.spkg("proxy/tcp") || rootPkg(f) == c.spkg("proxy") {
			seen[f] = true
			fns = append(fns, f)
		}
	}
	for _, t := range tunnels {
		for _, f := range t.reg {
			if !seen[f] {
				seen[f] = true
				fns = append(fns, f)
			}
		}
	}
	eachInstrOf(fns, func(f *ssa.Function, i ssa.Instruction) {
		cc := callCommon(i)
		if cc == nil || !strings.HasSuffix(calleeName(cc), ".SetLinger") || len(cc.Args) == 0 {
			return
		}
		_, hi, isK := c09intRange(cc.Args[len(cc.Args)-1])
		c.check("C09.B7", fnKey(f)+"|SetLinger on a tunnel connection", i.Pos(), isK && hi < 0,
			"SetLinger(n >= 0) makes Close discard data that is still queued (n == 0 sends RST at once): when the other side finishes first, the deferred Close of this connection throws away the tail of the stream — whichever side finishes first must have had all of its data delivered")
	})
	c.ob("C09.B7", "proxy, proxy/tcp|no linger override on tunnel connections", token.NoPos, OK, "scanned for SetLinger calls")
}

// ---- W1: the connection wrapper ------------------------------------------------------------------------------------------

// c09readsThroughReader: recv is a load of another field F of the wrapper struct nt, and whatever is stored in F
// anywhere in the repository is a reader placed over the connection stored in the wrapped-connection field `inner`
// of the same object (`&T{Conn: c, r: bufio.NewReader(c)}`): the "buffered connection" idiom. Reading through F
// delivers the wrapped connection's stream from its first byte (trusted: bufio.Reader).
func c09readsThroughReader(recv ssa.Value, nt types.Type, inner string) bool {
	st, _ := nt.Underlying().(*types.Struct)
	if st == nil {
		return false
	}
	fIdx := -1
	for k := 0; k < st.NumFields(); k++ {
		if name := st.Field(k).Name(); name != inner {
			if _, ok := fieldOf(recv, typeStr(nt), name); ok {
				fIdx = k
			}
		}
	}
	return fIdx >= 0 && c09readerFieldOver(nt, fIdx, inner)
}

// c09readerFieldOver: every value stored in field fIdx of the wrapper struct nt is a reader over the connection stored
// in field `inner` of the same object.
func c09readerFieldOver(nt types.Type, fIdx int, inner string) bool {
	st, _ := nt.Underlying().(*types.Struct)
	innerIdx := -1
	for k := 0; st != nil && k < st.NumFields(); k++ {
		if st.Field(k).Name() == inner {
			innerIdx = k
		}
	}
	if innerIdx < 0 || fIdx < 0 || fIdx >= st.NumFields() || fIdx == innerIdx {
		return false
	}
	stores := c09storesOf(st.Field(fIdx))
	if len(stores) == 0 {
		return false
	}
	for _, sto := range stores {
		fa := sto.Addr.(*ssa.FieldAddr)
		rw := c09newWalker()
		rw.through = true
		rw.walk(sto.Val)
		// the connection(s) stored in `inner` of the same object
		cw := c09newWalker()
		cw.through = true
		cw.field(fa.X, fa.X.Type(), innerIdx, fa.X)
		over := false
		for k, v := range rw.roots {
			if _, ok := cw.roots[k]; ok && k.s == "" && c09connLike(v.Type()) {
				over = true
			}
		}
		if !over {
			return false
		}
	}
	return true
}

// c09forwards: method f (Read/Write/Close named mn) of wrapper type tn hands its arguments, as received, to the same
// method of the wrapped connection (field `inner`; for Read also a reader placed over it) and returns what that call
// returned, unchanged - on every return, whichever of several forwarding calls (one per branch) produced it; the
// forwarding call may sit in a method of the same type that is called with the arguments as received. No other call
// of that method on the wrapped connection is made (a Write that also writes something of its own invents bytes).
func c09forwards(f *ssa.Function, mn string, nt types.Type, tn, inner string, depth int) bool {
	if f == nil || len(f.Blocks) == 0 || depth > 2 {
		return false
	}
	sameArgs := func(args []ssa.Value) bool {
		if len(args) != len(f.Params)-1 {
			return false
		}
		for k := range args {
			if args[k] != ssa.Value(f.Params[k+1]) {
				return false
			}
		}
		return true
	}
	good := map[ssa.Value]bool{}
	bad := false
	eachInstr(f, func(i ssa.Instruction) {
		call, isC := i.(*ssa.Call)
		if !isC {
			return
		}
		if recv, args, isM := c09ioCall(&call.Call, mn); isM {
			_, isInner := fieldOf(recv, "tcp."+tn, inner)
			through := !isInner && mn == "Read" && c09readsThroughReader(recv, nt, inner)
			if isInner || through {
				if sameArgs(args) {
					good[call] = true
				} else {
					bad = true
				}
				return
			}
		}
		// a method of the same wrapper type, given the receiver and the arguments as received, that forwards
		if sc := call.Call.StaticCallee(); sc != nil && isRepoFn(sc) && sc != f && sc.Signature.Recv() != nil && len(call.Call.Args) == len(f.Params) &&
			namedIs(sc.Signature.Recv().Type(), "tcp."+tn) && sameArgs(call.Call.Args[1:]) && types.Identical(sc.Signature.Results(), f.Signature.Results()) {
			if c09forwards(sc, mn, nt, tn, inner, depth+1) {
				good[call] = true
			}
		}
	})
	if bad || len(good) == 0 {
		return false
	}
	ret := true
	eachInstr(f, func(j ssa.Instruction) {
		r, isR := j.(*ssa.Return)
		if !isR {
			return
		}
		var from ssa.Value
		for k, res := range r.Results {
			var src ssa.Value
			if len(r.Results) == 1 {
				src = res
			} else if e, isE := res.(*ssa.Extract); isE && e.Index == k {
				src = e.Tuple
			}
			if src == nil || !good[src] || (from != nil && src != from) {
				ret = false
			}
			from = src
		}
	})
	return ret
}

// runC09W1: every struct of proxy/tcp that wraps a net.Conn and is itself a connection (Read, Write, Close) forwards
// those three unchanged. The wrapper is found by that role, not by its name.
func runC09W1(c *Ctx) {
	sp := c.spkg("proxy/tcp")
	if sp == nil {
		return
	}
	var names []string
	for n, m := range sp.Members {
		if _, ok := m.(*ssa.Type); ok {
			names = append(names, n)
		}
	}
	sort.Strings(names)
	nWrappers := 0
	for _, tn := range names {
		nt := sp.Members[tn].(*ssa.Type).Type()
		st, _ := nt.Underlying().(*types.Struct)
		if st == nil {
			continue
		}
		inner := ""
		for k := 0; k < st.NumFields(); k++ {
			ft := st.Field(k).Type()
			if _, isIface := ft.Underlying().(*types.Interface); typeStr(ft) == "net.Conn" || (isIface && inner == "" && c09connLike(ft)) {
				inner = st.Field(k).Name() // the wrapped connection: a net.Conn, or an interface with a connection's methods
			}
		}
		ms := c.Prog.MethodSets.MethodSet(types.NewPointer(nt))
		if inner == "" || ms.Lookup(sp.Pkg, "Read") == nil || ms.Lookup(sp.Pkg, "Write") == nil || ms.Lookup(sp.Pkg, "Close") == nil {
			continue
		}
		nWrappers++
		n := 0
		for _, mn := range []string{"Read", "Write", "Close"} {
			sel := ms.Lookup(sp.Pkg, mn)
			key := "(*proxy/tcp." + tn + ")." + mn + "|forwards unchanged to the wrapped connection"
			detail := "the timeout wrapper sits in every tunnel: " + mn + " must pass its argument to the wrapped connection as received and return its results unchanged"
			if idx := sel.Index(); len(idx) > 1 {
				// promoted from the embedded connection: forwarded by construction; a Read promoted from an embedded
				// reader (struct{ *bufio.Reader; c net.Conn }) forwards when that reader is over the wrapped connection
				n++
				if st.Field(idx[0]).Name() == inner {
					c.ob("C09.W1", key, token.NoPos, OK, detail+" (promoted from the embedded net.Conn)")
				} else {
					c.check("C09.W1", key, st.Field(idx[0]).Pos(), mn == "Read" && c09readerFieldOver(nt, idx[0], inner), detail+" ("+mn+" is promoted from the embedded field "+st.Field(idx[0]).Name()+", which must be a reader over the wrapped connection)")
				}
				continue
			}
			f := c.Prog.MethodValue(sel)
			if obj, isF := sel.Obj().(*types.Func); isF {
				// the declared method, not the wrapper synthesised for the pointer type of a value-receiver method
				if d := c.Prog.FuncValue(obj); d != nil && len(d.Blocks) > 0 {
					f = d
				}
			}
			if f == nil || len(f.Blocks) == 0 {
				continue
			}
			n++
			ok := c09forwards(f, mn, nt, tn, inner, 0)
			c.check("C09.W1", key, f.Pos(), ok, detail)
		}
		c.atLeast("C09.W1", "Read/Write/Close of the "+tn+" wrapper", n, 3)
	}
	if nWrappers == 0 {
		c.undecided("C09.W1", "proxy/tcp.conn|wrapper type", "no struct of proxy/tcp wraps a net.Conn and implements Read/Write/Close")
	}
}
