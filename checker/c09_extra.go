package main

// Rules of C09 added after the rounds of independently authored breaking changes (DESIGN 11.6, 11.7).

import (
	"golang.org/x/tools/go/ssa"
)

func runC09B3c(c *Ctx) {
	cb := c.fn("proxy/tcp", "copyBuffer")
	if cb == nil {
		return
	}
	eachInstr(cb, func(i ssa.Instruction) {
		call, ok := i.(*ssa.Call)
		if !ok || !call.Call.IsInvoke() || call.Call.Method.Name() != "Write" {
			return
		}
		// the read feeding it
		var rd *ssa.Call
		eachInstr(cb, func(j ssa.Instruction) {
			if rc, ok := j.(*ssa.Call); ok && rc.Call.IsInvoke() && rc.Call.Method.Name() == "Read" {
				rd = rc
			}
		})
		if rd == nil {
			return
		}
		isReadErr := func(v ssa.Value) bool { e, ok := v.(*ssa.Extract); return ok && e.Tuple == rd && e.Index == 1 }
		dep := false
		for _, ft := range factsAt(call.Block()) {
			if _, ok := nilFact(ft, isReadErr); ok {
				dep = true
			}
			if b, ok := ft.Cond.(*ssa.BinOp); ok && (isReadErr(b.X) || isReadErr(b.Y)) {
				dep = true
			}
		}
		c.check("C09.B3", "proxy/tcp.copyBuffer|bytes returned together with an error are still written", call.Pos(), !dep,
			"io.Reader may return n > 0 together with an error (crypto/tls returns the last record with io.EOF when close_notify arrives in the same segment); the relay must write buf[0:n] before it examines the read error, otherwise the final bytes of a stream are dropped")
	})
}

// ---- C11.M3: wildcard candidates have the label count of the requested name ------------------------------------
