package main

import (
	"go/token"
	"strings"

	"golang.org/x/tools/go/ssa"
)

// K1 is decided by the shared runTableKeys (c05.go, owned by C05). Its value analysis gives up after a fixed number
// of steps (6 values / 5 calls), so a key whose derivation merely became longer — lower-casing moved from the lookup
// helper to its callers, one more helper between Lookup and the table index — is reported although it is still a
// key of the table. c03TableKeys runs the shared rule and gives every site it rejects a second opinion by a
// must-analysis without a step budget (c03DeepCanon). A site is reported only when both reject it, so whatever the
// shared rule accepts stays accepted and whatever it improves on flows in.
func c03TableKeys(c *Ctx) {
	scratch := *c
	scratch.Obs = nil
	runTableKeys(&scratch, "C03.K1")

	// the sites, keyed the way the shared rule reports them
	keys := map[string]ssa.Value{}
	for _, f := range c.AllFns {
		ff := f
		eachInstr(f, func(i ssa.Instruction) {
			var m, key ssa.Value
			switch x := i.(type) {
			case *ssa.Lookup:
				m, key = x.X, x.Index
			case *ssa.MapUpdate:
				m, key = x.Map, x.Key
			case *ssa.Call:
				if calleeName(&x.Call) == "builtin.delete" && len(x.Call.Args) == 2 {
					m, key = x.Call.Args[0], x.Call.Args[1]
				}
			}
			if m == nil || !c03IsTableT(m.Type()) {
				return
			}
			keys[fnKey(ff)+"|"+c.pos(i.Pos())] = key
		})
	}
	for _, o := range scratch.Obs {
		if o.st == Viol {
			fn := o.Construct
			if k := strings.Index(fn, "|"); k >= 0 {
				fn = fn[:k]
			}
			if key, ok := keys[fn+"|"+o.Pos]; ok {
				d := &c03deep{state: map[c03deepKey]int{}}
				if d.str(key) {
					o.Status, o.st = OK.String(), OK
				}
			}
		}
		c.Obs = append(c.Obs, o)
	}
}

type c03deepKey struct {
	v    ssa.Value
	list bool
	ctx  ssa.CallInstruction
}

// c03deep: must-analysis "this string is a canonical host key" / "this []string holds canonical host keys only".
// Canonical: lower-cased on every path (c03Norm), a constant without upper-case letters, a key of a range over a
// route.Table, Route.Host. Element stores into an existing slice (the in-place reverse-sort-reverse of the host
// list) are not followed — the same documented imprecision as the shared analysis.
type c03deep struct {
	state map[c03deepKey]int // 1 in progress, 2 yes, 3 no
	stack []ssa.CallInstruction
}

func (d *c03deep) top() ssa.CallInstruction {
	if len(d.stack) == 0 {
		return nil
	}
	return d.stack[len(d.stack)-1]
}

func (d *c03deep) memo(v ssa.Value, list bool, compute func() bool) bool {
	k := c03deepKey{v, list, d.top()}
	switch d.state[k] {
	case 1, 2:
		return true // in progress: a cycle through a phi adds nothing
	case 3:
		return false
	}
	d.state[k] = 1
	ok := compute()
	if ok {
		d.state[k] = 2
	} else {
		d.state[k] = 3
	}
	return ok
}

// results: the values function sc returns at index idx hold, evaluated in the context of call.
func (d *c03deep) results(call *ssa.Call, idx int, each func(ssa.Value) bool) bool {
	sc := call.Call.StaticCallee()
	if sc == nil || !isRepoFn(sc) || len(sc.Blocks) == 0 || len(d.stack) > 8 {
		return false
	}
	d.stack = append(d.stack, call)
	defer func() { d.stack = d.stack[:len(d.stack)-1] }()
	ok, n := true, 0
	eachInstr(sc, func(i ssa.Instruction) {
		if r, isR := i.(*ssa.Return); isR && idx < len(r.Results) && ok {
			n++
			if !each(r.Results[idx]) {
				ok = false
			}
		}
	})
	return ok && n > 0
}

// param: what is passed for parameter p — by the call we came through, otherwise by every static call site.
func (d *c03deep) param(p *ssa.Parameter, each func(ssa.Value) bool) bool {
	fn := p.Parent()
	idx := -1
	for k, q := range fn.Params {
		if q == p {
			idx = k
		}
	}
	if idx < 0 {
		return false
	}
	if top := d.top(); top != nil {
		if top.Common().StaticCallee() != fn || idx >= len(top.Common().Args) {
			return false
		}
		d.stack = d.stack[:len(d.stack)-1]
		defer func() { d.stack = append(d.stack, top) }()
		return each(top.Common().Args[idx])
	}
	sites := gSites[fn]
	if len(sites) == 0 || !c03SitesComplete(fn) {
		return false
	}
	for _, s := range sites {
		if idx >= len(s.Common().Args) || !each(s.Common().Args[idx]) {
			return false
		}
	}
	return true
}

func (d *c03deep) stores(a *ssa.Alloc, each func(ssa.Value) bool) bool {
	n := 0
	for _, ref := range *a.Referrers() {
		if st, ok := ref.(*ssa.Store); ok && st.Addr == a {
			n++
			if !each(st.Val) {
				return false
			}
		}
	}
	return n > 0
}

func (d *c03deep) str(v ssa.Value) bool {
	return d.memo(v, false, func() bool {
		if _, ok := c03TableKey(v); ok {
			return true
		}
		if c03Norm(v).lower {
			return true
		}
		switch x := v.(type) {
		case *ssa.Const:
			s, ok := constString(x)
			return ok && s == strings.ToLower(s)
		case *ssa.Call:
			if c03Name(&x.Call) == "strings.ToLower" {
				return true
			}
			return d.results(x, 0, d.str)
		case *ssa.Extract:
			if call, ok := x.Tuple.(*ssa.Call); ok {
				return d.results(call, x.Index, d.str)
			}
			return false
		case *ssa.Phi:
			for _, e := range x.Edges {
				if !d.str(e) {
					return false
				}
			}
			return true
		case *ssa.Parameter:
			return d.param(x, d.str)
		case *ssa.ChangeType:
			return d.str(x.X)
		case *ssa.UnOp:
			if x.Op != token.MUL {
				return false
			}
			if _, ok := fieldOf(x, "route.Route", "Host"); ok {
				return true
			}
			switch y := x.X.(type) {
			case *ssa.Alloc:
				return d.stores(y, d.str)
			case *ssa.IndexAddr:
				return d.list(y.X)
			}
		}
		return false
	})
}

// arrayElems: the values stored into the elements of a local array (a slice literal, the variadic part of append).
func (d *c03deep) arrayElems(arr *ssa.Alloc) bool {
	for _, ref := range *arr.Referrers() {
		if ia, ok := ref.(*ssa.IndexAddr); ok {
			for _, r2 := range *ia.Referrers() {
				if st, ok := r2.(*ssa.Store); ok && st.Addr == ia && !d.str(st.Val) {
					return false
				}
			}
		}
	}
	return true
}

func (d *c03deep) list(v ssa.Value) bool {
	return d.memo(v, true, func() bool {
		if isNilConst(v) || c03KeyList(v) {
			return true
		}
		switch x := v.(type) {
		case *ssa.MakeSlice:
			return true // zero values; element stores are not followed
		case *ssa.Phi:
			for _, e := range x.Edges {
				if !d.list(e) {
					return false
				}
			}
			return true
		case *ssa.ChangeType:
			return d.list(x.X)
		case *ssa.Slice:
			if arr, ok := x.X.(*ssa.Alloc); ok {
				return d.arrayElems(arr)
			}
			return d.list(x.X)
		case *ssa.Parameter:
			return d.param(x, d.list)
		case *ssa.Extract:
			if call, ok := x.Tuple.(*ssa.Call); ok {
				return d.results(call, x.Index, d.list)
			}
			return false
		case *ssa.UnOp:
			if a, ok := x.X.(*ssa.Alloc); ok && x.Op == token.MUL {
				return d.stores(a, d.list)
			}
			return false
		case *ssa.Call:
			switch n := c03Name(&x.Call); n {
			case "builtin.append":
				if len(x.Call.Args) == 2 {
					return d.list(x.Call.Args[0]) && d.list(x.Call.Args[1])
				}
				return len(x.Call.Args) == 1 && d.list(x.Call.Args[0])
			case "slices.DeleteFunc", "slices.Clone", "slices.Compact", "slices.Clip", "slices.Grow", "slices.Delete":
				// the library returns a selection / copy of the elements of its first argument
				return d.list(x.Call.Args[0])
			}
			return d.results(x, 0, d.list)
		}
		return false
	})
}
