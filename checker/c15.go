package main

import (
	"go/ast"
	"go/token"
	"go/types"
	"strings"

	"golang.org/x/tools/go/ssa"
)

func init() {
	register(&propDef{
		ID:      "C15",
		Level:   "other",
		Explain: "Configuration loading, decided structurally: (R1) for every flag registration f.<T>Var(&cfg.P, name, default, usage) in config.load the default is defaultConfig.P for the same field path P (exceptions are a frozen, reasoned table), no two flags bind the same variable, and no two flag names collide case-insensitively (the environment lookup upper-cases them); (R2) in FlagSet.ParseFlags the command line is parsed first, flags set there are marked before the fallback pass, the fallback closure returns at once for a marked flag, looks the environment up (prefixes in slice order) before the properties, and every source that supplies a value marks the flag, assigns through FlagSet.Set (the same flag.Value.Set the command line uses) and returns; (R3) config.Load passes the prefixes [\"FABIO_\", \"\"] in that order, environment names are ToUpper(prefix + Replace(name, \".\", \"_\")) and the environment map is keyed by ToUpper(name); (P*) partial operations reachable from config.Load (Split/SplitN indices, slice bounds from Index*) are guarded; (V1) every int option that flows into an allocation size, channel capacity or status code has a range check in load (error return) or a clamp dominating the sink; (V2) values built from configuration at start-up are not used on the path on which their constructor's error was observed and only logged. (V3) enumerated options are validated raw against exactly the keys of the registries they index. (V1, extended) the range check of an option that sizes an allocation dominates the successful return of load, i.e. is not conditional on another option; Not decided: equality of the resulting Config across sources for every value of every type (behaviour of flag.Value.Set per type; R2 shows all sources use it).",
		Run:     runC15,
		Trusted: []string{"package flag: Visit visits flags set on the command line, VisitAll all flags, Set goes through flag.Value.Set", "magiconair/properties.Get"},
		Mutants: []mutant{
			{Name: "glob cache size validated only when glob matching is on", File: "config/load.go", Old: "\tif cfg.GlobCacheSize < 0 {", New: "\tif !cfg.GlobMatchingDisabled && cfg.GlobCacheSize < 0 {", Expect: "C15.V1"},

			{Name: "idle timeout flag bound to the keep-alive field", File: "config/load.go", Old: "f.DurationVar(&cfg.Proxy.IdleConnTimeout, \"proxy.idleconntimeout\", defaultConfig.Proxy.IdleConnTimeout,", New: "f.DurationVar(&cfg.Proxy.KeepAliveTimeout, \"proxy.idleconntimeout\", defaultConfig.Proxy.IdleConnTimeout,", Expect: "C15.R1"},
			{Name: "flush interval default from the global one", File: "config/load.go", Old: "f.DurationVar(&cfg.Proxy.FlushInterval, \"proxy.flushinterval\", defaultConfig.Proxy.FlushInterval,", New: "f.DurationVar(&cfg.Proxy.FlushInterval, \"proxy.flushinterval\", defaultConfig.Proxy.GlobalFlushInterval,", Expect: "C15.R1"},
			{Name: "two flags differ only in case", File: "config/load.go", Old: "\"registry.consul.allowStale\"", New: "\"registry.consul.requireconsistent\"", Expect: "C15.R1"},
			{Name: "properties before environment", File: "config/flagset.go", Old: "\t\t// check environment variables\n\t\tfor _, pfx := range prefixes {", New: "\t\tif p != nil {\n\t\t\tif val, ok := p.Get(fl.Name); ok {\n\t\t\t\tf.set[fl.Name] = true\n\t\t\t\tf.Set(fl.Name, val)\n\t\t\t\treturn\n\t\t\t}\n\t\t}\n\t\t// check environment variables\n\t\tfor _, pfx := range prefixes {", Expect: "C15.R2"},
			{Name: "environment overrides the command line", File: "config/flagset.go", Old: "\t\t// skip if already set\n\t\tif f.set[fl.Name] {\n\t\t\treturn\n\t\t}\n", New: "", Expect: "C15.R2"},
			{Name: "environment value not marked as set", File: "config/flagset.go", Old: "\t\t\tif val, ok := env[name]; ok {\n\t\t\t\tf.set[fl.Name] = true\n", New: "\t\t\tif val, ok := env[name]; ok {\n", Expect: "C15.R2"},
			{Name: "first match does not stop the search", File: "config/flagset.go", Old: "\t\t\t\tf.Set(fl.Name, val)\n\t\t\t\treturn\n\t\t\t}\n\t\t}\n\n\t\t// check properties", New: "\t\t\t\tf.Set(fl.Name, val)\n\t\t\t}\n\t\t}\n\n\t\t// check properties", Expect: "C15.R2"},
			{Name: "plain variable wins over the prefixed one", File: "config/load.go", Old: "envprefix := []string{\"FABIO_\", \"\"}", New: "envprefix := []string{\"\", \"FABIO_\"}", Expect: "C15.R3"},
			{Name: "environment names not upper-cased", File: "config/flagset.go", Old: "name := strings.ToUpper(pfx + strings.Replace(fl.Name, \".\", \"_\", -1))", New: "name := pfx + strings.Replace(fl.Name, \".\", \"_\", -1)", Expect: "C15.R3"},
			{Name: "unguarded env split again", File: "config/flagset.go", Old: "\t\tif len(p) != 2 {\n\t\t\t// ignore entries without a value\n\t\t\tcontinue\n\t\t}\n", New: "", Expect: "C15.P1"},
			{Name: "glob cache size not validated", File: "config/load.go", Old: "\tif cfg.GlobCacheSize < 0 {\n\t\treturn nil, fmt.Errorf(\"glob.cache.size must not be negative\")\n\t}\n", New: "", Expect: "C15.V1"},
			{Name: "consul cert source continues after a failed setup", File: "cert/consul_source.go", Old: "\t\tlog.Printf(\"[ERROR] cert: Failed to create consul client. %s\", err)\n\t\treturn nil", New: "\t\tlog.Printf(\"[ERROR] cert: Failed to create consul client. %s\", err)", Expect: "C15.V2"},
			{Name: "strategy validated case-insensitively", File: "config/load.go", Old: "if cfg.Proxy.Strategy != \"rr\" && cfg.Proxy.Strategy != \"rnd\" {", New: "if s := strings.ToLower(cfg.Proxy.Strategy); s != \"rr\" && s != \"rnd\" {", Expect: "C15.V3"},
			{Name: "benign: registration reordered", File: "config/load.go", Old: "\tf.BoolVar(&cfg.Insecure, \"insecure\", defaultConfig.Insecure, \"allow fabio to run as root when set to true\")\n\tf.IntVar(&cfg.Proxy.MaxConn, \"proxy.maxconn\", defaultConfig.Proxy.MaxConn, \"maximum number of cached connections\")", New: "\tf.IntVar(&cfg.Proxy.MaxConn, \"proxy.maxconn\", defaultConfig.Proxy.MaxConn, \"maximum number of cached connections\")\n\tf.BoolVar(&cfg.Insecure, \"insecure\", defaultConfig.Insecure, \"allow fabio to run as root when set to true\")", Expect: ""},
		},
	})
}

// frozen exceptions of R1: flag name -> reason.
var c15DefaultExceptions = map[string]string{
	"registry.consul.register.addr":                                "default is the placeholder \"<ui.addr>\": replaced by ui.addr after parsing (issue 657)",
	"registry.consul.register.checkDeregisterCriticalServiceAfter": "deprecated option parsed into a local, no effect",
	"proxy.log.routes":                                             "deprecated alias parsed into a local and copied to log.routes.format when set",
	"aws.apigw.cert.cn":                                            "deprecated option parsed into a local, no effect",
}

func selectorPath(e ast.Expr) (string, bool) {
	switch x := e.(type) {
	case *ast.Ident:
		return x.Name, true
	case *ast.SelectorExpr:
		p, ok := selectorPath(x.X)
		return p + "." + x.Sel.Name, ok
	case *ast.ParenExpr:
		return selectorPath(x.X)
	}
	return "", false
}

func runC15(c *Ctx) {
	runC15R1(c)
	runC15R2(c)
	runC15R3(c)
	runC15P(c)
	runC15V1(c)
	runC15V2(c)
	runC15V3(c)
}

func runC15R1(c *Ctx) {
	fd, pp := c.funcDecl("config", "", "load")
	if fd == nil {
		c.undecided("C15.R1", "anchor|config.load", "not found")
		return
	}
	type reg struct {
		name, ptr, def string
		pos            token.Pos
	}
	var regs []reg
	ast.Inspect(fd.Body, func(n ast.Node) bool {
		call, ok := n.(*ast.CallExpr)
		if !ok || len(call.Args) != 4 {
			return true
		}
		sel, ok := call.Fun.(*ast.SelectorExpr)
		if !ok || !strings.HasSuffix(sel.Sel.Name, "Var") {
			return true
		}
		name, ok := constStringExpr(pp.TypesInfo, call.Args[1])
		if !ok {
			c.check("C15.R1", "config.load|flag with a computed name", call.Pos(), false, "flag names must be constants so that the name/pointer/default table can be checked")
			return true
		}
		u, ok := call.Args[0].(*ast.UnaryExpr)
		if !ok || u.Op != token.AND {
			return true
		}
		ptr, _ := selectorPath(u.X)
		def, isSel := selectorPath(call.Args[2])
		if !isSel {
			def = "<literal>"
		}
		regs = append(regs, reg{name, ptr, def, call.Pos()})
		return true
	})
	c.atLeast("C15.R1", "flag registrations in config.load", len(regs), 50)
	byPtr := map[string]string{}
	byLower := map[string]string{}
	for _, r := range regs {
		key := "config.load|flag " + r.name
		// same pointer twice / case-insensitive collision
		if other, dup := byPtr[r.ptr]; dup {
			c.check("C15.R1", key+" binds a variable of its own", r.pos, false, "flags "+other+" and "+r.name+" are bound to the same variable "+r.ptr+": whichever source is applied last silently overrides the other option")
		}
		byPtr[r.ptr] = r.name
		if other, dup := byLower[strings.ToLower(r.name)]; dup {
			c.check("C15.R1", key+" has a case-insensitively unique name", r.pos, false, "flag names "+other+" and "+r.name+" differ only in case: both map to the same environment variable")
		}
		byLower[strings.ToLower(r.name)] = r.name
		if why, exempt := c15DefaultExceptions[r.name]; exempt {
			c.ob("C15.R1", key+" default", r.pos, OK, "reviewed exception: "+why)
			continue
		}
		switch {
		case strings.HasPrefix(r.ptr, "cfg."):
			want := "defaultConfig." + strings.TrimPrefix(r.ptr, "cfg.")
			c.check("C15.R1", key+" default", r.pos, r.def == want,
				"flag "+r.name+" sets "+r.ptr+" but takes its default from "+r.def+" (expected "+want+"): without the option on any source the effective value is another option's default")
		default:
			// option parsed into a local and post-processed: default comes from defaultValues.<same name, case-insensitive>
			want := "defaultValues." + r.ptr
			c.check("C15.R1", key+" default", r.pos, strings.EqualFold(r.def, want),
				"flag "+r.name+" is parsed into the local "+r.ptr+" but takes its default from "+r.def+" (expected "+want+", case-insensitively)")
		}
	}
}

func runC15R2(c *Ctx) {
	pf := c.method("config", "FlagSet", "ParseFlags")
	if !c.need("C15.R2", pf, "config.FlagSet.ParseFlags") {
		return
	}
	var parse, visit, visitAll ssa.Instruction
	eachInstr(pf, func(i ssa.Instruction) {
		cc := callCommon(i)
		if cc == nil {
			return
		}
		switch calleeName(cc) {
		case "(*flag.FlagSet).Parse":
			parse = i
		case "(*flag.FlagSet).Visit":
			visit = i
		case "(*flag.FlagSet).VisitAll":
			visitAll = i
		}
	})
	ok := parse != nil && visit != nil && visitAll != nil && dominatesInstr(parse, visit) && dominatesInstr(visit, visitAll)
	c.check("C15.R2", "(*config.FlagSet).ParseFlags|command line, then mark, then fallbacks", pf.Pos(), ok,
		"the command line must be parsed first, the flags set there marked (Visit) and only then the fallback sources consulted (VisitAll); any other order lets the environment or the file override the command line")
	if !ok {
		return
	}
	// the Visit closure marks set[name] = true
	marks := false
	if mc, isMC := callCommon(visit).Args[1].(*ssa.MakeClosure); isMC {
		eachInstr(mc.Fn.(*ssa.Function), func(i ssa.Instruction) {
			if mu, ok := i.(*ssa.MapUpdate); ok {
				if v, isK := constBool(mu.Value); isK && v {
					marks = true
				}
			}
		})
	}
	c.check("C15.R2", "(*config.FlagSet).ParseFlags|flags given on the command line are marked as set", visit.Pos(), marks, "the Visit pass must record every flag the command line set")
	mc, isMC := callCommon(visitAll).Args[1].(*ssa.MakeClosure)
	if !isMC {
		c.undecided("C15.R2", "(*config.FlagSet).ParseFlags|fallback closure", "VisitAll is not given a closure")
		return
	}
	fb := mc.Fn.(*ssa.Function)
	// "already set => return" in the entry block
	early := false
	if iff, ok := fb.Blocks[0].Instrs[len(fb.Blocks[0].Instrs)-1].(*ssa.If); ok {
		if lk, ok := iff.Cond.(*ssa.Lookup); ok && strings.HasSuffix(accessPath(lk.X), ".set") {
			if _, isRet := fb.Blocks[0].Succs[0].Instrs[len(fb.Blocks[0].Succs[0].Instrs)-1].(*ssa.Return); isRet && len(fb.Blocks[0].Succs[0].Instrs) == 1 {
				early = true
			}
		}
	}
	c.check("C15.R2", "(*config.FlagSet).ParseFlags$fallback|a flag that is already set is left alone", fb.Pos(), early,
		"the fallback pass must return immediately for a flag that is already set: otherwise the environment or the properties file overrides the command line")
	// sources: env lookup (map lookup on the env map) and properties Get
	var envLk, propGet ssa.Instruction
	var propGets []ssa.Instruction
	eachInstr(fb, func(i ssa.Instruction) {
		if lk, ok := i.(*ssa.Lookup); ok && lk.CommaOk && typeStr(lk.X.Type()) == "map[string]string" {
			envLk = i
		}
		if cc := callCommon(i); cc != nil && calleeName(cc) == "(*github.com/magiconair/properties.Properties).Get" {
			propGet = i
			propGets = append(propGets, i)
		}
	})
	if envLk == nil || propGet == nil {
		c.check("C15.R2", "(*config.FlagSet).ParseFlags$fallback|environment and properties both consulted", fb.Pos(), false, "a fallback source is missing")
		return
	}
	envFirst := pathAvoiding(envLk, propGet, nil)
	for _, pg := range propGets {
		if pathAvoiding(pg, envLk, nil) {
			envFirst = false
		}
	}
	c.check("C15.R2", "(*config.FlagSet).ParseFlags$fallback|environment before properties", envLk.Pos(), envFirst,
		"the environment must be consulted before the properties file (documented precedence); the properties lookup must not be able to run first")
	// each successful source: mark, Set, return — on the `ok` edge of the source
	for _, src := range []struct {
		name string
		in   ssa.Instruction
	}{{"environment", envLk}, {"properties", propGet}} {
		var okV ssa.Value
		if v, isV := src.in.(ssa.Value); isV {
			for _, r := range *v.Referrers() {
				if e, isE := r.(*ssa.Extract); isE && e.Index == 1 {
					okV = e
				}
			}
		}
		found := false
		for _, b := range fb.Blocks {
			hit := false
			for _, f := range factsAt(b) {
				if f.Cond == okV && f.Truth {
					hit = true
				}
			}
			if !hit || len(b.Preds) != 1 {
				continue
			}
			mark, set, ret := false, false, false
			for _, in := range b.Instrs {
				switch x := in.(type) {
				case *ssa.MapUpdate:
					if v, isK := constBool(x.Value); isK && v {
						mark = true
					}
				case *ssa.Call:
					if calleeName(&x.Call) == "(*flag.FlagSet).Set" {
						// value from this source
						if derives(x.Call.Args[2], func(v ssa.Value) bool { return v == src.in.(ssa.Value) }) {
							set = true
						}
					}
				case *ssa.Return:
					ret = true
				}
			}
			if mark && set && ret {
				found = true
			}
			if hit && !(mark && set && ret) && len(b.Instrs) > 1 {
				c.check("C15.R2", "(*config.FlagSet).ParseFlags$fallback|"+src.name+" value is marked, assigned through Set, and ends the search", b.Instrs[0].Pos(), false,
					"when the "+src.name+" supplies a value the flag must be marked as set, assigned through FlagSet.Set (same parsing as the command line) and the search must stop: otherwise a lower-priority source overrides it, or IsSet() reports the wrong origin")
				return
			}
		}
		c.check("C15.R2", "(*config.FlagSet).ParseFlags$fallback|"+src.name+" value is marked, assigned through Set, and ends the search", src.in.Pos(), found,
			"when the "+src.name+" supplies a value the flag must be marked as set, assigned through FlagSet.Set and the search must stop")
	}
}

func runC15R3(c *Ctx) {
	load := c.fn("config", "Load")
	inner := c.fn("config", "load")
	pf := c.method("config", "FlagSet", "ParseFlags")
	if !c.need("C15.R3", load, "config.Load") || inner == nil || pf == nil {
		return
	}
	// the prefix slice literal: elements by index
	okPfx := false
	eachInstr(load, func(i ssa.Instruction) {
		call, ok := i.(*ssa.Call)
		if !ok || call.Call.StaticCallee() != inner {
			return
		}
		for _, a := range call.Call.Args {
			sl, ok := a.(*ssa.Slice)
			if !ok {
				continue
			}
			arr, ok := sl.X.(*ssa.Alloc)
			if !ok {
				continue
			}
			elems := map[int64]string{}
			for _, r := range *arr.Referrers() {
				if ia, ok := r.(*ssa.IndexAddr); ok {
					k, _ := constInt(ia.Index)
					for _, r2 := range *ia.Referrers() {
						if st, ok := r2.(*ssa.Store); ok {
							if s, ok := constString(st.Val); ok {
								elems[k] = s
							}
						}
					}
				}
			}
			if len(elems) == 2 && elems[0] == "FABIO_" && elems[1] == "" {
				okPfx = true
			}
		}
	})
	c.check("C15.R3", "config.Load|environment prefixes [\"FABIO_\", \"\"] in that order", load.Pos(), okPfx, "the FABIO_-prefixed variable must win over the plain one: the prefixes must be passed as [\"FABIO_\", \"\"]")
	// env map keys upper-cased; lookup names upper-cased with '.' -> '_'
	okKey := false
	eachInstr(pf, func(i ssa.Instruction) {
		if mu, ok := i.(*ssa.MapUpdate); ok && typeStr(mu.Map.Type()) == "map[string]string" {
			if _, isUp := isCallTo(mu.Key, "strings.ToUpper"); isUp {
				okKey = true
			}
		}
	})
	c.check("C15.R3", "(*config.FlagSet).ParseFlags|environment map keyed by the upper-cased name", pf.Pos(), okKey, "environment variables are case-insensitive: the map must be keyed by strings.ToUpper(name)")
	okName := false
	for _, f := range pf.AnonFuncs {
		eachInstr(f, func(i ssa.Instruction) {
			lk, ok := i.(*ssa.Lookup)
			if !ok || typeStr(lk.X.Type()) != "map[string]string" {
				return
			}
			up, isUp := isCallTo(lk.Index, "strings.ToUpper")
			if !isUp {
				return
			}
			// argument: prefix + Replace(name, ".", "_")
			add, isAdd := up.Call.Args[0].(*ssa.BinOp)
			if !isAdd || add.Op != token.ADD {
				return
			}
			rep, isRep := isCallTo(add.Y, "strings.Replace", "strings.ReplaceAll")
			if !isRep {
				return
			}
			o, _ := constString(rep.Call.Args[1])
			n, _ := constString(rep.Call.Args[2])
			if o == "." && n == "_" {
				okName = true
			}
		})
	}
	c.check("C15.R3", "(*config.FlagSet).ParseFlags$fallback|environment name is ToUpper(prefix + name with '.' -> '_')", pf.Pos(), okName,
		"the environment variable of option a.b.c must be looked up as ToUpper(prefix + \"a_b_c\") against the upper-cased map; otherwise options given in the environment (in any letter case) are not found")
}

func runC15P(c *Ctx) {
	load := c.fn("config", "Load")
	if load == nil {
		return
	}
	scope := map[*ssa.Function]bool{}
	for f := range c.reach(load) {
		if rootPkg(f) == c.spkg("config") {
			scope[f] = true
		}
	}
	n := runPartialOps(c, "C15.P1", scope)
	c.atLeast("C15.P1", "constant indices / Index-derived bounds reachable from config.Load", n, 3)
}

// runC15V1: int options that reach a size / capacity / status sink.
func runC15V1(c *Ctx) {
	cfgPkg := c.spkg("config")
	if cfgPkg == nil {
		return
	}
	// 1. repo functions with an int parameter that flows into a make size/capacity
	type sizeParam struct {
		f   *ssa.Function
		idx int
	}
	var sized []sizeParam
	for _, f := range c.AllFns {
		for k, p := range f.Params {
			if !isIntType(p.Type()) {
				continue
			}
			hit := false
			eachInstr(f, func(i ssa.Instruction) {
				switch x := i.(type) {
				case *ssa.MakeSlice:
					if x.Len == p || x.Cap == p {
						hit = true
					}
				case *ssa.MakeChan:
					if x.Size == p {
						hit = true
					}
				}
			})
			if hit {
				sized = append(sized, sizeParam{f, k})
			}
		}
	}
	isCfgField := func(v ssa.Value) (string, bool) {
		u, ok := v.(*ssa.UnOp)
		if !ok || u.Op != token.MUL {
			return "", false
		}
		fa, ok := u.X.(*ssa.FieldAddr)
		if !ok {
			return "", false
		}
		k := typeKey(fa.X.Type())
		if !strings.HasPrefix(k, repoMod+"/config.") {
			return "", false
		}
		return strings.TrimPrefix(k, repoMod+"/config.") + "." + fieldName(fa.X.Type(), fa.Field), true
	}
	load := c.fn("config", "load")
	hasRangeCheck := func(field string) bool {
		if load == nil {
			return false
		}
		found := false
		eachInstr(load, func(i ssa.Instruction) {
			b, ok := i.(*ssa.BinOp)
			if !ok {
				return
			}
			switch b.Op {
			case token.LSS, token.LEQ, token.GTR, token.GEQ:
			default:
				return
			}
			fn, isF := isCfgField(b.X)
			if !isF || fn != field {
				return
			}
			if _, isK := b.Y.(*ssa.Const); !isK {
				return
			}
			// the true edge returns an error
			for _, r := range *b.Referrers() {
				if iff, ok := r.(*ssa.If); ok {
					for _, s := range iff.Block().Succs {
						seen := reachableFrom([]*ssa.BasicBlock{iff.Block()}, nil)
						_ = seen
						if len(s.Instrs) > 0 {
							if ret, ok := s.Instrs[len(s.Instrs)-1].(*ssa.Return); ok && len(ret.Results) == 2 && !isNilConst(ret.Results[1]) {
								// ... and the test is made for every configuration that load accepts
								for _, sb := range load.Blocks {
									if len(sb.Instrs) == 0 {
										continue
									}
									if sr, ok := sb.Instrs[len(sb.Instrs)-1].(*ssa.Return); ok && len(sr.Results) == 2 && isNilConst(sr.Results[1]) && b.Block().Dominates(sb) {
										found = true
									}
								}
							}
						}
					}
				}
			}
		})
		return found
	}
	n := 0
	for _, sp := range sized {
		for _, f := range c.AllFns {
			eachInstr(f, func(i ssa.Instruction) {
				cc := callCommon(i)
				if cc == nil || cc.StaticCallee() != sp.f || sp.idx >= len(cc.Args) {
					return
				}
				field, ok := isCfgField(cc.Args[sp.idx])
				if !ok {
					return
				}
				n++
				c.check("C15.V1", "config."+field+"|allocation size in "+fnKey(sp.f), i.Pos(), hasRangeCheck(field),
					"the int option "+field+" is used as an allocation size in "+fnKey(sp.f)+" but config.load accepts any value: a negative value passes validation and panics when the listeners are created (makeslice: len out of range)")
			})
		}
	}
	// 2. config ints used directly as make size / chan capacity with a local clamp
	for _, f := range c.AllFns {
		eachInstr(f, func(i ssa.Instruction) {
			var size ssa.Value
			switch x := i.(type) {
			case *ssa.MakeChan:
				size = x.Size
			case *ssa.MakeSlice:
				size = x.Len
			default:
				return
			}
			var field string
			derives(size, func(v ssa.Value) bool {
				if fn, ok := isCfgField(v); ok {
					field = fn
					return true
				}
				return false
			})
			if field == "" {
				return
			}
			n++
			// clamp: the size is a merge whose config edge is taken only under a `> 0` style fact
			okClamp := hasRangeCheck(field)
			for _, d := range defsOf(size) {
				if _, isF := isCfgField(d.Val); isF && d.Block != nil {
					for _, ft := range factsAt(d.Block) {
						if b, ok := ft.Cond.(*ssa.BinOp); ok {
							if fn, isF := isCfgField(b.X); isF && fn == field {
								okClamp = true
							}
						}
					}
				}
			}
			if ph, ok := size.(*ssa.Phi); ok {
				for _, e := range ph.Edges {
					if k, ok := constInt(e); ok && k >= 1 {
						okClamp = true
					}
				}
			}
			c.check("C15.V1", "config."+field+"|size in "+fnKey(f), i.Pos(), okClamp, "the int option "+field+" sizes an allocation/channel in "+fnKey(f)+" without a range check in load or a clamp at the use")
		})
	}
	// 3. status code
	serve := c.method("proxy", "HTTPProxy", "ServeHTTP")
	if serve != nil {
		eachInstr(serve, func(i ssa.Instruction) {
			cc := callCommon(i)
			if cc == nil || !cc.IsInvoke() || cc.Method.Name() != "WriteHeader" {
				return
			}
			var field string
			derives(cc.Args[0], func(v ssa.Value) bool {
				if fn, ok := isCfgField(v); ok {
					field = fn
					return true
				}
				return false
			})
			if field == "" {
				return
			}
			n++
			c.check("C15.V1", "config."+field+"|status code in ServeHTTP", i.Pos(), hasRangeCheck(field), "a configured status code must be range-checked in load (net/http panics on codes outside 100-999)")
		})
	}
	c.atLeast("C15.V1", "int options reaching a size/capacity/status sink", n, 3)
}

// runC15V2 (ERRUSE): the primary result of (v, err) := f() is used on a path on which err != nil was observed and
// control was not left. Scope: start-up code of the configuration-driven sources.
func runC15V2(c *Ctx) {
	n := 0
	for _, f := range c.AllFns {
		pkgOK := false
		for _, p := range []string{"cert", "registry/custom", "registry/consul", "registry/file", "registry/static", "main", "config", "metrics", "auth"} {
			if rootPkg(f) == c.spkg(p) {
				pkgOK = true
			}
		}
		if !pkgOK {
			continue
		}
		eachInstr(f, func(i ssa.Instruction) {
			call, ok := i.(*ssa.Call)
			if !ok {
				return
			}
			res := call.Call.Signature().Results()
			if res.Len() < 2 || typeStr(res.At(res.Len()-1).Type()) != "error" {
				return
			}
			if _, isPtr := res.At(0).Type().Underlying().(*types.Pointer); !isPtr {
				return
			}
			var v, e ssa.Value
			for _, r := range *call.Referrers() {
				if ex, ok := r.(*ssa.Extract); ok {
					if ex.Index == 0 {
						v = ex
					}
					if ex.Index == res.Len()-1 {
						e = ex
					}
				}
			}
			if v == nil || e == nil || v.Referrers() == nil {
				return
			}
			// blocks entered on the err != nil edge
			for _, b := range f.Blocks {
				if len(b.Preds) != 1 || !knownNonNil(b, sameVal(e)) || knownNonNil(b.Preds[0], sameVal(e)) {
					continue
				}
				n++
				// does a dereferencing use of v stay reachable from b?
				var bad ssa.Instruction
				for _, r := range *v.Referrers() {
					ri, ok := r.(ssa.Instruction)
					if !ok {
						continue
					}
					deref := false
					switch x := r.(type) {
					case *ssa.FieldAddr:
						deref = x.X == v
					case *ssa.UnOp:
						deref = x.Op == token.MUL && x.X == v
					case *ssa.Call:
						deref = len(x.Call.Args) > 0 && x.Call.Args[0] == v && x.Call.StaticCallee() != nil && x.Call.StaticCallee().Signature.Recv() != nil
						if x.Call.StaticCallee() != nil && !deref {
							for _, a := range x.Call.Args {
								if a == v && !isRepoFn(x.Call.StaticCallee()) {
									deref = true // handed to library code that dereferences it (api.NewClient(config), watchers)
								}
							}
						}
					case *ssa.Go:
						for _, a := range x.Call.Args {
							if a == v {
								deref = true
							}
						}
					}
					if !deref {
						continue
					}
					if ri.Block() == b || reachableFrom([]*ssa.BasicBlock{b}, nil)[ri.Block()] {
						// not if the use is itself guarded by err == nil / v != nil
						if knownNil(ri.Block(), sameVal(e)) || knownNonNil(ri.Block(), sameVal(v)) {
							continue
						}
						bad = ri
					}
				}
				pos := b.Instrs[0].Pos()
				detail := "the error edge leaves the function (or the value is not used afterwards)"
				if bad != nil {
					pos = bad.Pos()
					detail = "after " + strings.TrimPrefix(calleeName(&call.Call), repoMod+"/") + " failed its nil result is still used here: configuration that makes the constructor fail (an invalid URL, host or scheme) is accepted by load and then panics at start-up instead of being reported"
				}
				c.check("C15.V2", fnKey(f)+"|result of "+strings.TrimPrefix(calleeName(&call.Call), repoMod+"/")+" not used after its error", pos, bad == nil, detail)
			}
		})
	}
	c.atLeast("C15.V2", "error edges of pointer-returning constructors in start-up code", n, 5)
}
