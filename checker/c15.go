package main

import (
	"fmt"
	"go/token"
	"go/types"
	"os"
	"strings"

	"golang.org/x/tools/go/ssa"
)

func init() {
	register(&propDef{
		ID:      "C15",
		Level:   "other",
		Explain: "Configuration loading, decided structurally; sites are found by what they do (calls of the flag / strings / properties API, fields of config.Config, the set-map of config.FlagSet) inside the region of an exported entry point (config.Load, config.FlagSet.ParseFlags, HTTPProxy.ServeHTTP), never by the name of an unexported function or variable. (R1) for every flag definition flag.FlagSet.<T>Var(&v, name, default, usage) in package config - also inside wrappers (methods of config.FlagSet, local closures, extracted helpers: expanded per call; a loop over a table of descriptors - a slice / array literal of rows with constant names, pointers or accessor functions: expanded per row; a struct-typed flag.Value: the pointer it keeps) - v is a field path P of the Config being filled and the default is the same path P of the default configuration (exceptions are a frozen, reasoned table keyed by flag name); options parsed into a local take the field of the defaults table that belongs to that local; no two flags bind the same variable, and no two flag names collide case-insensitively (the environment lookup upper-cases them); (R2) in FlagSet.ParseFlags the command line is parsed before the flags it set are marked (Visit) and that before the fallback pass (VisitAll); every assignment of a fallback value (flag.FlagSet.Set / flag.Value.Set anywhere in the region of ParseFlags: in the VisitAll callback, or in a later pass such as a loop over the keys of the properties, which must then follow the pass over the environment) is under the test that the flag is not yet marked, under the presence bit of the source the value comes from (comma-ok of the environment map, second result of Properties.Get, possibly handed on through helper results; a key taken from Properties.Keys() is present by construction) and not under a test of the value itself; every assignment is accompanied by marking the flag; no assignment can follow another one; the properties are not consulted before the environment, and their value becomes the assigned one only on paths that left a test of the environment's presence bit on its false edge; when the sources are consulted through one dynamic call (a method of an interface declared in the repository, a function taken from a list of lookup functions - resolved by following the receiver / function value back to the conversions and function values it is made from) the list the callee is taken from must hold the environment source(s) before the properties in every alternative it can be, be walked forwards, and no further source may be consulted once one has reported a value; (R3) the callers of ParseFlags pass the prefixes [\"FABIO_\", \"\"] in that order, the environment map is keyed by the case-normalised complete variable name and consulted under normalise(prefix + Replace(name, \".\", \"_\")) with the same normalisation; (P*) partial operations reachable from config.Load (Split/SplitN indices, slice bounds from Index*) are guarded; (V1) every int option that flows into an allocation size, channel capacity or status code is compared with a constant somewhere in the loading region, the failing outcome inevitably returns an error, the test dominates every successful return (it is not conditional on another option) and the error is handed on up to config.Load - or the value is clamped at the sink; (V2) values built from configuration at start-up are not used on the path on which their constructor's error was observed and only logged; (V3) enumerated options are validated raw (equality tests, switch, slices.Contains / set literal / helper given a literal list) against exactly the keys of the registries they index. Not decided: equality of the resulting Config across sources for every value of every type (behaviour of flag.Value.Set per type; R2 shows all sources use it).",
		Run:     runC15,
		Trusted: []string{"package flag: Visit visits flags set on the command line, VisitAll all flags, Set goes through flag.Value.Set", "magiconair/properties.Get"},
		Mutants: append([]mutant{
			{Name: "glob cache size validated only when glob matching is on", File: "config/load.go", Old: "\tif cfg.GlobCacheSize < 0 {", New: "\tif !cfg.GlobMatchingDisabled && cfg.GlobCacheSize < 0 {", Expect: "C15.V1"},

			{Name: "idle timeout flag bound to the keep-alive field", File: "config/load.go", Old: "f.DurationVar(&cfg.Proxy.IdleConnTimeout, \"proxy.idleconntimeout\", defaultConfig.Proxy.IdleConnTimeout,", New: "f.DurationVar(&cfg.Proxy.KeepAliveTimeout, \"proxy.idleconntimeout\", defaultConfig.Proxy.IdleConnTimeout,", Expect: "C15.R1"},
			{Name: "flush interval default from the global one", File: "config/load.go", Old: "f.DurationVar(&cfg.Proxy.FlushInterval, \"proxy.flushinterval\", defaultConfig.Proxy.FlushInterval,", New: "f.DurationVar(&cfg.Proxy.FlushInterval, \"proxy.flushinterval\", defaultConfig.Proxy.GlobalFlushInterval,", Expect: "C15.R1"},
			{Name: "two flags differ only in case", File: "config/load.go", Old: "\"registry.consul.allowStale\"", New: "\"registry.consul.requireconsistent\"", Expect: "C15.R1"},
			{Name: "properties before environment", File: "config/flagset.go", Old: "\t\t// check environment variables\n\t\tfor _, pfx := range prefixes {", New: "\t\tif p != nil {\n\t\t\tif val, ok := p.Get(fl.Name); ok {\n\t\t\t\tf.set[fl.Name] = true\n\t\t\t\tf.Set(fl.Name, val)\n\t\t\t\treturn\n\t\t\t}\n\t\t}\n\t\t// check environment variables\n\t\tfor _, pfx := range prefixes {", Expect: "C15.R2"},
			{Name: "environment overrides the command line", File: "config/flagset.go", Old: "\t\t// skip if already set\n\t\tif f.set[fl.Name] {\n\t\t\treturn\n\t\t}\n", New: "", Expect: "C15.R2"},
			{Name: "environment value not marked as set", File: "config/flagset.go", Old: "\t\t\tif val, ok := env[name]; ok {\n\t\t\t\tf.set[fl.Name] = true\n", New: "\t\t\tif val, ok := env[name]; ok {\n", Expect: "C15.R2"},
			{Name: "first match does not stop the search", File: "config/flagset.go", Old: "\t\t\t\tf.Set(fl.Name, val)\n\t\t\t\treturn\n\t\t\t}\n\t\t}\n\n\t\t// check properties", New: "\t\t\t\tf.Set(fl.Name, val)\n\t\t\t}\n\t\t}\n\n\t\t// check properties", Expect: "C15.R2"},
			{Name: "plain variable wins over the prefixed one", File: "config/load.go", Old: "envprefix := []string{\"FABIO_\", \"\"}", New: "envprefix := []string{\"\", \"FABIO_\"}", Expect: "C15.R3"},
			{Name: "environment names not upper-cased", File: "config/flagset.go", Old: "name := strings.ToUpper(pfx + strings.Replace(fl.Name, \".\", \"_\", -1))", New: "name := pfx + strings.Replace(fl.Name, \".\", \"_\", -1)", Expect: "C15.R3"},
			{Name: "unguarded env split again", File: "config/flagset.go", Old: "\t\tif len(p) != 2 {\n\t\t\t// ignore entries without a value\n\t\t\tcontinue\n\t\t}\n", New: "", Expect: "C15.P1"},
			{Name: "glob cache size not validated", File: "config/load.go", Old: "\tif cfg.GlobCacheSize < 0 {\n\t\treturn nil, fmt.Errorf(\"glob.cache.size must not be negative\")\n\t}\n", New: "", Expect: "C15.V1"},
			{Name: "consul cert source continues after a failed setup", File: "cert/consul_source.go", Old: "\t\tlog.Printf(\"[ERROR] cert: Failed to create consul client. %s\", err)\n\t\treturn nil", New: "\t\tlog.Printf(\"[ERROR] cert: Failed to create consul client. %s\", err)", Expect: "C15.V2"},
			{Name: "strategy validated case-insensitively", File: "config/load.go", Old: "if cfg.Proxy.Strategy != \"rr\" && cfg.Proxy.Strategy != \"rnd\" {", New: "if s := strings.ToLower(cfg.Proxy.Strategy); s != \"rr\" && s != \"rnd\" {", Expect: "C15.V3"},
			{Name: "benign: registration reordered", File: "config/load.go", Old: "\tf.BoolVar(&cfg.Insecure, \"insecure\", defaultConfig.Insecure, \"allow fabio to run as root when set to true\")\n\tf.IntVar(&cfg.Proxy.MaxConn, \"proxy.maxconn\", defaultConfig.Proxy.MaxConn, \"maximum number of cached connections\")", New: "\tf.IntVar(&cfg.Proxy.MaxConn, \"proxy.maxconn\", defaultConfig.Proxy.MaxConn, \"maximum number of cached connections\")\n\tf.BoolVar(&cfg.Insecure, \"insecure\", defaultConfig.Insecure, \"allow fabio to run as root when set to true\")", Expect: ""},
		}, append(append(append([]mutant{}, c15MoreMutants...), c15round4R2Mutants...), c15round5Mutants...)...),
	})
}

func init() {
	// development aid: C15_MUTANTS=<substring> restricts `verifcheck mutants C15` to the mutants whose name contains it
	if sub := os.Getenv("C15_MUTANTS"); sub != "" {
		if p := props["C15"]; p != nil {
			var keep []mutant
			for _, m := range p.Mutants {
				if strings.Contains(m.Name, sub) {
					keep = append(keep, m)
				}
			}
			p.Mutants = keep
		}
	}
}

// frozen exceptions of R1: flag name -> reason. Flag names are the user-visible interface of fabio, so they are a
// stable key (the variables the flags are parsed into are not).
var c15DefaultExceptions = map[string]string{
	"registry.consul.register.addr":                                "default is the placeholder \"<ui.addr>\": replaced by ui.addr after parsing (issue 657)",
	"registry.consul.register.checkDeregisterCriticalServiceAfter": "deprecated option parsed into a local, no effect",
	"proxy.log.routes":                                             "deprecated alias parsed into a local and copied to log.routes.format when set",
	"aws.apigw.cert.cn":                                            "deprecated option parsed into a local, no effect",
}

func runC15(c *Ctx) {
	c15use(c)
	runC15R1(c)
	runC15R2(c)
	runC15R3(c)
	runC15P(c)
	runC15V1(c)
	runC15V2(c)
	runC15V3(c)
	if os.Getenv("C15_DEBUG") != "" {
		for _, o := range c.Obs {
			if o.Rule != "C15.R1" || o.st != OK {
				fmt.Fprintf(os.Stderr, "DBG %s | %s | %s | %s\n", o.Rule, o.Construct, o.Pos, o.Status)
			}
		}
	}
}

// ---- R1: the table of flag registrations ------------------------------------------------------------------------

// c15path is where a pointer or a value comes from, as a root and a chain of field names.
type c15path struct {
	kind   string     // "cfg": a config.Config being filled; "global": a package-level variable; "local": a local variable; "const"; "param"; "other"
	root   string     // printable root
	id     ssa.Value  // identity of the root (local: the cell, global: the variable)
	konst  *ssa.Const // kind "const"
	fields []string
}

func (p c15path) String() string {
	if p.kind == "const" {
		return "<literal>"
	}
	if len(p.fields) == 0 {
		return p.root
	}
	return p.root + "." + strings.Join(p.fields, ".")
}

// leafName: the name of the designated variable itself (the last field, or the root).
func (p c15path) leafName() string {
	if n := len(p.fields); n > 0 {
		return p.fields[n-1]
	}
	return p.root
}

// key identifies the designated variable (only for kinds with an identity).
func (p c15path) key() string {
	switch p.kind {
	case "cfg":
		return "cfg." + strings.Join(p.fields, ".")
	case "local", "global":
		return fmt.Sprintf("%s:%p.%s", p.kind, p.id, strings.Join(p.fields, "."))
	}
	return ""
}

func c15isConfigType(t types.Type) bool { return namedIs(t, "config.Config") }

// c15resolver computes paths; a Parameter is replaced by the argument at the call site on top of ctx. When a
// parameter is met with an empty ctx and the function has known call sites, needCaller is set: the registration
// must be looked at once per caller.
type c15resolver struct {
	sites      c15siteIndex
	needCaller *ssa.Function
	// registrations driven by a table (a loop over a slice / array literal of descriptors): rows binds an element of
	// the table to the values one row of the literal stores into its fields; needTable is an element met unbound
	rows      map[c15elemKey]map[int]ssa.Value
	needTable ssa.Value
}

// rowValue: v reads a field of a table element; the value the bound row stores there (nil when the row leaves the
// field at its zero value, or when the element is not bound yet - needTable is then set).
func (r *c15resolver) rowValue(v ssa.Value) (val ssa.Value, isRow bool) {
	elem, field, ok := c15rowAccess(v)
	if !ok {
		return nil, false
	}
	key, ok := c15elemKeyOf(elem)
	if !ok {
		return nil, false
	}
	row, bound := r.rows[key]
	if !bound {
		r.needTable = elem
		return nil, true
	}
	return row[field], true
}

// calleesOf: the functions a call can enter - c15callees, or the function a bound table row keeps in the field the
// callee is read from.
func (r *c15resolver) calleesOf(call *ssa.Call) []*ssa.Function {
	if gs := c15callees(&call.Call); len(gs) > 0 {
		return gs
	}
	if call.Call.IsInvoke() {
		return nil
	}
	if val, isRow := r.rowValue(call.Call.Value); isRow && val != nil {
		var out []*ssa.Function
		for _, g := range c15funcsOf(val) {
			if isRepoFn(g) && len(g.Blocks) > 0 {
				out = append(out, g)
			}
		}
		return out
	}
	return nil
}

func (r *c15resolver) path(v ssa.Value, ctx []ssa.CallInstruction, depth int) c15path {
	other := c15path{kind: "other", root: "?"}
	if v == nil || depth > 16 {
		return other
	}
	withField := func(base ssa.Value, idx int) c15path {
		p := r.path(base, ctx, depth+1)
		p.fields = append(append([]string{}, p.fields...), fieldName(base.Type(), idx))
		return p
	}
	global := func(g *ssa.Global) c15path {
		return c15path{kind: "global", root: g.Name(), id: g}
	}
	local := func(cell ssa.Value) c15path {
		if a, ok := c15cell(cell).(*ssa.Alloc); ok {
			if p, isP := a.Type().(*types.Pointer); isP && c15isConfigType(p.Elem()) {
				return c15path{kind: "cfg", root: "cfg", id: a}
			}
			name := a.Comment
			if name == "" {
				name = a.Name()
			}
			return c15path{kind: "local", root: name, id: a}
		}
		return other
	}
	if val, isRow := r.rowValue(v); isRow {
		if val == nil {
			return other
		}
		return r.path(val, ctx, depth+1)
	}
	switch x := v.(type) {
	case *ssa.FieldAddr:
		return withField(x.X, x.Field)
	case *ssa.Field:
		return withField(x.X, x.Field)
	case *ssa.Const:
		return c15path{kind: "const", root: x.String(), konst: x}
	case *ssa.Global:
		return global(x)
	case *ssa.Alloc:
		// a local copy of a struct (d := defaultConfig.Proxy): the fields are those of the original
		if pt, isP := x.Type().(*types.Pointer); isP {
			if _, isStruct := pt.Elem().Underlying().(*types.Struct); isStruct && !c15isConfigType(pt.Elem()) {
				if sv := c15stores(x); len(sv) == 1 {
					if p := r.path(sv[0], ctx, depth+1); p.kind == "global" || p.kind == "cfg" {
						return p
					}
				}
			}
		}
		return local(x)
	case *ssa.FreeVar:
		if cell := c15cell(x); cell != x {
			return r.path(cell, ctx, depth+1)
		}
		return other
	case *ssa.MakeInterface:
		return r.path(x.X, ctx, depth+1)
	case *ssa.ChangeType:
		return r.path(x.X, ctx, depth+1)
	case *ssa.Convert:
		return r.path(x.X, ctx, depth+1)
	case *ssa.UnOp:
		if x.Op != token.MUL {
			return other
		}
		switch y := x.X.(type) {
		case *ssa.Global:
			return global(y) // the object a pointer-typed package variable points to
		case *ssa.Alloc, *ssa.FreeVar:
			// the value of a local variable: what was stored into it, when that is unambiguous
			if sv := c15stores(y); len(sv) == 1 {
				return r.path(sv[0], ctx, depth+1)
			}
			return local(y)
		}
		return r.path(x.X, ctx, depth+1)
	case *ssa.Parameter:
		fn := x.Parent()
		idx := -1
		for k, p := range fn.Params {
			if p == x {
				idx = k
			}
		}
		// a call on top of ctx that entered a closure nested in fn (an accessor closure reading a variable of fn): the
		// frame of fn itself is further out
		for len(ctx) > 0 {
			top, isCall := ctx[len(ctx)-1].(*ssa.Call)
			if !isCall {
				break
			}
			nested := false
			for _, g := range r.calleesOf(top) {
				for p := g.Parent(); p != nil; p = p.Parent() {
					if p == fn && g != fn {
						nested = true
					}
				}
			}
			if !nested {
				break
			}
			ctx = ctx[:len(ctx)-1]
		}
		if n := len(ctx); n > 0 {
			if args := ctx[n-1].Common().Args; idx >= 0 && idx < len(args) && !ctx[n-1].Common().IsInvoke() {
				return r.path(args[idx], ctx[:n-1], depth+1)
			}
			return other
		}
		if len(r.sites[fn]) > 0 {
			r.needCaller = fn
			return other
		}
		if c15isConfigType(x.Type()) {
			return c15path{kind: "cfg", root: "cfg", id: x}
		}
		return c15path{kind: "param", root: x.Name(), id: x}
	case *ssa.Call:
		if c15isConfigType(x.Type()) {
			return c15path{kind: "cfg", root: "cfg", id: x}
		}
		// a copy of a slice is that slice as far as the table of defaults is concerned
		switch calleeName(&x.Call) {
		case "builtin.append":
			if len(x.Call.Args) == 2 && c15fresh(x.Call.Args[0], 0) {
				return r.path(x.Call.Args[1], ctx, depth+1)
			}
		case "slices.Clone", "bytes.Clone", "maps.Clone", "strings.Clone":
			if len(x.Call.Args) == 1 {
				return r.path(x.Call.Args[0], ctx, depth+1)
			}
		}
		// an accessor (a helper, a closure, a function kept in a table row) that returns the variable or its address:
		// what its single return hands back, with its parameters replaced by the arguments of this call
		if gs := r.calleesOf(x); len(gs) == 1 && !x.Call.IsInvoke() {
			var rets []*ssa.Return
			eachInstr(gs[0], func(i ssa.Instruction) {
				if ret, ok := i.(*ssa.Return); ok {
					rets = append(rets, ret)
				}
			})
			if len(rets) == 1 && len(rets[0].Results) == 1 {
				return r.path(rets[0].Results[0], append(append([]ssa.CallInstruction{}, ctx...), x), depth+1)
			}
		}
	case *ssa.Extract:
		if c15isConfigType(x.Type()) {
			return c15path{kind: "cfg", root: "cfg", id: x}
		}
	}
	return other
}

// c15reg is one flag definition: name, the variable it is parsed into, where its default comes from.
type c15reg struct {
	name     string
	computed bool // the name is not a constant
	hasPtr   bool
	hasDef   bool
	ptr, def c15path
	ptrT     types.Type // type of the pointer the flag is bound to
	pos      token.Pos
}

// c15valueCtor: for flag.FlagSet.Var(value, name, usage) with value = ctor(default, pointer) (any order): the pointer
// and the default handed to the constructor of the flag.Value.
func c15valueCtor(v ssa.Value) (ptr, def ssa.Value) {
	for {
		switch x := v.(type) {
		case *ssa.MakeInterface:
			v = x.X
			continue
		case *ssa.ChangeType:
			v = x.X
			continue
		case *ssa.Convert:
			v = x.X
			continue
		}
		break
	}
	call, ok := v.(*ssa.Call)
	if !ok {
		a, isAlloc := v.(*ssa.Alloc)
		if u, isLoad := v.(*ssa.UnOp); isLoad && u.Op == token.MUL {
			a, isAlloc = u.X.(*ssa.Alloc) // (a struct value with value receivers)
		}
		if isAlloc {
			// the flag.Value is a struct literal built in place (&T{dst: p}): the variable is the pointer it keeps
			if inner := c15keptPointer(a); inner != nil {
				return inner, c15storedDefault(inner)
			}
		}
		if _, isPtr := v.Type().Underlying().(*types.Pointer); isPtr {
			// the pointer itself, converted to the flag.Value type; the default is what the constructor's inlined body
			// stores through it (*p = value) before the definition
			return v, c15storedDefault(v)
		}
		return nil, nil
	}
	for _, a := range call.Call.Args {
		if p, isPtr := a.Type().Underlying().(*types.Pointer); isPtr {
			for _, b := range call.Call.Args {
				if b != a && types.Identical(p.Elem(), b.Type()) {
					return a, b
				}
			}
		}
	}
	return nil, nil
}

// c15keptPointer: the single pointer stored into a field of the struct literal a (the variable a struct-typed
// flag.Value writes to); nil when a is not a struct, keeps no pointer or keeps several.
func c15keptPointer(a *ssa.Alloc) ssa.Value {
	pt, ok := a.Type().(*types.Pointer)
	if !ok || a.Referrers() == nil {
		return nil
	}
	if _, isStruct := pt.Elem().Underlying().(*types.Struct); !isStruct {
		return nil
	}
	var kept []ssa.Value
	for _, r := range *a.Referrers() {
		fa, isFA := r.(*ssa.FieldAddr)
		if !isFA || fa.Referrers() == nil {
			continue
		}
		for _, r2 := range *fa.Referrers() {
			if st, isSt := r2.(*ssa.Store); isSt && st.Addr == ssa.Value(fa) {
				if _, isPtr := st.Val.Type().Underlying().(*types.Pointer); isPtr && !isNilConst(st.Val) {
					kept = append(kept, st.Val)
				}
			}
		}
	}
	if len(kept) != 1 {
		return nil
	}
	return kept[0]
}

// c15storedDefault: the single value the function of ptr stores through ptr itself (*p = value), if any.
func c15storedDefault(ptr ssa.Value) ssa.Value {
	refs := ptr.Referrers()
	if refs == nil {
		return nil
	}
	var vals []ssa.Value
	for _, r := range *refs {
		if st, ok := r.(*ssa.Store); ok && st.Addr == ptr {
			vals = append(vals, st.Val)
		}
	}
	if len(vals) != 1 {
		return nil
	}
	return vals[0]
}

var c15valueDefiners = map[string]bool{"String": true, "Bool": true, "Int": true, "Int64": true, "Uint": true, "Uint64": true, "Float64": true, "Duration": true, "Func": true, "BoolFunc": true}

// c15registrations finds every definition of a flag in package config: calls of the methods of flag.FlagSet that
// define one, wherever they are; when they sit in a wrapper (a method of config.FlagSet, a local closure, an
// extracted helper that gets the pointers as parameters) they are expanded once per call of the wrapper.
func c15registrations(c *Ctx) []c15reg {
	c15use(c)
	fns := c.fnsWhere("config", func(*ssa.Function) bool { return true })
	sites := c15buildSites(fns)
	var regs []c15reg
	var enumerateRows func(call *ssa.Call, ptrV, nameV, defV ssa.Value, ctx []ssa.CallInstruction, rows map[c15elemKey]map[int]ssa.Value)
	enumerate := func(call *ssa.Call, ptrV, nameV, defV ssa.Value, ctx []ssa.CallInstruction) {
		enumerateRows(call, ptrV, nameV, defV, ctx, nil)
	}
	enumerateRows = func(call *ssa.Call, ptrV, nameV, defV ssa.Value, ctx []ssa.CallInstruction, rows map[c15elemKey]map[int]ssa.Value) {
		r := &c15resolver{sites: sites, rows: rows}
		reg := c15reg{pos: call.Pos()}
		if len(ctx) > 0 {
			reg.pos = ctx[0].Pos()
		}
		np := r.path(nameV, ctx, 0)
		if ptrV != nil {
			reg.hasPtr = true
			reg.ptr = r.path(ptrV, ctx, 0)
			reg.ptrT = ptrV.Type()
		}
		if defV != nil {
			reg.hasDef = true
			reg.def = r.path(defV, ctx, 0)
		}
		if r.needTable != nil && len(rows) < 2 {
			// the definition sits in a loop over a table of descriptors: once per row of the table's literal
			if key, ok := c15elemKeyOf(r.needTable); ok {
				if tbl := c15tableRows(c, r.needTable); len(tbl) > 0 {
					for _, row := range tbl {
						bound := map[c15elemKey]map[int]ssa.Value{key: row}
						for k, v := range rows {
							bound[k] = v
						}
						enumerateRows(call, ptrV, nameV, defV, ctx, bound)
					}
					return
				}
			}
		}
		if r.needCaller != nil && len(ctx) < 3 {
			for _, s := range sites[r.needCaller] {
				if ci, ok := s.(ssa.CallInstruction); ok {
					enumerateRows(call, ptrV, nameV, defV, append([]ssa.CallInstruction{ci}, ctx...), rows)
				}
			}
			return
		}
		reg.computed = true
		if np.kind == "const" && np.konst != nil {
			if s, ok := constString(np.konst); ok {
				reg.name, reg.computed = s, false
			}
		}
		regs = append(regs, reg)
	}
	for _, fn := range fns {
		eachInstr(fn, func(i ssa.Instruction) {
			call, ok := i.(*ssa.Call)
			if !ok {
				return
			}
			n := calleeName(&call.Call)
			if !strings.HasPrefix(n, "(*flag.FlagSet).") {
				return
			}
			m := strings.TrimPrefix(n, "(*flag.FlagSet).")
			a := call.Call.Args
			switch {
			case m == "Var" && len(a) == 4:
				p, d := c15valueCtor(a[1])
				enumerate(call, p, a[2], d, nil)
			case strings.HasSuffix(m, "Var") && len(a) == 5:
				enumerate(call, a[1], a[2], a[3], nil)
			case c15valueDefiners[m] && len(a) >= 3:
				enumerate(call, nil, a[1], nil, nil)
			}
		})
	}
	return regs
}

func runC15R1(c *Ctx) {
	if c.spkg("config") == nil {
		c.undecided("C15.R1", "anchor|package config", "not found")
		return
	}
	regs := c15registrations(c)
	nVar := 0
	for _, r := range regs {
		if r.hasPtr {
			nVar++
		}
	}
	c.atLeast("C15.R1", "flag definitions f.<T>Var(&variable, name, default, usage) in package config", nVar, 50)
	byPtr := map[string]string{}
	byLower := map[string]string{}
	byDef := map[string]int{}
	locals := map[string]string{} // lower-cased name of a local a flag is parsed into -> flag
	for _, r := range regs {
		if r.hasDef && r.def.kind == "global" {
			byDef[r.def.key()]++
		}
		if r.hasPtr && r.ptr.kind == "local" {
			locals[strings.ToLower(r.ptr.leafName())] = r.name
		}
	}
	for _, r := range regs {
		if r.computed {
			c.check("C15.R1", "config|flag with a computed name", r.pos, false, "flag names must be constants so that the name/pointer/default table can be checked")
			continue
		}
		key := "flag " + r.name
		if other, dup := byLower[strings.ToLower(r.name)]; dup {
			c.check("C15.R1", key+"|case-insensitively unique name", r.pos, false, "flag names "+other+" and "+r.name+" differ only in case: both map to the same environment variable")
		}
		byLower[strings.ToLower(r.name)] = r.name
		if !r.hasPtr {
			continue
		}
		if k := r.ptr.key(); k != "" {
			if other, dup := byPtr[k]; dup {
				c.check("C15.R1", key+"|binds a variable of its own", r.pos, false, "flags "+other+" and "+r.name+" are bound to the same variable "+r.ptr.String()+": whichever source is applied last silently overrides the other option")
			}
			byPtr[k] = r.name
		}
		if why, exempt := c15DefaultExceptions[r.name]; exempt {
			c.ob("C15.R1", key+"|default", r.pos, OK, "reviewed exception: "+why)
			continue
		}
		if !r.hasDef {
			continue // flag.Value without a separate default: the variable keeps what it holds
		}
		// the default configuration: a package-level *Config, or a Config obtained in another way than the one
		// that is being filled (a DefaultConfig() call, a parameter)
		defIsConfig := false
		if g, ok := r.def.id.(*ssa.Global); ok && r.def.kind == "global" {
			defIsConfig = c15isConfigType(g.Type())
		}
		if r.def.kind == "cfg" && r.ptr.kind == "cfg" && r.def.id != r.ptr.id {
			defIsConfig = true
		}
		switch r.ptr.kind {
		case "cfg":
			ok := defIsConfig && strings.Join(r.def.fields, ".") == strings.Join(r.ptr.fields, ".")
			c.check("C15.R1", key+"|default", r.pos, ok,
				"flag "+r.name+" sets "+r.ptr.String()+" but takes its default from "+r.def.String()+" (expected the same field path of the default configuration): without the option on any source the effective value is another option's default")
		case "local":
			// option parsed into a local and post-processed: the default is the field of a package-level table of
			// defaults that belongs to this local (same name, case-insensitively); a renamed local is accepted as
			// long as the default is not the one that belongs to another flag's local and no other flag uses it.
			ok := false
			why := ""
			switch {
			case r.def.kind != "global" || len(r.def.fields) == 0:
				why = "not a field of a package-level table of defaults"
			case strings.EqualFold(r.def.fields[len(r.def.fields)-1], r.ptr.leafName()) && !defIsConfig:
				ok = true
			case byDef[r.def.key()] > 1:
				why = "the same default is used by another flag"
			case locals[strings.ToLower(r.def.fields[len(r.def.fields)-1])] != "" && locals[strings.ToLower(r.def.fields[len(r.def.fields)-1])] != r.name:
				why = "that is the default of flag " + locals[strings.ToLower(r.def.fields[len(r.def.fields)-1])]
			default:
				ok = true
			}
			c.check("C15.R1", key+"|default", r.pos, ok,
				"flag "+r.name+" is parsed into the local "+r.ptr.String()+" but takes its default from "+r.def.String()+": "+why)
		default:
			// the variable is not identified (built by code the rule does not follow): only the uniqueness of the
			// default can be checked
			ok := r.def.kind != "global" || byDef[r.def.key()] <= 1
			c.check("C15.R1", key+"|default", r.pos, ok, "flag "+r.name+" takes its default from "+r.def.String()+", which another flag uses as well")
		}
	}
}
