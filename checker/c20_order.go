package main

// C20.P3 prover: independence of the order in which functions are asked for.
//
// The interval analysis is intraprocedural with summaries that are computed on demand: the range of a parameter needs
// the analysis of the callers (the arguments at the call sites), the range of a call needs the analysis of the callee
// (its returns). When caller and callee need each other - atoi(b, i, pad) calls formatInt(&d, i, pad) and slices its
// scratch at the returned index - whichever is asked for second finds the first one still in progress and has to take
// the whole type for what it wanted from it. That is sound, but made the outcome depend on which bounds check the
// compiler happened to list first, i.e. on how the code is cut into functions and in which order they stand in the file.
//
// Cure: (1) an analysis remembers whether it had to do that (tainted); once the outermost analysis is finished the
// tainted inner ones are forgotten, so the next question recomputes them with the finished outer one at hand.
// (2) When a proof fails it is tried again from scratch in two other orders: the function alone first, and the
// callees before the function (post-order of the static call graph). Every order yields an over-approximation, so a
// proof found in any of them is a proof.

import (
	"golang.org/x/tools/go/ssa"
)

// dropTainted forgets what was computed with an analysis in progress, except the outermost analysis itself.
func (p *c20prover) dropTainted(keep *c20fnAn) {
	for fn, fa := range p.an {
		if fa != keep && (fa.tainted || !fa.done) {
			delete(p.an, fn)
		}
	}
	for x := range p.paramTaint {
		if keep != nil && x.Parent() == keep.fn {
			continue
		}
		delete(p.params, x)
		delete(p.paramTaint, x)
	}
}

// forget drops every cached result.
func (p *c20prover) forget() {
	p.an = map[*ssa.Function]*c20fnAn{}
	p.stack = nil
	p.params = map[*ssa.Parameter]c20iv{}
	p.paramsIP = map[*ssa.Parameter]bool{}
	p.paramTaint = map[*ssa.Parameter]bool{}
	p.paramBusy = map[*ssa.Parameter]bool{}
	p.glen = map[*ssa.Global]c20iv{}
	p.symSum = map[string][]c20symP{}
	p.symBusy = map[string]bool{}
	p.tflag = false
}

// calleesFirst analyses the repository functions fn calls statically (transitively, bounded) before fn itself.
func (p *c20prover) calleesFirst(fn *ssa.Function) {
	seen := map[*ssa.Function]bool{}
	var visit func(f *ssa.Function, d int)
	visit = func(f *ssa.Function, d int) {
		if f == nil || seen[f] || len(f.Blocks) == 0 || d > 4 {
			return
		}
		seen[f] = true
		eachInstr(f, func(i ssa.Instruction) {
			if cc := callCommon(i); cc != nil {
				if sc := cc.StaticCallee(); sc != nil && isRepoFn(sc) {
					visit(sc, d+1)
				}
			}
		})
		p.tflag = false
		p.analysis(f)
	}
	visit(fn, 0)
	p.tflag = false
}

// inOrders runs a proof attempt with the cached results, then from scratch, then from scratch with the callees first.
func (p *c20prover) inOrders(fn *ssa.Function, attempt func() (bool, string)) (bool, string) {
	p.tflag = false
	ok, why := attempt()
	if ok || fn == nil {
		return ok, why
	}
	p.forget()
	if ok2, why2 := attempt(); ok2 {
		return ok2, why2
	}
	p.forget()
	p.calleesFirst(fn)
	if ok3, why3 := attempt(); ok3 {
		return ok3, why3
	}
	return false, why
}

// proveBounds: is the index / slice expression in bounds on every execution? The string says why (or what is missing).
func (p *c20prover) proveBounds(in ssa.Instruction) (bool, string) {
	return p.inOrders(in.Parent(), func() (bool, string) { return p.proveBounds1(in) })
}

// nonZero: the interval of v at its use excludes 0.
func (p *c20prover) nonZero(v ssa.Value, blk *ssa.BasicBlock) (bool, string) {
	var fn *ssa.Function
	if blk != nil {
		fn = blk.Parent()
	}
	return p.inOrders(fn, func() (bool, string) { return p.nonZero1(v, blk) })
}
