package main

// Rules of C20 added after the fourth round of independently authored breaking changes (DESIGN 11.12); wired in
// zzz_round4.go.
//
//	C20.R1  offsets into a text are counted in the unit of the view they index: bytes for a string / []byte, runes for
//	        a []rune of the same text (seeded/C20-7: the format parser cut its items out of the format string with the
//	        rune counts of the lexer).
//	C20.S1  the event's RequestURL is assembled from the request as the client sent it: every component of the request
//	        that flows into it is read before the proxy rewrites that component (seeded/C20-8: scheme(r) and r.Host read
//	        after addHeaders / host=dst).  -> c20_round4_s1.go

import (
	"fmt"
	"go/token"
	"go/types"
	"os"
	"strings"

	"golang.org/x/tools/go/ssa"
)

func init() {
	const lexLoop = "\ts := []rune(format)\n\tfor {\n\t\tif len(s) == 0 {\n\t\t\tbreak\n\t\t}\n\t\ttyp, n := lex(s)\n\t\tval := string(s[:n])\n\t\ts = s[n:]\n"
	addRound4("C20", "(R1) an offset into a text is counted in the unit of the view it indexes: no index or slice bound of a string / []byte derives from a count of runes (len of a []rune, an index into it, utf8.RuneCount*) of the same text, and no index or slice bound of a []rune derives from a count of bytes (len of the string, strings.Index*, the key of a range over the string) of the same text - the two agree only for ASCII, so a format (or value) with one multi-byte character is cut at the wrong place (valid formats rejected, text truncated into invalid UTF-8) or the rune slice is indexed out of range (panic).", runC20R1,
		// ---- breaks ----
		mutant{Name: "items cut out of the format string with the lexer's rune counts (seeded C20-7)", File: "logger/pattern.go", Old: lexLoop,
			New:    "\ts := []rune(format)\n\tfor pos := 0; pos < len(s); {\n\t\ttyp, n := lex(s[pos:])\n\t\tval := format[pos : pos+n]\n\t\tpos += n\n",
			Expect: "C20.R1"},
		mutant{Name: "rune counts used on the format string inside a helper", File: "logger/pattern.go", Old: lexLoop,
			New:    "\ts := []rune(format)\n\toff := 0\n\tfor len(s) > 0 {\n\t\ttyp, n := lex(s)\n\t\tval := item(format, off, n)\n\t\toff += n\n\t\ts = s[n:]\n",
			More:   []repl{{"type itemType int", "func item(text string, off, n int) string {\n\treturn text[off:][:n]\n}\n\ntype itemType int"}},
			Expect: "C20.R1"},
		mutant{Name: "the lexer scans the string (byte offsets) but the parser cuts the []rune with its result", File: "logger/pattern.go", Old: "\t\ttyp, n := lex(s)\n",
			New:    "\t\ttyp, n := lex(string(s))\n",
			More:   []repl{{"func lex(s []rune) (typ itemType, n int) {", "func lex(s string) (typ itemType, n int) {"}},
			Expect: "C20.R1"},
		mutant{Name: "text items cut with utf8.RuneCountInString of the token", File: "logger/pattern.go", Old: "\t\t\tp = append(p, text(val))\n",
			New:    "\t\t\tp = append(p, text(format[len(format)-len(string(s))-utf8.RuneCountInString(val):][:utf8.RuneCountInString(val)]))\n",
			More:   []repl{{"import (\n", "import (\n\t\"unicode/utf8\"\n"}},
			Expect: "C20.R1"},
		mutant{Name: "rune count taken from a token struct returned by a wrapper of the lexer", File: "logger/pattern.go", Old: lexLoop,
			New:    "\ts := []rune(format)\n\tfor pos := 0; pos < len(s); {\n\t\ttok := next(s[pos:])\n\t\ttyp, n := tok.typ, tok.n\n\t\tval := format[pos:][:n]\n\t\tpos += n\n",
			More:   []repl{{"type itemType int", "type token struct {\n\ttyp itemType\n\tn   int\n}\n\nfunc next(s []rune) token {\n\ttyp, n := lex(s)\n\treturn token{typ, n}\n}\n\ntype itemType int"}},
			Expect: "C20.R1"},
		mutant{Name: "byte cursor over the format string, but the lexer may return more than it was given", File: "logger/pattern.go", Old: lexLoop,
			New:    "\tfor pos := 0; pos < len(format); {\n\t\ttyp, n := lex(format[pos:])\n\t\tval := format[pos : pos+n]\n\t\tpos += n\n",
			More:   []repl{{"func lex(s []rune) (typ itemType, n int) {", "func lex(s string) (typ itemType, n int) {"}, {"\tcase stateField:\n\t\treturn itemField, len(s)\n", "\tcase stateField:\n\t\treturn itemField, len(s) + 1\n"}},
			Expect: "C20.P3"},
		mutant{Name: "byte cursor over the format string that is advanced by one more than the token", File: "logger/pattern.go", Old: lexLoop,
			New:    "\tfor pos := 0; pos < len(format); {\n\t\ttyp, n := lex(format[pos:])\n\t\tval := format[pos : pos+n+1]\n\t\tpos += n\n",
			More:   []repl{{"func lex(s []rune) (typ itemType, n int) {", "func lex(s string) (typ itemType, n int) {"}},
			Expect: "C20.P3"},
		// ---- the same idea done correctly ----
		mutant{Name: "benign: lexer and parser both work on the string (byte offsets throughout)", File: "logger/pattern.go", Old: lexLoop,
			New:    "\ts := format\n\tfor {\n\t\tif len(s) == 0 {\n\t\t\tbreak\n\t\t}\n\t\ttyp, n := lex(s)\n\t\tval := s[:n]\n\t\ts = s[n:]\n",
			More:   []repl{{"func lex(s []rune) (typ itemType, n int) {", "func lex(s string) (typ itemType, n int) {"}},
			Expect: ""},
		mutant{Name: "benign: items are substrings of the format, cut with a byte cursor and a lexer on the string", File: "logger/pattern.go", Old: lexLoop,
			New:    "\tfor pos := 0; pos < len(format); {\n\t\ttyp, n := lex(format[pos:])\n\t\tval := format[pos : pos+n]\n\t\tpos += n\n",
			More:   []repl{{"func lex(s []rune) (typ itemType, n int) {", "func lex(s string) (typ itemType, n int) {"}},
			Expect: ""},
		mutant{Name: "benign: a rune count used on an unrelated constant string (padding)", File: "logger/pattern.go", Old: "\t\t\tp = append(p, text(val))\n",
			New:    "\t\t\tif n > 64 {\n\t\t\t\tn = 64\n\t\t\t}\n\t\t\tp = append(p, text(val+padding[:64-n]))\n",
			More:   []repl{{"type itemType int", "const padding = \"                                                                \"\n\ntype itemType int"}},
			Expect: ""},
	)
}

// ---- C20.R1 ------------------------------------------------------------------------------------------------------------

type c20unit int

const (
	c20unitNone  c20unit = 0
	c20unitBytes c20unit = 1
	c20unitRunes c20unit = 2
)

func (u c20unit) String() string {
	if u == c20unitRunes {
		return "runes"
	}
	return "bytes"
}

// c20textUnit: the unit in which offsets into a value of type t are counted: bytes for string, []byte, [N]byte;
// runes for []rune, [N]rune; none for anything else.
func c20textUnit(t types.Type) c20unit {
	if p, ok := t.Underlying().(*types.Pointer); ok {
		if _, isArr := p.Elem().Underlying().(*types.Array); isArr {
			t = p.Elem()
		}
	}
	var elem types.Type
	switch u := t.Underlying().(type) {
	case *types.Basic:
		if u.Info()&types.IsString != 0 {
			return c20unitBytes
		}
		return c20unitNone
	case *types.Slice:
		elem = u.Elem()
	case *types.Array:
		elem = u.Elem()
	default:
		return c20unitNone
	}
	if b, ok := elem.Underlying().(*types.Basic); ok {
		switch b.Kind() {
		case types.Uint8:
			return c20unitBytes
		case types.Int32:
			return c20unitRunes
		}
	}
	return c20unitNone
}

// c20unitEv: one reason why an integer counts in a unit: what was measured (the text) and how.
type c20unitEv struct {
	text ssa.Value
	why  string
}

// c20unitSource: v itself measures a text in unit `want`: len/cap of such a view, utf8.RuneCount*, strings.Index*, the
// key of a range over a string, the width a rune decodes from.
func c20unitSource(v ssa.Value, want c20unit) (c20unitEv, bool) {
	switch x := v.(type) {
	case *ssa.Call:
		name := calleeName(&x.Call)
		args := x.Call.Args
		switch {
		case (name == "builtin.len" || name == "builtin.cap") && len(args) == 1:
			if c20textUnit(args[0].Type()) == want {
				return c20unitEv{args[0], "len of a " + typeStr(args[0].Type())}, true
			}
		case want == c20unitRunes && (name == "unicode/utf8.RuneCountInString" || name == "unicode/utf8.RuneCount") && len(args) == 1:
			return c20unitEv{args[0], name}, true
		case want == c20unitBytes && indexFamily[name] && len(args) > 0:
			return c20unitEv{args[0], name}, true
		}
	case *ssa.Extract:
		switch t := x.Tuple.(type) {
		case *ssa.Next:
			if rg, ok := t.Iter.(*ssa.Range); ok && t.IsString && x.Index == 1 && want == c20unitBytes {
				return c20unitEv{rg.X, "the key of a range over the string"}, true
			}
		case *ssa.Call:
			name := calleeName(&t.Call)
			if want == c20unitBytes && x.Index == 1 && strings.HasPrefix(name, "unicode/utf8.Decode") && len(t.Call.Args) > 0 {
				return c20unitEv{t.Call.Args[0], "the width returned by " + name}, true
			}
		}
	}
	return c20unitEv{}, false
}

// c20unitUses: v is used as an offset into a view counted in unit `want` (index, slice bound), or is compared with the
// length of such a view - the way a loop counter `for i := range runes` shows its unit.
func c20unitUses(v ssa.Value, want c20unit, skip ssa.Instruction) []c20unitEv {
	var out []c20unitEv
	refs := v.Referrers()
	if refs == nil {
		return nil
	}
	if _, isK := v.(*ssa.Const); isK {
		return nil
	}
	for _, r := range *refs {
		if r == skip {
			continue
		}
		switch y := r.(type) {
		case *ssa.Slice:
			if (y.Low == v || y.High == v) && c20textUnit(y.X.Type()) == want {
				out = append(out, c20unitEv{y.X, "also a slice bound of a " + typeStr(y.X.Type())})
			}
		case *ssa.IndexAddr:
			if y.Index == v && c20textUnit(y.X.Type()) == want {
				out = append(out, c20unitEv{y.X, "also an index into a " + typeStr(y.X.Type())})
			}
		case *ssa.Index:
			if y.Index == v && c20textUnit(y.X.Type()) == want {
				out = append(out, c20unitEv{y.X, "also an index into a " + typeStr(y.X.Type())})
			}
		case *ssa.Lookup:
			if y.Index == v && c20textUnit(y.X.Type()) == want {
				out = append(out, c20unitEv{y.X, "also an index into a " + typeStr(y.X.Type())})
			}
		case *ssa.BinOp:
			switch y.Op {
			case token.LSS, token.LEQ, token.GTR, token.GEQ:
				other := y.X
				if other == v {
					other = y.Y
				}
				if call, ok := other.(*ssa.Call); ok && calleeName(&call.Call) == "builtin.len" && len(call.Call.Args) == 1 &&
					c20textUnit(call.Call.Args[0].Type()) == want {
					if _, isPhi := v.(*ssa.Phi); isPhi {
						out = append(out, c20unitEv{call.Call.Args[0], "a counter that runs up to the len of a " + typeStr(call.Call.Args[0].Type())})
					}
				}
			}
		}
	}
	return out
}

// c20unitEvidence walks the values an offset is computed from - merges, sums and differences (which keep the unit; a
// product or quotient does not and ends the walk), integer conversions, local cells, the results of repository helpers
// (with the call remembered, so that the helper's parameters map back to that call only) and the arguments its own
// function is called with - and collects the reasons why one of them counts in unit `want`.
func c20unitEvidence(v ssa.Value, want c20unit, site ssa.Instruction) []c20unitEv {
	type key struct {
		v   ssa.Value
		ctx ssa.CallInstruction
	}
	var out []c20unitEv
	seen := map[key]bool{}
	var stack []ssa.CallInstruction
	hops := 0
	var walk func(v ssa.Value, via string)
	walk = func(v ssa.Value, via string) {
		if v == nil || len(out) > 8 {
			return
		}
		if _, isK := v.(*ssa.Const); isK {
			return
		}
		var top ssa.CallInstruction
		if len(stack) > 0 {
			top = stack[len(stack)-1]
		}
		if seen[key{v, top}] {
			return
		}
		seen[key{v, top}] = true
		if ev, ok := c20unitSource(v, want); ok {
			ev.why += via
			out = append(out, ev)
			return
		}
		if _, ok := c20unitSource(v, c20unitBytes+c20unitRunes-want); ok {
			return // measured in the other unit: nothing behind it changes that (len(string(runes[:n])) is a count of bytes)
		}
		for _, ev := range c20unitUses(v, want, site) {
			ev.why += via
			out = append(out, ev)
		}
		switch x := v.(type) {
		case *ssa.Phi:
			for _, e := range x.Edges {
				walk(e, via)
			}
		case *ssa.BinOp:
			if x.Op == token.ADD || x.Op == token.SUB {
				walk(x.X, via)
				walk(x.Y, via)
			}
		case *ssa.Convert:
			if isIntType(x.X.Type()) {
				walk(x.X, via)
			}
		case *ssa.ChangeType:
			walk(x.X, via)
		case *ssa.UnOp:
			if x.Op != token.MUL {
				return
			}
			for _, st := range c20cellStores(x.X) {
				walk(st, via)
			}
		case *ssa.Field:
			for _, m := range c20memberValues(x.X, x.Field, 0) {
				walk(m, via)
			}
		case *ssa.Extract:
			if call, ok := x.Tuple.(*ssa.Call); ok {
				c20intoCallee(call, x.Index, &stack, &hops, func(r ssa.Value, g *ssa.Function) { walk(r, via+", returned by "+fnKey(g)) })
			}
		case *ssa.Call:
			if n := calleeName(&x.Call); n == "builtin.min" || n == "builtin.max" {
				for _, a := range x.Call.Args {
					walk(a, via)
				}
				return
			}
			c20intoCallee(x, 0, &stack, &hops, func(r ssa.Value, g *ssa.Function) { walk(r, via+", returned by "+fnKey(g)) })
		case *ssa.Parameter:
			fn := x.Parent()
			idx := -1
			if fn != nil {
				for k, p := range fn.Params {
					if p == x {
						idx = k
					}
				}
			}
			if idx < 0 {
				return
			}
			if top != nil {
				if top.Common().StaticCallee() != fn {
					return
				}
				stack = stack[:len(stack)-1]
				if args := top.Common().Args; idx < len(args) {
					walk(args[idx], via)
				}
				stack = append(stack, top)
				return
			}
			sites := gSites[fn]
			if len(sites) == 0 || len(sites) > maxHelperSites || hops >= maxHops {
				return
			}
			hops++
			for _, s := range sites {
				if args := s.Common().Args; idx < len(args) {
					walk(args[idx], via+", passed to "+fnKey(fn))
				}
			}
			hops--
		}
	}
	walk(v, "")
	return out
}

// c20intoCallee: the idx-th results of the static repository callee of call, visited with the call on the context stack.
func c20intoCallee(call *ssa.Call, idx int, stack *[]ssa.CallInstruction, hops *int, visit func(ssa.Value, *ssa.Function)) {
	sc := call.Call.StaticCallee()
	if sc == nil || !isRepoFn(sc) || len(sc.Blocks) == 0 || *hops >= maxHops+1 {
		return
	}
	for _, s := range *stack {
		if s == ssa.CallInstruction(call) {
			return // recursion
		}
	}
	*hops++
	*stack = append(*stack, ssa.CallInstruction(call))
	eachInstr(sc, func(i ssa.Instruction) {
		if r, ok := i.(*ssa.Return); ok && idx < len(r.Results) {
			visit(r.Results[idx], sc)
		}
	})
	*stack = (*stack)[:len(*stack)-1]
	*hops--
}

// c20cellStores: the values stored into the cell at addr when it is a local variable (also one captured by a closure)
// or a member of a local struct.
func c20cellStores(addr ssa.Value) []ssa.Value {
	var out []ssa.Value
	stores := func(cell ssa.Value) {
		if refs := cell.Referrers(); refs != nil {
			for _, r := range *refs {
				if st, ok := r.(*ssa.Store); ok && st.Addr == cell {
					out = append(out, st.Val)
				}
			}
		}
	}
	switch a := addr.(type) {
	case *ssa.Alloc:
		stores(a)
		// the same cell written inside closures that capture it
		if refs := a.Referrers(); refs != nil {
			for _, r := range *refs {
				mc, ok := r.(*ssa.MakeClosure)
				if !ok {
					continue
				}
				fn, _ := mc.Fn.(*ssa.Function)
				for k, b := range mc.Bindings {
					if b == a && fn != nil && k < len(fn.FreeVars) {
						stores(fn.FreeVars[k])
					}
				}
			}
		}
	case *ssa.FreeVar:
		stores(a)
		fn := a.Parent()
		if fn == nil || fn.Parent() == nil {
			return out
		}
		for k, fv := range fn.FreeVars {
			if fv != a {
				continue
			}
			eachInstr(fn.Parent(), func(i ssa.Instruction) {
				if mc, ok := i.(*ssa.MakeClosure); ok && mc.Fn == fn && k < len(mc.Bindings) {
					if cell, isAlloc := mc.Bindings[k].(*ssa.Alloc); isAlloc {
						stores(cell)
					}
				}
			})
		}
	case *ssa.FieldAddr:
		if root, ok := a.X.(*ssa.Alloc); ok {
			if refs := root.Referrers(); refs != nil {
				for _, r := range *refs {
					if fa, ok := r.(*ssa.FieldAddr); ok && fa.Field == a.Field {
						stores(fa)
					}
				}
			}
		}
	}
	return out
}

// c20memberValues: the values member `field` of the struct value x can hold: x loaded from a local struct, merged, or
// returned by a repository helper (a lexer that returns a token struct {typ, n}).
func c20memberValues(x ssa.Value, field, depth int) []ssa.Value {
	if depth > 4 {
		return nil
	}
	var out []ssa.Value
	switch y := x.(type) {
	case *ssa.UnOp:
		if al, ok := y.X.(*ssa.Alloc); ok && y.Op == token.MUL {
			if refs := al.Referrers(); refs != nil {
				for _, r := range *refs {
					switch z := r.(type) {
					case *ssa.FieldAddr:
						if z.Field == field {
							out = append(out, c20cellStores(z)...)
						}
					case *ssa.Store:
						if z.Addr == al {
							out = append(out, c20memberValues(z.Val, field, depth+1)...)
						}
					}
				}
			}
		}
	case *ssa.Phi:
		for _, e := range y.Edges {
			out = append(out, c20memberValues(e, field, depth+1)...)
		}
	case *ssa.Extract:
		if call, ok := y.Tuple.(*ssa.Call); ok {
			if sc := call.Call.StaticCallee(); sc != nil && isRepoFn(sc) && len(sc.Blocks) > 0 {
				eachInstr(sc, func(i ssa.Instruction) {
					if r, ok := i.(*ssa.Return); ok && y.Index < len(r.Results) {
						out = append(out, c20memberValues(r.Results[y.Index], field, depth+1)...)
					}
				})
			}
		}
	case *ssa.Call:
		if sc := y.Call.StaticCallee(); sc != nil && isRepoFn(sc) && len(sc.Blocks) > 0 {
			eachInstr(sc, func(i ssa.Instruction) {
				if r, ok := i.(*ssa.Return); ok && len(r.Results) == 1 {
					out = append(out, c20memberValues(r.Results[0], field, depth+1)...)
				}
			})
		}
	}
	return out
}

// c20textRoots: where a text (string, []byte, []rune) comes from, looking through slicing, conversions between the
// three views, merges, local cells, the results of repository helpers and the arguments of the own function: two views
// with a common root show the same text.
func c20textRoots(v ssa.Value) map[ssa.Value]bool {
	roots := map[ssa.Value]bool{}
	seen := map[ssa.Value]bool{}
	var walk func(v ssa.Value, d int)
	walk = func(v ssa.Value, d int) {
		if v == nil || seen[v] || d > 12 {
			return
		}
		seen[v] = true
		switch x := v.(type) {
		case *ssa.Slice:
			walk(x.X, d+1)
			return
		case *ssa.Convert:
			if c20textUnit(x.X.Type()) != c20unitNone {
				walk(x.X, d+1)
				return
			}
		case *ssa.ChangeType:
			walk(x.X, d+1)
			return
		case *ssa.Phi:
			for _, e := range x.Edges {
				walk(e, d+1)
			}
			return
		case *ssa.UnOp:
			if x.Op == token.MUL {
				if sts := c20cellStores(x.X); len(sts) > 0 {
					for _, s := range sts {
						walk(s, d+1)
					}
					return
				}
				if al, ok := x.X.(*ssa.Alloc); ok { // a local array sliced: the array is the text
					roots[al] = true
					return
				}
			}
		case *ssa.Call:
			if sc := x.Call.StaticCallee(); sc != nil && isRepoFn(sc) && len(sc.Blocks) > 0 && sc.Signature.Results().Len() == 1 {
				eachInstr(sc, func(i ssa.Instruction) {
					if r, ok := i.(*ssa.Return); ok && len(r.Results) == 1 {
						walk(r.Results[0], d+1)
					}
				})
			}
		case *ssa.Extract:
			if call, ok := x.Tuple.(*ssa.Call); ok {
				if sc := call.Call.StaticCallee(); sc != nil && isRepoFn(sc) && len(sc.Blocks) > 0 {
					eachInstr(sc, func(i ssa.Instruction) {
						if r, ok := i.(*ssa.Return); ok && x.Index < len(r.Results) {
							walk(r.Results[x.Index], d+1)
						}
					})
				}
			}
		case *ssa.Parameter:
			roots[x] = true
			fn := x.Parent()
			if fn == nil {
				return
			}
			sites := gSites[fn]
			if len(sites) > maxHelperSites {
				return
			}
			for k, p := range fn.Params {
				if p != x {
					continue
				}
				for _, s := range sites {
					if args := s.Common().Args; k < len(args) {
						walk(args[k], d+1)
					}
				}
			}
			return
		case *ssa.Const:
			return // a constant text is not "the same text" as anything measured at run time
		}
		roots[v] = true
	}
	walk(v, 0)
	return roots
}

// c20sameText: the two views have a common root (the same value, or two loads of the same field / variable).
func c20sameText(a, b ssa.Value) bool {
	ra, rb := c20textRoots(a), c20textRoots(b)
	for x := range ra {
		if rb[x] {
			return true
		}
		px := ""
		switch x.(type) {
		case *ssa.UnOp, *ssa.Field, *ssa.FieldAddr, *ssa.Global:
			px = accessPath(x)
		}
		if px == "" {
			continue
		}
		for y := range rb {
			switch y.(type) {
			case *ssa.UnOp, *ssa.Field, *ssa.FieldAddr, *ssa.Global:
				if accessPath(y) == px {
					return true
				}
			}
		}
	}
	return false
}

func runC20R1(c *Ctx) {
	logScope, _ := c20LoggerScope(c)
	if len(logScope) == 0 {
		c.undecided("C20.R1", "anchor|access logger", "package logger / its Logger implementations do not resolve")
		return
	}
	scope := map[*ssa.Function]bool{}
	for f := range logScope {
		scope[f] = true
	}
	for _, pkg := range []string{"proxy", "uuid"} {
		for f := range c20Formatters(c, pkg) {
			scope[f] = true
		}
	}
	nSites := 0
	stress := os.Getenv("C20_STRESS") != "" // development aid: apply the rule to every function of the repository
	for _, f := range c.AllFns {
		if !scope[f] && !stress {
			continue
		}
		eachInstr(f, func(i ssa.Instruction) {
			var text ssa.Value
			var bounds []ssa.Value
			switch x := i.(type) {
			case *ssa.Slice:
				text, bounds = x.X, []ssa.Value{x.Low, x.High}
			case *ssa.IndexAddr:
				text, bounds = x.X, []ssa.Value{x.Index}
			case *ssa.Index:
				text, bounds = x.X, []ssa.Value{x.Index}
			case *ssa.Lookup:
				text, bounds = x.X, []ssa.Value{x.Index}
			default:
				return
			}
			unit := c20textUnit(text.Type())
			if unit == c20unitNone {
				return
			}
			other := c20unitBytes + c20unitRunes - unit
			counted := false
			var bad []string
			for _, b := range bounds {
				if b == nil {
					continue
				}
				if _, isK := b.(*ssa.Const); isK {
					continue
				}
				counted = true
				for _, ev := range c20unitEvidence(b, other, i) {
					if c20sameText(text, ev.text) {
						bad = append(bad, ev.why)
					}
				}
			}
			if !counted {
				return
			}
			if !scope[f] {
				if len(bad) > 0 {
					fmt.Fprintf(os.Stderr, "C20STRESS R1 %s %s: %s\n", c.pos(i.Pos()), f, bad[0])
				}
				return
			}
			nSites++
			root := f
			for root.Parent() != nil {
				root = root.Parent()
			}
			what := "string"
			if unit == c20unitRunes {
				what = "[]rune"
			} else if _, isStr := text.Type().Underlying().(*types.Basic); !isStr {
				what = "[]byte"
			}
			why := ""
			if len(bad) > 0 {
				why = bad[0]
			}
			name := shortPath(text)
			if sl, ok := text.(*ssa.Slice); ok && name == "" {
				name = shortPath(sl.X)
			}
			c.check("C20.R1", fnKey(root)+"|offset into "+name+" counted in "+unit.String(), i.Pos(), len(bad) == 0,
				"an offset into a "+what+" counts "+unit.String()+", but this one is computed from a count of "+other.String()+" of the same text ("+why+
					"): the two agree only while the text is ASCII - with one multi-byte character in a log format or a value every later item is cut at the wrong place (a valid format rejected at start-up, text truncated into invalid UTF-8, $header.<name> reading another header), and a []rune indexed with byte offsets is indexed out of range (panic)")
		})
	}
	c.atLeast("C20.R1", "index / slice expressions with a computed offset into a text (string, []byte, []rune) on the logging and formatter path", nSites, 2)
}
