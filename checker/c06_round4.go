package main

// Rules of C06 added after the fourth round of independently authored breaking changes (DESIGN 11.12); wired in
// zzz_round4.go.
//
//	C06.S8  ownership of pooled memory: what is handed back to a pool is not referenced afterwards
//	C06.S9  a field that the request path initialises under synchronisation is not read without any
//	        (see also c06_locks.go: a store that only runs inside sync.Once.Do counts as synchronised for S1)

import (
	"go/token"
	"go/types"
	"os"
	"strings"

	"golang.org/x/tools/go/ssa"
)

func init() {
	const tbl = "route/table.go"
	const noGlobHead = "func (t Table) matchingHostNoGlob(req *http.Request) (hosts []string) {\n"
	const globHead = "func (t Table) matchingHosts(req *http.Request, globCache *GlobCache) (hosts []string) {\n"
	const poolDecl = "var hostsPool = sync.Pool{New: func() interface{} { s := make([]string, 0, 16); return &s }}\n\n"
	const importSync = "\t\"strings\"\n\t\"sync/atomic\"\n"
	const importSyncNew = "\t\"strings\"\n\t\"sync\"\n\t\"sync/atomic\"\n"
	addRound4("C06", "(S8) memory that is handed back to a pool (sync.Pool.Put, a Put method of a Get/Put pool, or a helper that passes its argument on to one) is not referenced afterwards: the releasing function (the release may sit in a defer, a deferred closure or a helper) neither returns a value that shares memory with the released object, nor reads, writes or passes such a value on after the release - otherwise the next request's Get receives a buffer the first request is still using (data race; one request's matching hosts, log line or body are overwritten by another's).", runC06S8,
		// ---- breaks
		mutant{Name: "host list recycled by a deferred Put while it is returned to Lookup", File: tbl, Old: noGlobHead,
			New:  poolDecl + noGlobHead + "\tbuf := hostsPool.Get().(*[]string)\n\tdefer func() {\n\t\t*buf = hosts[:0]\n\t\thostsPool.Put(buf)\n\t}()\n\thosts = (*buf)[:0]\n",
			More: []repl{{importSync, importSyncNew}}, Expect: "C06.S8"},
		mutant{Name: "host list put back right before it is returned (no defer)", File: tbl, Old: globHead,
			New:  poolDecl + globHead + "\tbuf := hostsPool.Get().(*[]string)\n\thosts = (*buf)[:0]\n",
			More: []repl{{importSync, importSyncNew}, {"\thosts = sortHostsReverseHostPort(hosts)\n\treturn\n}\n\n// Issue 548 - Added separate func", "\thosts = sortHostsReverseHostPort(hosts)\n\t*buf = hosts[:0]\n\thostsPool.Put(buf)\n\treturn\n}\n\n// Issue 548 - Added separate func"}}, Expect: "C06.S8"},
		mutant{Name: "Lookup releases the host list through a helper before it walks it", File: tbl, Old: "\thosts = append(hosts, \"\")\n\tfor _, h := range hosts {",
			New:  "\thosts = append(hosts, \"\")\n\trecycleHosts(hosts)\n\tfor _, h := range hosts {",
			More: []repl{{importSync, importSyncNew}, {noGlobHead, poolDecl + "func recycleHosts(h []string) {\n\th = h[:0]\n\thostsPool.Put(&h)\n}\n\n" + noGlobHead}}, Expect: "C06.S8"},
		mutant{Name: "log buffer put back before its bytes are written", File: "logger/logger.go", Old: "\tl.mu.Lock()\n\tl.w.Write(b.Bytes())\n\tl.mu.Unlock()\n\tpool.Put(b)\n",
			New: "\tpool.Put(b)\n\tl.mu.Lock()\n\tl.w.Write(b.Bytes())\n\tl.mu.Unlock()\n", Expect: "C06.S8"},
		mutant{Name: "log line returned as a slice of the pooled buffer", File: "logger/logger.go", Old: "// Log writes a log line for the request that was executed\n",
			New: "func (l *logger) render(e *Event) []byte {\n\tb := pool.Get().(*bytes.Buffer)\n\tdefer pool.Put(b)\n\tb.Reset()\n\tl.p.write(b, e)\n\treturn b.Bytes()\n}\n\n// Log writes a log line for the request that was executed\n", Expect: "C06.S8"},
		// ---- the same ideas done correctly: silent
		mutant{Name: "benign: Lookup owns the pooled host buffer for the whole lookup", File: tbl, Old: "\tif globDisabled {\n\t\thosts = t.matchingHostNoGlob(req)\n\t} else {",
			New:  "\tbuf := hostsPool.Get().(*[]string)\n\tdefer func() {\n\t\t*buf = hosts[:0]\n\t\thostsPool.Put(buf)\n\t}()\n\tif globDisabled {\n\t\thosts = append((*buf)[:0], t.matchingHostNoGlob(req)...)\n\t} else {",
			More: []repl{{importSync, importSyncNew}, {noGlobHead, poolDecl + noGlobHead}}, Expect: ""},
		mutant{Name: "benign: pooled scratch list, the caller gets a copy", File: tbl, Old: noGlobHead,
			New: poolDecl + noGlobHead + "\tbuf := hostsPool.Get().(*[]string)\n\tscratch := (*buf)[:0]\n\tdefer func() {\n\t\t*buf = scratch[:0]\n\t\thostsPool.Put(buf)\n\t}()\n",
			More: []repl{{importSync, importSyncNew}, {"\t\t\thosts = append(hosts, strings.ToLower(pattern))\n", "\t\t\tscratch = append(scratch, strings.ToLower(pattern))\n"},
				{"\t\t}\n\t}\n\thosts = sortHostsReverseHostPort(hosts)\n", "\t\t}\n\t}\n\thosts = append([]string(nil), sortHostsReverseHostPort(scratch)...)\n"}}, Expect: ""},
		mutant{Name: "benign: log line rendered in a pooled buffer and returned as a string", File: "logger/logger.go", Old: "// Log writes a log line for the request that was executed\n",
			New: "func (l *logger) render(e *Event) string {\n\tb := pool.Get().(*bytes.Buffer)\n\tdefer pool.Put(b)\n\tb.Reset()\n\tl.p.write(b, e)\n\treturn b.String()\n}\n\n// Log writes a log line for the request that was executed\n", Expect: ""},
		mutant{Name: "benign: log buffer released by a deferred closure", File: "logger/logger.go", Old: "\tb := pool.Get().(*bytes.Buffer)\n\tb.Reset()\n",
			New:  "\tb := pool.Get().(*bytes.Buffer)\n\tdefer func() { pool.Put(b) }()\n\tb.Reset()\n",
			More: []repl{{"\tl.mu.Unlock()\n\tpool.Put(b)\n", "\tl.mu.Unlock()\n"}}, Expect: ""},
	)
}

// ---- C06.S8: ownership of pooled memory ------------------------------------------------------------------------------

// c06refType: a value of type t can hold a reference to memory (pointer, slice, map, channel, function, interface,
// or a struct / array with such a part). Strings are immutable and error values describe a failure: neither is
// followed.
func c06refType(t types.Type) bool {
	return c06refTypeD(t, 0)
}

func c06refTypeD(t types.Type, d int) bool {
	if t == nil || d > 4 {
		return false
	}
	if typeStr(t) == "error" {
		return false
	}
	switch x := t.Underlying().(type) {
	case *types.Pointer, *types.Slice, *types.Map, *types.Chan, *types.Signature, *types.Interface:
		return true
	case *types.Struct:
		for i := 0; i < x.NumFields(); i++ {
			if c06refTypeD(x.Field(i).Type(), d+1) {
				return true
			}
		}
	case *types.Array:
		return c06refTypeD(x.Elem(), d+1)
	case *types.Tuple:
		for i := 0; i < x.Len(); i++ {
			if c06refTypeD(x.At(i).Type(), d+1) {
				return true
			}
		}
	}
	return false
}

// c06unit: the outermost function around f together with all closures nested in it.
func c06unit(f *ssa.Function) (*ssa.Function, []*ssa.Function) {
	for f.Parent() != nil {
		f = f.Parent()
	}
	return f, withAnon(f)
}

// c06isCell: v is the cell of a local variable (an Alloc that is only loaded, stored to and captured; a captured
// variable inside a closure): reading or assigning the variable is not yet a use of the memory it refers to.
func c06isCell(v ssa.Value) bool {
	switch x := v.(type) {
	case *ssa.FreeVar:
		_, isPtr := x.Type().Underlying().(*types.Pointer)
		return isPtr
	case *ssa.Alloc:
		refs := x.Referrers()
		if refs == nil {
			return false
		}
		for _, r := range *refs {
			switch y := r.(type) {
			case *ssa.Store:
				if y.Addr != x {
					return false
				}
			case *ssa.UnOp, *ssa.MakeClosure, *ssa.DebugRef:
			default:
				return false
			}
		}
		return true
	}
	return false
}

// c06addrBase strips field and element selections from an address; viaIndex reports whether an element selection
// was among them.
func c06addrBase(a ssa.Value) (base ssa.Value, viaIndex bool) {
	for {
		switch x := a.(type) {
		case *ssa.FieldAddr:
			a = x.X
		case *ssa.IndexAddr:
			a, viaIndex = x.X, true
		default:
			return a, viaIndex
		}
	}
}

// c06copying: library functions whose result does not share memory with their arguments.
var c06copying = map[string]bool{"slices.Clone": true, "bytes.Clone": true, "maps.Clone": true, "strings.Clone": true,
	"bytes.ToUpper": true, "bytes.ToLower": true, "bytes.Repeat": true, "bytes.Join": true, "bytes.ReplaceAll": true, "bytes.Replace": true,
	"bytes.Map": true, "bytes.ToValidUTF8": true, "io.ReadAll": true, "encoding/json.Marshal": true, "slices.Concat": true, "slices.Collect": true,
	"slices.Sorted": true, "maps.Keys": true, "maps.Values": true, "strings.Split": true, "strings.Fields": true, "bytes.Runes": true,
	"builtin.len": true, "builtin.cap": true, "builtin.copy": true, "builtin.min": true, "builtin.max": true}

var c06mayReturnMemo = map[c06paramKey]int{} // 0 unknown, 1 in progress / no, 2 yes (one program at a time: reset by c06resetRound4)
type c06paramKey struct {
	fn *ssa.Function
	k  int
}

// c06mayReturnParam: a result of g may share memory with its parameter k (it returns the parameter, a slice of it,
// something appended to it, a field of it ...).
func c06mayReturnParam(g *ssa.Function, k int, depth int) bool {
	if g == nil || len(g.Blocks) == 0 || k >= len(g.Params) || depth > 2 {
		return true // unknown body: assume it may
	}
	key := c06paramKey{g, k}
	switch c06mayReturnMemo[key] {
	case 1:
		return false
	case 2:
		return true
	}
	c06mayReturnMemo[key] = 1
	_, fns := c06unit(g)
	s := c06aliases(fns, []ssa.Value{g.Params[k]}, depth+1)
	hit := false
	eachInstr(g, func(i ssa.Instruction) {
		if r, ok := i.(*ssa.Return); ok {
			for _, res := range r.Results {
				if s[res] && c06refType(res.Type()) {
					hit = true
				}
			}
		}
	})
	if hit {
		c06mayReturnMemo[key] = 2
	}
	return hit
}

// c06aliases computes, over the functions fns (one outermost function and its closures), the values that may refer to
// memory of the seed objects: what the seeds were built from (slices of a buffer, the variable they were read from, the
// value stored INTO a pooled holder), and what is derived from them (slices, appends that may stay in place, fields,
// element addresses, the variables they are assigned to, containers they are put in, results of calls that may return
// their argument). Flow-insensitive; elements read out of a pooled container (the strings of a []string, the pointers of
// a []*T) are contents, not pooled memory, and are not followed.
func c06aliases(fns []*ssa.Function, seeds []ssa.Value, depth int) map[ssa.Value]bool {
	S := map[ssa.Value]bool{}
	changed := false
	add := func(v ssa.Value) {
		if v == nil || S[v] {
			return
		}
		switch v.(type) {
		case *ssa.Const, *ssa.Global, *ssa.Function, *ssa.Builtin:
			return
		}
		S[v] = true
		changed = true
	}
	for _, s := range seeds {
		add(s)
	}
	both := func(a, b ssa.Value) {
		if S[a] {
			add(b)
		}
		if S[b] {
			add(a)
		}
	}
	isString := func(v ssa.Value) bool {
		b, ok := v.Type().Underlying().(*types.Basic)
		return ok && b.Info()&types.IsString != 0
	}
	for iter := 0; iter < 40; iter++ {
		changed = false
		eachInstrOf(fns, func(_ *ssa.Function, i ssa.Instruction) {
			switch x := i.(type) {
			case *ssa.Store:
				base, viaIndex := c06addrBase(x.Addr)
				if S[x.Addr] && !viaIndex && c06refType(x.Val.Type()) {
					add(x.Val) // stored into the pooled holder / assigned to a variable that refers to pooled memory
				}
				if S[x.Val] {
					switch base.(type) {
					case *ssa.Alloc, *ssa.FreeVar:
						add(base) // the variable / literal / argument list now refers to pooled memory
					}
				}
			case *ssa.UnOp:
				if x.Op != token.MUL {
					return
				}
				_, viaIndex := c06addrBase(x.X)
				if S[x.X] && !viaIndex && c06refType(x.Type()) {
					add(x)
				}
				if S[x] && c06isCell(x.X) {
					add(x.X)
				}
			case *ssa.Slice:
				if !isString(x.X) {
					both(x.X, x)
				}
			case *ssa.Phi:
				for _, e := range x.Edges {
					both(e, x)
				}
			case *ssa.ChangeType:
				both(x.X, x)
			case *ssa.MakeInterface:
				if c06refType(x.X.Type()) {
					both(x.X, x)
				}
			case *ssa.ChangeInterface:
				both(x.X, x)
			case *ssa.SliceToArrayPointer:
				both(x.X, x)
			case *ssa.Convert:
				if c06refType(x.X.Type()) && c06refType(x.Type()) {
					both(x.X, x)
				}
			case *ssa.TypeAssert:
				if x.CommaOk || c06refType(x.Type()) {
					both(x.X, x)
				}
			case *ssa.Extract:
				if !c06refType(x.Type()) {
					return
				}
				if S[x.Tuple] {
					add(x)
				}
				if _, isTA := x.Tuple.(*ssa.TypeAssert); isTA && S[x] {
					add(x.Tuple)
				}
			case *ssa.FieldAddr:
				if S[x.X] {
					add(x)
				}
			case *ssa.IndexAddr:
				if S[x.X] {
					add(x)
				}
			case *ssa.Field:
				if S[x.X] && c06refType(x.Type()) {
					add(x)
				}
			case *ssa.MakeClosure:
				if fn, ok := x.Fn.(*ssa.Function); ok {
					for k, b := range x.Bindings {
						if k < len(fn.FreeVars) {
							both(b, fn.FreeVars[k])
						}
					}
				}
			case *ssa.Call:
				cc := &x.Call
				name := calleeName(cc)
				if name == "builtin.append" && len(cc.Args) > 0 {
					both(cc.Args[0], x)
					return
				}
				if c06copying[name] || strings.HasPrefix(name, "builtin.") || !c06refType(x.Type()) {
					return
				}
				if cc.IsInvoke() && S[cc.Value] {
					add(x)
					return
				}
				var callee *ssa.Function
				if sc := cc.StaticCallee(); sc != nil {
					if g := unwrap(sc); isRepoFn(g) && len(g.Blocks) > 0 {
						callee = g
					}
				}
				for k, a := range cc.Args {
					if !S[a] {
						continue
					}
					if callee == nil || len(callee.Params) != len(cc.Args) || c06mayReturnParam(callee, k, depth) {
						add(x)
					}
				}
			}
		})
		if !changed {
			break
		}
	}
	return S
}

// c06poolPut: the call hands its argument back to a pool: (*sync.Pool).Put, or a one-argument method Put of a type
// that also has a parameterless Get (httputil.BufferPool and the like). Returns the released value.
func c06poolPut(cc *ssa.CallCommon) (ssa.Value, string, bool) {
	if cc == nil {
		return nil, "", false
	}
	hasGet := func(t types.Type) bool {
		for _, tt := range []types.Type{t, types.NewPointer(t)} {
			ms := types.NewMethodSet(tt)
			for k := 0; k < ms.Len(); k++ {
				if m := ms.At(k).Obj(); m.Name() == "Get" {
					if sig, ok := m.Type().(*types.Signature); ok && sig.Params().Len() == 0 && sig.Results().Len() == 1 {
						return true
					}
				}
			}
		}
		return false
	}
	if cc.IsInvoke() {
		if cc.Method.Name() == "Put" && len(cc.Args) == 1 && hasGet(cc.Value.Type()) {
			return cc.Args[0], "the Put method of " + typeStr(cc.Value.Type()), true
		}
		return nil, "", false
	}
	sc := cc.StaticCallee()
	if sc == nil || sc.Signature.Recv() == nil || sc.Name() != "Put" || len(cc.Args) != 2 {
		return nil, "", false
	}
	if calleeName(cc) == "(*sync.Pool).Put" {
		return cc.Args[1], "sync.Pool.Put", true
	}
	if !isRepoFn(sc) && hasGet(sc.Signature.Recv().Type()) {
		return cc.Args[1], calleeName(cc), true
	}
	return nil, "", false
}

type c06release struct {
	at   ssa.Instruction // *ssa.Call, *ssa.Defer or *ssa.Go
	obj  ssa.Value       // the released value, in at.Parent()
	what string
}

// c06releasesIn: the releases performed by the instructions of f itself: a pool Put, or a static call of a repository
// function known to hand its parameter to one.
func c06releasesIn(f *ssa.Function, releasers map[*ssa.Function]map[int]bool) []c06release {
	var out []c06release
	eachInstr(f, func(i ssa.Instruction) {
		cc := callCommon(i)
		if cc == nil {
			return
		}
		if v, what, ok := c06poolPut(cc); ok {
			out = append(out, c06release{i, v, what})
			return
		}
		if sc := cc.StaticCallee(); sc != nil {
			g := unwrap(sc)
			for k := range releasers[g] {
				if k < len(cc.Args) && len(cc.Args) == len(g.Params) {
					out = append(out, c06release{i, cc.Args[k], fnKey(g) + " (which hands that argument back to a pool)"})
				}
			}
		}
	})
	return out
}

// c06useOf: instruction j uses memory the alias set S refers to (reads it, writes it, hands it on); assigning or
// reading a local variable that merely holds such a reference is not a use.
func c06useOf(j ssa.Instruction, S map[ssa.Value]bool) (string, bool) {
	switch x := j.(type) {
	case *ssa.Return:
		for _, r := range x.Results {
			if S[r] && c06refType(r.Type()) {
				return "it is returned to the caller", true
			}
		}
	case *ssa.UnOp:
		if x.Op == token.MUL && S[x.X] && !c06isCell(x.X) {
			return "it is read", true
		}
	case *ssa.Store:
		if S[x.Addr] && !c06isCell(x.Addr) {
			if _, isAlloc := x.Addr.(*ssa.Alloc); !isAlloc {
				return "it is written", true
			}
		}
	case *ssa.MapUpdate:
		if S[x.Map] {
			return "it is written", true
		}
	case *ssa.Lookup:
		if S[x.X] {
			return "it is read", true
		}
	case *ssa.Range:
		if S[x.X] {
			return "it is iterated over", true
		}
	case *ssa.Send:
		if S[x.X] {
			return "it is sent on a channel", true
		}
	}
	if cc := callCommon(j); cc != nil {
		name := calleeName(cc)
		if name == "builtin.len" || name == "builtin.cap" {
			return "", false
		}
		if cc.IsInvoke() && S[cc.Value] {
			return "its method " + cc.Method.Name() + " is called", true
		}
		for _, a := range cc.Args {
			if S[a] && c06refType(a.Type()) {
				if name == "" {
					name = "a function value"
				}
				return "it is passed to " + name, true
			}
		}
	}
	return "", false
}

// c06defChain: the instructions that (re)define the released value: a path from the release that passes one of them
// works on another object (the next iteration's buffer).
func c06defChain(obj ssa.Value) func(ssa.Instruction) bool {
	defs := map[ssa.Instruction]bool{}
	seen := map[ssa.Value]bool{}
	var walk func(v ssa.Value)
	walk = func(v ssa.Value) {
		if v == nil || seen[v] {
			return
		}
		seen[v] = true
		if in, ok := v.(ssa.Instruction); ok {
			defs[in] = true
		}
		switch x := v.(type) {
		case *ssa.MakeInterface:
			walk(x.X)
		case *ssa.ChangeType:
			walk(x.X)
		case *ssa.TypeAssert:
			walk(x.X)
		case *ssa.Extract:
			walk(x.Tuple)
		case *ssa.Slice:
			walk(x.X)
		case *ssa.UnOp:
			if x.Op == token.MUL && c06isCell(x.X) {
				if a, ok := x.X.(*ssa.Alloc); ok {
					for _, r := range *a.Referrers() {
						if st, ok := r.(*ssa.Store); ok && st.Addr == a {
							defs[st] = true
						}
					}
				}
			}
		}
	}
	walk(obj)
	return func(i ssa.Instruction) bool { return defs[i] }
}

type c06finding struct {
	pos token.Pos
	how string
}

// c06afterRelease: what happens to the aliases S of a released object once instruction `at` of function g has released
// it. A call releases at once: no use may follow it on any path. A defer releases when g returns: g must not return an
// alias. When g is a closure, the statement of its parent that runs (or defers, or starts) it is a release in the
// parent, and so on outwards. Returns the first finding and whether the release takes effect by the time the
// outermost function returns.
func c06afterRelease(g *ssa.Function, at ssa.Instruction, obj ssa.Value, S map[ssa.Value]bool, depth int) (*c06finding, bool) {
	var found *c06finding
	note := func(p token.Pos, how string) {
		if found == nil || (p.IsValid() && p < found.pos) {
			found = &c06finding{p, how}
		}
	}
	_, isDefer := at.(*ssa.Defer)
	_, isGo := at.(*ssa.Go)
	if !isDefer {
		chain := c06defChain(obj)
		// the origins of the alias set (the Get that produced the buffer, the make, the variable's declaration): a
		// path that passes one of them again continues with another object
		redef := func(i ssa.Instruction) bool {
			if chain(i) {
				return true
			}
			v, ok := i.(ssa.Value)
			if !ok || !S[v] {
				return false
			}
			for _, op := range i.Operands(nil) {
				if op != nil && *op != nil && S[*op] {
					return false
				}
			}
			return true
		}
		eachInstr(g, func(j ssa.Instruction) {
			if j == at || !pathAvoiding(at, j, redef) {
				return
			}
			if how, ok := c06useOf(j, S); ok {
				p := j.Pos()
				if !p.IsValid() {
					p = at.Pos()
				}
				note(p, how+" after the release")
			}
		})
	}
	if isDefer || isGo {
		eachInstr(g, func(j ssa.Instruction) {
			r, ok := j.(*ssa.Return)
			if !ok {
				return
			}
			for _, res := range r.Results {
				if S[res] && c06refType(res.Type()) {
					p := r.Pos()
					if !p.IsValid() {
						p = at.Pos()
					}
					note(p, "it is returned to the caller although the deferred release runs before the caller gets it")
				}
			}
		})
	}
	if found != nil || g.Parent() == nil {
		return found, true
	}
	if depth > 3 {
		return nil, false
	}
	// g is a closure: where its parent runs it
	p := g.Parent()
	reached := false
	eachInstr(p, func(u ssa.Instruction) {
		if found != nil {
			return
		}
		cc := callCommon(u)
		if cc == nil {
			return
		}
		runs := false
		if !cc.IsInvoke() {
			for _, h := range funcsOf(cc.Value) {
				if h == g {
					runs = true
				}
			}
		}
		for _, a := range cc.Args {
			if _, isFn := a.Type().Underlying().(*types.Signature); !isFn {
				continue
			}
			for _, h := range funcsOf(a) {
				if h == g {
					runs = true // handed to a function that runs it (once.Do, a helper): treated as run here
				}
			}
		}
		if !runs {
			return
		}
		f2, r2 := c06afterRelease(p, u, nil, S, depth+1)
		if f2 != nil {
			found = f2
		}
		reached = reached || r2
	})
	return found, reached
}

func runC06S8(c *Ctx) {
	const rule = "C06.S8"
	c06mayReturnMemo = map[c06paramKey]int{}
	// the outermost functions that contain a release, and - to a fixpoint - the repository functions that hand one of
	// their parameters back to a pool (their call sites are releases too)
	releasers := map[*ssa.Function]map[int]bool{}
	type site struct {
		outer *ssa.Function
		fn    *ssa.Function
		rel   c06release
	}
	var sites []site
	verdict := map[ssa.Instruction]*c06finding{}
	for round := 0; round < 4; round++ {
		sites = sites[:0]
		grew := false
		for _, f := range c.AllFns {
			rels := c06releasesIn(f, releasers)
			if len(rels) == 0 {
				continue
			}
			outer, fns := c06unit(f)
			for _, r := range rels {
				sites = append(sites, site{outer, f, r})
				S := c06aliases(fns, []ssa.Value{r.obj}, 0)
				finding, reached := c06afterRelease(f, r.at, r.obj, S, 0)
				verdict[r.at] = finding
				if !reached {
					continue
				}
				for k, p := range outer.Params {
					if S[p] && !releasers[outer][k] {
						if releasers[outer] == nil {
							releasers[outer] = map[int]bool{}
						}
						releasers[outer][k] = true
						grew = true
					}
				}
			}
		}
		if !grew {
			break
		}
	}
	for _, s := range sites {
		f := verdict[s.rel.at]
		pos, how := s.rel.at.Pos(), ""
		if f != nil {
			pos, how = f.pos, f.how
		}
		c.check(rule, fnKey(s.fn)+"|memory handed back to a pool is not referenced afterwards", pos, f == nil,
			"the object handed to "+s.rel.what+" at "+c.pos(s.rel.at.Pos())+" (or memory it shares: a slice of the same array, the buffer behind it) is still referenced: "+how+
				". The pool gives the same memory to the next Get, i.e. to another request that is served at the same time: both read and write one buffer (data race), and what was computed for one request - the list of matching hosts it is still walking, its log line, its body - is overwritten with the other's, so its routing result depends on a foreign request")
	}
	c.ob(rule, "repository|releases to a pool", token.NoPos, OK, "checked "+itoa(len(sites))+" release site(s), "+itoa(len(releasers))+" releasing helper(s)")
}

// ---- C06.S9: readers of a field the request path initialises under synchronisation ----------------------------------

func init() {
	if os.Getenv("VERIF_C06_NEWONLY") != "" {
		props["C06"].Mutants = nil // development: only the mutants of the later rounds
	}
	const hp = "proxy/http_proxy.go"
	const ar = "route/access_rules.go"
	imp := repl{"\t\"strings\"\n\t\"time\"\n", "\t\"strings\"\n\t\"sync\"\n\t\"time\"\n"}
	impAtomic := repl{"\t\"strings\"\n\t\"time\"\n", "\t\"strings\"\n\t\"sync\"\n\t\"sync/atomic\"\n\t\"time\"\n"}
	const useOld = "\t\tid := p.UUID\n\t\tif id == nil {\n\t\t\tid = uuid.NewUUID\n\t\t}\n"
	const useNew = "\t\tid := p.uuidFunc()\n"
	field := func(decl string) repl {
		return repl{"\tUUID func() string\n", "\tUUID func() string\n\n" + decl}
	}
	const serve = "func (p *HTTPProxy) ServeHTTP(w http.ResponseWriter, r *http.Request) {\n"
	method := func(body string) repl {
		return repl{serve, "func (p *HTTPProxy) uuidFunc() func() string {\n" + body + "}\n\n" + serve}
	}
	const setDefault = "\tif p.UUID == nil {\n\t\tp.UUID = uuid.NewUUID\n\t}\n"
	// the access rules of a target parsed on first use instead of by the table builder (the shape of seeded/C06-8), in
	// one file: ProcessAccessRules becomes a no-op for the builder, rules() parses on the request path
	lazyRules := func(guardDecl, rulesBody string) []repl {
		return []repl{
			{"\t\"net/http\"\n\t\"strings\"\n)", "\t\"net/http\"\n\t\"strings\"\n\t\"sync\"\n)\n\nvar _ sync.Locker\n" + guardDecl},
			{"func (t *Target) ProcessAccessRules() error {\n", "func (t *Target) ProcessAccessRules() error { return nil }\n\nfunc (t *Target) rules() map[string][]interface{} {\n" + rulesBody + "}\n\nfunc (t *Target) parseRulesNow() {\n\tif err := t.processAccessRulesNow(); err != nil {\n\t\tlog.Printf(\"[ERROR] failed to process access rules: %s\", err.Error())\n\t\tt.denyAll()\n\t}\n}\n\nfunc (t *Target) processAccessRulesNow() error {\n"},
		}
	}
	const needParse = "t.accessRules == nil && (t.Opts[\"allow\"] != \"\" || t.Opts[\"deny\"] != \"\")"
	addRound4("C06", "(S9) a field of an object shared between requests that the request path writes under synchronisation (S1 accepts the store: a mutex is held, or it runs only inside sync.Once.Do on a shared Once - work the table builder used to do, now done lazily by the first request) is read on the request path only after a synchronisation point: a lock held, or a lock acquisition / sync.Once.Do / atomic load that precedes the read on every path from the serving entry (in the function, in a helper that passes one on all its paths, or at every call site); the unlocked fast path of a double-checked initialisation, an accessor that bypasses the initialising one or a copy of the whole object otherwise sees the field half-built and the access decision / routing result of one request depends on another's.", runC06S9,
		// ---- breaks
		mutant{Name: "lazy default of the shared proxy: double-checked locking with an unlocked fast path", File: hp, Old: useOld, New: useNew,
			More: []repl{imp, field("\tinitMu sync.Mutex\n"), method("\tif p.UUID != nil {\n\t\treturn p.UUID\n\t}\n\tp.initMu.Lock()\n\tdefer p.initMu.Unlock()\n" + setDefault + "\treturn p.UUID\n")}, Expect: "C06.S9"},
		mutant{Name: "lazy default set under sync.Once, a second reader bypasses the Once", File: hp, Old: "\tt := p.Lookup(r)\n\n\tif t == nil {\n", New: "\tt := p.Lookup(r)\n\n\tif t == nil {\n\t\t_ = p.uuidFunc()\n",
			More: []repl{imp, field("\tinitOnce sync.Once\n"), method("\tp.initOnce.Do(func() {\n\t" + strings.ReplaceAll(setDefault, "\n\t", "\n\t\t") + "})\n\treturn p.UUID\n")}, Expect: "C06.S9"},
		mutant{Name: "access rules parsed by the first request under a mutex, emptiness checked before the lock", File: ar, Old: "len(t.accessRules) == 0", New: "len(t.rules()) == 0", All: true,
			More: lazyRules("\nvar accessRulesMu sync.Mutex\n", "\tif t.accessRules != nil {\n\t\treturn t.accessRules\n\t}\n\taccessRulesMu.Lock()\n\tdefer accessRulesMu.Unlock()\n\tif "+needParse+" {\n\t\tt.parseRulesNow()\n\t}\n\treturn t.accessRules\n"), Expect: "C06.S9"},
		mutant{Name: "access rules parsed by the first request without any synchronisation", File: ar, Old: "len(t.accessRules) == 0", New: "len(t.rules()) == 0", All: true,
			More: lazyRules("", "\tif "+needParse+" {\n\t\tt.parseRulesNow()\n\t}\n\treturn t.accessRules\n"), Expect: "C06.S1"},
		mutant{Name: "lazy default under a sync.Once that is a local of the call", File: hp, Old: useOld, New: useNew,
			More: []repl{imp, method("\tvar once sync.Once\n\tonce.Do(func() {\n\t" + strings.ReplaceAll(setDefault, "\n\t", "\n\t\t") + "})\n\treturn p.UUID\n")}, Expect: "C06.S1"},
		// ---- the same idea done correctly: silent
		mutant{Name: "benign: lazy default of the shared proxy set and read under one mutex", File: hp, Old: useOld, New: useNew,
			More: []repl{imp, field("\tinitMu sync.Mutex\n"), method("\tp.initMu.Lock()\n\tdefer p.initMu.Unlock()\n" + setDefault + "\treturn p.UUID\n")}, Expect: ""},
		mutant{Name: "benign: lazy default of the shared proxy set inside sync.Once.Do, read after it", File: hp, Old: useOld, New: useNew,
			More: []repl{imp, field("\tinitOnce sync.Once\n"), method("\tp.initOnce.Do(func() {\n\t" + strings.ReplaceAll(setDefault, "\n\t", "\n\t\t") + "})\n\treturn p.UUID\n")}, Expect: ""},
		mutant{Name: "benign: double-checked initialisation with an atomic flag", File: hp, Old: useOld, New: useNew,
			More: []repl{impAtomic, field("\tinitMu sync.Mutex\n\tinited uint32\n"), method("\tif atomic.LoadUint32(&p.inited) == 0 {\n\t\tp.initMu.Lock()\n\t" + strings.ReplaceAll(setDefault, "\n\t", "\n\t\t") + "\tatomic.StoreUint32(&p.inited, 1)\n\t\tp.initMu.Unlock()\n\t}\n\treturn p.UUID\n")}, Expect: ""},
		mutant{Name: "benign: lazy default set by a named method handed to sync.Once.Do", File: hp, Old: useOld, New: useNew,
			More: []repl{imp, field("\tinitOnce sync.Once\n"), method("\tp.initOnce.Do(p.setUUIDDefault)\n\treturn p.UUID\n}\n\nfunc (p *HTTPProxy) setUUIDDefault() {\n" + setDefault)}, Expect: ""},
	)
}

var c06lastSA *sharedAnalysis

// c06sharedFor: the shared-state analysis of the loaded program (computed once per program; only the latest is kept).
func c06sharedFor(c *Ctx) *sharedAnalysis {
	if c06lastSA == nil || c06lastSA.c != c {
		c06lastSA = c06refineShared(newSharedAnalysis(c))
	}
	return c06lastSA
}

// c06syncPoint: the instruction synchronises with other goroutines before it returns: it acquires a mutex, runs
// sync.Once.Do on a shared Once, or performs an atomic load / read-modify-write.
func c06syncPoint(i ssa.Instruction) bool {
	if _, isCall := i.(*ssa.Call); !isCall {
		return false
	}
	if _, k := lockCallKind(i); k == "lock" || k == "rlock" {
		return true
	}
	cc := callCommon(i)
	if _, ok := c06onceDo(cc); ok {
		return true
	}
	if kind, _, _, ok := atomicOp(cc); ok && kind != "store" {
		return true
	}
	return false
}

// c06orderedAt: instruction `at` is ordered after some synchronisation on every path that leads to it: a lock is held,
// it runs inside sync.Once.Do, a synchronisation point (directly, or a helper that passes one on all of its paths)
// dominates it in its function, or the same holds at every call site of its function on the request path.
func c06orderedAt(sa *sharedAnalysis, at ssa.Instruction, depth int) bool {
	return c06orderedAtIn(sa, at, map[*ssa.Function]bool{})
}

// (the call chain from the serving entry to the read has no fixed length: a lookup helper that is split once more, or
// a loop body that became a callback, adds a level. onPath holds the functions whose call sites are being examined: a
// recursive call site is ordered if the other ways into the cycle are.)
func c06orderedAtIn(sa *sharedAnalysis, at ssa.Instruction, onPath map[*ssa.Function]bool) bool {
	if len(c06heldAt(at, false)) > 0 || c06onceOnly(sa, at.Parent()) {
		return true
	}
	f := at.Parent()
	lifted := liftMust(c06syncPoint, 1)
	found := false
	eachInstr(f, func(s ssa.Instruction) {
		if !found && s != at && dominatesInstr(s, at) && lifted(s) {
			found = true
		}
	})
	if found {
		return true
	}
	if onPath[f] {
		return true
	}
	if len(onPath) > 24 {
		return false
	}
	sites := sa.callers[f]
	if len(sites) == 0 {
		return false
	}
	onPath[f] = true
	defer delete(onPath, f)
	n := 0
	for _, cs := range sites {
		if cs.inst.Parent() == f {
			continue // direct recursion
		}
		n++
		// (a go statement counts like a call: what precedes it in the starting goroutine precedes the started one)
		if !c06orderedAtIn(sa, cs.inst, onPath) {
			return false
		}
	}
	return n > 0
}

// c06elementWrite: the store writes an element of a slice (reached through whatever field holds the slice), not a field:
// `c.l[i] = x`. The slice header in the field stays as the constructor left it.
func c06elementWrite(i ssa.Instruction) bool {
	st, ok := i.(*ssa.Store)
	if !ok {
		return false
	}
	ia, ok := st.Addr.(*ssa.IndexAddr)
	if !ok {
		return false
	}
	_, isSlice := ia.X.Type().Underlying().(*types.Slice)
	return isSlice
}

// c06onlyLenCap: the loaded slice is used for nothing but len() / cap().
func c06onlyLenCap(v ssa.Value) bool {
	if _, isSlice := v.Type().Underlying().(*types.Slice); !isSlice {
		return false
	}
	refs := v.Referrers()
	if refs == nil {
		return false
	}
	n := 0
	for _, r := range *refs {
		if _, isDbg := r.(*ssa.DebugRef); isDbg {
			continue
		}
		call, ok := r.(*ssa.Call)
		if !ok {
			return false
		}
		if nm := calleeName(&call.Call); nm != "builtin.len" && nm != "builtin.cap" {
			return false
		}
		n++
	}
	return n > 0
}

// runC06S9. S1 accepts a store of the request path into an object shared between requests when it is synchronised
// (under a mutex, inside sync.Once.Do): typically the lazy initialisation of something the table builder used to
// prepare. The synchronisation is worth nothing if the readers of that field take no part in it: a reader with no
// lock, no Once.Do and no atomic load anywhere before it (the unlocked fast path of a double-checked initialisation,
// a second accessor that bypasses the initialising one) sees the field while it is being built. Necessary condition:
// every read, on the request path, of a field that the request path writes under synchronisation is itself ordered
// after a synchronisation point.
func runC06S9(c *Ctx) {
	const rule = "C06.S9"
	sa := c06sharedFor(c)
	if c06syncWrites == nil {
		c06s1(sa, "") // (not reached: S1 runs before the round-4 rules)
	}
	type s9field struct {
		c06syncWrite
		throughOnly bool // every synchronised write goes THROUGH the field (an element of the slice it holds), none replaces it
	}
	fields := map[string]s9field{}
	for _, w := range c06syncWrites {
		if strings.HasSuffix(w.step, "]") {
			continue
		}
		g, seen := fields[w.step]
		if !seen {
			g = s9field{w, true}
		}
		if !c06elementWrite(w.instr) {
			g.throughOnly = false
		}
		fields[w.step] = g
	}
	nReads := 0
	var fns []*ssa.Function
	for f := range sa.reach {
		fns = append(fns, f)
	}
	c06sortFns(fns)
	for _, f := range fns {
		eachInstr(f, func(i ssa.Instruction) {
			u, ok := i.(*ssa.UnOp)
			if !ok || u.Op != token.MUL {
				return
			}
			var base ssa.Value
			key := ""
			if fa, ok := u.X.(*ssa.FieldAddr); ok {
				if k := typeKey(fa.X.Type()); k != "" {
					base, key = fa.X, strings.TrimPrefix(k, repoMod+"/")+"."+fieldName(fa.X.Type(), fa.Field)
				}
			} else if st, ok := u.Type().Underlying().(*types.Struct); ok {
				// a copy of the whole object (`c := *t`) reads every field
				if k := typeKey(u.Type()); k != "" {
					for n := 0; n < st.NumFields(); n++ {
						if cand := strings.TrimPrefix(k, repoMod+"/") + "." + st.Field(n).Name(); fields[cand].instr != nil {
							base, key = u.X, cand
						}
					}
				}
			}
			w, guarded := fields[key]
			if base == nil || !guarded {
				return
			}
			// a read of an object this request has just built is private
			allFresh := true
			for _, rt := range sa.chain(base).roots {
				if !sa.fresh(rt, f, 0) {
					allFresh = false
				}
			}
			if allFresh {
				return
			}
			if w.throughOnly && c06onlyLenCap(u) {
				// the request path writes the ELEMENTS of the slice (under its lock) and never the field itself: the
				// slice header - pointer, len, cap - is immutable after construction, and len/cap read nothing else
				return
			}
			nReads++
			c.check(rule, fnKey(f)+"|read of "+key+" ordered after a synchronisation", i.Pos(), c06orderedAt(sa, i, 0),
				key+" is written on the request path under synchronisation ("+w.how+", "+c.pos(w.instr.Pos())+"), i.e. while other requests are being served; this read is preceded by no lock, no sync.Once.Do and no atomic load on any path from the serving entry ("+sa.rootPath(f)+"), so it races with that write: the request sees the field half-built (an empty or partial rule set, a nil map) and decides on it - its result depends on another request")
		})
	}
	c.ob(rule, "request path|fields written under synchronisation", token.NoPos, OK, "fields: "+itoa(len(fields))+", reads checked: "+itoa(nReads))
}
