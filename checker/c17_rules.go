package main

// C17 rules. Every site is found by ROLE inside package proxy/gzip (see c17_facts.go for the anchors), never by the
// name of the unexported function that contains it today.

import (
	"go/token"
	"go/types"
	"sort"
	"strconv"
	"strings"

	"golang.org/x/tools/go/ssa"
)

func runC17(c *Ctx) {
	k := c17resolve(c)
	if k == nil {
		return
	}
	runC17D1(c, k)
	runC17H1(c, k)
	runC17T1(c, k)
	runC17T2(c, k)
	runC17W1(c, k)
	runC17T3(c, k)
}

// ---- serve sites ----------------------------------------------------------------------------------------------------

type c17serve struct {
	i        ssa.Instruction
	created  []c17leaf // origins of the writer argument that are a compressing response writer
	passThru []c17leaf // origins that are the caller's own ResponseWriter
}

// isCreatedT: v is a compressing response writer where it comes into being (the constructor call, the literal), not a
// name under which an existing one is handed on: the receiver or a parameter of a method / helper that serves with it
// (`NewGzipResponseWriter(w, ct).serve(h, r)`), a captured variable, a phi, a load from a cell or a field.
func (k *c17kit) isCreatedT(v ssa.Value) bool {
	if !k.isT(v.Type()) {
		return false
	}
	switch v.(type) {
	case *ssa.Parameter, *ssa.FreeVar, *ssa.Phi, *ssa.UnOp, *ssa.Extract, *ssa.TypeAssert, *ssa.ChangeType, *ssa.Field:
		return false
	}
	return true
}

// c17isServe: a call of ServeHTTP through an interface, or of the method value taken from one
// (`serve := h.ServeHTTP; serve(w, r)`); the writer is the first argument either way.
func c17isServe(cc *ssa.CallCommon) bool {
	if len(cc.Args) != 2 || !c17respWriterIface(cc.Args[0].Type()) {
		return false
	}
	if cc.IsInvoke() {
		return cc.Method.Name() == "ServeHTTP"
	}
	fns := funcsOf(cc.Value)
	for _, fn := range fns {
		if !strings.HasPrefix(fn.Synthetic, "bound method wrapper") || fn.Object() == nil || fn.Object().Name() != "ServeHTTP" {
			return false
		}
	}
	return len(fns) > 0
}

// serveSites: the calls of http.Handler.ServeHTTP in the package, with the origins of the writer they pass.
func (k *c17kit) serveSites() []c17serve {
	var out []c17serve
	eachInstrOf(k.fns, func(_ *ssa.Function, i ssa.Instruction) {
		cc := callCommon(i)
		if cc == nil || !c17isServe(cc) {
			return
		}
		s := c17serve{i: i}
		for _, l := range k.origins(cc.Args[0], k.isCreatedT) {
			switch {
			case k.isT(l.v.Type()):
				s.created = append(s.created, l)
			default:
				switch l.v.(type) {
				case *ssa.Parameter, *ssa.FreeVar:
					s.passThru = append(s.passThru, l)
				}
			}
		}
		out = append(out, s)
	})
	return out
}

// ---- D1: when is the response compressed -------------------------------------------------------------------------------

func runC17D1(c *Ctx, k *c17kit) {
	nComp, nPass := 0, 0
	for _, s := range k.serveSites() {
		key := fnKey(s.i.Parent())
		for _, l := range s.created {
			nComp++
			c.check("C17.D1", key+"|gzip response writer only when the client accepts gzip", l.v.Pos(), c17holdsAtom(l.b, k.atomAcceptsGzip, 0),
				"the compressing response writer must be created and served only where the request's Accept-Encoding is found to name gzip (strings.Contains(header, \"gzip\"), or a coding cut out of it equals \"gzip\" / \"x-gzip\"), or to carry the wildcard \"*\" together with a weight found to be positive. Here acceptance is not established on every path: another coding counts as acceptance, or a wildcard whose q-value is not examined (\"*;q=0\" is how a client REFUSES every coding it did not list). Such a client receives Content-Encoding: gzip and a compressed body it cannot read"+k.codingsTested())
		}
		if len(s.passThru) > 0 {
			nPass++
		}
		if len(s.created) == 0 && len(s.passThru) > 0 {
			c.check("C17.D1", key+"|pass-through serve on the non-gzip edge", s.i.Pos(), !c17holdsAtom(s.i.Block(), k.atomAcceptsGzip, 0),
				"the original ResponseWriter is used when the client does not accept gzip")
		}
	}
	c.atLeast("C17.D1", "serve with the compressing response writer", nComp, 1)
	c.atLeast("C17.D1", "serve with the original response writer", nPass, 1)

	// the gzip writer becomes the active writer only for compressable responses
	nInst := 0
	eachInstrOf(k.fns, func(f *ssa.Function, i ssa.Instruction) {
		st, ok := i.(*ssa.Store)
		if !ok || (!k.sel && !k.isW(st.Addr)) || (k.sel && !k.isInstall(i)) {
			return
		}
		key := fnKey(f)
		ls := k.origins(st.Val, k.isGzipValue)
		if k.sel {
			ls = []c17leaf{{st.Val, st.Block()}} // the store into the gzip-writer field IS the decision to compress
		}
		for _, l := range ls {
			if !k.isGzipValue(l.v) {
				continue
			}
			nInst++
			b := l.b
			if b == nil {
				b = st.Block()
			}
			c.check("C17.D1", key+"|gzip writer only when the content type matches", st.Pos(), c17holdsAtom(b, k.atomTypeMatches, 0),
				"the gzip writer may be installed only where the configured expression's MatchString(Header.Get(\"Content-Type\")) is established as true")
			c.check("C17.D1", key+"|already encoded responses are refused", st.Pos(), c17holdsAtom(b, k.atomNotEncoded, 0),
				"a response that already carries a Content-Encoding must not be compressed again: the gzip writer may be installed only where Header.Get(\"Content-Encoding\") == \"\" is established")
		}
	})
	if nInst == 0 {
		c.undecided("C17.D1", "anchor|gzip writer installation", "no store of a *gzip.Writer (or of a wrapper type holding one) into the decided-writer field of the response writer")
	}
}

// codingsTested: for the message of D1: the constant codings that strings cut out of the request's Accept-Encoding
// are compared with anywhere in the region.
func (k *c17kit) codingsTested() string {
	seen := map[string]bool{}
	var list []string
	eachInstrOf(k.fns, func(_ *ssa.Function, i ssa.Instruction) {
		v, ok := i.(ssa.Value)
		if !ok {
			return
		}
		for _, truth := range []bool{true, false} {
			if s, isT := c17codingTest(v, truth); isT && !seen[s] {
				seen[s] = true
				list = append(list, strconv.Quote(s))
			}
		}
	})
	if len(list) == 0 {
		return ""
	}
	sort.Strings(list)
	return " (the header is tested for: " + strings.Join(list, ", ") + ")"
}

// ---- H1: headers and status ---------------------------------------------------------------------------------------

// isHeaderMutation: i changes header key CL/CE of some http.Header: Set/Add/Del, h[k] = v, delete(h, k).
func c17headerMutation(i ssa.Instruction) (op, key string, ok bool) {
	for _, m := range []string{"Set", "Add", "Del"} {
		if k, _, isH := headerCall(i, m); isH {
			return m, k, true
		}
	}
	if mu, isMU := i.(*ssa.MapUpdate); isMU && c17typeStr(mu.Map.Type()) == "net/http.Header" {
		if k, isK := constString(mu.Key); isK {
			return "map assignment", k, true
		}
	}
	if cc := callCommon(i); cc != nil && calleeName(cc) == "builtin.delete" && len(cc.Args) == 2 && c17typeStr(cc.Args[0].Type()) == "net/http.Header" {
		if k, isK := constString(cc.Args[1]); isK {
			return "delete", k, true
		}
	}
	return "", "", false
}

func runC17H1(c *Ctx, k *c17kit) {
	// status: every wrapped WriteHeader gets the caller's code, and WriteHeader reaches one on every path
	nSend := 0
	eachInstrOf(k.fns, func(f *ssa.Function, i ssa.Instruction) {
		if !k.isSend(i) {
			return
		}
		nSend++
		cc := callCommon(i)
		ok := len(cc.Args) == 1
		if ok {
			ls := k.origins(cc.Args[0], nil)
			ok = len(ls) > 0
			for _, l := range ls {
				lb := l.b
				if lb == nil {
					lb = i.Block()
				}
				if n, isK := constInt(l.v); isK && n == 200 && lb.Parent() == k.wr {
					continue // the implicit 200 of a Write without WriteHeader, chosen in Write itself
				}
				p, isP := l.v.(*ssa.Parameter)
				if !isP || c17typeStr(p.Type()) != "int" || p.Parent() != k.wh {
					ok = false
				}
			}
		}
		c.check("C17.H1", fnKey(f)+"|status code forwarded unchanged", i.Pos(), ok, "the status code must reach the client unchanged in all cases: the wrapped WriteHeader must receive exactly the code parameter of WriteHeader")
	})
	c.atLeast("C17.H1", "underlying WriteHeader calls", nSend, 1)
	ret, open := exitReachableAvoiding(k.wh.Blocks[0].Instrs[0], k.isSend)
	if k.isSend(k.wh.Blocks[0].Instrs[0]) {
		open = false
	}
	pos := k.wh.Pos()
	if open && ret != nil {
		pos = ret.Pos()
	}
	c.check("C17.H1", fnKey(k.wh)+"|underlying WriteHeader on every path", pos, !open, "every path through WriteHeader must forward the status to the wrapped writer")

	// Content-Length / Content-Encoding are touched only on the compress edge
	eachInstrOf(k.fns, func(f *ssa.Function, i ssa.Instruction) {
		op, key, ok := c17headerMutation(i)
		if !ok || (key != "Content-Length" && key != "Content-Encoding") {
			return
		}
		c.check("C17.H1", fnKey(f)+"|"+op+"("+key+") only on the compress edge", i.Pos(), k.onCompressEdge(i.Block()),
			"Content-Length / Content-Encoding may be changed only where the response is known to be compressed (content type matches, not already encoded); on every other path the upstream's headers pass through untouched")
	})
}

// ---- T1: decided once ---------------------------------------------------------------------------------------------

func c17edgeFact(p *ssa.BasicBlock, succIdx int) (Fact, bool) {
	if len(p.Instrs) == 0 || len(p.Succs) != 2 || p.Succs[0] == p.Succs[1] {
		return Fact{}, false
	}
	iff, ok := p.Instrs[len(p.Instrs)-1].(*ssa.If)
	if !ok {
		return Fact{}, false
	}
	cond, truth := iff.Cond, succIdx == 0
	for {
		u, isNot := cond.(*ssa.UnOp)
		if !isNot || u.Op != token.NOT {
			break
		}
		cond, truth = u.X, !truth
	}
	return Fact{cond, truth}, true
}

// decides: i assigns the decided writer, or calls a function of the region that does so on all of its paths.
func (k *c17kit) decides(i ssa.Instruction) bool {
	if k.isDecidingStore(i) {
		return true
	}
	if call, ok := i.(*ssa.Call); ok {
		if sc := call.Call.StaticCallee(); sc != nil && len(sc.Blocks) > 0 && k.inRegion(sc) && sc != i.Parent() {
			return !k.undecidedReach(unwrap(sc), nil, 1)
		}
	}
	return false
}

// tiedTo: on every path through i's function that executes i, an instruction matching pred executes too.
func (k *c17kit) tiedTo(i ssa.Instruction, pred func(ssa.Instruction) bool) bool {
	f := i.Parent()
	if f == nil || len(f.Blocks) == 0 {
		return false
	}
	if !pathAvoidingFromBlock(f.Blocks[0], i, pred) {
		return true
	}
	_, open := exitReachableAvoiding(i, pred)
	return !open
}

// knownUndecided: at b the writer is known to be undecided: writer == nil, or a decision flag is false.
func (k *c17kit) knownUndecided(b *ssa.BasicBlock) (byFlag bool, ok bool) {
	if c17knownNil(b, k.isW) {
		return false, true
	}
	if c17holds(b, func(f Fact) bool { d, isF := k.flagFact(f); return isF && !d }, 0) {
		return true, true
	}
	return false, false
}

// knownDecided: at b the writer is known to be decided: writer != nil, or a decision flag is true.
func (k *c17kit) knownDecided(b *ssa.BasicBlock) bool {
	return c17knownNonNil(b, k.isW) || c17holds(b, func(f Fact) bool { d, isF := k.flagFact(f); return isF && d }, 0)
}

func (k *c17kit) isDecidingStore(i ssa.Instruction) bool {
	if k.sel {
		return k.isFlagSet(i)
	}
	st, ok := i.(*ssa.Store)
	return ok && k.isW(st.Addr) && !isNilConst(st.Val)
}

// undecidedReach: there is a path from f's entry to target (nil: to a return of f) on which the decided-writer field
// may still be nil: no non-nil store to it, no call of a same-package function that always decides, no branch that
// establishes writer != nil.
func (k *c17kit) undecidedReach(f *ssa.Function, target ssa.Instruction, depth int) bool {
	if len(f.Blocks) == 0 {
		return true
	}
	seen := map[*ssa.BasicBlock]bool{f.Blocks[0]: true}
	stack := []*ssa.BasicBlock{f.Blocks[0]}
	for len(stack) > 0 {
		b := stack[len(stack)-1]
		stack = stack[:len(stack)-1]
		blocked := false
		for _, i := range b.Instrs {
			if target != nil && i == target {
				return true
			}
			if k.isDecidingStore(i) {
				blocked = true
				break
			}
			if call, ok := i.(*ssa.Call); ok && depth < 3 {
				if sc := call.Call.StaticCallee(); sc != nil && len(sc.Blocks) > 0 && k.inRegion(sc) && sc != f && !k.undecidedReach(unwrap(sc), nil, depth+1) {
					blocked = true
					break
				}
			}
			if _, ok := i.(*ssa.Return); ok && target == nil {
				return true
			}
		}
		if blocked {
			continue
		}
		for idx, s := range b.Succs {
			if ft, ok := c17edgeFact(b, idx); ok {
				if nn, isNil := nilFact(ft, k.isW); isNil && nn {
					continue // on this edge the writer is decided
				}
				if d, isF := k.flagFact(ft); isF && d {
					continue // on this edge a decision flag is set
				}
			}
			if !seen[s] {
				seen[s] = true
				stack = append(stack, s)
			}
		}
	}
	return false
}

// decidedAt: the writer is decided whenever instruction i executes.
func (k *c17kit) decidedAt(i ssa.Instruction, depth int) bool {
	if k.knownDecided(i.Block()) || !k.undecidedReach(i.Parent(), i, 0) {
		return true
	}
	f := i.Parent()
	if depth >= 3 || !c17closed(f) {
		return false
	}
	for _, s := range gSites[f] {
		if _, isGo := s.(*ssa.Go); isGo || s.Parent() == f || !k.decidedAt(s, depth+1) {
			return false
		}
	}
	return true
}

// decidedValueOK: every value that v can be is the pooled gzip writer (or a package-local wrapper holding one), the
// wrapped ResponseWriter, or a package-local wrapper whose writer fields only ever hold the wrapped ResponseWriter
// (that the wrappers' Write methods forward unchanged is W1's part).
func (k *c17kit) decidedValueOK(v ssa.Value) bool {
	plain := func(x ssa.Value) bool {
		n, gz, ws := k.holder(x.Type())
		return n != nil && len(gz) == 0 && len(ws) > 0
	}
	ls := k.origins(v, func(x ssa.Value) bool { return k.isGzipValue(x) || k.isRW(x) || plain(x) })
	for _, l := range ls {
		switch {
		case k.isGzipValue(l.v), k.isRW(l.v):
		case plain(l.v):
			n, _, ws := k.holder(l.v.Type())
			for _, idx := range ws {
				sts := k.stores[c17fkey{n, idx}]
				if len(sts) == 0 {
					return false
				}
				for _, st := range sts {
					if !k.wrapsUnderlying(st.Val) {
						return false
					}
				}
			}
		default:
			return false
		}
	}
	return len(ls) > 0
}

// freshlyRead: the value v of the decided writer that is used in block at was read from the field after the decision
// (a copy taken while the field was still nil is stale): every load it stems from is at a decided point, or the copy
// itself is known to be non-nil on the way to its use.
func (k *c17kit) freshlyRead(v ssa.Value, at *ssa.BasicBlock, depth int) bool {
	if depth > 6 {
		return false
	}
	if at != nil && c17knownNonNil(at, sameVal(v)) {
		return true
	}
	switch x := v.(type) {
	case *ssa.UnOp:
		if k.isW(x) {
			return k.decidedAt(x, 0)
		}
	case *ssa.ChangeInterface:
		return k.freshlyRead(x.X, at, depth+1)
	case *ssa.Phi:
		for i, e := range x.Edges {
			p := x.Block().Preds[i]
			okEdge := false
			for idx, s := range p.Succs {
				if s != x.Block() {
					continue
				}
				if ft, has := c17edgeFact(p, idx); has {
					if nn, isNil := nilFact(ft, sameVal(e)); isNil && nn {
						okEdge = true
					}
				}
			}
			if !okEdge && !k.freshlyRead(e, p, depth+1) {
				return false
			}
		}
		return true
	}
	return true // not a plain copy of a load (a cell, a field extraction): decidedAt of the use decides
}

func runC17T1(c *Ctx, k *c17kit) {
	if k.sel {
		runC17T1sel(c, k)
		return
	}
	nStore := 0
	eachInstrOf(k.fns, func(f *ssa.Function, i ssa.Instruction) {
		if !k.isDecidingStore(i) {
			return
		}
		st := i.(*ssa.Store)
		if fa, ok := st.Addr.(*ssa.FieldAddr); ok {
			if _, fresh := fa.X.(*ssa.Alloc); fresh {
				return // initialisation of a writer under construction
			}
		}
		nStore++
		byFlag, undecided := k.knownUndecided(st.Block())
		if undecided && byFlag {
			// under `!decided`: only once if this path also sets the flag
			undecided = k.tiedTo(st, k.isFlagSet)
		}
		c.check("C17.T1", fnKey(f)+"|writer decided only once", st.Pos(), undecided,
			"the writer field may be assigned only under writer == nil: deciding again after bytes were written mixes compressed and plain output")
		c.check("C17.T1", fnKey(f)+"|writer is the gzip writer or the wrapped writer", st.Pos(), k.decidedValueOK(st.Val),
			"the decided writer must be either the pooled gzip writer or the wrapped ResponseWriter itself: anything else changes the bytes the client receives")
	})
	c.atLeast("C17.T1", "stores that decide the writer", nStore, 1)
	c.check("C17.T1", fnKey(k.wh)+"|nil edge always decides", k.wh.Pos(), !k.undecidedReach(k.wh, nil, 0), "when the writer is undecided WriteHeader must assign it on every path")
	nUse := 0
	eachInstrOf(k.fns, func(f *ssa.Function, i ssa.Instruction) {
		cc := callCommon(i)
		if cc == nil || !cc.IsInvoke() || !k.isWval(cc.Value) {
			return
		}
		nUse++
		c.check("C17.T1", fnKey(f)+"|writer used only after it is decided", i.Pos(), k.decidedAt(i, 0) && k.freshlyRead(cc.Value, i.Block(), 0),
			"the writer field is dereferenced on a path where it may still be nil (nil pointer panic inside the response path)")
	})
	c.atLeast("C17.T1", "uses of the decided writer", nUse, 1)
}

// ---- T2: pooled writer typestate; V1 -----------------------------------------------------------------------------------

// releases: calling f may put a writer back into the pool - in f, in a function of the region it calls, or in an
// implementation of an interface of the region it calls through.
func (k *c17kit) releases(f *ssa.Function, depth int) bool {
	if f == nil || depth > 4 {
		return false
	}
	f = unwrap(f)
	if len(f.Blocks) == 0 || !k.inRegion(f) {
		return false
	}
	found := false
	eachInstr(f, func(i ssa.Instruction) {
		if found {
			return
		}
		if c17isPoolPut(i) {
			found = true
			return
		}
		cc := callCommon(i)
		if cc == nil {
			return
		}
		for _, g := range k.callees(cc) {
			if g != f && k.releases(g, depth+1) {
				found = true
			}
		}
	})
	return found
}

func (k *c17kit) isReleaseDefer(i ssa.Instruction) bool {
	d, ok := i.(*ssa.Defer)
	if !ok {
		return false
	}
	for _, g := range k.callees(&d.Call) {
		if k.releases(g, 0) {
			return true
		}
	}
	return false
}

func c17isVary(i ssa.Instruction) bool {
	if _, ok := i.(*ssa.Call); !ok {
		return false
	}
	for _, m := range []string{"Add", "Set"} {
		if key, cc, ok := headerCall(i, m); ok && key == "Vary" {
			if v, _ := constString(cc.Args[2]); v == "Accept-Encoding" {
				return true
			}
		}
	}
	return false
}

func runC17T2(c *Ctx, k *c17kit) {
	e := newC17flow(k)
	for _, m := range k.flowEntries() {
		for _, out := range e.run(m, c17st{}, 0) {
			if out.inst && !out.reset {
				e.site("C17.T2", m.Blocks[0].Instrs[0], "pooled writer Reset to the wrapped writer before use", c17dReset, false)
			}
		}
	}
	e.emit(c)
	c.atLeast("C17.H1", "Del(Content-Length) on a path of the response writer's methods", e.nEv[evDel], 1)
	c.atLeast("C17.H1", "Set(Content-Encoding, gzip) on a path of the response writer's methods", e.nEv[evEnc], 1)
	c.atLeast("C17.H1", "underlying WriteHeader on a path of the response writer's methods", e.nEv[evSend], 1)
	c.atLeast("C17.T2", "installation of the gzip writer on a path of the response writer's methods", e.nEv[evInstall], 1)
	c.atLeast("C17.T2", "Reset of the pooled writer", e.nEv[evReset]+e.nEv[evBadReset], 1)
	c.atLeast("C17.T2", "gzip.Writer.Close on a path of the response writer's methods", e.nEv[evClose], 1)
	c.atLeast("C17.T2", "sync.Pool.Put on a path of the response writer's methods", e.nEv[evPut], 1)

	// the installed gzip writer comes out of the pool (or is new)
	fresh := func(v ssa.Value) bool {
		call, isC := v.(*ssa.Call)
		if !isC {
			return false
		}
		n := calleeName(&call.Call)
		return c17isPoolGet(call) || n == "compress/gzip.NewWriter" || n == "compress/gzip.NewWriterLevel"
	}
	eachInstrOf(k.fns, func(f *ssa.Function, i ssa.Instruction) {
		if !k.isInstall(i) {
			return
		}
		ls := k.gzLeaves(i.(*ssa.Store).Val, func(v ssa.Value) bool { return fresh(v) || k.isRW(v) })
		ok := len(ls) > 0
		for _, l := range ls {
			if k.isRW(l.v) {
				continue // the other arm of a merged store: the wrapped writer
			}
			if !fresh(l.v) {
				ok = false
			}
		}
		c.check("C17.T2", fnKey(f)+"|active gzip writer is taken from the pool", i.Pos(), ok, "the gzip writer that becomes the active writer must be the one obtained from the pool for this response (sync.Pool hands an object to one user at a time)")
	})

	// Close / Put touch an acquired writer only
	nClose := 0
	eachInstrOf(k.fns, func(f *ssa.Function, i ssa.Instruction) {
		cc := callCommon(i) // (a `defer gz.Close()` is a Close as well)
		if _, isGo := i.(*ssa.Go); cc == nil || isGo || cc.IsInvoke() || calleeName(cc) != "(*compress/gzip.Writer).Close" || len(cc.Args) == 0 {
			return
		}
		nClose++
		recv := cc.Args[0]
		nonNil := c17holds(i.Block(), func(ft Fact) bool {
			nn, isNil := nilFact(ft, func(v ssa.Value) bool {
				if v == recv || k.isGz(v) {
					return true
				}
				for _, l := range k.origins(v, k.isGz) {
					if k.isGz(l.v) {
						return true
					}
				}
				return false
			})
			return isNil && nn
		}, 0) || c17holds(i.Block(), func(ft Fact) bool { set, isF := k.gzFlagFact(ft); return isF && set }, 0)
		if !nonNil {
			// no test needed where the writer cannot be nil: it is read from a field of a wrapper type that is assigned a
			// writer from the pool wherever an instance is created (the pass-through case is then another dynamic type)
			ls := k.origins(recv, func(v ssa.Value) bool { return fresh(v) || (k.isGz(v) && !k.alwaysSet(k.fkey(v))) })
			nonNil = len(ls) > 0
			for _, l := range ls {
				if !fresh(l.v) {
					nonNil = false
				}
			}
		}
		c.check("C17.T2", fnKey(f)+"|Close and Put under gzipWriter != nil", i.Pos(), nonNil, "only an acquired writer may be closed and put back: a response that was passed through has none (nil pointer panic in the deferred Close)")
	})
	c.atLeast("C17.T2", "gzip.Writer.Close calls", nClose, 1)

	// the handler defers the release before it serves with the compressing writer; Vary before every serve
	nServe := 0
	for _, s := range k.serveSites() {
		nServe++
		c.check("C17.V1", fnKey(s.i.Parent())+"|Vary: Accept-Encoding on every path", s.i.Pos(), c17precededBy(s.i, c17isVary, 0),
			"the response varies with Accept-Encoding whether or not it is compressed; the header must be added before the inner handler is served on every path")
		if len(s.created) == 0 {
			continue
		}
		ok := c17precededBy(s.i, k.isReleaseDefer, 0)
		if !ok {
			ok = true
			for _, l := range s.created {
				li, isI := l.v.(ssa.Instruction)
				if !isI || li.Parent() != s.i.Parent() || pathAvoiding(li, s.i, k.isReleaseDefer) {
					ok = false
				}
			}
		}
		c.check("C17.T2", fnKey(s.i.Parent())+"|Close deferred before serving", s.i.Pos(), ok, "the response writer's Close must be deferred before the inner handler runs, so the gzip trailer is written and the pooled writer returned on every exit, including panics")
	}
	c.atLeast("C17.V1", "ServeHTTP calls", nServe, 1)
}

// ---- W1: Write forwards ------------------------------------------------------------------------------------------------

// c17sink says whether a call hands the body on to the next writer, and returns the buffer argument.
type c17sink func(cc *ssa.CallCommon) (buf ssa.Value, ok bool)

// sinkDecided: Write through the decided-writer field.
func (k *c17kit) sinkDecided(cc *ssa.CallCommon) (ssa.Value, bool) {
	if k.sel {
		return k.sinkSelected(cc)
	}
	if !cc.IsInvoke() || cc.Method.Name() != "Write" || !k.isWval(cc.Value) || len(cc.Args) != 1 {
		return nil, false
	}
	return cc.Args[0], true
}

// sinkHeld: Write of a writer that a wrapper type holds: the wrapped ResponseWriter, or a *gzip.Writer kept in a field.
func (k *c17kit) sinkHeld(cc *ssa.CallCommon) (ssa.Value, bool) {
	if cc.IsInvoke() {
		if cc.Method.Name() != "Write" || len(cc.Args) != 1 || !k.wrapsUnderlying(cc.Value) {
			return nil, false
		}
		return cc.Args[0], true
	}
	if calleeName(cc) != "(*compress/gzip.Writer).Write" || len(cc.Args) != 2 {
		return nil, false
	}
	ls := k.origins(cc.Args[0], k.isGz)
	for _, l := range ls {
		if !k.isGz(l.v) {
			return nil, false
		}
	}
	return cc.Args[1], len(ls) > 0
}

// forwardResult: v is result idx of a Write into sink with owner's own buffer; returns the call.
func (k *c17kit) forwardResult(owner *ssa.Function, sink c17sink, v ssa.Value, idx int, depth int) ssa.Value {
	e, ok := v.(*ssa.Extract)
	if !ok || e.Index != idx || depth > 3 {
		return nil
	}
	call, ok := e.Tuple.(*ssa.Call)
	if !ok {
		return nil
	}
	if buf, isSink := sink(&call.Call); isSink {
		ls := k.origins(buf, nil)
		for _, l := range ls {
			p, isP := l.v.(*ssa.Parameter)
			if !isP || p.Parent() != owner || c17typeStr(p.Type()) != "[]byte" {
				return nil
			}
		}
		if len(ls) == 0 {
			return nil
		}
		return call
	}
	sc := call.Call.StaticCallee()
	if sc == nil || len(sc.Blocks) == 0 || !k.inRegion(sc) {
		return nil
	}
	n, all := 0, true
	eachInstr(sc, func(i ssa.Instruction) {
		r, isR := i.(*ssa.Return)
		if !isR {
			return
		}
		n++
		if len(r.Results) != 2 {
			all = false
			return
		}
		a, b := k.forwardResult(owner, sink, r.Results[0], 0, depth+1), k.forwardResult(owner, sink, r.Results[1], 1, depth+1)
		if a == nil || a != b {
			all = false
		}
	})
	if n == 0 || !all {
		return nil
	}
	return call
}

// forwards: every return of fn hands back the (n, err) of one Write of fn's own buffer into sink; returns the number
// of returns looked at.
func (k *c17kit) forwards(c *Ctx, fn *ssa.Function, sink c17sink, what, detail string) int {
	nW := 0
	eachInstr(fn, func(i ssa.Instruction) {
		r, ok := i.(*ssa.Return)
		if !ok {
			return
		}
		nW++
		okFwd := false
		if len(r.Results) == 2 {
			a, b := k.forwardResult(fn, sink, r.Results[0], 0, 0), k.forwardResult(fn, sink, r.Results[1], 1, 0)
			okFwd = a != nil && a == b
			if a != nil && !okFwd && isNilConst(r.Results[1]) {
				// `if err != nil { return n, err }; return n, nil`: a literal nil where the writer's error is known to be nil
				okFwd = c17knownNil(r.Block(), func(v ssa.Value) bool {
					e, isE := v.(*ssa.Extract)
					return isE && e.Index == 1 && e.Tuple == a
				})
			}
		}
		c.check("C17.W1", fnKey(fn)+"|"+what, r.Pos(), okFwd, detail)
	})
	return nW
}

func runC17W1(c *Ctx, k *c17kit) {
	nW := k.forwards(c, k.wr, k.sinkDecided, "forwards b unchanged and returns the writer's results", "Write must hand exactly its argument to the decided writer and return that writer's (n, err)")
	c.atLeast("C17.W1", "returns of Write", nW, 1)
	// the decided writer may be a small type of the package wrapped around the gzip writer / the ResponseWriter: its
	// Write is part of the way of the body and must forward unchanged as well
	seen := map[*types.Named]bool{}
	for _, st := range k.stores[k.W] {
		for _, l := range k.origins(st.Val, func(v ssa.Value) bool { n, _, _ := k.holder(v.Type()); return n != nil }) {
			n, _, _ := k.holder(l.v.Type())
			if n == nil || seen[n] {
				continue
			}
			seen[n] = true
			var wfn *ssa.Function
			promoted := false
			for _, t := range []types.Type{n, types.NewPointer(n)} {
				if sel := c.Prog.MethodSets.MethodSet(t).Lookup(nil, "Write"); sel != nil {
					if len(sel.Index()) > 1 {
						promoted = true // Write of an embedded gzip writer / ResponseWriter: forwards by construction
						break
					}
					if f := c.Prog.MethodValue(sel); f != nil {
						wfn = unwrap(f)
						break
					}
				}
			}
			if promoted {
				continue
			}
			if wfn == nil || len(wfn.Blocks) == 0 || !k.inRegion(wfn) {
				c.undecided("C17.W1", "anchor|Write of "+n.Obj().Name(), "the decided writer can be a "+n.Obj().Name()+" whose Write method has no body in the package (promoted from an embedded field?)")
				continue
			}
			nR := k.forwards(c, wfn, k.sinkHeld, "wrapper forwards b unchanged and returns the writer's results", "a type the decided writer can be must hand exactly the bytes it is given to the gzip writer / the wrapped ResponseWriter it holds and return that writer's (n, err)")
			c.atLeast("C17.W1", "returns of "+n.Obj().Name()+".Write", nR, 1)
		}
	}
}
