package main

// Where the list stored to Route.Targets of an existing route is CHOSEN.
//
// D1, D2 and I1 classify a store to Route.Targets as growth (append to the same field) or removal (anything else).
// With a setter (`func (r *Route) setTargets(ts []*Target) { r.Targets = ts; ... }`) the store itself says nothing:
// the list is a parameter, and one caller hands in append(r.Targets, t) while another hands in the filtered list. So
// a store of a parameter is judged at every static call site of its function (up to three levels), with the list and
// the route mapped to the arguments; the rules then work in the frame of that call site exactly as they did in the
// frame of the store. The other direction - the list comes out of a helper (`r.Targets = with(r.Targets, t)`) - is
// judged in the helper: it is growth when every return of the helper is an append to the list it was handed.

import (
	"go/token"

	"golang.org/x/tools/go/ssa"
)

type c05Write struct {
	at      ssa.Instruction // the store itself, or the call of the setter at which the list is chosen
	store   *ssa.Store      // the store to Route.Targets
	val     ssa.Value       // the list, in at's function
	base    ssa.Value       // the route, in at's function (nil if it could not be mapped to an argument)
	removal bool
}

// c05TargetsWrites: i is a store to Route.Targets of an existing route; the places where its list is chosen.
func c05TargetsWrites(i ssa.Instruction) []c05Write {
	st, ok := i.(*ssa.Store)
	if !ok {
		return nil
	}
	base, ok := fieldOf(st.Addr, "route.Route", "Targets")
	if !ok {
		return nil
	}
	if _, fresh := base.(*ssa.Alloc); fresh {
		return nil // a route under construction
	}
	var out []c05Write
	c05ExpandWrite(st, st, st.Val, base, 0, &out)
	return out
}

func c05StripConv(v ssa.Value) ssa.Value {
	for {
		switch x := v.(type) {
		case *ssa.ChangeType:
			v = x.X
		case *ssa.Convert:
			v = x.X
		default:
			return v
		}
	}
}

func c05ParamIndex(p *ssa.Parameter) int {
	if p == nil || p.Parent() == nil {
		return -1
	}
	for k, q := range p.Parent().Params {
		if q == p {
			return k
		}
	}
	return -1
}

func c05ExpandWrite(st *ssa.Store, at ssa.Instruction, val, base ssa.Value, depth int, out *[]c05Write) {
	if p, ok := c05StripConv(val).(*ssa.Parameter); ok && depth < 3 {
		idx := c05ParamIndex(p)
		var sites []ssa.CallInstruction
		for _, s := range gSites[p.Parent()] {
			if idx >= 0 && idx < len(s.Common().Args) && s.Parent() != nil {
				sites = append(sites, s)
			}
		}
		if len(sites) > 0 && len(sites) == len(gSites[p.Parent()]) {
			bidx := -1
			if bp, isP := base.(*ssa.Parameter); isP && bp.Parent() == p.Parent() {
				bidx = c05ParamIndex(bp)
			}
			for _, s := range sites {
				var upBase ssa.Value
				if bidx >= 0 && bidx < len(s.Common().Args) {
					upBase = s.Common().Args[bidx]
				}
				c05ExpandWrite(st, s, s.Common().Args[idx], upBase, depth+1, out)
			}
			return
		}
	}
	*out = append(*out, c05Write{at, st, val, base, !c05GrowthVal(val, nil, 0)})
}

// c05GrowthVal: v is the old list of a route with something added: append(r.Targets, ..) / slices.Insert(r.Targets, ..)
// (also nested), a phi of such, or the result of a repository helper whose every return is such an append to the list
// it was handed (bind maps the helper's parameters to the arguments of the call).
func c05GrowthVal(v ssa.Value, bind map[*ssa.Parameter]ssa.Value, depth int) bool {
	if v == nil || depth > 6 {
		return false
	}
	oldList := func(x ssa.Value) bool {
		x = c05StripConv(x)
		if p, isP := x.(*ssa.Parameter); isP && bind != nil {
			if a, has := bind[p]; has {
				x = c05StripConv(a)
			}
		}
		if _, ok := fieldOf(x, "route.Route", "Targets"); ok {
			if ld, isLoad := x.(*ssa.UnOp); isLoad && ld.Op == token.MUL {
				return true
			}
			if _, isField := x.(*ssa.Field); isField {
				return true
			}
		}
		return false
	}
	// the old list or an unabridged copy of it: slices.Clone / Clip / Grow, r.Targets[:len(r.Targets):len(r.Targets)],
	// append([]*Target(nil), r.Targets...)
	var whole func(x ssa.Value, d int) bool
	whole = func(x ssa.Value, d int) bool {
		if d > 4 {
			return false
		}
		if oldList(x) {
			return true
		}
		switch y := c05StripConv(x).(type) {
		case *ssa.Slice:
			if y.Low != nil {
				return false
			}
			if y.High != nil {
				ln, isLen := y.High.(*ssa.Call)
				if !isLen || calleeName(&ln.Call) != "builtin.len" || len(ln.Call.Args) != 1 || !c05SameVal(c05StripConv(ln.Call.Args[0]), c05StripConv(y.X)) {
					return false
				}
			}
			return whole(y.X, d+1)
		case *ssa.Call:
			switch n := c05Name(&y.Call); {
			case (n == "slices.Clone" || n == "slices.Clip" || n == "slices.Grow") && len(y.Call.Args) > 0:
				return whole(y.Call.Args[0], d+1)
			case n == "builtin.append" && len(y.Call.Args) == 2:
				a0 := c05StripConv(y.Call.Args[0])
				empty := isNilConst(a0)
				if mk, isMk := a0.(*ssa.MakeSlice); isMk {
					if k, isK := constInt(mk.Len); isK && k == 0 {
						empty = true
					}
				}
				return empty && whole(y.Call.Args[1], d+1)
			}
		}
		return false
	}
	switch x := c05StripConv(v).(type) {
	case *ssa.Phi:
		for _, e := range x.Edges {
			if !c05GrowthVal(e, bind, depth+1) {
				return false
			}
		}
		return len(x.Edges) > 0
	case *ssa.Call:
		n := c05Name(&x.Call)
		if (n == "builtin.append" || n == "slices.Insert") && len(x.Call.Args) > 0 {
			return whole(x.Call.Args[0], 0) || c05GrowthVal(x.Call.Args[0], bind, depth+1)
		}
		if n == "slices.Concat" && len(x.Call.Args) == 1 {
			// slices.Concat(r.Targets, []*Target{t}): the old list comes first
			if els := c05VariadicElems(x.Call.Args[0]); len(els) > 0 {
				return whole(els[0], 0)
			}
			return false
		}
		sc := unwrapCallee(&x.Call)
		if sc == nil || x.Call.IsInvoke() || !isRepoFn(sc) || len(sc.Blocks) == 0 || sc.Signature.Results().Len() != 1 || depth > 2 {
			return false
		}
		inner := map[*ssa.Parameter]ssa.Value{}
		for k, p := range sc.Params {
			if k >= len(x.Call.Args) {
				break
			}
			a := x.Call.Args[k]
			if q, isP := c05StripConv(a).(*ssa.Parameter); isP && bind != nil {
				if b, has := bind[q]; has {
					a = b
				}
			}
			inner[p] = a
		}
		all, nRet := true, 0
		eachInstr(sc, func(i ssa.Instruction) {
			if r, isR := i.(*ssa.Return); isR && len(r.Results) == 1 {
				nRet++
				if !c05GrowthVal(r.Results[0], inner, depth+1) {
					all = false
				}
			}
		})
		return all && nRet > 0
	}
	return false
}

// c05WritesIn: the writes to Route.Targets whose list is chosen in f (at.Parent() == f), over all stores of the
// repository. Computed once per load.
type c05WriteIndex struct {
	all  []c05Write
	byFn map[*ssa.Function][]c05Write
}

func c05IndexWrites(c *Ctx) *c05WriteIndex {
	ix := &c05WriteIndex{byFn: map[*ssa.Function][]c05Write{}}
	for _, f := range c.AllFns {
		eachInstr(f, func(i ssa.Instruction) {
			for _, w := range c05TargetsWrites(i) {
				ix.all = append(ix.all, w)
				if g := w.at.Parent(); g != nil {
					ix.byFn[g] = append(ix.byFn[g], w)
				}
			}
		})
	}
	return ix
}
