package main

// Rules of C08 added after the rounds of independently authored breaking changes (DESIGN 11.6, 11.7).

import (
	"go/types"
	"sort"
	"strings"

	"golang.org/x/tools/go/ssa"
)

func depsStr(m map[string]bool) string {
	var k []string
	for x := range m {
		k = append(k, x)
	}
	sort.Strings(k)
	return strings.Join(k, ",")
}

// c08tunnelSites: where ServeHTTP's region chooses the raw websocket tunnel. The tunnel is found by role - code of
// package proxy that hijacks the client connection (http.Hijacker.Hijack; the methods that merely implement Hijacker by
// forwarding are not tunnels) - and a site is any instruction of the region that calls, makes a closure of, takes the
// value of, or instantiates the type of, a function from which such code is reached.
func c08tunnelSites(c *Ctx, reg []*ssa.Function) []ssa.Instruction {
	sp := c.spkg("proxy")
	memo := map[*ssa.Function]bool{}
	var hij func(g *ssa.Function) bool
	var typeHij func(t types.Type) bool
	typeMemo := map[*types.Named]bool{}
	instHij := func(i ssa.Instruction) bool {
		switch x := i.(type) {
		case *ssa.Alloc:
			return typeHij(x.Type())
		case *ssa.MakeInterface:
			return typeHij(x.X.Type())
		}
		return false
	}
	// hij: code reached from g (static calls, closures, function values, handler types it instantiates) hijacks the connection
	hij = func(g *ssa.Function) bool {
		if g == nil || !c08family(c, g) {
			return false
		}
		if v, ok := memo[g]; ok {
			return v
		}
		memo[g] = false
		for _, f := range c08region(c, 4, g) {
			if f.Name() != "Hijack" && fnCalls(f, "(net/http.Hijacker).Hijack") {
				memo[g] = true
				break
			}
			found := false
			eachInstr(f, func(i ssa.Instruction) {
				if !found && instHij(i) {
					found = true
				}
			})
			if found {
				memo[g] = true
				break
			}
		}
		return memo[g]
	}
	typeHij = func(t types.Type) bool {
		for {
			p, ok := t.(*types.Pointer)
			if !ok {
				break
			}
			t = p.Elem()
		}
		n, ok := types.Unalias(t).(*types.Named)
		if !ok || n.Obj().Pkg() == nil || sp == nil || !(n.Obj().Pkg() == sp.Pkg || strings.HasPrefix(n.Obj().Pkg().Path(), sp.Pkg.Path()+"/")) {
			return false
		}
		if v, ok := typeMemo[n]; ok {
			return v
		}
		typeMemo[n] = false
		ms := c.Prog.MethodSets.MethodSet(types.NewPointer(n))
		for k := 0; k < ms.Len(); k++ {
			if ms.At(k).Obj().Name() == "Hijack" {
				continue
			}
			if f := c.Prog.MethodValue(ms.At(k)); f != nil && f.Synthetic == "" && hij(f) {
				typeMemo[n] = true
				break
			}
		}
		return typeMemo[n]
	}
	var out []ssa.Instruction
	eachInstrOf(reg, func(f *ssa.Function, i ssa.Instruction) {
		hit := false
		for _, op := range i.Operands(nil) {
			if op == nil || *op == nil {
				continue
			}
			var g *ssa.Function
			switch x := (*op).(type) {
			case *ssa.Function:
				g = unwrap(x)
			case *ssa.MakeClosure:
				if fn, ok := x.Fn.(*ssa.Function); ok {
					g = unwrap(fn)
				}
			}
			if g != nil && g != f && hij(g) {
				hit = true
			}
		}
		if instHij(i) {
			hit = true
		}
		if hit {
			out = append(out, i)
		}
	})
	return out
}

// runC08X3: the X-Forwarded-For write of the websocket edge and the choice of the tunnel depend on the same client header.
//
// Each of the two decisions has a set of branch conditions it is control dependent on (through the call chain). A
// branch that EVERY X-Forwarded-For write and EVERY tunnel site depends on with the same outcome (the auth gate, the
// route lookup, an "is this a CORS preflight" test in front of both) cannot make the two disagree, whatever request
// headers it reads: it is left out. What remains on either side may read the Upgrade header only (and, for the write,
// the prior X-Forwarded-For value), and at least one side of each decision must read it at all.
func runC08X3(c *Ctx, serve *ssa.Function, reg []*ssa.Function, writes []*c08write) {
	type branch struct {
		cond ssa.Value
		then bool
	}
	var xSites, tSites [][]c08ctl
	for _, w := range writes {
		if w.key == (c08key{"const", "X-Forwarded-For"}) && w.m != "Del" {
			xSites = append(xSites, c08ctlAt(w.instr.Block(), w.ctx, 0))
		}
	}
	for _, i := range c08tunnelSites(c, reg) {
		tSites = append(tSites, c08ctlAt(i.Block(), nil, 0))
	}
	if len(xSites) == 0 || len(tSites) == 0 {
		c.undecided("C08.X3", "proxy|websocket decision sites", "the X-Forwarded-For write or the websocket tunnel construction was not found")
		return
	}
	// the branches shared by all sites of both kinds
	count := map[branch]int{}
	for _, site := range append(append([][]c08ctl{}, xSites...), tSites...) {
		seen := map[branch]bool{}
		for _, f := range site {
			if b := (branch{f.cond, f.then}); !seen[b] {
				seen[b] = true
				count[b]++
			}
		}
	}
	nSites := len(xSites) + len(tSites)
	depsOf := func(sites [][]c08ctl, own bool) map[string]bool {
		out := map[string]bool{}
		for _, site := range sites {
			for _, f := range site {
				if own && count[branch{f.cond, f.then}] == nSites {
					continue
				}
				for k := range c08deps(f.cond, f.ctx) {
					out[k] = true
				}
			}
		}
		return out
	}
	xAll, tAll := depsOf(xSites, false), depsOf(tSites, false)
	x, t := depsOf(xSites, true), depsOf(tSites, true)
	// the XFF guard legitimately also reads the prior X-Forwarded-For value
	delete(x, "X-Forwarded-For")
	delete(t, "X-Forwarded-For")
	only := func(m map[string]bool) bool {
		for k := range m {
			if k != "Upgrade" {
				return false
			}
		}
		return true
	}
	c.check("C08.X3", "proxy|websocket X-Forwarded-For decided by the same header as the tunnel", serve.Pos(),
		depsStr(x) == depsStr(t) && only(x) && xAll["Upgrade"] && tAll["Upgrade"],
		"ServeHTTP chooses the websocket tunnel (which adds no X-Forwarded-For of its own) from request headers ["+depsStr(t)+"], but the headers code decides whether to append the peer address from ["+depsStr(x)+"] (branches that both decisions pass through with the same outcome are not counted): when the two can disagree (a client or earlier hop sending X-Forwarded-Proto / Forwarded), a tunnelled request reaches the upstream without the real peer in X-Forwarded-For")
}
