package main

// Rules of C08 added after the rounds of independently authored breaking changes (DESIGN 11.6, 11.7).

import (
	"go/types"
	"sort"
	"strings"

	"golang.org/x/tools/go/ssa"
)

func depsStr(m map[string]bool) string {
	var k []string
	for x := range m {
		k = append(k, x)
	}
	sort.Strings(k)
	return strings.Join(k, ",")
}

// c08tunnelSites: where ServeHTTP's region chooses the raw websocket tunnel. The tunnel is found by role - code of
// package proxy that hijacks the client connection (http.Hijacker.Hijack; the methods that merely implement Hijacker by
// forwarding are not tunnels) - and a site is any instruction of the region that calls, makes a closure of, takes the
// value of, or instantiates the type of, a function from which such code is reached.
func c08tunnelSites(c *Ctx, reg []*ssa.Function) []ssa.Instruction {
	sp := c.spkg("proxy")
	memo := map[*ssa.Function]bool{}
	var hij func(g *ssa.Function) bool
	var typeHij func(t types.Type) bool
	typeMemo := map[*types.Named]bool{}
	instHij := func(i ssa.Instruction) bool {
		switch x := i.(type) {
		case *ssa.Alloc:
			return typeHij(x.Type())
		case *ssa.MakeInterface:
			return typeHij(x.X.Type())
		}
		return false
	}
	// hij: code reached from g (static calls, closures, function values, handler types it instantiates) hijacks the connection
	hij = func(g *ssa.Function) bool {
		if g == nil || !c08family(c, g) {
			return false
		}
		if v, ok := memo[g]; ok {
			return v
		}
		memo[g] = false
		for _, f := range c08region(c, 4, g) {
			if f.Name() != "Hijack" && fnCalls(f, "(net/http.Hijacker).Hijack") {
				memo[g] = true
				break
			}
			found := false
			eachInstr(f, func(i ssa.Instruction) {
				if !found && instHij(i) {
					found = true
				}
			})
			if found {
				memo[g] = true
				break
			}
		}
		return memo[g]
	}
	typeHij = func(t types.Type) bool {
		for {
			p, ok := t.(*types.Pointer)
			if !ok {
				break
			}
			t = p.Elem()
		}
		n, ok := types.Unalias(t).(*types.Named)
		if !ok || n.Obj().Pkg() == nil || sp == nil || !(n.Obj().Pkg() == sp.Pkg || strings.HasPrefix(n.Obj().Pkg().Path(), sp.Pkg.Path()+"/")) {
			return false
		}
		if v, ok := typeMemo[n]; ok {
			return v
		}
		typeMemo[n] = false
		ms := c.Prog.MethodSets.MethodSet(types.NewPointer(n))
		for k := 0; k < ms.Len(); k++ {
			if ms.At(k).Obj().Name() == "Hijack" {
				continue
			}
			if f := c.Prog.MethodValue(ms.At(k)); f != nil && f.Synthetic == "" && hij(f) {
				typeMemo[n] = true
				break
			}
		}
		return typeMemo[n]
	}
	var out []ssa.Instruction
	eachInstrOf(reg, func(f *ssa.Function, i ssa.Instruction) {
		hit := false
		for _, op := range i.Operands(nil) {
			if op == nil || *op == nil {
				continue
			}
			var g *ssa.Function
			switch x := (*op).(type) {
			case *ssa.Function:
				g = unwrap(x)
			case *ssa.MakeClosure:
				if fn, ok := x.Fn.(*ssa.Function); ok {
					g = unwrap(fn)
				}
			}
			if g != nil && g != f && hij(g) {
				hit = true
			}
		}
		if instHij(i) {
			hit = true
		}
		if hit {
			out = append(out, i)
		}
	})
	return out
}

// runC08X3: the X-Forwarded-For write of the websocket edge and the choice of the tunnel depend on the same client header.
func runC08X3(c *Ctx, serve *ssa.Function, reg []*ssa.Function, xffDeps map[string]bool) {
	var tunDeps map[string]bool
	for _, i := range c08tunnelSites(c, reg) {
		if tunDeps == nil {
			tunDeps = map[string]bool{}
		}
		for h := range c08factDeps(i.Block(), nil) {
			tunDeps[h] = true
		}
	}
	if xffDeps == nil || tunDeps == nil {
		c.undecided("C08.X3", "proxy|websocket decision sites", "the X-Forwarded-For write or the websocket tunnel construction was not found")
		return
	}
	// the XFF guard legitimately also reads the prior X-Forwarded-For value
	x, t := map[string]bool{}, map[string]bool{}
	for k := range xffDeps {
		x[k] = true
	}
	for k := range tunDeps {
		t[k] = true
	}
	delete(x, "X-Forwarded-For")
	delete(t, "X-Forwarded-For")
	c.check("C08.X3", "proxy|websocket X-Forwarded-For decided by the same header as the tunnel", serve.Pos(),
		depsStr(x) == depsStr(t) && x["Upgrade"] && len(x) == 1,
		"ServeHTTP chooses the websocket tunnel (which adds no X-Forwarded-For of its own) from request headers ["+depsStr(t)+"], but the headers code decides whether to append the peer address from ["+depsStr(x)+"]: when the two can disagree (a client or earlier hop sending X-Forwarded-Proto / Forwarded), a tunnelled request reaches the upstream without the real peer in X-Forwarded-For")
}
