package main

// Rules of C08 added after the rounds of independently authored breaking changes (DESIGN 11.6, 11.7).

import (
	"sort"
	"strings"

	"golang.org/x/tools/go/ssa"
)

// headerDeps: request-header keys the value depends on, following repo functions that take the request.
func headerDeps(c *Ctx, v ssa.Value, depth int) map[string]bool {
	out := map[string]bool{}
	seen := map[ssa.Value]bool{}
	var walk func(x ssa.Value, d int)
	walk = func(x ssa.Value, d int) {
		if x == nil || seen[x] || d > 10 {
			return
		}
		seen[x] = true
		switch y := x.(type) {
		case *ssa.Call:
			n := calleeName(&y.Call)
			if (n == "(net/http.Header).Get" || n == "(net/http.Header).Values") && isRequestHeader(y.Call.Args[0]) {
				if k, ok := constString(y.Call.Args[1]); ok {
					out[k] = true
				} else {
					out["<computed>"] = true
				}
				return
			}
			if sc := y.Call.StaticCallee(); sc != nil && isRepoFn(sc) && depth < 3 {
				// results of the callee
				eachInstr(sc, func(i ssa.Instruction) {
					if r, ok := i.(*ssa.Return); ok {
						for _, res := range r.Results {
							for k := range headerDeps(c, res, depth+1) {
								out[k] = true
							}
						}
						// and the conditions the return is control-dependent on
						for _, ft := range factsAt(r.Block()) {
							for k := range headerDeps(c, ft.Cond, depth+1) {
								out[k] = true
							}
						}
					}
				})
				return
			}
			if isTransparent(n) {
				for _, a := range y.Call.Args {
					walk(a, d+1)
				}
			}
		case *ssa.Lookup:
			if isRequestHeader(y.X) {
				if k, ok := constString(y.Index); ok {
					out[k] = true
				}
				return
			}
			walk(y.X, d+1)
		case *ssa.Phi:
			for _, e := range y.Edges {
				walk(e, d+1)
			}
			// control dependence of the merge
			for _, p := range y.Block().Preds {
				for _, ft := range factsAt(p) {
					walk(ft.Cond, d+1)
				}
			}
		case *ssa.BinOp:
			walk(y.X, d+1)
			walk(y.Y, d+1)
		case *ssa.UnOp:
			walk(y.X, d+1)
		case *ssa.Extract:
			walk(y.Tuple, d+1)
		case *ssa.Slice:
			walk(y.X, d+1)
		case *ssa.Convert:
			walk(y.X, d+1)
		}
	}
	walk(v, 0)
	return out
}

func depsStr(m map[string]bool) string {
	var k []string
	for x := range m {
		k = append(k, x)
	}
	sort.Strings(k)
	return strings.Join(k, ",")
}

func runC08X3(c *Ctx) {
	add := c.fn("proxy", "addHeaders")
	serve := c.method("proxy", "HTTPProxy", "ServeHTTP")
	if add == nil || serve == nil {
		return
	}
	// guard of the X-Forwarded-For write
	var xffDeps map[string]bool
	eachInstr(add, func(i ssa.Instruction) {
		k, cc, ok := headerCall(i, "Set")
		if !ok || k != "X-Forwarded-For" || !isRequestHeader(cc.Args[0]) {
			return
		}
		xffDeps = map[string]bool{}
		for _, ft := range factsAt(i.Block()) {
			for h := range headerDeps(c, ft.Cond, 0) {
				xffDeps[h] = true
			}
		}
	})
	// tunnel decision: the fact guarding the websocket handler construction
	var tunDeps map[string]bool
	eachInstr(serve, func(i ssa.Instruction) {
		cc := callCommon(i)
		if cc == nil || cc.StaticCallee() == nil || cc.StaticCallee().Name() != "newWSHandler" {
			return
		}
		if tunDeps == nil {
			tunDeps = map[string]bool{}
		}
		for _, ft := range factsAt(i.Block()) {
			for h := range headerDeps(c, ft.Cond, 0) {
				tunDeps[h] = true
			}
		}
	})
	if xffDeps == nil || tunDeps == nil {
		c.undecided("C08.X3", "proxy|websocket decision sites", "the X-Forwarded-For write or the websocket tunnel construction was not found")
		return
	}
	// the XFF guard legitimately also reads the prior X-Forwarded-For value
	delete(xffDeps, "X-Forwarded-For")
	delete(tunDeps, "X-Forwarded-For")
	c.check("C08.X3", "proxy.addHeaders|websocket X-Forwarded-For decided by the same header as the tunnel", add.Pos(),
		depsStr(xffDeps) == depsStr(tunDeps) && xffDeps["Upgrade"] && len(xffDeps) == 1,
		"ServeHTTP chooses the websocket tunnel (which adds no X-Forwarded-For of its own) from request headers ["+depsStr(tunDeps)+"], but addHeaders decides whether to append the peer address from ["+depsStr(xffDeps)+"]: when the two can disagree (a client or earlier hop sending X-Forwarded-Proto / Forwarded), a tunnelled request reaches the upstream without the real peer in X-Forwarded-For")
}

// ---- C09.B3c: a relay writes what a read returned before looking at the read's error --------------------------
