package main

// C08 site model: header writes are found by ROLE (a mutating call of http.Header on a value that derives from
// Request.Header, keyed by a constant or by a field of config.Proxy) anywhere in the region of ServeHTTP, and every
// fact about such a write (key, value, guarding conditions) is evaluated in the CONTEXT of the chain of helper calls
// through which key/value/conditions were passed as parameters. This makes the rules independent of how addHeaders is
// cut into helpers (setTLSHeader(r, name, value), setIfAbsent(h, key, value), a bool "isTLS" parameter ...).

import (
	"fmt"
	"go/constant"
	"go/token"
	"go/types"
	"sort"
	"strings"

	"golang.org/x/tools/go/ssa"
)

// c08ctx is a chain of static calls, innermost first: ctx[0] is the call of the function the value lives in,
// ctx[1] the call of ctx[0]'s function, and so on.
type c08ctx []ssa.CallInstruction

// c08reqHeader: v is (derived from) the Header field of an *http.Request: r.Header itself, a local copy of it, a
// http.Header parameter of a helper that is passed r.Header at some call (however many callers the helper has), or the
// result of a repository accessor that returns it.
func c08reqHeader(v ssa.Value) bool {
	seen := map[ssa.Value]bool{}
	var walk func(v ssa.Value, d int) bool
	walk = func(v ssa.Value, d int) bool {
		if v == nil || seen[v] || d > 8 {
			return false
		}
		seen[v] = true
		if _, ok := fieldOf(v, "http.Request", "Header"); ok {
			return true
		}
		switch x := v.(type) {
		case *ssa.ChangeType:
			return walk(x.X, d+1)
		case *ssa.MakeInterface:
			return walk(x.X, d+1)
		case *ssa.Phi:
			for _, e := range x.Edges {
				if walk(e, d+1) {
					return true
				}
			}
		case *ssa.Parameter:
			idx := c08paramIndex(x)
			for _, s := range gSites[x.Parent()] {
				if args := s.Common().Args; idx >= 0 && idx < len(args) && walk(args[idx], d+1) {
					return true
				}
			}
		case *ssa.FreeVar:
			fn := x.Parent()
			if fn == nil || fn.Parent() == nil {
				return false
			}
			for k, fv := range fn.FreeVars {
				if fv != x {
					continue
				}
				found := false
				eachInstr(fn.Parent(), func(i ssa.Instruction) {
					if mc, ok := i.(*ssa.MakeClosure); ok && mc.Fn == fn && k < len(mc.Bindings) && !found {
						found = walk(mc.Bindings[k], d+1)
					}
				})
				return found
			}
		case *ssa.UnOp:
			if x.Op != token.MUL {
				return false
			}
			switch a := x.X.(type) {
			case *ssa.Alloc: // a local variable that escapes (captured by a closure)
				for _, r := range *a.Referrers() {
					if st, ok := r.(*ssa.Store); ok && st.Addr == a && walk(st.Val, d+1) {
						return true
					}
				}
			case *ssa.FreeVar:
				return walk(a, d+1)
			case *ssa.FieldAddr: // a field of a small struct that carries the header map
				for _, st := range c08storesToField(a.X.Type(), a.Field) {
					if walk(st.Val, d+1) {
						return true
					}
				}
				if al, ok := a.X.(*ssa.Alloc); ok {
					for _, r := range *al.Referrers() {
						if fa, ok := r.(*ssa.FieldAddr); ok && fa.Field == a.Field {
							for _, r2 := range *fa.Referrers() {
								if st, ok := r2.(*ssa.Store); ok && st.Addr == fa && walk(st.Val, d+1) {
									return true
								}
							}
						}
					}
				}
			}
		case *ssa.Field:
			for _, st := range c08storesToField(x.X.Type(), x.Field) {
				if walk(st.Val, d+1) {
					return true
				}
			}
		case *ssa.Call:
			if sc := x.Call.StaticCallee(); sc != nil && isRepoFn(sc) && len(sc.Blocks) > 0 && sc.Signature.Results().Len() == 1 {
				found := false
				eachInstr(sc, func(i ssa.Instruction) {
					if r, ok := i.(*ssa.Return); ok && !found {
						found = walk(r.Results[0], d+1)
					}
				})
				return found
			}
		}
		return false
	}
	return walk(v, 0)
}

// c08family: the function belongs to package proxy or one of its sub-packages.
func c08family(c *Ctx, f *ssa.Function) bool {
	sp := c.spkg("proxy")
	p := rootPkg(f)
	if sp == nil || p == nil {
		return false
	}
	return p == sp || strings.HasPrefix(p.Pkg.Path(), sp.Pkg.Path()+"/")
}

// c08region: like Ctx.region, but helpers may also live in a sub-package of package proxy.
func c08region(c *Ctx, depth int, roots ...*ssa.Function) []*ssa.Function {
	var out []*ssa.Function
	seen := map[*ssa.Function]bool{}
	var add func(f *ssa.Function, d int)
	add = func(f *ssa.Function, d int) {
		if f == nil || seen[f] || len(f.Blocks) == 0 || !isRepoFn(f) {
			return
		}
		seen[f] = true
		out = append(out, f)
		if d >= depth {
			return
		}
		eachInstr(f, func(i ssa.Instruction) {
			for _, op := range i.Operands(nil) {
				if op == nil || *op == nil {
					continue
				}
				var g *ssa.Function
				switch x := (*op).(type) {
				case *ssa.Function:
					g = unwrap(x)
				case *ssa.MakeClosure:
					if fn, ok := x.Fn.(*ssa.Function); ok {
						g = unwrap(fn)
					}
				}
				if g != nil && c08family(c, g) {
					add(g, d+1)
				}
			}
		})
	}
	for _, r := range roots {
		add(r, 0)
	}
	return out
}

func c08paramIndex(p *ssa.Parameter) int {
	if p.Parent() == nil {
		return -1
	}
	for k, q := range p.Parent().Params {
		if q == p {
			return k
		}
	}
	return -1
}

// c08arg maps a helper's parameter back through the call chain to the argument passed for it.
func c08arg(v ssa.Value, ctx c08ctx) (ssa.Value, c08ctx) {
	for {
		v = c08strip(v)
		p, ok := v.(*ssa.Parameter)
		if !ok || len(ctx) == 0 || ctx[0].Common().StaticCallee() != p.Parent() {
			return v, ctx
		}
		idx := c08paramIndex(p)
		args := ctx[0].Common().Args
		if idx < 0 || idx >= len(args) {
			return v, ctx
		}
		v, ctx = args[idx], ctx[1:]
	}
}

// c08strip removes value-preserving wrappers (conversions of named string types, header key canonicalisation).
func c08strip(v ssa.Value) ssa.Value {
	for {
		switch x := v.(type) {
		case *ssa.ChangeType:
			v = x.X
			continue
		case *ssa.Convert:
			if isStringType(x.Type()) && isStringType(x.X.Type()) {
				v = x.X
				continue
			}
		case *ssa.Call:
			n := calleeName(&x.Call)
			if (n == "net/http.CanonicalHeaderKey" || n == "net/textproto.CanonicalMIMEHeaderKey") && len(x.Call.Args) == 1 {
				v = x.Call.Args[0]
				continue
			}
		}
		return v
	}
}

// c08sitesOf: the static call sites through which a helper's parameter can be resolved (nil: not resolvable).
func c08sitesOf(fn *ssa.Function) []ssa.CallInstruction {
	if fn == nil {
		return nil
	}
	sites := gSites[fn]
	if len(sites) == 0 || len(sites) > 32 { // a generic set(h, key, value) helper is called once per header
		return nil
	}
	return sites
}

// ---- keys ---------------------------------------------------------------------------------------------------------

type c08key struct {
	kind string // "const" (a literal header name), "cfg" (a field of config.Proxy), "other"
	name string
}

type c08keyAt struct {
	key  c08key
	ctx  c08ctx   // the call chain under which the key has this value
	elem *c08elem // the key is a field of this element of a literal table the write loops over (else nil)
}

// c08elem is one row of a table of {key, value} rows a loop goes over: the rows of a slice / array literal of structs
// (or of [2]string), of such a table extended with append, merged from several branches, kept in a local cell or a
// package-level variable, returned by a helper or passed to the looping helper as a parameter, or the entries of a
// map literal ranged over.
type c08elem struct {
	table, index ssa.Value // the table and the index / iteration the element read of the key operand goes through
	row          c08row
	ord          int
}

// c08row is one row of such a table.
type c08row struct {
	holder ssa.Value      // the address through which the literal stores the columns of the row (struct / array rows)
	mu     *ssa.MapUpdate // the entry of a map literal (column 0: the key, column 1: the value)
	ctx    c08ctx         // the call chain under which the column values are to be read
}

// col: what the literal stores into column f of the row (ok=false: not given, or stored more than once).
func (r c08row) col(f int) (ssa.Value, bool) {
	if r.mu != nil {
		switch f {
		case 0:
			return r.mu.Key, true
		case 1:
			return r.mu.Value, true
		}
		return nil, false
	}
	if r.holder == nil || r.holder.Referrers() == nil {
		return nil, false
	}
	var val ssa.Value
	n := 0
	for _, ref := range *r.holder.Referrers() {
		var addr ssa.Value
		switch x := ref.(type) {
		case *ssa.FieldAddr:
			if x.Field == f {
				addr = x
			}
		case *ssa.IndexAddr: // a row that is a small array: [2]string{key, value}
			if k, isK := constInt(x.Index); isK && int(k) == f && x.X == r.holder {
				addr = x
			}
		}
		if addr == nil || addr.Referrers() == nil {
			continue
		}
		for _, r2 := range *addr.Referrers() {
			if st, ok := r2.(*ssa.Store); ok && st.Addr == addr {
				val = st.Val
				n++
			}
		}
	}
	return val, n == 1
}

// c08elemField: v reads column f of "the current row" of a table: d.key with d := tbl[i] / for _, d := range tbl
// (d a value, a pointer or a local copy of the element), tbl[i].key, d[0] for array rows, or the key / value variable of
// a range over a map. Returns the table operand, the index (iteration) operand and the column.
func c08elemField(v ssa.Value) (table, index ssa.Value, field int, ok bool) {
	switch x := v.(type) {
	case *ssa.Field:
		if t, i, ok := c08elemBase(x.X); ok {
			return t, i, x.Field, true
		}
	case *ssa.Index:
		if k, isK := constInt(x.Index); isK {
			if t, i, ok := c08elemBase(x.X); ok {
				return t, i, int(k), true
			}
		}
	case *ssa.UnOp:
		if x.Op != token.MUL {
			break
		}
		switch a := x.X.(type) {
		case *ssa.FieldAddr:
			if t, i, ok := c08elemBase(a.X); ok {
				return t, i, a.Field, true
			}
		case *ssa.IndexAddr:
			if k, isK := constInt(a.Index); isK {
				if _, isTbl := c08tableElemType(a.X.Type()).(*types.Basic); !isTbl {
					break // names[i]: a list, not a row
				}
				if t, i, ok := c08elemBase(a.X); ok {
					return t, i, int(k), true
				}
			}
		}
	case *ssa.Extract:
		if nx, isNext := x.Tuple.(*ssa.Next); isNext && !nx.IsString && (x.Index == 1 || x.Index == 2) {
			if rg, isRange := nx.Iter.(*ssa.Range); isRange {
				if _, isMap := rg.X.Type().Underlying().(*types.Map); isMap {
					return rg.X, nx, x.Index - 1, true
				}
			}
		}
	}
	return nil, nil, 0, false
}

// c08tableElemType: the element type of an array / slice / pointer to array (nil otherwise), underlying.
func c08tableElemType(t types.Type) types.Type {
	if p, ok := t.Underlying().(*types.Pointer); ok {
		t = p.Elem()
	}
	switch u := t.Underlying().(type) {
	case *types.Array:
		return u.Elem().Underlying()
	case *types.Slice:
		return u.Elem().Underlying()
	}
	return nil
}

// c08elemBase: x is (the address of / the value of / a local copy of) the element tbl[i] of a table.
func c08elemBase(x ssa.Value) (table, index ssa.Value, ok bool) {
	for k := 0; k < 4; k++ {
		switch y := x.(type) {
		case *ssa.IndexAddr:
			return y.X, y.Index, true
		case *ssa.Index:
			return y.X, y.Index, true
		case *ssa.UnOp:
			if y.Op != token.MUL {
				return nil, nil, false
			}
			x = y.X
		case *ssa.Alloc:
			// the loop variable / a local copy: assigned once, from the element
			var from ssa.Value
			if y.Referrers() == nil {
				return nil, nil, false
			}
			for _, r := range *y.Referrers() {
				if st, isSt := r.(*ssa.Store); isSt && st.Addr == y {
					if from != nil {
						return nil, nil, false
					}
					from = st.Val
				}
			}
			if from == nil {
				return nil, nil, false
			}
			x = from
		default:
			return nil, nil, false
		}
	}
	return nil, nil, false
}

// c08storedThrough: something is stored through the address (directly, or through a field / element address of it).
func c08storedThrough(addr ssa.Value, d int) bool {
	if addr.Referrers() == nil || d > 3 {
		return false
	}
	for _, r := range *addr.Referrers() {
		switch x := r.(type) {
		case *ssa.Store:
			if x.Addr == addr {
				return true
			}
		case *ssa.FieldAddr:
			if c08storedThrough(x, d+1) {
				return true
			}
		case *ssa.IndexAddr:
			if x.X == addr && c08storedThrough(x, d+1) {
				return true
			}
		}
	}
	return false
}

// c08rowsOf: the rows the table operand can hold, however the table was put together: a literal (rows given by
// constant index), append(table, rows...), a merge of tables, a local cell or a package-level variable assigned once,
// the result of a repository helper, a parameter of the looping helper (what the callers pass), a map literal.
// ok=false: some part of the table is not understood (the caller then falls back to the field-based view).
func c08rowsOf(table ssa.Value, ctx c08ctx) ([]c08row, bool) {
	var out []c08row
	seen := map[ssa.Value]bool{}
	var walk func(t ssa.Value, ctx c08ctx, d int) bool
	// the rows stored into the elements of a backing array
	arrayRows := func(arr *ssa.Alloc, ctx c08ctx) bool {
		if arr.Referrers() == nil {
			return false
		}
		type at struct {
			k   int64
			row c08row
		}
		var rows []at
		for _, r := range *arr.Referrers() {
			ia, isIA := r.(*ssa.IndexAddr)
			if !isIA {
				continue
			}
			if ia.Referrers() == nil {
				continue
			}
			k, isK := constInt(ia.Index)
			if !isK {
				if c08storedThrough(ia, 0) {
					return false
				}
				continue // tbl[i] only read: the loop itself
			}
			var holder ssa.Value = ia
			whole := 0
			for _, r2 := range *ia.Referrers() {
				st, isSt := r2.(*ssa.Store)
				if !isSt || st.Addr != ia {
					continue
				}
				// the row built in a temporary and stored as a whole (*(&arr[k]) = *complit), or a pointer row (&T{...})
				whole++
				switch v := st.Val.(type) {
				case *ssa.UnOp:
					tmp, isA := v.X.(*ssa.Alloc)
					if v.Op != token.MUL || !isA {
						return false
					}
					holder = tmp
				case *ssa.Alloc:
					holder = v
				default:
					return false
				}
			}
			if whole > 1 {
				return false
			}
			rows = append(rows, at{k, c08row{holder: holder, ctx: ctx}})
		}
		sort.SliceStable(rows, func(i, j int) bool { return rows[i].k < rows[j].k })
		for k := 1; k < len(rows); k++ {
			if rows[k].k == rows[k-1].k {
				return false // an element assigned again after the literal
			}
		}
		for _, r := range rows {
			out = append(out, r.row)
		}
		return true
	}
	walk = func(t ssa.Value, ctx c08ctx, d int) bool {
		t, ctx = c08arg(t, ctx)
		if t == nil || d > 10 {
			return false
		}
		if seen[t] {
			return true // a table grown in a loop: the rows of this operand are already collected
		}
		seen[t] = true
		switch x := t.(type) {
		case *ssa.Const:
			return x.IsNil()
		case *ssa.Slice:
			return walk(x.X, ctx, d+1)
		case *ssa.ChangeType:
			return walk(x.X, ctx, d+1)
		case *ssa.Phi:
			for _, e := range x.Edges {
				if !walk(e, ctx, d+1) {
					return false
				}
			}
			return true
		case *ssa.Alloc:
			if _, isArr := x.Type().Underlying().(*types.Pointer).Elem().Underlying().(*types.Array); isArr {
				return arrayRows(x, ctx)
			}
			return false
		case *ssa.MakeMap:
			if x.Referrers() == nil {
				return false
			}
			for _, r := range *x.Referrers() {
				switch y := r.(type) {
				case *ssa.MapUpdate:
					if y.Map != x {
						return false
					}
					out = append(out, c08row{mu: y, ctx: ctx})
				case *ssa.Range, *ssa.Lookup, *ssa.DebugRef:
				case *ssa.Call:
					if calleeName(&y.Call) != "builtin.len" {
						return false // handed to other code, which may add entries
					}
				default:
					return false
				}
			}
			return true
		case *ssa.UnOp:
			if x.Op != token.MUL {
				return false
			}
			switch a := x.X.(type) {
			case *ssa.Global:
				if len(gGlobalStores[a]) != 1 || gGlobalEscapes[a] {
					return false
				}
				return walk(gGlobalStores[a][0].Val, nil, d+1)
			case *ssa.Alloc:
				// a table variable that lives in a cell (captured, address taken): everything assigned to it
				if _, isArr := a.Type().Underlying().(*types.Pointer).Elem().Underlying().(*types.Array); isArr {
					return arrayRows(a, ctx) // an array literal used by value
				}
				if a.Referrers() == nil {
					return false
				}
				n := 0
				for _, r := range *a.Referrers() {
					if st, isSt := r.(*ssa.Store); isSt && st.Addr == a {
						n++
						if !walk(st.Val, ctx, d+1) {
							return false
						}
					}
				}
				return n > 0
			}
			return false
		case *ssa.Call:
			n := typeArgs.ReplaceAllString(calleeName(&x.Call), "")
			switch n {
			case "builtin.append", "slices.Concat":
				for _, a := range x.Call.Args {
					if !walk(a, ctx, d+1) {
						return false
					}
				}
				return true
			case "slices.Clone", "slices.Clip", "maps.Clone":
				return len(x.Call.Args) == 1 && walk(x.Call.Args[0], ctx, d+1)
			}
			sc := x.Call.StaticCallee()
			if sc == nil || !isRepoFn(sc) || len(sc.Blocks) == 0 || sc.Signature.Results().Len() != 1 || len(ctx) >= 3 {
				return false
			}
			inner := append(c08ctx{x}, ctx...)
			nRet, all := 0, true
			eachInstr(sc, func(i ssa.Instruction) {
				if r, isR := i.(*ssa.Return); isR && all {
					nRet++
					all = walk(r.Results[0], inner, d+1)
				}
			})
			return all && nRet > 0
		case *ssa.Parameter:
			// the table is handed to the looping helper: the rows of what every caller passes
			sites, idx := c08sitesOf(x.Parent()), c08paramIndex(x)
			if len(sites) == 0 || idx < 0 || !onlyStaticallyCalled(x.Parent()) {
				return false
			}
			for _, s := range sites {
				args := s.Common().Args
				if idx >= len(args) || !walk(args[idx], nil, d+1) {
					return false
				}
			}
			return true
		}
		return false
	}
	if !walk(table, ctx, 0) {
		return nil, false
	}
	return out, true
}

// c08keys resolves a header-key operand: a constant, a config.Proxy field, or a helper parameter (one instance per
// call site of the helper, recursively).
func c08keys(v ssa.Value, ctx c08ctx, depth int) []c08keyAt {
	v, ctx = c08arg(v, ctx)
	if k, ok := constString(v); ok {
		return []c08keyAt{{c08key{"const", k}, ctx, nil}}
	}
	if f, ok := c08cfgField(v); ok {
		return []c08keyAt{{c08key{"cfg", f}, ctx, nil}}
	}
	if p, ok := v.(*ssa.Parameter); ok && depth < 4 && len(ctx) == 0 {
		idx := c08paramIndex(p)
		var out []c08keyAt
		for _, s := range c08sitesOf(p.Parent()) {
			args := s.Common().Args
			if idx < 0 || idx >= len(args) {
				continue
			}
			for _, ka := range c08keys(args[idx], nil, depth+1) {
				out = append(out, c08keyAt{ka.key, append(c08ctx{s}, ka.ctx...), ka.elem})
			}
		}
		if len(out) > 0 {
			return out
		}
	}
	// the name is a column of the row of a table the code loops over: one instance per row
	if table, index, field, ok := c08elemField(v); ok && depth < 4 {
		if rows, ok := c08rowsOf(table, ctx); ok {
			var out []c08keyAt
			for n, row := range rows {
				val, given := row.col(field)
				if !given {
					out = nil // a row whose name column is not understood: no per-row view of this table
					break
				}
				for _, ka := range c08keys(val, row.ctx, depth+1) {
					out = append(out, c08keyAt{ka.key, ctx, &c08elem{table, index, row, n}})
				}
			}
			if len(out) > 0 {
				return out
			}
		}
	}
	// the name kept in a field of a carrier type of package proxy (tlsMarker{name: cfg.TLSHeader}.mark(h, secure))
	if depth < 4 {
		var stores []*ssa.Store
		switch x := v.(type) {
		case *ssa.Field:
			stores = c08storesToField(x.X.Type(), x.Field)
		case *ssa.UnOp:
			if fa, ok := x.X.(*ssa.FieldAddr); ok && x.Op == token.MUL {
				stores = c08storesToField(fa.X.Type(), fa.Field)
			}
		}
		if len(stores) > 0 {
			var out []c08keyAt
			for _, st := range stores {
				for _, ka := range c08keys(st.Val, nil, depth+1) {
					// the chain of the store is not the chain of the write: keep the write's own chain
					out = append(out, c08keyAt{ka.key, ctx, nil})
				}
			}
			return out
		}
	}
	if ph, ok := v.(*ssa.Phi); ok && depth < 4 {
		var out []c08keyAt
		for _, e := range ph.Edges {
			out = append(out, c08keys(e, ctx, depth+1)...)
		}
		return out
	}
	return []c08keyAt{{c08key{"other", shortPath(v)}, ctx, nil}}
}

// c08cfgField: v is a load of a field of config.Proxy; returns the field name.
func c08cfgField(v ssa.Value) (string, bool) {
	if u, isU := v.(*ssa.UnOp); isU && u.Op == token.MUL {
		v = u.X
	}
	switch x := v.(type) {
	case *ssa.FieldAddr:
		if namedIs(x.X.Type(), "config.Proxy") {
			return fieldName(x.X.Type(), x.Field), true
		}
	case *ssa.Field:
		if namedIs(x.X.Type(), "config.Proxy") {
			return fieldName(x.X.Type(), x.Field), true
		}
	}
	return "", false
}

// ---- header writes ------------------------------------------------------------------------------------------------

// c08write is one mutation of the request's header map, instantiated for one resolution of its key.
type c08write struct {
	fn    *ssa.Function
	instr ssa.Instruction
	cc    *ssa.CallCommon
	m     string // Set, Add, Del
	key   c08key
	ctx   c08ctx
	elem  *c08elem // the write is the instance for this element of a literal table (else nil)
}

// val: the value operand, mapped into the outermost context it can be resolved in; for a write in a loop over a
// literal table, the value the literal gives the SAME element.
func (w *c08write) val() (ssa.Value, c08ctx) {
	if len(w.cc.Args) < 3 {
		return nil, w.ctx
	}
	v, ctx := c08arg(w.cc.Args[2], w.ctx)
	if w.elem != nil {
		// the value column read from the SAME element as the name column
		if table, index, field, ok := c08elemField(v); ok {
			if table != w.elem.table || index != w.elem.index {
				return nil, ctx // the value of ANOTHER element than the name: cannot be said to be this header's value
			}
			if ev, ok := w.elem.row.col(field); ok {
				return ev, w.elem.row.ctx
			}
		}
	}
	return v, ctx
}

// outer: the instruction that stands for this write in the outermost function of its context.
func (w *c08write) outer() ssa.Instruction {
	if len(w.ctx) > 0 {
		return w.ctx[len(w.ctx)-1]
	}
	return w.instr
}

// chain: the instructions that stand for this write in each frame: the write itself, the calls of its context, and
// above them the call sites of helpers that are only called from one place.
func (w *c08write) chain() []ssa.Instruction {
	out := []ssa.Instruction{w.instr}
	for _, s := range w.ctx {
		out = append(out, s)
	}
	for k := 0; k < maxHops; k++ {
		fn := out[len(out)-1].Parent()
		sites := gSites[fn]
		if fn == nil || len(sites) != 1 || !onlyStaticallyCalled(fn) || sites[0].Parent() == fn {
			break
		}
		out = append(out, sites[0])
	}
	return out
}

func (w *c08write) where() string { return fnKey(w.outer().Parent()) }

// c08writes: all Set/Add/Del calls on the request's header in fns, one entry per resolved key.
func c08writes(fns []*ssa.Function) []*c08write {
	var out []*c08write
	eachInstrOf(fns, func(f *ssa.Function, i ssa.Instruction) {
		cc := callCommon(i)
		if cc == nil || cc.IsInvoke() || len(cc.Args) < 2 {
			return
		}
		n := calleeName(cc)
		if !strings.HasPrefix(n, "(net/http.Header).") {
			return
		}
		m := strings.TrimPrefix(n, "(net/http.Header).")
		if m != "Set" && m != "Add" && m != "Del" {
			return
		}
		if !c08reqHeader(cc.Args[0]) {
			return
		}
		for _, ka := range c08keys(cc.Args[1], nil, 0) {
			// a set(h, key, value) helper shared with the response headers: the receiver in THIS chain
			if recv, _ := c08arg(cc.Args[0], ka.ctx); !c08reqHeader(recv) {
				continue
			}
			out = append(out, &c08write{fn: f, instr: i, cc: cc, m: m, key: ka.key, ctx: ka.ctx, elem: ka.elem})
		}
	})
	return out
}

// ---- facts in context -------------------------------------------------------------------------------------------

type c08fact struct {
	Fact
	ctx c08ctx
}

// c08handoff: the instruction hands the request to the upstream handler (an invocation of http.Handler.ServeHTTP),
// directly or in a helper.
var c08handoff = liftMay(func(i ssa.Instruction) bool {
	cc := callCommon(i)
	if cc == nil {
		return false
	}
	if cc.IsInvoke() {
		return cc.Method.Name() == "ServeHTTP"
	}
	// a concrete handler (*httputil.ReverseProxy, a handler type of package proxy) called directly
	if sc := cc.StaticCallee(); sc != nil {
		return sc.Name() == "ServeHTTP" && sc.Signature.Recv() != nil
	}
	// a handler kept as a function value: h(w, r) with h an http.HandlerFunc
	return namedIs(cc.Value.Type(), "net/http.HandlerFunc")
})

func c08localFacts(b *ssa.BasicBlock, ctx c08ctx) []c08fact {
	var out []c08fact
	for _, f := range localFactsAt(b) {
		out = append(out, c08fact{f, ctx})
	}
	return out
}

// c08facts: the branch conditions that hold at block b when it is reached through the call chain ctx: the local
// facts of every frame of the chain, and above the outermost frame the facts at the call site of a helper that is
// only called from one place (like factsAt).
func c08facts(b *ssa.BasicBlock, ctx c08ctx) []c08fact {
	return c08factsDepth(b, ctx, 0)
}

func c08factsDepth(b *ssa.BasicBlock, ctx c08ctx, depth int) []c08fact {
	if b == nil {
		return nil
	}
	out := c08localFacts(b, ctx)
	if len(ctx) > 0 {
		return append(out, c08factsDepth(ctx[0].Block(), ctx[1:], depth)...)
	}
	if fn := b.Parent(); fn != nil && depth < maxHops {
		if sites := gSites[fn]; len(sites) == 1 && onlyStaticallyCalled(fn) {
			if _, isGo := sites[0].(*ssa.Go); !isGo && sites[0].Block() != nil && sites[0].Parent() != fn {
				out = append(out, c08factsDepth(sites[0].Block(), nil, depth+1)...)
			}
		}
	}
	return out
}

// c08atom decides whether "v == truth" establishes the atomic property (in call context ctx).
type c08atom func(v ssa.Value, truth bool, ctx c08ctx) bool

// c08implies: does "v == truth" imply the atomic property? Looks through negation, the phi of && / ||, boolean
// helper parameters (to the arguments passed) and boolean repository predicates (to what they return).
func c08implies(v ssa.Value, truth bool, ctx c08ctx, atom c08atom, depth int) bool {
	if v == nil || depth > 8 {
		return false
	}
	if atom(v, truth, ctx) {
		return true
	}
	switch x := v.(type) {
	case *ssa.UnOp:
		if x.Op == token.NOT {
			return c08implies(x.X, !truth, ctx, atom, depth+1)
		}
		if fa, ok := x.X.(*ssa.FieldAddr); ok && x.Op == token.MUL {
			return c08fieldImplies(fa.X.Type(), fa.Field, truth, atom, depth)
		}
	case *ssa.Field:
		return c08fieldImplies(x.X.Type(), x.Field, truth, atom, depth)
	case *ssa.Phi:
		n := 0
		for k, e := range x.Edges {
			if cb, ok := constBool(e); ok && cb != truth {
				continue
			}
			n++
			if _, isK := constBool(e); !isK && c08implies(e, truth, ctx, atom, depth+1) {
				continue
			}
			if c08edgeKnown(x.Block().Preds[k], x.Block(), ctx, atom, depth+1) {
				continue
			}
			return false
		}
		return n > 0
	case *ssa.Parameter:
		if a, rest := c08arg(x, ctx); a != ssa.Value(x) {
			return c08implies(a, truth, rest, atom, depth+1)
		}
		fn := x.Parent()
		if fn == nil || !onlyStaticallyCalled(fn) {
			return false
		}
		sites := c08sitesOf(fn)
		idx := c08paramIndex(x)
		if len(sites) == 0 || idx < 0 {
			return false
		}
		for _, s := range sites {
			args := s.Common().Args
			if idx >= len(args) || !c08implies(args[idx], truth, nil, atom, depth+1) {
				return false
			}
		}
		return true
	case *ssa.Call:
		sc := x.Call.StaticCallee()
		if sc == nil || !isRepoFn(sc) || len(sc.Blocks) == 0 || sc.Signature.Results().Len() != 1 {
			return false
		}
		inner := append(c08ctx{x}, ctx...)
		n, ok := 0, true
		eachInstr(sc, func(i ssa.Instruction) {
			r, isR := i.(*ssa.Return)
			if !isR || !ok {
				return
			}
			res := r.Results[0]
			if cb, isK := constBool(res); isK && cb != truth {
				return
			}
			n++
			if _, isK := constBool(res); !isK && c08implies(res, truth, inner, atom, depth+1) {
				return
			}
			if c08known(r.Block(), inner, atom, depth+1) {
				return
			}
			ok = false
		})
		return ok && n > 0
	}
	return false
}

// c08fieldImplies: a verdict kept in a boolean field of a carrier type of package proxy (clientConn.secure): every value
// stored into the field implies the atom; for the truth value false also no instance may be built without the field
// (it would be false without anything having been tested).
func c08fieldImplies(t types.Type, field int, truth bool, atom c08atom, depth int) bool {
	if c08carrier(t) == nil {
		return false
	}
	st, isStruct := c08carrier(t).Underlying().(*types.Struct)
	if !isStruct || field >= st.NumFields() || !c08isBoolType(st.Field(field).Type()) {
		return false
	}
	return c08fieldAlwaysIf(t, field, !truth, func(val ssa.Value) bool {
		if cb, isK := constBool(val); isK {
			return cb != truth // the opposite constant can never yield this truth value
		}
		return c08implies(val, truth, nil, atom, depth+1)
	})
}

func c08isBoolType(t types.Type) bool {
	b, ok := t.Underlying().(*types.Basic)
	return ok && b.Info()&types.IsBoolean != 0
}

// c08known: some fact that holds at b (in context ctx) implies the atomic property.
func c08known(b *ssa.BasicBlock, ctx c08ctx, atom c08atom, depth int) bool {
	for _, f := range c08facts(b, ctx) {
		if c08implies(f.Cond, f.Truth, f.ctx, atom, depth) {
			return true
		}
	}
	// not established on the way down: a helper with several call sites (c08facts climbs through single call sites
	// only) - the property is known if it is known at EVERY place the outermost function of the chain is called from
	if b == nil || depth > 4 {
		return false
	}
	outer := b.Parent()
	if len(ctx) > 0 {
		outer = ctx[len(ctx)-1].Parent()
	}
	sites := c08sitesOf(outer)
	if outer == nil || len(sites) < 2 || !onlyStaticallyCalled(outer) {
		return false
	}
	for _, s := range sites {
		if _, isGo := s.(*ssa.Go); isGo || s.Block() == nil || s.Parent() == outer {
			return false
		}
		if !c08known(s.Block(), nil, atom, depth+2) {
			return false
		}
	}
	return true
}

// c08edgeKnown: the property is known on the CFG edge pred -> succ.
func c08edgeKnown(pred, succ *ssa.BasicBlock, ctx c08ctx, atom c08atom, depth int) bool {
	if c08known(pred, ctx, atom, depth) {
		return true
	}
	if len(pred.Instrs) == 0 {
		return false
	}
	iff, ok := pred.Instrs[len(pred.Instrs)-1].(*ssa.If)
	if !ok || len(pred.Succs) != 2 || pred.Succs[0] == pred.Succs[1] {
		return false
	}
	return c08implies(iff.Cond, pred.Succs[0] == succ, ctx, atom, depth)
}

// ---- atoms ----------------------------------------------------------------------------------------------------------

// c08isTLS: v is the TLS field of a request - directly, or carried unchanged: a helper parameter that is passed one at
// every call, a field of a small carrier type of package proxy (connInfo.tls) that is only ever given one, the result
// of an accessor that returns one on every path.
func c08isTLS(v ssa.Value, ctx c08ctx) bool {
	return c08allSources(v, ctx, func(x ssa.Value) bool {
		_, ok := fieldOf(x, "http.Request", "TLS")
		return ok
	}, 0, map[ssa.Value]bool{})
}

// c08allSources: EVERY source of v (through merges, helper parameters at all their call sites, local cells, fields of
// carrier types of package proxy, results of repository accessors) satisfies src. Unknown shapes: false.
func c08allSources(v ssa.Value, ctx c08ctx, src func(ssa.Value) bool, depth int, seen map[ssa.Value]bool) bool {
	v, ctx = c08arg(v, ctx)
	if v == nil {
		return false
	}
	if src(v) {
		return true
	}
	if depth > 8 || seen[v] {
		return false
	}
	seen[v] = true
	defer delete(seen, v)
	all := func(vals []ssa.Value, ctx c08ctx) bool {
		if len(vals) == 0 {
			return false
		}
		for _, x := range vals {
			if !c08allSources(x, ctx, src, depth+1, seen) {
				return false
			}
		}
		return true
	}
	returnsOf := func(call *ssa.Call, idx int) ([]ssa.Value, bool) {
		sc := call.Call.StaticCallee()
		if sc == nil || !isRepoFn(sc) || len(sc.Blocks) == 0 {
			return nil, false
		}
		var out []ssa.Value
		eachInstr(sc, func(i ssa.Instruction) {
			if r, ok := i.(*ssa.Return); ok && idx < len(r.Results) {
				out = append(out, r.Results[idx])
			}
		})
		return out, true
	}
	switch x := v.(type) {
	case *ssa.Phi:
		return all(x.Edges, ctx)
	case *ssa.ChangeType:
		return c08allSources(x.X, ctx, src, depth+1, seen)
	case *ssa.Parameter:
		if len(ctx) > 0 || x.Parent() == nil || !onlyStaticallyCalled(x.Parent()) {
			return false
		}
		sites, idx := c08sitesOf(x.Parent()), c08paramIndex(x)
		if len(sites) == 0 || idx < 0 {
			return false
		}
		var args []ssa.Value
		for _, s := range sites {
			a := s.Common().Args
			if idx >= len(a) {
				return false
			}
			args = append(args, a[idx])
		}
		return all(args, nil)
	case *ssa.Field:
		return c08fieldAlways(x.X.Type(), x.Field, func(val ssa.Value) bool { return c08allSources(val, nil, src, depth+1, seen) })
	case *ssa.UnOp:
		if x.Op != token.MUL {
			return false
		}
		switch a := x.X.(type) {
		case *ssa.FieldAddr:
			return c08fieldAlways(a.X.Type(), a.Field, func(val ssa.Value) bool { return c08allSources(val, nil, src, depth+1, seen) })
		case *ssa.Alloc:
			var vals []ssa.Value
			if a.Referrers() != nil {
				for _, r := range *a.Referrers() {
					if st, ok := r.(*ssa.Store); ok && st.Addr == a {
						vals = append(vals, st.Val)
					}
				}
			}
			return all(vals, ctx)
		}
	case *ssa.Call:
		if x.Call.Signature().Results().Len() != 1 {
			return false
		}
		if rs, ok := returnsOf(x, 0); ok {
			return all(rs, append(c08ctx{x}, ctx...))
		}
	case *ssa.Extract:
		if call, ok := x.Tuple.(*ssa.Call); ok {
			if rs, ok := returnsOf(call, x.Index); ok {
				return all(rs, append(c08ctx{call}, ctx...))
			}
		}
	}
	return false
}

// ---- fields of carrier types ------------------------------------------------------------------------------------------

// c08cx: the analysis context of the current run (set by runC08 / runC08A4); the indexes below are per context.
var (
	c08cx         *Ctx
	c08fieldIndex map[c08fieldKey][]*ssa.Store
	c08allocIndex map[*types.Named][]*ssa.Alloc
)

type c08fieldKey struct {
	t     *types.Named
	field int
}

func c08setCtx(c *Ctx) {
	if c08cx == c {
		return
	}
	c08cx, c08fieldIndex, c08allocIndex = c, nil, nil
}

// c08carrier: the named struct type (through one pointer) if it is declared in package proxy or a sub-package.
func c08carrier(t types.Type) *types.Named {
	if p, ok := t.Underlying().(*types.Pointer); ok {
		t = p.Elem()
	}
	n, _ := types.Unalias(t).(*types.Named)
	if n == nil || n.Obj().Pkg() == nil || c08cx == nil {
		return nil
	}
	if _, isStruct := n.Underlying().(*types.Struct); !isStruct {
		return nil
	}
	sp := c08cx.spkg("proxy")
	if sp == nil {
		return nil
	}
	if path := n.Obj().Pkg().Path(); path != sp.Pkg.Path() && !strings.HasPrefix(path, sp.Pkg.Path()+"/") {
		return nil
	}
	return n
}

func c08buildFieldIndex() {
	if c08fieldIndex != nil || c08cx == nil {
		return
	}
	c08fieldIndex = map[c08fieldKey][]*ssa.Store{}
	c08allocIndex = map[*types.Named][]*ssa.Alloc{}
	for _, f := range c08cx.AllFns {
		if !c08family(c08cx, f) {
			continue
		}
		eachInstr(f, func(i ssa.Instruction) {
			switch x := i.(type) {
			case *ssa.Store:
				if fa, ok := x.Addr.(*ssa.FieldAddr); ok {
					if n := c08carrier(fa.X.Type()); n != nil {
						k := c08fieldKey{n, fa.Field}
						c08fieldIndex[k] = append(c08fieldIndex[k], x)
					}
				}
			case *ssa.Alloc:
				if n := c08carrier(x.Type()); n != nil {
					c08allocIndex[n] = append(c08allocIndex[n], x)
				}
			}
		})
	}
}

// c08storesToField: the stores to field `field` of the carrier type t anywhere in package proxy and its sub-packages
// (nil for types of other packages: http.Request, config.Proxy ...).
func c08storesToField(t types.Type, field int) []*ssa.Store {
	n := c08carrier(t)
	if n == nil {
		return nil
	}
	c08buildFieldIndex()
	return c08fieldIndex[c08fieldKey{n, field}]
}

// c08fieldAlways: the field of the carrier type always holds a value that satisfies ok: every store to it does, there
// is at least one, and no instance is built without the field being given (a struct literal that leaves it out would
// carry the zero value).
func c08fieldAlways(t types.Type, field int, ok func(ssa.Value) bool) bool {
	return c08fieldAlwaysIf(t, field, true, ok)
}

// c08fieldAlwaysIf: like c08fieldAlways; the zero value of an instance built without the field matters only if noZero.
func c08fieldAlwaysIf(t types.Type, field int, noZero bool, ok func(ssa.Value) bool) bool {
	n := c08carrier(t)
	if n == nil {
		return false
	}
	stores := c08storesToField(t, field)
	if len(stores) == 0 {
		return false
	}
	for _, st := range stores {
		if !ok(st.Val) {
			return false
		}
	}
	if !noZero {
		return true
	}
	for _, a := range c08allocIndex[n] {
		if a.Referrers() == nil {
			continue
		}
		given, copied := false, false
		for _, r := range *a.Referrers() {
			switch x := r.(type) {
			case *ssa.FieldAddr:
				if x.Field == field && x.Referrers() != nil {
					for _, r2 := range *x.Referrers() {
						if st, isSt := r2.(*ssa.Store); isSt && st.Addr == x {
							given = true
						}
					}
				}
			case *ssa.Store:
				if x.Addr == a {
					copied = true // the cell of a parameter / a copy of an existing instance
				}
			}
		}
		if !given && !copied {
			return false
		}
	}
	return true
}

// c08tlsAtom(nonNil): "r.TLS != nil" (nonNil) resp. "r.TLS == nil" is established.
func c08tlsAtom(nonNil bool) c08atom {
	return func(v ssa.Value, truth bool, ctx c08ctx) bool {
		b, ok := v.(*ssa.BinOp)
		if !ok || (b.Op != token.EQL && b.Op != token.NEQ) {
			return false
		}
		var other ssa.Value
		switch {
		case isNilConst(b.Y):
			other = b.X
		case isNilConst(b.X):
			other = b.Y
		default:
			return false
		}
		if !c08isTLS(other, ctx) {
			return false
		}
		return ((b.Op == token.NEQ) == truth) == nonNil
	}
}

// c08sameKey: the key operand k (in context ctx) denotes the header want (written with operand wantVal in wantCtx).
func c08sameKey(k ssa.Value, ctx c08ctx, want c08key, wantVal ssa.Value, wantCtx c08ctx) bool {
	rk, _ := c08arg(k, ctx)
	if s, ok := constString(rk); ok {
		return want.kind == "const" && s == want.name
	}
	if f, ok := c08cfgField(rk); ok {
		return want.kind == "cfg" && f == want.name
	}
	if wantVal == nil {
		return false
	}
	rw, _ := c08arg(wantVal, wantCtx)
	if rk == rw || c08strip(k) == c08strip(wantVal) {
		return true
	}
	// the same column of the same row of a table read twice (d.key / d[0] / the key variable of a range over a map)
	if ta, ia, fa, okA := c08elemField(rk); okA {
		if tb, ib, fb, okB := c08elemField(rw); okB && ta == tb && ia == ib && fa == fb {
			return true
		}
	}
	// the same field of the same element / struct value read twice (d.key in the test and in the write)
	if fa, isA := rk.(*ssa.Field); isA {
		if fb, isB := rw.(*ssa.Field); isB {
			return fa.X == fb.X && fa.Field == fb.Field
		}
	}
	if ua, isA := rk.(*ssa.UnOp); isA && ua.Op == token.MUL {
		if ub, isB := rw.(*ssa.UnOp); isB && ub.Op == token.MUL {
			fa, okA := ua.X.(*ssa.FieldAddr)
			fb, okB := ub.X.(*ssa.FieldAddr)
			if okA && okB && fa.Field == fb.Field {
				if fa.X == fb.X {
					return true
				}
				// tbl[i].key twice: the same table at the same index
				ta, ia, okA := c08elemBase(fa.X)
				tb, ib, okB := c08elemBase(fb.X)
				return okA && okB && ta == tb && ia == ib
			}
		}
	}
	return false
}

// c08absentAtom: "the request carries no (non-empty) header <key>" is established: Get(key) == "" or len(Get(key)) == 0.
func c08absentAtom(want c08key, wantVal ssa.Value, wantCtx c08ctx) c08atom {
	var isGetD func(v ssa.Value, ctx c08ctx, depth int) bool
	isGetD = func(v ssa.Value, ctx c08ctx, depth int) bool {
		call, ok := v.(*ssa.Call)
		if !ok {
			return false
		}
		if calleeName(&call.Call) == "(net/http.Header).Get" && len(call.Call.Args) >= 2 && c08reqHeader(call.Call.Args[0]) {
			return c08sameKey(call.Call.Args[1], ctx, want, wantVal, wantCtx)
		}
		// an accessor of a wrapper type around the header map: func (rh *reqHeaders) get(key string) string { return rh.h.Get(key) }
		sc := call.Call.StaticCallee()
		if depth >= 2 || sc == nil || !isRepoFn(sc) || len(sc.Blocks) == 0 || sc.Signature.Results().Len() != 1 {
			return false
		}
		inner := append(c08ctx{call}, ctx...)
		n, all := 0, true
		eachInstr(sc, func(i ssa.Instruction) {
			if r, isR := i.(*ssa.Return); isR {
				n++
				if !isGetD(r.Results[0], inner, depth+1) {
					all = false
				}
			}
		})
		return n > 0 && all
	}
	isGet := func(v ssa.Value, ctx c08ctx) bool { return isGetD(v, ctx, 0) }
	return func(v ssa.Value, truth bool, ctx c08ctx) bool {
		empty, ok := c08emptyTest(v, truth, func(x ssa.Value) bool { return isGet(x, ctx) })
		return ok && empty
	}
}

// c08emptyTest: "v == truth" is a test of the text subject against the empty string - subject == "", subject != "",
// len(subject) == 0 / > 0 / < 1 ..., constant on either side. Returns whether the subject is then known to be empty
// (true) or known to be non-empty (false).
func c08emptyTest(v ssa.Value, truth bool, subject func(ssa.Value) bool) (empty bool, ok bool) {
	b, isB := v.(*ssa.BinOp)
	if !isB {
		return false, false
	}
	x, y, op := b.X, b.Y, b.Op
	if _, isK := x.(*ssa.Const); isK { // constant on the left: mirror
		x, y = y, x
		switch op {
		case token.LSS:
			op = token.GTR
		case token.GTR:
			op = token.LSS
		case token.LEQ:
			op = token.GEQ
		case token.GEQ:
			op = token.LEQ
		}
	}
	if s, isS := constString(y); isS && s == "" && subject(x) {
		switch op {
		case token.EQL:
			return truth, true
		case token.NEQ:
			return !truth, true
		}
		return false, false
	}
	ln, isLen := x.(*ssa.Call)
	if !isLen || calleeName(&ln.Call) != "builtin.len" || len(ln.Call.Args) != 1 || !subject(ln.Call.Args[0]) {
		return false, false
	}
	n, isN := constInt(y)
	if !isN {
		return false, false
	}
	switch {
	case op == token.EQL && n == 0, op == token.LEQ && n == 0, op == token.LSS && n == 1:
		return truth, true
	case op == token.NEQ && n == 0, op == token.GTR && n == 0, op == token.GEQ && n == 1:
		return !truth, true
	}
	return false, false
}

// ---- dependence on client headers ------------------------------------------------------------------------------------

// c08deps: the request-header keys the value depends on (data, and the control dependence of merges and of the
// returns of repository predicates), following helper parameters to the arguments passed for them.
func c08deps(v ssa.Value, ctx c08ctx) map[string]bool {
	out := map[string]bool{}
	seen := map[ssa.Value]bool{}
	var walk func(x ssa.Value, ctx c08ctx, d int)
	addKey := func(k ssa.Value, ctx c08ctx) {
		rk, _ := c08arg(k, ctx)
		if s, ok := constString(rk); ok {
			out[s] = true
			return
		}
		// a helper parameter, a field of a carrier type, the key column of a literal table: the names it can take
		found := false
		for _, ka := range c08keys(rk, nil, 0) {
			if ka.key.kind == "const" {
				out[ka.key.name], found = true, true
			}
		}
		if found {
			return
		}
		out["<computed>"] = true
	}
	walk = func(x ssa.Value, ctx c08ctx, d int) {
		if x == nil || seen[x] || d > 40 {
			return
		}
		seen[x] = true
		switch y := x.(type) {
		case *ssa.Call:
			n := calleeName(&y.Call)
			if (n == "(net/http.Header).Get" || n == "(net/http.Header).Values") && len(y.Call.Args) >= 2 && c08reqHeader(y.Call.Args[0]) {
				addKey(y.Call.Args[1], ctx)
				return
			}
			if sc := y.Call.StaticCallee(); sc != nil && isRepoFn(sc) && len(sc.Blocks) > 0 {
				if len(ctx) >= 3 {
					return
				}
				inner := append(c08ctx{y}, ctx...)
				eachInstr(sc, func(i ssa.Instruction) {
					r, ok := i.(*ssa.Return)
					if !ok {
						return
					}
					for _, res := range r.Results {
						walk(res, inner, d+1)
					}
					// and the conditions the return is control-dependent on
					for _, ft := range localFactsAt(r.Block()) {
						walk(ft.Cond, inner, d+1)
					}
				})
				return
			}
			if c08isBuilderString(n) && len(y.Call.Args) >= 1 {
				for _, wv := range c08builderWrites(y.Call.Args[0], 0) {
					walk(wv, ctx, d+1)
				}
				return
			}
			if isTransparent(n) || strings.HasPrefix(n, "builtin.") || strings.HasPrefix(n, "slices.") || strings.HasPrefix(n, "fmt.Sprint") {
				for _, a := range y.Call.Args {
					walk(a, ctx, d+1)
				}
			}
		case *ssa.Lookup:
			if c08reqHeader(y.X) {
				addKey(y.Index, ctx)
				return
			}
			walk(y.X, ctx, d+1)
			// defaultPort[claimedScheme]: what selects the entry of a table decides the value
			walk(y.Index, ctx, d+1)
		case *ssa.Phi:
			for _, e := range y.Edges {
				walk(e, ctx, d+1)
			}
			// control dependence of the merge
			// (function-local conditions only: what guards the CALL of a helper is the guard of the write, not a
			// dependence of the value the helper computes)
			// Predecessors that bring the SAME value form one group: a condition decides the merge only if it holds
			// for every member of its group (what tells the members of a group apart - the branches inside a loop body
			// that all continue with the same index - does not influence the merged value).
			type fk struct {
				c ssa.Value
				t bool
			}
			groupOf := func(e ssa.Value) string {
				if k, isK := e.(*ssa.Const); isK {
					return "const:" + k.String()
				}
				return fmt.Sprintf("%p", e)
			}
			groups := map[string][]*ssa.BasicBlock{}
			for k, e := range y.Edges {
				g := groupOf(e)
				groups[g] = append(groups[g], y.Block().Preds[k])
			}
			if len(groups) > 1 {
				for _, preds := range groups {
					count := map[fk]int{}
					for _, p := range preds {
						seenF := map[fk]bool{}
						for _, ft := range localFactsAt(p) {
							if k := (fk{ft.Cond, ft.Truth}); !seenF[k] {
								seenF[k] = true
								count[k]++
							}
						}
					}
					for k, n := range count {
						if n == len(preds) {
							walk(k.c, ctx, d+1)
						}
					}
				}
			}
		case *ssa.Parameter:
			if a, rest := c08arg(y, ctx); a != ssa.Value(y) {
				walk(a, rest, d+1)
				return
			}
			idx := c08paramIndex(y)
			for _, s := range c08sitesOf(y.Parent()) {
				if args := s.Common().Args; idx >= 0 && idx < len(args) {
					walk(args[idx], nil, d+1)
				}
			}
		case *ssa.FreeVar:
			fn := y.Parent()
			if fn == nil || fn.Parent() == nil {
				return
			}
			for k, fv := range fn.FreeVars {
				if fv != y {
					continue
				}
				eachInstr(fn.Parent(), func(i ssa.Instruction) {
					if mc, ok := i.(*ssa.MakeClosure); ok && mc.Fn == fn && k < len(mc.Bindings) {
						walk(mc.Bindings[k], nil, d+1)
					}
				})
			}
		case *ssa.Alloc:
			if refs := y.Referrers(); refs != nil {
				for _, r := range *refs {
					switch z := r.(type) {
					case *ssa.Store:
						if z.Addr == y {
							walk(z.Val, ctx, d+1)
						}
					case *ssa.IndexAddr:
						for _, r2 := range *z.Referrers() {
							if st, ok := r2.(*ssa.Store); ok && st.Addr == z {
								walk(st.Val, ctx, d+1)
							}
						}
					case *ssa.FieldAddr: // a struct literal used as a value (a map key, an argument)
						for _, r2 := range *z.Referrers() {
							if st, ok := r2.(*ssa.Store); ok && st.Addr == z {
								walk(st.Val, ctx, d+1)
							}
						}
					}
				}
			}
		case *ssa.BinOp:
			// kindOf(r) == kindWebsocket, with kindOf returning constants only: the comparison is decided by what
			// decides that THIS constant is returned (the control dependences of those returns), not by what tells the
			// other constants apart
			if y.Op == token.EQL || y.Op == token.NEQ {
				for _, pair := range [][2]ssa.Value{{y.X, y.Y}, {y.Y, y.X}} {
					call, isCall := pair[0].(*ssa.Call)
					k, isK := pair[1].(*ssa.Const)
					if !isCall || !isK || k.Value == nil || len(ctx) >= 3 {
						continue
					}
					if rets, ok := c08constReturns(call); ok {
						inner := append(c08ctx{call}, ctx...)
						for _, r := range rets {
							if rk := r.Results[0].(*ssa.Const); rk.Value != nil && constant.Compare(rk.Value, token.EQL, k.Value) {
								for _, ctl := range c08ctlLocal(r.Block(), inner) {
									walk(ctl.cond, inner, d+1)
								}
							}
						}
						return
					}
				}
			}
			walk(y.X, ctx, d+1)
			walk(y.Y, ctx, d+1)
		case *ssa.UnOp:
			walk(y.X, ctx, d+1)
		case *ssa.FieldAddr:
			// a field of a carrier type of package proxy (forwarder.ws, clientConn.secure): what is stored into it
			for _, st := range c08storesToField(y.X.Type(), y.Field) {
				walk(st.Val, nil, d+1)
			}
		case *ssa.Field:
			if c08carrier(y.X.Type()) != nil {
				for _, st := range c08storesToField(y.X.Type(), y.Field) {
					walk(st.Val, nil, d+1)
				}
				return
			}
			walk(y.X, ctx, d+1)
		case *ssa.Extract:
			walk(y.Tuple, ctx, d+1)
		case *ssa.Slice:
			walk(y.X, ctx, d+1)
		case *ssa.Index:
			walk(y.X, ctx, d+1)
		case *ssa.IndexAddr:
			walk(y.X, ctx, d+1)
		case *ssa.Convert:
			walk(y.X, ctx, d+1)
		case *ssa.ChangeType:
			walk(y.X, ctx, d+1)
		case *ssa.MakeInterface:
			walk(y.X, ctx, d+1)
		case *ssa.TypeAssert:
			walk(y.X, ctx, d+1)
		}
	}
	walk(v, ctx, 0)
	return out
}

// c08constReturns: the call is a static call of a repository function with one result of a non-boolean basic type all
// of whose returns are constants of the same kind (an enum-like classification); returns them.
func c08constReturns(call *ssa.Call) ([]*ssa.Return, bool) {
	sc := call.Call.StaticCallee()
	if sc == nil || !isRepoFn(sc) || len(sc.Blocks) == 0 || sc.Signature.Results().Len() != 1 {
		return nil, false
	}
	if b, ok := sc.Signature.Results().At(0).Type().Underlying().(*types.Basic); !ok || b.Info()&types.IsBoolean != 0 {
		return nil, false
	}
	var out []*ssa.Return
	ok := true
	eachInstr(sc, func(i ssa.Instruction) {
		r, isR := i.(*ssa.Return)
		if !isR {
			return
		}
		if k, isK := r.Results[0].(*ssa.Const); !isK || k.Value == nil {
			ok = false
			return
		}
		out = append(out, r)
	})
	return out, ok && len(out) > 0
}

// c08clientDep: the value depends on a header the client sent; returns one such key.
func c08clientDep(v ssa.Value, ctx c08ctx) (string, bool) {
	if v == nil {
		return "", false
	}
	if d := c08deps(v, ctx); len(d) > 0 {
		return depsStr(d), true
	}
	return dependsOnClientHeader(v)
}

// c08ctl is a branch condition on which reaching a block is control dependent.
type c08ctl struct {
	cond ssa.Value
	ctx  c08ctx
	gate bool // when control does not go on to the block, the request is not handed to an upstream handler at all
	then bool // the outcome of the condition with which control goes on towards the block
}

// c08ctlLocal: the conditions of the function's branches that decide whether b is reached: the (transitive) control
// dependences of b - every If of which one branch always leads on to b (or to a block b depends on) and the other does
// not. Unlike the dominating facts this sees both operands of `a || b`.
func c08ctlLocal(b *ssa.BasicBlock, ctx c08ctx) []c08ctl {
	fn := b.Parent()
	var handoffs []*ssa.BasicBlock
	eachInstr(fn, func(i ssa.Instruction) {
		if c08handoff(i) {
			handoffs = append(handoffs, i.Block())
		}
	})
	// from s (inclusive), without entering t: can the function be left / a handoff block / t itself be reached?
	scan := func(s, t *ssa.BasicBlock) (exit, handoff, hitsT bool) {
		if s == t {
			return false, false, true
		}
		seen := map[*ssa.BasicBlock]bool{s: true}
		st := []*ssa.BasicBlock{s}
		for len(st) > 0 {
			y := st[len(st)-1]
			st = st[:len(st)-1]
			if len(y.Succs) == 0 {
				exit = true
			}
			for _, h := range handoffs {
				if h == y {
					handoff = true
				}
			}
			for _, n := range y.Succs {
				if n == t {
					hitsT = true
					continue
				}
				if !seen[n] {
					seen[n] = true
					st = append(st, n)
				}
			}
		}
		return
	}
	var out []c08ctl
	done := map[*ssa.BasicBlock]bool{b: true}
	isCtl := map[*ssa.BasicBlock]bool{}
	work := []*ssa.BasicBlock{b}
	for len(work) > 0 {
		t := work[len(work)-1]
		work = work[:len(work)-1]
		for _, x := range fn.Blocks {
			if x == t || len(x.Instrs) == 0 || len(x.Succs) != 2 || x.Succs[0] == x.Succs[1] {
				continue
			}
			iff, ok := x.Instrs[len(x.Instrs)-1].(*ssa.If)
			if !ok {
				continue
			}
			nPD, lead := 0, -1
			for k, s := range x.Succs {
				if exit, _, hits := scan(s, t); hits && !exit {
					nPD++ // t post-dominates this successor
					lead = k
				}
			}
			if nPD != 1 {
				continue
			}
			if !isCtl[x] {
				isCtl[x] = true
				// gate: whenever control does not go on to b, no handoff is reached
				gate := len(handoffs) > 0
				for _, s := range x.Succs {
					if _, handoff, _ := scan(s, b); handoff {
						gate = false
					}
				}
				out = append(out, c08ctl{iff.Cond, ctx, gate, lead == 0})
			}
			if !done[x] {
				done[x] = true
				work = append(work, x)
			}
		}
	}
	return out
}

// c08ctlAt: the control conditions of b in every frame of the call chain, and above the outermost frame those of the
// call site of a helper that is only called from one place.
func c08ctlAt(b *ssa.BasicBlock, ctx c08ctx, depth int) []c08ctl {
	if b == nil {
		return nil
	}
	out := c08ctlLocal(b, ctx)
	if len(ctx) > 0 {
		return append(out, c08ctlAt(ctx[0].Block(), ctx[1:], depth)...)
	}
	if fn := b.Parent(); fn != nil && depth < maxHops {
		// a helper with several call sites: reaching b may depend on the conditions of any of them
		if sites := c08sitesOf(fn); len(sites) >= 1 && onlyStaticallyCalled(fn) {
			for _, s := range sites {
				if _, isGo := s.(*ssa.Go); !isGo && s.Block() != nil && s.Parent() != fn {
					out = append(out, c08ctlAt(s.Block(), nil, depth+1)...)
				}
			}
		}
	}
	return out
}

// c08clientFacts: a header of the client on which reaching block b (through ctx) depends ("" if none). Conditions
// under which the request is not forwarded at all (gates) do not count.
func c08clientFacts(b *ssa.BasicBlock, ctx c08ctx) string {
	for _, f := range c08ctlAt(b, ctx, 0) {
		if f.gate {
			continue
		}
		if k, ok := c08clientDep(f.cond, f.ctx); ok {
			return k
		}
	}
	return ""
}

// c08factDeps: all client headers on which reaching block b (through ctx) depends.
func c08factDeps(b *ssa.BasicBlock, ctx c08ctx) map[string]bool {
	out := map[string]bool{}
	for _, f := range c08ctlAt(b, ctx, 0) {
		for k := range c08deps(f.cond, f.ctx) {
			out[k] = true
		}
	}
	return out
}
