package main

import (
	"fmt"
	"go/token"
	"math"
	"sort"
	"strings"

	"golang.org/x/tools/go/ssa"
)

// E10 (second mode): forward interval-set analysis of one integer field of a
// locally allocated struct. The abstract value is a small set of closed
// intervals; joins keep the set (no hull), so {0} ∪ [300,399] is representable.

type ival struct{ lo, hi int64 }

type iset []ival

var top = iset{{math.MinInt64, math.MaxInt64}}

func (s iset) String() string {
	var p []string
	for _, i := range s {
		lo, hi := fmt.Sprint(i.lo), fmt.Sprint(i.hi)
		if i.lo == math.MinInt64 {
			lo = "-inf"
		}
		if i.hi == math.MaxInt64 {
			hi = "+inf"
		}
		if i.lo == i.hi {
			p = append(p, "{"+lo+"}")
		} else {
			p = append(p, "["+lo+","+hi+"]")
		}
	}
	if len(p) == 0 {
		return "{}"
	}
	return strings.Join(p, " ∪ ")
}

func (s iset) norm() iset {
	if len(s) == 0 {
		return s
	}
	c := append(iset{}, s...)
	sort.Slice(c, func(i, j int) bool { return c[i].lo < c[j].lo })
	out := iset{c[0]}
	for _, x := range c[1:] {
		l := &out[len(out)-1]
		if x.lo <= l.hi || (l.hi != math.MaxInt64 && x.lo == l.hi+1) {
			if x.hi > l.hi {
				l.hi = x.hi
			}
		} else {
			out = append(out, x)
		}
	}
	return out
}

func (s iset) union(o iset) iset { return append(append(iset{}, s...), o...).norm() }

func (s iset) meet(lo, hi int64) iset {
	var out iset
	for _, x := range s {
		l, h := x.lo, x.hi
		if lo > l {
			l = lo
		}
		if hi < h {
			h = hi
		}
		if l <= h {
			out = append(out, ival{l, h})
		}
	}
	return out
}

func (s iset) eq(o iset) bool {
	if len(s) != len(o) {
		return false
	}
	for i := range s {
		if s[i] != o[i] {
			return false
		}
	}
	return true
}

func (s iset) subsetOf(o iset) bool {
	for _, x := range s {
		ok := false
		for _, y := range o {
			if x.lo >= y.lo && x.hi <= y.hi {
				ok = true
			}
		}
		if !ok {
			return false
		}
	}
	return true
}

// fieldIntervals runs the analysis for field `field` of the struct allocated by base in fn.
// It returns the abstract value of the field at the start of every block and at each instruction of interest.
type fieldIvals struct {
	in map[*ssa.BasicBlock]iset
	at map[ssa.Instruction]iset
}

func analyseFieldIntervals(fn *ssa.Function, base ssa.Value, typ, field string) *fieldIvals {
	isField := func(addr ssa.Value) bool {
		fa, ok := addr.(*ssa.FieldAddr)
		return ok && fa.X == base && fieldName(fa.X.Type(), fa.Field) == field
	}
	res := &fieldIvals{in: map[*ssa.BasicBlock]iset{}, at: map[ssa.Instruction]iset{}}
	// flow state: interval set of the field + the SSA value the field is currently known to equal
	type edgeState struct {
		v  iset
		eq ssa.Value
	}
	inEq := map[*ssa.BasicBlock]ssa.Value{}
	out := map[*ssa.BasicBlock]map[*ssa.BasicBlock]edgeState{}
	work := []*ssa.BasicBlock{fn.Blocks[0]}
	res.in[fn.Blocks[0]] = iset{{0, 0}} // zero value of a fresh struct
	visited := map[*ssa.BasicBlock]bool{}
	for iter := 0; len(work) > 0 && iter < 10000; iter++ {
		b := work[0]
		work = work[1:]
		visited[b] = true
		cur := res.in[b]
		eq := inEq[b]
		alias := map[ssa.Value]bool{}
		if eq != nil {
			alias[eq] = true
		}
		for _, in := range b.Instrs {
			res.at[in] = cur
			switch x := in.(type) {
			case *ssa.Store:
				if isField(x.Addr) {
					alias = map[ssa.Value]bool{x.Val: true}
					eq = x.Val
					if n, ok := constInt(x.Val); ok {
						cur = iset{{n, n}}
					} else {
						cur = top
					}
				}
			case *ssa.UnOp:
				if x.Op == token.MUL && isField(x.X) {
					alias[x] = true
				}
			}
		}
		var iff *ssa.If
		if len(b.Instrs) > 0 {
			iff, _ = b.Instrs[len(b.Instrs)-1].(*ssa.If)
		}
		for k, s := range b.Succs {
			v := cur
			if iff != nil && len(b.Succs) == 2 {
				v = refine(cur, iff.Cond, k == 0, alias)
			}
			if out[b] == nil {
				out[b] = map[*ssa.BasicBlock]edgeState{}
			}
			out[b][s] = edgeState{v, eq}
			var nin iset
			var neq ssa.Value
			first := true
			for _, p := range s.Preds {
				if e, ok := out[p][s]; ok {
					nin = nin.union(e.v)
					if first {
						neq, first = e.eq, false
					} else if neq != e.eq {
						neq = nil
					}
				}
			}
			if !visited[s] || !nin.eq(res.in[s]) || inEq[s] != neq {
				res.in[s] = nin
				inEq[s] = neq
				work = append(work, s)
			}
		}
	}
	return res
}

func refine(cur iset, cond ssa.Value, truth bool, alias map[ssa.Value]bool) iset {
	for {
		u, ok := cond.(*ssa.UnOp)
		if !ok || u.Op != token.NOT {
			break
		}
		cond, truth = u.X, !truth
	}
	b, ok := cond.(*ssa.BinOp)
	if !ok {
		return cur
	}
	op := b.Op
	var k int64
	switch {
	case alias[b.X]:
		n, ok := constInt(b.Y)
		if !ok {
			return cur
		}
		k = n
	case alias[b.Y]:
		n, ok := constInt(b.X)
		if !ok {
			return cur
		}
		k = n
		// k op v  ==  v op' k
		switch op {
		case token.LSS:
			op = token.GTR
		case token.GTR:
			op = token.LSS
		case token.LEQ:
			op = token.GEQ
		case token.GEQ:
			op = token.LEQ
		}
	default:
		return cur
	}
	if !truth {
		switch op {
		case token.LSS:
			op = token.GEQ
		case token.GEQ:
			op = token.LSS
		case token.GTR:
			op = token.LEQ
		case token.LEQ:
			op = token.GTR
		case token.EQL:
			op = token.NEQ
		case token.NEQ:
			op = token.EQL
		}
	}
	switch op {
	case token.LSS:
		if k == math.MinInt64 {
			return iset{}
		}
		return cur.meet(math.MinInt64, k-1)
	case token.LEQ:
		return cur.meet(math.MinInt64, k)
	case token.GTR:
		if k == math.MaxInt64 {
			return iset{}
		}
		return cur.meet(k+1, math.MaxInt64)
	case token.GEQ:
		return cur.meet(k, math.MaxInt64)
	case token.EQL:
		return cur.meet(k, k)
	case token.NEQ:
		var out iset
		if k > math.MinInt64 {
			out = out.union(cur.meet(math.MinInt64, k-1))
		}
		if k < math.MaxInt64 {
			out = out.union(cur.meet(k+1, math.MaxInt64))
		}
		return out
	}
	return cur
}
