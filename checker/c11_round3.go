package main

// Rules of C11 added after the third round of independently authored breaking changes (DESIGN 11.10); wired in zzz_round3.go.

import (
	"go/token"

	"golang.org/x/tools/go/ssa"
)

// ---- C11.L5 / C11.A3 -------------------------------------------------------------------------------------------------

// c11waitSinks: library calls that wait for (or tick with) the duration they are given, and where that duration is among
// the arguments.
var c11waitSinks = map[string]int{
	"time.Sleep": 0, "time.After": 0, "time.NewTimer": 0, "time.NewTicker": 0, "time.Tick": 0, "time.AfterFunc": 0,
	"(*time.Timer).Reset": 1, "(*time.Ticker).Reset": 1,
}

// c11waitDuration: the instruction waits for a duration (time.Sleep, <-time.After(d), a timer or ticker, also through a
// function variable such as `var sleep = time.Sleep`) -> that duration.
func c11waitDuration(in ssa.Instruction) (ssa.Value, bool) {
	cc := callCommon(in)
	if cc == nil {
		return nil, false
	}
	if _, isGo := in.(*ssa.Go); isGo {
		return nil, false
	}
	names := c11calleeNames(cc)
	if len(names) == 0 {
		return nil, false
	}
	idx := -1
	for _, n := range names {
		k, isSink := c11waitSinks[n]
		if !isSink || (idx >= 0 && k != idx) {
			return nil, false
		}
		idx = k
	}
	if idx < 0 || idx >= len(cc.Args) {
		return nil, false
	}
	return cc.Args[idx], true
}

// c11durLowerBound is int64LowerBound (round3_shared.go) with the shapes a refactored clamp takes: a comparison with a
// value that has a bound itself (`if d < min { return min }; return d`), the builtins max / min, the result of a clamping
// helper, and a duration kept in a struct field or a package variable (a watcher or pacer type carrying its interval):
// the bound of every value stored there, at the place of the store.
func c11durLowerBound(v ssa.Value, facts []Fact, depth int) (int64, bool) {
	if k, ok := constInt(v); ok {
		return k, true
	}
	if depth > 6 {
		return 0, false
	}
	// branch facts: v compared with a constant or with something bounded
	best, have := int64(0), false
	same := samePath(v)
	for _, f := range facts {
		b, ok := f.Cond.(*ssa.BinOp)
		if !ok {
			continue
		}
		x, y, op := b.X, b.Y, b.Op
		if !(x == v || same(x)) {
			if !(y == v || same(y)) {
				continue
			}
			x, y = y, x // other op v  ->  v op' other
			switch op {
			case token.LSS:
				op = token.GTR
			case token.GTR:
				op = token.LSS
			case token.LEQ:
				op = token.GEQ
			case token.GEQ:
				op = token.LEQ
			}
		}
		if !f.Truth {
			switch op {
			case token.LSS:
				op = token.GEQ
			case token.LEQ:
				op = token.GTR
			case token.GTR:
				op = token.LEQ
			case token.GEQ:
				op = token.LSS
			case token.EQL:
				op = token.NEQ
			case token.NEQ:
				op = token.EQL
			}
		}
		if op != token.GEQ && op != token.GTR && op != token.EQL {
			continue
		}
		if y == v || same(y) {
			continue
		}
		k, isK := constInt(y)
		if !isK {
			if k, isK = c11durLowerBound(y, facts, depth+2); !isK {
				continue
			}
		}
		if op == token.GTR {
			k++
		}
		if !have || k > best {
			best, have = k, true
		}
	}
	if have {
		return best, true
	}
	minOf := func(n int, each func(k int) (int64, bool)) (int64, bool) {
		lo := int64(0)
		for k := 0; k < n; k++ {
			l, ok := each(k)
			if !ok {
				return 0, false
			}
			if k == 0 || l < lo {
				lo = l
			}
		}
		return lo, n > 0
	}
	results := func(call *ssa.Call, idx int) (int64, bool) {
		sc := call.Call.StaticCallee()
		if sc == nil || !isRepoFn(sc) || len(sc.Blocks) == 0 {
			return 0, false
		}
		var rets []*ssa.Return
		eachInstr(sc, func(i ssa.Instruction) {
			if r, ok := i.(*ssa.Return); ok && idx < len(r.Results) {
				rets = append(rets, r)
			}
		})
		return minOf(len(rets), func(k int) (int64, bool) {
			return c11durLowerBound(rets[k].Results[idx], factsAt(rets[k].Block()), depth+1)
		})
	}
	switch x := v.(type) {
	case *ssa.Parameter:
		fn := x.Parent()
		if fn == nil {
			return 0, false
		}
		sites := gSites[fn]
		if len(sites) == 0 || len(sites) > maxHelperSites || !onlyStaticallyCalled(fn) {
			return 0, false
		}
		for idx, q := range fn.Params {
			if q != x {
				continue
			}
			return minOf(len(sites), func(k int) (int64, bool) {
				args := sites[k].Common().Args
				if idx >= len(args) || sites[k].Block() == nil {
					return 0, false
				}
				return c11durLowerBound(args[idx], factsAt(sites[k].Block()), depth+1)
			})
		}
	case *ssa.Phi:
		var edges []int
		for k, e := range x.Edges {
			if e != ssa.Value(x) {
				edges = append(edges, k)
			}
		}
		return minOf(len(edges), func(k int) (int64, bool) {
			return c11durLowerBound(x.Edges[edges[k]], edgeFacts(x.Block().Preds[edges[k]], x.Block()), depth+1)
		})
	case *ssa.Convert:
		return c11durLowerBound(x.X, facts, depth+1)
	case *ssa.ChangeType:
		return c11durLowerBound(x.X, facts, depth+1)
	case *ssa.Extract:
		if call, ok := x.Tuple.(*ssa.Call); ok {
			return results(call, x.Index)
		}
	case *ssa.Call:
		switch calleeName(&x.Call) {
		case "builtin.max":
			for _, a := range x.Call.Args {
				if l, ok := c11durLowerBound(a, facts, depth+1); ok && (!have || l > best) {
					best, have = l, true
				}
			}
			return best, have
		case "builtin.min":
			return minOf(len(x.Call.Args), func(k int) (int64, bool) { return c11durLowerBound(x.Call.Args[k], facts, depth+1) })
		}
		return results(x, 0)
	}
	if sts, isLoad := c11storesInto(v); isLoad {
		return minOf(len(sts), func(k int) (int64, bool) {
			if sts[k].Block() == nil {
				return 0, false
			}
			return c11durLowerBound(sts[k].Val, factsAt(sts[k].Block()), depth+1)
		})
	}
	return 0, false
}

// runC11L5: every computed wait (time.Sleep, time.After, timer, ticker) in the watcher loops of package cert has a lower
// bound of at least 1ms.
func runC11L5(c *Ctx) {
	c11useCtx(c)
	n := 0
	seen := map[ssa.Instruction]bool{}
	for _, f := range c.fnsWhere("cert", func(fn *ssa.Function) bool { return len(c11watchLoops(fn)) > 0 }) {
		// the loop function and the helpers its iterations call (a step helper may do the sleeping)
		reg := c.region(f) // static helpers only: the loaders a watcher is handed (Vault, Consul clients) have their own timing
		// timers and tickers count only in the loops that deliver material (they send certificates or PEM blocks); a
		// plain time.Sleep counts in every loop of the package, as before
		delivers := false
		eachInstrOf(reg, func(_ *ssa.Function, in ssa.Instruction) {
			if snd, ok := in.(*ssa.Send); ok && (c11isCertSlice(snd.X.Type()) || typeStr(snd.X.Type()) == "map[string][]byte") {
				delivers = true
			}
		})
		for _, g := range reg {
			eachInstr(g, func(in ssa.Instruction) {
				d, isWait := c11waitDuration(in)
				if !isWait || seen[in] {
					return
				}
				if cc := callCommon(in); !delivers && !c11callsOnly(cc, map[string]bool{"time.Sleep": true}) {
					return
				}
				if _, isK := d.(*ssa.Const); isK {
					return
				}
				seen[in] = true
				n++
				lb, ok := c11durLowerBound(d, factsAt(in.Block()), 0)
				c.check("C11.L5", fnKey(g)+"|retry sleep has a positive lower bound", in.Pos(), ok && lb >= 1000000,
					"the duration slept before the next load attempt has no proven lower bound of at least 1ms on every path that defines it (a clamp such as 'if refresh < time.Second { refresh = time.Second }' must cover every mode, also refresh <= 0 = load once): with a zero duration a source that keeps delivering unusable material is retried in a busy loop")
			})
		}
	}
	c.atLeast("C11.L5", "computed sleeps in the watcher loops of package cert", n, 1)
}

// runC11A3: nothing writes into the set that is currently published (its backing arrays are in use by handshakes).
func runC11A3(c *Ctx) {
	c11useCtx(c)
	var gm *c11Model // a mutex-guarded holder: reading the guarded field is the load
	if c11lastModel != nil && c11lastModel.c == c && len(c11lastModel.guarded) > 0 {
		gm = c11lastModel
	}
	isHolderLoad := func(v ssa.Value) bool {
		if u, isLoad := v.(*ssa.UnOp); isLoad && gm != nil {
			return gm.isSetLoad(u)
		}
		call, ok := v.(*ssa.Call)
		if !ok {
			return false
		}
		kind, _, _, isAtomic := atomicOp(&call.Call)
		return isAtomic && kind == "load"
	}
	fromPublished := func(v ssa.Value) bool { return derives(v, isHolderLoad) }
	n := 0
	for _, f := range c.fnsWhere("cert", func(*ssa.Function) bool { return true }) {
		eachInstr(f, func(i ssa.Instruction) {
			var target ssa.Value
			what := ""
			switch x := i.(type) {
			case *ssa.Store:
				if _, isAlloc := x.Addr.(*ssa.Alloc); isAlloc {
					return
				}
				if _, isGlobal := x.Addr.(*ssa.Global); isGlobal {
					return
				}
				target, what = x.Addr, "a store"
			case *ssa.MapUpdate:
				target, what = x.Map, "a map update"
			case *ssa.Call:
				name := calleeName(&x.Call)
				switch {
				case name == "builtin.append" && len(x.Call.Args) == 2:
					// append(published[:k], ...) reuses the published backing array
					if sl, ok := x.Call.Args[0].(*ssa.Slice); ok && sl.High != nil {
						target, what = sl.X, "append onto a truncated slice of it (reuses its backing array)"
					}
				case mutatingExternal[name] && len(x.Call.Args) > 0:
					target, what = mutatedArg(&x.Call), "a call of "+name
				}
			}
			if target == nil {
				return
			}
			n++
			c.check("C11.A3", fnKey(f)+"|no write into the published certificate set", i.Pos(), !fromPublished(target),
				what+" targets memory of the set obtained from the atomic holder: handshakes in flight hold that snapshot (and pointers into its certificate slice); overwriting it in place makes a handshake see certificates of two sets — a mixture, e.g. the certificate of another host")
		})
	}
	c.ob("C11.A3", "cert|published sets are immutable", token.NoPos, OK, "scanned "+itoa(n)+" writes in package cert")
}
