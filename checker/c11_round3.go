package main

// Rules of C11 added after the third round of independently authored breaking changes (DESIGN 11.10); wired in zzz_round3.go.

import (
	"go/token"

	"golang.org/x/tools/go/ssa"
)

// ---- C11.L5 / C11.A3 -------------------------------------------------------------------------------------------------

// runC11L5: every computed time.Sleep in the watcher loops of package cert has a lower bound of at least 1ms.
func runC11L5(c *Ctx) {
	n := 0
	seen := map[ssa.Instruction]bool{}
	for _, f := range c.fnsWhere("cert", func(fn *ssa.Function) bool { return len(condLessLoops(fn)) > 0 }) {
		// the loop function and the helpers its iterations call (a step helper may do the sleeping)
		for _, g := range c.region(f) {
			eachInstr(g, func(in ssa.Instruction) {
				cc := callCommon(in)
				if cc == nil || calleeName(cc) != "time.Sleep" || len(cc.Args) != 1 || seen[in] {
					return
				}
				if _, isK := cc.Args[0].(*ssa.Const); isK {
					return
				}
				seen[in] = true
				n++
				lb, ok := int64LowerBound(cc.Args[0], factsAt(in.Block()), 0)
				c.check("C11.L5", fnKey(g)+"|retry sleep has a positive lower bound", in.Pos(), ok && lb >= 1000000,
					"the duration slept before the next load attempt has no proven lower bound of at least 1ms on every path that defines it (a clamp such as 'if refresh < time.Second { refresh = time.Second }' must cover every mode, also refresh <= 0 = load once): with a zero duration a source that keeps delivering unusable material is retried in a busy loop")
			})
		}
	}
	c.atLeast("C11.L5", "computed sleeps in the watcher loops of package cert", n, 1)
}

// runC11A3: nothing writes into the set that is currently published (its backing arrays are in use by handshakes).
func runC11A3(c *Ctx) {
	isHolderLoad := func(v ssa.Value) bool {
		call, ok := v.(*ssa.Call)
		if !ok {
			return false
		}
		kind, _, _, isAtomic := atomicOp(&call.Call)
		return isAtomic && kind == "load"
	}
	fromPublished := func(v ssa.Value) bool { return derives(v, isHolderLoad) }
	n := 0
	for _, f := range c.fnsWhere("cert", func(*ssa.Function) bool { return true }) {
		eachInstr(f, func(i ssa.Instruction) {
			var target ssa.Value
			what := ""
			switch x := i.(type) {
			case *ssa.Store:
				if _, isAlloc := x.Addr.(*ssa.Alloc); isAlloc {
					return
				}
				if _, isGlobal := x.Addr.(*ssa.Global); isGlobal {
					return
				}
				target, what = x.Addr, "a store"
			case *ssa.MapUpdate:
				target, what = x.Map, "a map update"
			case *ssa.Call:
				name := calleeName(&x.Call)
				switch {
				case name == "builtin.append" && len(x.Call.Args) == 2:
					// append(published[:k], ...) reuses the published backing array
					if sl, ok := x.Call.Args[0].(*ssa.Slice); ok && sl.High != nil {
						target, what = sl.X, "append onto a truncated slice of it (reuses its backing array)"
					}
				case mutatingExternal[name] && len(x.Call.Args) > 0:
					target, what = mutatedArg(&x.Call), "a call of "+name
				}
			}
			if target == nil {
				return
			}
			n++
			c.check("C11.A3", fnKey(f)+"|no write into the published certificate set", i.Pos(), !fromPublished(target),
				what+" targets memory of the set obtained from the atomic holder: handshakes in flight hold that snapshot (and pointers into its certificate slice); overwriting it in place makes a handshake see certificates of two sets — a mixture, e.g. the certificate of another host")
		})
	}
	c.ob("C11.A3", "cert|published sets are immutable", token.NoPos, OK, "scanned "+itoa(n)+" writes in package cert")
}
