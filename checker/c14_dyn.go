package main

// Calls the rules of C14 cannot resolve from the instruction alone: a function value taken from a table (a package-level
// slice / map of builders, a struct field holding a callback) and a method called through an interface. Both are the
// result of ordinary restructurings (if-chain -> table of {pattern, builder}; callback -> small interface), so the
// slices, regions and verdict summaries of C14 follow them by TYPE, the way a class-hierarchy call graph does:
//
//   - a called function value that funcsOf cannot trace to its makers denotes every repository function or closure
//     that is used as a value somewhere (package initialisers included) and has the identical signature;
//   - an interface method call denotes that method of every repository type implementing the interface.
//
// Candidates of the caller's own package are preferred (a table and its builders live together); the answer is dropped
// when it is too wide to mean anything.

import (
	"go/token"
	"go/types"
	"sort"

	"golang.org/x/tools/go/ssa"
)

// c14maxDynTargets: a dynamic call with more candidates than this is not followed (func() / func(string) string used
// all over the repository says nothing about this call).
const c14maxDynTargets = 12

// c14ctx is the load the rules currently run on (set by every entry point of C14; loads are processed one at a time,
// like gSites).
var c14ctx *Ctx

type c14dynIndex struct {
	methods map[string][]*ssa.Function
}

var c14dynCache = map[*Ctx]*c14dynIndex{}

func c14dyn() *c14dynIndex {
	c := c14ctx
	if c == nil {
		return nil
	}
	if ix := c14dynCache[c]; ix != nil {
		return ix
	}
	for k := range c14dynCache {
		delete(c14dynCache, k) // one load at a time: do not keep old programs alive
	}
	ix := &c14dynIndex{methods: map[string][]*ssa.Function{}}
	for _, f := range c14fns(c) {
		if f.Signature.Recv() != nil && f.Parent() == nil {
			ix.methods[f.Name()] = append(ix.methods[f.Name()], f)
		}
	}
	c14dynCache[c] = ix
	return ix
}

// c14preferHome: the candidates of the caller's package if there are any, all of them otherwise; nil when too many.
func c14preferHome(cands []*ssa.Function, caller *ssa.Function) []*ssa.Function {
	var home []*ssa.Function
	seen := map[*ssa.Function]bool{}
	var uniq []*ssa.Function
	for _, g := range cands {
		if g == nil || seen[g] || len(g.Blocks) == 0 || !isRepoFn(g) {
			continue
		}
		seen[g] = true
		uniq = append(uniq, g)
		if caller != nil && rootPkg(g) == rootPkg(caller) {
			home = append(home, g)
		}
	}
	if len(home) > 0 {
		uniq = home
	}
	if len(uniq) > c14maxDynTargets {
		return nil
	}
	sort.SliceStable(uniq, func(i, j int) bool { return uniq[i].String() < uniq[j].String() })
	return uniq
}

// c14dynTargets: the repository functions a call without a static callee can reach, resolved by type.
func c14dynTargets(cc *ssa.CallCommon, caller *ssa.Function) []*ssa.Function {
	if cc == nil || cc.StaticCallee() != nil || c14ctx == nil {
		return nil
	}
	if cc.IsInvoke() {
		ix := c14dyn()
		iface, _ := cc.Value.Type().Underlying().(*types.Interface)
		if ix == nil || iface == nil {
			return nil
		}
		var cands []*ssa.Function
		for _, m := range ix.methods[cc.Method.Name()] {
			recv := m.Signature.Recv().Type()
			if types.Implements(recv, iface) || types.Implements(types.NewPointer(recv), iface) {
				cands = append(cands, m)
			}
		}
		return c14preferHome(cands, caller)
	}
	if _, isBuiltin := cc.Value.(*ssa.Builtin); isBuiltin {
		return nil
	}
	var cands []*ssa.Function
	for _, g := range c14ctx.callgraph().funcValueTargets(cc.Value) {
		cands = append(cands, unwrap(g))
	}
	return c14preferHome(cands, caller)
}

// c14callTargets: static callee, else what funcsOf sees, else the targets by type.
func c14callTargets(cc *ssa.CallCommon, caller *ssa.Function) []*ssa.Function {
	if cc == nil {
		return nil
	}
	if sc := cc.StaticCallee(); sc != nil {
		return []*ssa.Function{unwrap(sc)}
	}
	if !cc.IsInvoke() {
		if fs := funcsOf(cc.Value); len(fs) > 0 {
			return fs
		}
		if fs := c14tableFuncs(cc.Value); len(fs) > 0 {
			return fs
		}
	}
	return c14dynTargets(cc, caller)
}

var c14tableDepth int

// c14tableFuncs: a function value read from a variable or a table (package-level slice / map / struct of builders, also
// when the table reaches the call through parameters): the functions of the same signature stored there.
func c14tableFuncs(v ssa.Value) []*ssa.Function {
	sig, ok := v.Type().Underlying().(*types.Signature)
	if !ok || c14tableDepth > 1 {
		return nil
	}
	switch v.(type) {
	case *ssa.Const, *ssa.Builtin:
		return nil
	}
	c14tableDepth++
	defer func() { c14tableDepth-- }()
	old := c14enter
	c14enter = nil
	defer func() { c14enter = old }()
	var out []*ssa.Function
	seen := map[*ssa.Function]bool{}
	add := func(g *ssa.Function) {
		g = unwrap(g)
		if g == nil || seen[g] || !isRepoFn(g) || len(g.Blocks) == 0 {
			return
		}
		gs := g.Signature
		if gs.Recv() != nil {
			gs = types.NewSignatureType(nil, nil, nil, gs.Params(), gs.Results(), gs.Variadic())
		}
		if !types.Identical(gs, sig) {
			return
		}
		seen[g] = true
		out = append(out, g)
	}
	viaGlobal := false
	c14derives(v, func(x ssa.Value) bool {
		switch y := x.(type) {
		case *ssa.Global:
			viaGlobal = true
		case *ssa.Function:
			add(y)
		case *ssa.MakeClosure:
			if g, ok := y.Fn.(*ssa.Function); ok {
				add(g)
			}
		}
		return false
	})
	if !viaGlobal && len(out) == 0 {
		return nil
	}
	if len(out) > c14maxDynTargets {
		return nil
	}
	sort.SliceStable(out, func(i, j int) bool { return out[i].String() < out[j].String() })
	return out
}

// c14callerOf: the function an instruction-valued call belongs to.
func c14callerOf(cc *ssa.CallCommon) *ssa.Function {
	if cc == nil || cc.Value == nil {
		return nil
	}
	return c14parent(cc.Value)
}

// c14reach: roots and every repository function of the roots' packages they can reach - through static calls, the
// closures they make, the function values they mention (regionDepth), and through dynamic calls and interface calls
// resolved by type. This is the region of "the parser" / "the generator" when it is cut into a driver and a table of
// builders.
func c14reach(c *Ctx, depth int, roots ...*ssa.Function) []*ssa.Function {
	var out []*ssa.Function
	seen := map[*ssa.Function]bool{}
	homes := map[*ssa.Package]bool{}
	for _, r := range roots {
		if r != nil {
			homes[rootPkg(r)] = true
		}
	}
	var add func(f *ssa.Function, d int)
	add = func(f *ssa.Function, d int) {
		if f == nil || seen[f] || len(f.Blocks) == 0 || !isRepoFn(f) || !homes[rootPkg(f)] {
			return
		}
		seen[f] = true
		out = append(out, f)
		if d >= depth {
			return
		}
		eachInstr(f, func(i ssa.Instruction) {
			for _, op := range i.Operands(nil) {
				if op == nil || *op == nil {
					continue
				}
				switch x := (*op).(type) {
				case *ssa.Function:
					add(unwrap(x), d+1)
				case *ssa.MakeClosure:
					if fn, ok := x.Fn.(*ssa.Function); ok {
						add(unwrap(fn), d+1)
					}
				}
			}
			if cc := callCommon(i); cc != nil && cc.StaticCallee() == nil {
				for _, g := range c14callTargets(cc, f) {
					add(g, d+1)
				}
			}
		})
	}
	for _, r := range roots {
		add(r, 0)
	}
	return out
}

// c14argFor: the value parameter idx of fn stands for at call site call (which may be a static call, a call of a
// function value, a bound method value or an interface method call); nil when it cannot be told.
func c14argFor(call ssa.CallInstruction, fn *ssa.Function, idx int) ssa.Value {
	if call == nil || fn == nil || idx < 0 || idx >= len(fn.Params) {
		return nil
	}
	cc := call.Common()
	if cc.IsInvoke() {
		if idx == 0 {
			return cc.Value
		}
		if idx-1 < len(cc.Args) {
			return cc.Args[idx-1]
		}
		return nil
	}
	args := cc.Args
	if len(args) == len(fn.Params) {
		return args[idx]
	}
	if fn.Signature.Recv() != nil && len(args) == len(fn.Params)-1 {
		// a bound method value: the receiver was fixed when the value was made
		if idx == 0 {
			if mc, ok := cc.Value.(*ssa.MakeClosure); ok && len(mc.Bindings) == 1 {
				return mc.Bindings[0]
			}
			return nil
		}
		return args[idx-1]
	}
	return nil
}

// c14dynSites: for every repository function, the calls without a static callee that may reach it (by type).
var c14dynSitesCache = map[*Ctx]map[*ssa.Function][]ssa.CallInstruction{}

var c14dynSitesBuilding bool

func c14dynSites(fn *ssa.Function) []ssa.CallInstruction {
	c := c14ctx
	if c == nil || fn == nil {
		return nil
	}
	ix := c14dynSitesCache[c]
	if ix == nil {
		if c14dynSitesBuilding {
			return nil // resolving a call for the index asked for the index: no answer from here
		}
		c14dynSitesBuilding = true
		defer func() { c14dynSitesBuilding = false }()
		for k := range c14dynSitesCache {
			delete(c14dynSitesCache, k)
		}
		ix = map[*ssa.Function][]ssa.CallInstruction{}
		scan := c14scanFns(c)
		for _, f := range scan {
			ff := f
			eachInstr(f, func(i ssa.Instruction) {
				ci, ok := i.(ssa.CallInstruction)
				if !ok || ci.Common().StaticCallee() != nil {
					return
				}
				if _, isB := ci.Common().Value.(*ssa.Builtin); isB {
					return
				}
				for _, g := range c14callTargets(ci.Common(), ff) {
					ix[g] = append(ix[g], ci)
				}
			})
		}
		c14dynSitesCache[c] = ix
	}
	return ix[fn]
}

// c14sitesOf: every call site of fn the analysis can see: the static ones and the dynamic ones resolved by type.
func c14sitesOf(fn *ssa.Function) []ssa.CallInstruction {
	if fn == nil {
		return nil
	}
	out := append([]ssa.CallInstruction{}, gSites[fn]...)
	if gAddrTaken[fn] || (fn.Signature.Recv() != nil && gInvoked[fn.Name()]) || fn.Parent() != nil {
		out = append(out, c14dynSites(fn)...)
	}
	return out
}

// c14allSites: the call sites of fn, and whether they are ALL its call sites: fn is only called statically, or it is an
// unexported function / closure / method whose value never leaves the repository's own code (it is handed to repository
// functions, kept in repository tables, returned), so that every call of it is a call by type the analysis resolves.
func c14allSites(fn *ssa.Function) ([]ssa.CallInstruction, bool) {
	if fn == nil {
		return nil, false
	}
	if onlyStaticallyCalled(fn) {
		return gSites[fn], true
	}
	sites := c14sitesOf(fn)
	if fn.Parent() == nil && (token.IsExported(fn.Name()) || fn.Name() == "init" || fn.Name() == "main") {
		return sites, false
	}
	c := c14ctx
	if c == nil {
		return sites, false
	}
	// every use of the function as a value stays inside the repository
	complete := true
	scan := c14scanFns(c)
	isFn := func(v ssa.Value) bool {
		switch x := v.(type) {
		case *ssa.Function:
			return unwrap(x) == fn
		case *ssa.MakeClosure:
			g, ok := x.Fn.(*ssa.Function)
			return ok && unwrap(g) == fn
		}
		return false
	}
	for _, f := range scan {
		eachInstr(f, func(i ssa.Instruction) {
			if !complete {
				return
			}
			uses := false
			for _, op := range i.Operands(nil) {
				if op != nil && *op != nil && isFn(*op) {
					uses = true
				}
			}
			if !uses {
				return
			}
			switch x := i.(type) {
			case *ssa.MakeClosure:
				if isFn(x) || isFn(x.Fn) {
					return // making the closure; its uses are looked at where they occur
				}
			case ssa.CallInstruction:
				cc := x.Common()
				if !cc.IsInvoke() && isFn(cc.Value) {
					for _, a := range cc.Args {
						if isFn(a) {
							complete = false
						}
					}
					return
				}
				if sc := cc.StaticCallee(); sc != nil {
					if !isRepoFn(sc) {
						complete = false // handed to a library: called from there with unknown arguments
					}
					return
				}
				return // handed to a function value / interface method of the repository's own types
			case *ssa.Store, *ssa.Return, *ssa.Phi, *ssa.ChangeType, *ssa.MapUpdate:
				return
			}
			complete = false
		})
	}
	return sites, complete
}

// c14fns: the source functions of the repository INCLUDING the synthetic bodies of range-over-func loops (Ctx.AllFns
// leaves out everything synthetic; `for cmd := range r.commands() { list = append(list, cmd) }` keeps its statements in
// such a body).
var c14fnsCache = map[*Ctx][]*ssa.Function{}

func c14fns(c *Ctx) []*ssa.Function {
	if fs, ok := c14fnsCache[c]; ok {
		return fs
	}
	for k := range c14fnsCache {
		delete(c14fnsCache, k)
	}
	seen := map[*ssa.Function]bool{}
	var out []*ssa.Function
	var add func(f *ssa.Function)
	add = func(f *ssa.Function) {
		if f == nil || seen[f] {
			return
		}
		seen[f] = true
		if len(f.Blocks) > 0 {
			out = append(out, f)
		}
		for _, a := range f.AnonFuncs {
			add(a)
		}
	}
	for _, f := range c.AllFns {
		add(f)
	}
	sort.SliceStable(out, func(i, j int) bool { return out[i].String() < out[j].String() })
	c14fnsCache[c] = out
	return out
}

// c14scanFns: c14fns plus the synthetic package initialisers (tables of function values are filled there).
func c14scanFns(c *Ctx) []*ssa.Function {
	scan := append([]*ssa.Function{}, c14fns(c)...)
	for _, sp := range c.spkgs {
		if initFn := sp.Func("init"); initFn != nil && len(initFn.Blocks) > 0 && initFn.Synthetic != "" {
			scan = append(scan, initFn)
		}
	}
	return scan
}
