package main

// Overlay mutants of C05 added by the hardening pass: behaviour-preserving rewrites that must stay silent
// (Expect "") and breaks in the refactored shapes that must still be reported.

const c05CleanupOld = `	// remove all routes without targets
	for host, routes := range t {
		var clone Routes
		for _, r := range routes {
			if len(r.Targets) == 0 {
				continue
			}
			clone = append(clone, r)
		}
		t[host] = clone
	}

	// remove all hosts without routes
	for host, routes := range t {
		if len(routes) == 0 {
			delete(t, host)
		}
	}

	return nil
}
`

const c05RebuildOld = `	for host, routes := range t {
		var clone Routes
		for _, r := range routes {
			if len(r.Targets) == 0 {
				continue
			}
			clone = append(clone, r)
		}
		t[host] = clone
	}
`

const c05DropOld = `	for host, routes := range t {
		if len(routes) == 0 {
			delete(t, host)
		}
	}
`

const c05WeighOld = `	if t[host] == nil || t[host].find(path) == nil {
		return errNoMatch
	}

	if n := t[host].find(path).setWeight(d.Service, d.Weight, d.Tags); n == 0 {
		return errNoMatch
	}
	return nil
}
`

const c05RenderOld = `	if addWeight {
		s += fmt.Sprintf(" weight %2.4f", t.Weight)
	} else if t.FixedWeight > 0 {
		s += fmt.Sprintf(" weight %.4f", t.FixedWeight)
	}
	if len(t.Tags) > 0 {
		s += fmt.Sprintf(" tags \"%s\"", strings.Join(t.Tags, ","))
	}
	if len(t.Opts) > 0 {
		var keys []string
		for k := range t.Opts {
			keys = append(keys, k)
		}
		sort.Strings(keys)

		var vals []string
		for _, k := range keys {
			vals = append(vals, k+"="+t.Opts[k])
		}
		s += fmt.Sprintf(" opts \"%s\"", strings.Join(vals, " "))
	}
	return s
}
`

const c05RenderHelpers = `
func weightClause(t *Target, addWeight bool) string {
	switch {
	case addWeight:
		return fmt.Sprintf(" weight %2.4f", t.Weight)
	case t.FixedWeight > 0:
		return fmt.Sprintf(" weight %.4f", t.FixedWeight)
	}
	return ""
}

func tagsClause(t *Target) string {
	if len(t.Tags) == 0 {
		return ""
	}
	return " tags \"" + strings.Join(t.Tags, ",") + "\""
}

func optsClause(t *Target) string {
	if len(t.Opts) == 0 {
		return ""
	}
	var keys []string
	for k := range t.Opts {
		keys = append(keys, k)
	}
	sort.Strings(keys)
	var vals []string
	for _, k := range keys {
		vals = append(vals, k+"="+t.Opts[k])
	}
	return " opts \"" + strings.Join(vals, " ") + "\""
}
`

const c05DedupOld = `	for _, t := range r.Targets {
		if t.Service == service && t.URL.String() == targetURL.String() && t.FixedWeight == fixedWeight && reflect.DeepEqual(t.Tags, tags) {
			return
		}
	}
`

const c05ConsulOld = `			cfg := "route add " + name + " " + route + " " + dst
			if weight != "" {
				cfg += " weight " + weight
			}
			if len(svctags) > 0 {
				cfg += " tags \"" + strings.Join(svctags, ",") + "\""
			}
			if len(ropts) > 0 {
				cfg += " opts \"" + strings.Join(ropts, " ") + "\""
			}
`

const c05ConsulHelperHead = `// validRouteAdd returns true if cmd is accepted by the route
`

var c05ExtraMutants = []mutant{
	// ---- K1 ----------------------------------------------------------------------------------------------------
	{Name: "benign: hostpath with strings.Cut", File: "route/table.go",
		Old: "\tp := strings.SplitN(prefix, \"/\", 2)\n\thost, path = strings.ToLower(p[0]), \"\"\n\tif len(p) == 1 {\n\t\treturn host, \"/\"\n\t}\n\treturn host, \"/\" + p[1]\n",
		New: "\th, rest, found := strings.Cut(prefix, \"/\")\n\thost = strings.ToLower(h)\n\tif !found {\n\t\treturn host, \"/\"\n\t}\n\treturn host, \"/\" + rest\n", Expect: ""},
	{Name: "benign: weighRoute looks the route up in a closure capturing host", File: "route/table.go", Old: c05WeighOld,
		New: `	find := func() *Route {
		if t[host] == nil {
			return nil
		}
		return t[host].find(path)
	}
	r := find()
	if r == nil {
		return errNoMatch
	}
	if n := r.setWeight(d.Service, d.Weight, d.Tags); n == 0 {
		return errNoMatch
	}
	return nil
}
`, Expect: ""},
	{Name: "benign: config walks the hosts with a visitor callback", File: "route/table.go",
		Old: "\tfor _, host := range hosts {\n\t\tfor _, routes := range t[host] {\n\t\t\tcfg = append(cfg, routes.config(addWeight)...)\n\t\t}\n\t}\n\treturn cfg\n}\n",
		New: "\teachKey(hosts, func(host string) {\n\t\tfor _, routes := range t[host] {\n\t\t\tcfg = append(cfg, routes.config(addWeight)...)\n\t\t}\n\t})\n\treturn cfg\n}\n\nfunc eachKey(keys []string, visit func(string)) {\n\tfor _, k := range keys {\n\t\tvisit(k)\n\t}\n}\n", Expect: ""},
	{Name: "benign: Dump collects the hosts with slices.Sorted(maps.Keys(t))", File: "route/table.go",
		Old: "\thosts := []string{}\n\tfor k := range t {\n\t\thosts = append(hosts, k)\n\t}\n\tsort.Strings(hosts)\n", New: "\thosts := slices.Sorted(maps.Keys(t))\n",
		More: []repl{{"\t\"log\"\n\t\"net\"\n", "\t\"log\"\n\t\"maps\"\n\t\"net\"\n"}, {"\t\"net/url\"\n\t\"sort\"\n", "\t\"net/url\"\n\t\"slices\"\n\t\"sort\"\n"}}, Expect: ""},
	{Name: "benign: addRoute carries host and path in a small struct", File: "route/table.go",
		Old: "\thost = strings.ToLower(host) // maintain compatibility with parseURLPrefixTag\n",
		New: "\ttype routeKey struct{ host, path string }\n\tk := routeKey{host: strings.ToLower(host), path: path}\n\thost, path = k.host, k.path\n", Expect: ""},
	{Name: "benign: lookup key converted through a named string type", File: "route/table.go",
		Old: "\thost = strings.ToLower(host) // routes are always added lowercase\n",
		New: "\ttype hostKey string\n\thk := hostKey(strings.ToLower(host))\n\thost = strings.TrimSuffix(string(hk), \"\")\n", Expect: ""},
	{Name: "struct carrying the raw host", File: "route/table.go",
		Old: "\thost = strings.ToLower(host) // maintain compatibility with parseURLPrefixTag\n",
		New: "\ttype routeKey struct{ host, path string }\n\tk := routeKey{host: d.Src[:len(host)], path: path}\n\thost, path = k.host, k.path\n", Expect: "C05.K1"},
	{Name: "visitor callback handed raw host names", File: "route/table.go",
		Old: "\tfor _, host := range hosts {\n\t\tfor _, routes := range t[host] {\n\t\t\tcfg = append(cfg, routes.config(addWeight)...)\n\t\t}\n\t}\n\treturn cfg\n}\n",
		New: "\teachKey(hosts, func(host string) {\n\t\tfor _, routes := range t[host] {\n\t\t\tcfg = append(cfg, routes.config(addWeight)...)\n\t\t}\n\t})\n\treturn cfg\n}\n\nfunc eachKey(keys []string, visit func(string)) {\n\tfor _, k := range keys {\n\t\tvisit(strings.ToUpper(k))\n\t}\n}\n", Expect: "C05.K1"},

	// ---- D1 ----------------------------------------------------------------------------------------------------
	{Name: "benign: both cleanup loops extracted into Table.prune", File: "route/table.go", Old: c05CleanupOld,
		New: "\tt.prune()\n\treturn nil\n}\n\n// prune removes routes without targets and hosts without routes.\nfunc (t Table) prune() {\n" + c05RebuildOld + "\n" + c05DropOld + "}\n", Expect: ""},
	{Name: "benign: one helper per cleanup loop", File: "route/table.go", Old: c05CleanupOld,
		New: "\tt.dropEmptyRoutes()\n\tt.dropEmptyHosts()\n\treturn nil\n}\n\nfunc (t Table) dropEmptyRoutes() {\n" + c05RebuildOld + "}\n\nfunc (t Table) dropEmptyHosts() {\n" + c05DropOld + "}\n", Expect: ""},
	{Name: "benign: cleanup loops merged into one pass", File: "route/table.go", Old: c05CleanupOld,
		New: `	// remove all routes without targets and all hosts without routes
	for host, routes := range t {
		var clone Routes
		for _, r := range routes {
			if len(r.Targets) > 0 {
				clone = append(clone, r)
			}
		}
		if len(clone) == 0 {
			delete(t, host)
			continue
		}
		t[host] = clone
	}

	return nil
}
`, Expect: ""},
	{Name: "benign: hosts without routes removed with maps.DeleteFunc", File: "route/table.go", Old: c05DropOld,
		New:  "\tmaps.DeleteFunc(t, func(_ string, routes Routes) bool { return len(routes) == 0 })\n",
		More: []repl{{"\t\"log\"\n\t\"net\"\n", "\t\"log\"\n\t\"maps\"\n\t\"net\"\n"}}, Expect: ""},
	{Name: "benign: routes without targets removed with slices.DeleteFunc and a predicate method", File: "route/table.go", Old: c05RebuildOld,
		New:  "\tfor host, routes := range t {\n\t\tt[host] = slices.DeleteFunc(routes, (*Route).empty)\n\t}\n",
		More: []repl{{"\t\"net/url\"\n\t\"sort\"\n", "\t\"net/url\"\n\t\"slices\"\n\t\"sort\"\n"}, {"// route finds the route for host/path", "func (r *Route) empty() bool { return len(r.Targets) == 0 }\n\n// route finds the route for host/path"}}, Expect: ""},
	{Name: "benign: service delete extracted into a helper, filter behind a wrapper", File: "route/table.go",
		Old:  "\tcase d.Src == \"\" && d.Dst == \"\":\n\t\tfor _, routes := range t {\n\t\t\tfor _, r := range routes {\n\t\t\t\tr.filter(func(tg *Target) bool {\n\t\t\t\t\treturn tg.Service == d.Service\n\t\t\t\t})\n\t\t\t}\n\t\t}\n",
		New:  "\tcase d.Src == \"\" && d.Dst == \"\":\n\t\tt.delService(d.Service)\n",
		More: []repl{{"// route finds the route for host/path", "func (t Table) delService(service string) {\n\tfor _, routes := range t {\n\t\tfor _, r := range routes {\n\t\t\tr.drop(func(tg *Target) bool { return tg.Service == service })\n\t\t}\n\t}\n}\n\nfunc (r *Route) drop(skip func(*Target) bool) { r.filter(skip) }\n\n// route finds the route for host/path"}}, Expect: ""},
	{Name: "benign: cleanup deferred", File: "route/table.go", Old: c05CleanupOld,
		New:  "\treturn nil\n}\n\nfunc (t Table) prune() {\n" + c05RebuildOld + "\n" + c05DropOld + "}\n",
		More: []repl{{"func (t Table) delRoute(d *RouteDef) error {\n", "func (t Table) delRoute(d *RouteDef) error {\n\tdefer t.prune()\n"}}, Expect: ""},
	{Name: "rebuilt list keeps routes without targets", File: "route/table.go",
		Old: "\t\t\tif len(r.Targets) == 0 {\n\t\t\t\tcontinue\n\t\t\t}\n\t\t\tclone = append(clone, r)\n", New: "\t\t\tclone = append(clone, r)\n", Expect: "C05.D1"},
	{Name: "hosts dropped before the routes are pruned", File: "route/table.go", Old: c05CleanupOld,
		New: "\t// remove all hosts without routes\n" + c05DropOld + "\n\t// remove all routes without targets\n" + c05RebuildOld + "\n\treturn nil\n}\n", Expect: "C05.D1"},
	{Name: "catch-all host never dropped", File: "route/table.go",
		Old: "\t\tif len(routes) == 0 {\n\t\t\tdelete(t, host)\n\t\t}\n", New: "\t\tif len(routes) == 0 && host != \"\" {\n\t\t\tdelete(t, host)\n\t\t}\n", Expect: "C05.D1"},
	{Name: "merged pass with an in-place prune that skips neighbours", File: "route/table.go", Old: c05CleanupOld,
		New: `	for host, routes := range t {
		routes = routes.prune()
		if len(routes) == 0 {
			delete(t, host)
			continue
		}
		t[host] = routes
	}

	return nil
}

func (rt Routes) prune() Routes {
	for i := 0; i < len(rt); i++ {
		if len(rt[i].Targets) == 0 {
			rt = append(rt[:i], rt[i+1:]...)
		}
	}
	return rt
}
`, Expect: "C05.D1"},
	{Name: "extracted service delete returns before the cleanup", File: "route/table.go",
		Old:  "\tcase d.Src == \"\" && d.Dst == \"\":\n\t\tfor _, routes := range t {\n\t\t\tfor _, r := range routes {\n\t\t\t\tr.filter(func(tg *Target) bool {\n\t\t\t\t\treturn tg.Service == d.Service\n\t\t\t\t})\n\t\t\t}\n\t\t}\n",
		New:  "\tcase d.Src == \"\" && d.Dst == \"\":\n\t\tt.delService(d.Service)\n\t\treturn nil\n",
		More: []repl{{"// route finds the route for host/path", "func (t Table) delService(service string) {\n\tfor _, routes := range t {\n\t\tfor _, r := range routes {\n\t\t\tr.filter(func(tg *Target) bool { return tg.Service == service })\n\t\t}\n\t}\n}\n\n// route finds the route for host/path"}}, Expect: "C05.D1"},
	{Name: "Table.prune forgets the hosts", File: "route/table.go", Old: c05CleanupOld,
		New: "\tt.prune()\n\treturn nil\n}\n\nfunc (t Table) prune() {\n" + c05RebuildOld + "}\n", Expect: "C05.D1"},

	// ---- G1 ----------------------------------------------------------------------------------------------------
	{Name: "benign: renderer split into one helper per clause", File: "route/route.go", Old: c05RenderOld,
		New: "\treturn s + weightClause(t, addWeight) + tagsClause(t) + optsClause(t)\n}\n" + c05RenderHelpers, Expect: ""},
	{Name: "benign: renderer writes into a strings.Builder", File: "route/route.go",
		Old: "\ts := fmt.Sprintf(\"route add %s %s %s\", t.Service, r.Host+r.Path, t.URL)\n" + c05RenderOld,
		New: `	var b strings.Builder
	fmt.Fprintf(&b, "route add %s %s %s", t.Service, r.Host+r.Path, t.URL)
	switch {
	case addWeight:
		fmt.Fprintf(&b, " weight %2.4f", t.Weight)
	case t.FixedWeight > 0:
		fmt.Fprintf(&b, " weight %.4f", t.FixedWeight)
	}
	if len(t.Tags) > 0 {
		b.WriteString(" tags \"")
		b.WriteString(strings.Join(t.Tags, ","))
		b.WriteString("\"")
	}
	if len(t.Opts) > 0 {
		keys := make([]string, 0, len(t.Opts))
		for k := range t.Opts {
			keys = append(keys, k)
		}
		sort.Strings(keys)
		b.WriteString(" opts \"")
		for i, k := range keys {
			if i > 0 {
				b.WriteByte(' ')
			}
			b.WriteString(k + "=" + t.Opts[k])
		}
		b.WriteString("\"")
	}
	return b.String()
}
`, Expect: ""},
	{Name: "builder writes the opts before the tags", File: "route/route.go",
		Old: "\ts := fmt.Sprintf(\"route add %s %s %s\", t.Service, r.Host+r.Path, t.URL)\n" + c05RenderOld,
		New: "\tvar b strings.Builder\n\tfmt.Fprintf(&b, \"route add %s %s %s\", t.Service, r.Host+r.Path, t.URL)\n\tif t.FixedWeight > 0 {\n\t\tfmt.Fprintf(&b, \" weight %.4f\", t.FixedWeight)\n\t}\n\tif len(t.Opts) > 0 {\n\t\tb.WriteString(\" opts \\\"\")\n\t\tfor k, v := range t.Opts {\n\t\t\tb.WriteString(k + \"=\" + v + \" \")\n\t\t}\n\t\tb.WriteString(\"\\\"\")\n\t}\n\tif len(t.Tags) > 0 {\n\t\tb.WriteString(\" tags \\\"\" + strings.Join(t.Tags, \",\") + \"\\\"\")\n\t}\n\t_ = addWeight\n\treturn b.String()\n}\n", Expect: "C05.G1"},
	{Name: "benign: add grammar variable renamed", File: "route/parse_new.go", Old: "reAdd", New: "reRouteAddCmd", All: true, Expect: ""},
	{Name: "benign: add grammar compiled with the flexible space spelled out", File: "route/parse_new.go",
		Old: "var reAdd = mustCompileWithFlexibleSpace(`^route add (\\S+) (\\S+) (\\S+)( weight (\\S+))?( tags \"([^\"]*)\")?( opts \"([^\"]*)\")?$`)",
		New: "var reAdd = regexp.MustCompile(`^route\\s+add\\s+(\\S+)\\s+(\\S+)\\s+(\\S+)(\\s+weight\\s+(\\S+))?(\\s+tags\\s+\"([^\"]*)\")?(\\s+opts\\s+\"([^\"]*)\")?$`)", Expect: ""},
	{Name: "clause helpers called in the wrong order", File: "route/route.go", Old: c05RenderOld,
		New: "\treturn s + weightClause(t, addWeight) + optsClause(t) + tagsClause(t)\n}\n" + c05RenderHelpers, Expect: "C05.G1"},
	{Name: "weight clause no longer rendered", File: "route/route.go",
		Old: "\tif addWeight {\n\t\ts += fmt.Sprintf(\" weight %2.4f\", t.Weight)\n\t} else if t.FixedWeight > 0 {\n\t\ts += fmt.Sprintf(\" weight %.4f\", t.FixedWeight)\n\t}\n", New: "\t_ = addWeight\n", Expect: "C05.G1"},

	// ---- Q1 ----------------------------------------------------------------------------------------------------
	{Name: "benign: consul command assembled by a helper", File: "registry/consul/routecmd.go", Old: c05ConsulOld,
		New: "\t\t\tcfg := routeAddCmd(name, route, dst, weight, svctags, ropts)\n",
		More: []repl{{c05ConsulHelperHead, `func routeAddCmd(name, src, dst, weight string, tags, opts []string) string {
	cfg := "route add " + name + " " + src + " " + dst
	if weight != "" {
		cfg += " weight " + weight
	}
	if len(tags) > 0 {
		cfg += " tags \"" + strings.Join(tags, ",") + "\""
	}
	if len(opts) > 0 {
		cfg += " opts \"" + strings.Join(opts, " ") + "\""
	}
	return cfg
}

` + c05ConsulHelperHead}}, Expect: ""},
	{Name: "benign: skipped command logged with strconv.Quote", File: "registry/consul/routecmd.go",
		Old: "log.Printf(\"[WARN] consul: Skipping invalid route %q of service %q\", cfg, name)", New: "log.Printf(\"[WARN] consul: Skipping invalid route %s of service %q\", strconv.Quote(cfg), name)", Expect: ""},
	{Name: "consul helper escapes the opts", File: "registry/consul/routecmd.go", Old: c05ConsulOld,
		New: "\t\t\tcfg := routeAddCmd(name, route, dst, weight, svctags, ropts)\n",
		More: []repl{{c05ConsulHelperHead, `func routeAddCmd(name, src, dst, weight string, tags, opts []string) string {
	cfg := "route add " + name + " " + src + " " + dst
	if weight != "" {
		cfg += " weight " + weight
	}
	if len(tags) > 0 {
		cfg += " tags \"" + strings.Join(tags, ",") + "\""
	}
	if len(opts) > 0 {
		cfg += " opts " + quoted(strings.Join(opts, " "))
	}
	return cfg
}

func quoted(s string) string { return strconv.Quote(s) }

` + c05ConsulHelperHead}}, Expect: "C05.Q1"},
	{Name: "tags clause helper uses %q", File: "route/route.go", Old: c05RenderOld,
		New:  "\treturn s + weightClause(t, addWeight) + tagsClause(t) + optsClause(t)\n}\n" + c05RenderHelpers,
		More: []repl{{"\treturn \" tags \\\"\" + strings.Join(t.Tags, \",\") + \"\\\"\"\n", "\treturn fmt.Sprintf(\" tags %q\", strings.Join(t.Tags, \",\"))\n"}}, Expect: "C05.Q1"},

	// ---- W1 ----------------------------------------------------------------------------------------------------
	{Name: "benign: weighRoute asks a bool-returning wrapper", File: "route/table.go",
		Old: "\tif n := t[host].find(path).setWeight(d.Service, d.Weight, d.Tags); n == 0 {\n\t\treturn errNoMatch\n\t}\n\treturn nil\n}\n",
		New: "\tif !t[host].find(path).reweigh(d) {\n\t\treturn errNoMatch\n\t}\n\treturn nil\n}\n\nfunc (r *Route) reweigh(d *RouteDef) bool {\n\treturn r.setWeight(d.Service, d.Weight, d.Tags) > 0\n}\n", Expect: ""},
	{Name: "benign: weighRoute with a single exit", File: "route/table.go", Old: c05WeighOld,
		New: "\tvar err error\n\tswitch r := t.route(host, path); {\n\tcase r == nil:\n\t\terr = errNoMatch\n\tcase r.setWeight(d.Service, d.Weight, d.Tags) < 1:\n\t\terr = errNoMatch\n\t}\n\treturn err\n}\n", Expect: ""},
	{Name: "bool-returning wrapper ignored", File: "route/table.go",
		Old: "\tif n := t[host].find(path).setWeight(d.Service, d.Weight, d.Tags); n == 0 {\n\t\treturn errNoMatch\n\t}\n\treturn nil\n}\n",
		New: "\tt[host].find(path).reweigh(d)\n\treturn nil\n}\n\nfunc (r *Route) reweigh(d *RouteDef) bool {\n\treturn r.setWeight(d.Service, d.Weight, d.Tags) > 0\n}\n", Expect: "C05.W1"},
	{Name: "no-match error on the wrong branch", File: "route/table.go",
		Old: "setWeight(d.Service, d.Weight, d.Tags); n == 0 {\n\t\treturn errNoMatch", New: "setWeight(d.Service, d.Weight, d.Tags); n != 0 {\n\t\treturn errNoMatch", Expect: "C05.W1"},

	// ---- I1 ----------------------------------------------------------------------------------------------------
	{Name: "benign: de-duplication extracted into Route.hasTarget comparing with the rendered URL", File: "route/route.go", Old: c05DedupOld,
		New:  "\tif r.hasTarget(service, targetURL.String(), fixedWeight, tags) {\n\t\treturn\n\t}\n",
		More: []repl{{"func (r *Route) filter(", "func (r *Route) hasTarget(service, dst string, fixedWeight float64, tags []string) bool {\n\tfor _, t := range r.Targets {\n\t\tif t.Service == service && t.URL.String() == dst && t.FixedWeight == fixedWeight && reflect.DeepEqual(t.Tags, tags) {\n\t\t\treturn true\n\t\t}\n\t}\n\treturn false\n}\n\nfunc (r *Route) filter("}}, Expect: ""},
	{Name: "benign: de-duplication with slices.ContainsFunc", File: "route/route.go", Old: c05DedupOld,
		New:  "\tdst := targetURL.String()\n\tif slices.ContainsFunc(r.Targets, func(t *Target) bool {\n\t\treturn t.Service == service && t.URL.String() == dst && t.FixedWeight == fixedWeight && reflect.DeepEqual(t.Tags, tags)\n\t}) {\n\t\treturn\n\t}\n",
		More: []repl{{"\t\"reflect\"\n", "\t\"reflect\"\n\t\"slices\"\n"}}, Expect: ""},
	{Name: "targets de-duplicated by host only", File: "route/route.go",
		Old: "t.URL.String() == targetURL.String() && t.FixedWeight == fixedWeight", New: "t.URL.Host == targetURL.Host && t.FixedWeight == fixedWeight", Expect: "C05.I1"},
	{Name: "extracted de-duplication compares URL pointers", File: "route/route.go", Old: c05DedupOld,
		New:  "\tif r.hasTarget(service, targetURL, fixedWeight, tags) {\n\t\treturn\n\t}\n",
		More: []repl{{"func (r *Route) filter(", "func (r *Route) hasTarget(service string, dst *url.URL, fixedWeight float64, tags []string) bool {\n\tfor _, t := range r.Targets {\n\t\tif t.Service == service && t.URL == dst && t.FixedWeight == fixedWeight && reflect.DeepEqual(t.Tags, tags) {\n\t\t\treturn true\n\t\t}\n\t}\n\treturn false\n}\n\nfunc (r *Route) filter("}}, Expect: "C05.I1"},

	// ---- second pass ---------------------------------------------------------------------------------------------
	{Name: "benign: Dump collects the hosts with a generic sortedKeys helper", File: "route/table.go",
		Old: "\thosts := []string{}\n\tfor k := range t {\n\t\thosts = append(hosts, k)\n\t}\n\tsort.Strings(hosts)\n", New: "\thosts := sortedKeys(t)\n",
		More: []repl{{"// route finds the route for host/path", "func sortedKeys[M ~map[string]V, V any](m M) []string {\n\tkeys := make([]string, 0, len(m))\n\tfor k := range m {\n\t\tkeys = append(keys, k)\n\t}\n\tsort.Strings(keys)\n\treturn keys\n}\n\n// route finds the route for host/path"}}, Expect: ""},
	{Name: "benign: routes without targets removed with a generic keep helper", File: "route/table.go", Old: c05RebuildOld,
		New:  "\tfor host, routes := range t {\n\t\tt[host] = keep(routes, func(r *Route) bool { return len(r.Targets) > 0 })\n\t}\n",
		More: []repl{{"// route finds the route for host/path", c05KeepHelper + "// route finds the route for host/path"}}, Expect: ""},
	{Name: "generic keep helper given the inverted predicate", File: "route/table.go", Old: c05RebuildOld,
		New:  "\tfor host, routes := range t {\n\t\tt[host] = keep(routes, func(r *Route) bool { return len(r.Targets) == 0 })\n\t}\n",
		More: []repl{{"// route finds the route for host/path", c05KeepHelper + "// route finds the route for host/path"}}, Expect: "C05.D1"},
	{Name: "benign: the delete switch extracted into a helper that returns the error", File: "route/table.go",
		Old:  "func (t Table) delRoute(d *RouteDef) error {\n\tswitch {\n",
		New:  "func (t Table) delRoute(d *RouteDef) error {\n\tif err := t.removeTargets(d); err != nil {\n\t\treturn err\n\t}\n\tt.prune()\n\treturn nil\n}\n\nfunc (t Table) removeTargets(d *RouteDef) error {\n\tswitch {\n",
		More: []repl{{c05CleanupOld, "\treturn nil\n}\n\nfunc (t Table) prune() {\n" + c05RebuildOld + "\n" + c05DropOld + "}\n"}}, Expect: ""},
	{Name: "extracted delete switch: tag deletes skip the cleanup", File: "route/table.go",
		Old:  "func (t Table) delRoute(d *RouteDef) error {\n\tswitch {\n",
		New:  "func (t Table) delRoute(d *RouteDef) error {\n\tif err := t.removeTargets(d); err != nil || len(d.Tags) > 0 {\n\t\treturn err\n\t}\n\tt.prune()\n\treturn nil\n}\n\nfunc (t Table) removeTargets(d *RouteDef) error {\n\tswitch {\n",
		More: []repl{{c05CleanupOld, "\treturn nil\n}\n\nfunc (t Table) prune() {\n" + c05RebuildOld + "\n" + c05DropOld + "}\n"}}, Expect: "C05.D1"},
	{Name: "benign: service delete through a route visitor", File: "route/table.go",
		Old:  "\tcase d.Src == \"\" && d.Dst == \"\":\n\t\tfor _, routes := range t {\n\t\t\tfor _, r := range routes {\n\t\t\t\tr.filter(func(tg *Target) bool {\n\t\t\t\t\treturn tg.Service == d.Service\n\t\t\t\t})\n\t\t\t}\n\t\t}\n",
		New:  "\tcase d.Src == \"\" && d.Dst == \"\":\n\t\tt.eachRoute(func(r *Route) {\n\t\t\tr.filter(func(tg *Target) bool { return tg.Service == d.Service })\n\t\t})\n",
		More: []repl{{"// route finds the route for host/path", "func (t Table) eachRoute(visit func(*Route)) {\n\tfor _, routes := range t {\n\t\tfor _, r := range routes {\n\t\t\tvisit(r)\n\t\t}\n\t}\n}\n\n// route finds the route for host/path"}}, Expect: ""},
	{Name: "benign: opts clause prepared first, appended last", File: "route/route.go",
		Old: "\ts := fmt.Sprintf(\"route add %s %s %s\", t.Service, r.Host+r.Path, t.URL)\n" + c05RenderOld,
		New: `	opts := ""
	if len(t.Opts) > 0 {
		var keys []string
		for k := range t.Opts {
			keys = append(keys, k)
		}
		sort.Strings(keys)

		var vals []string
		for _, k := range keys {
			vals = append(vals, k+"="+t.Opts[k])
		}
		opts = fmt.Sprintf(" opts \"%s\"", strings.Join(vals, " "))
	}
	s := fmt.Sprintf("route add %s %s %s", t.Service, r.Host+r.Path, t.URL)
	if addWeight {
		s += fmt.Sprintf(" weight %2.4f", t.Weight)
	} else if t.FixedWeight > 0 {
		s += fmt.Sprintf(" weight %.4f", t.FixedWeight)
	}
	if len(t.Tags) > 0 {
		s += fmt.Sprintf(" tags \"%s\"", strings.Join(t.Tags, ","))
	}
	return fmt.Sprintf("%s%s", s, opts)
}
`, Expect: ""},
	{Name: "prepared opts clause appended before the tags", File: "route/route.go",
		Old: "\ts := fmt.Sprintf(\"route add %s %s %s\", t.Service, r.Host+r.Path, t.URL)\n" + c05RenderOld,
		New: `	opts := ""
	if len(t.Opts) > 0 {
		var keys []string
		for k := range t.Opts {
			keys = append(keys, k)
		}
		sort.Strings(keys)

		var vals []string
		for _, k := range keys {
			vals = append(vals, k+"="+t.Opts[k])
		}
		opts = fmt.Sprintf(" opts \"%s\"", strings.Join(vals, " "))
	}
	s := fmt.Sprintf("route add %s %s %s", t.Service, r.Host+r.Path, t.URL)
	if addWeight {
		s += fmt.Sprintf(" weight %2.4f", t.Weight)
	} else if t.FixedWeight > 0 {
		s += fmt.Sprintf(" weight %.4f", t.FixedWeight)
	}
	s = fmt.Sprintf("%s%s", s, opts)
	if len(t.Tags) > 0 {
		s += fmt.Sprintf(" tags \"%s\"", strings.Join(t.Tags, ","))
	}
	return s
}
`, Expect: "C05.G1"},
	{Name: "benign: command assembled from a list of parts", File: "route/route.go",
		Old: "\ts := fmt.Sprintf(\"route add %s %s %s\", t.Service, r.Host+r.Path, t.URL)\n" + c05RenderOld,
		New: `	parts := []string{"route add", t.Service, r.Host + r.Path, t.URL.String()}
	if addWeight {
		parts = append(parts, "weight", fmt.Sprintf("%2.4f", t.Weight))
	} else if t.FixedWeight > 0 {
		parts = append(parts, "weight", fmt.Sprintf("%.4f", t.FixedWeight))
	}
	if len(t.Tags) > 0 {
		parts = append(parts, "tags", "\""+strings.Join(t.Tags, ",")+"\"")
	}
	if len(t.Opts) > 0 {
		var keys []string
		for k := range t.Opts {
			keys = append(keys, k)
		}
		sort.Strings(keys)

		var vals []string
		for _, k := range keys {
			vals = append(vals, k+"="+t.Opts[k])
		}
		parts = append(parts, "opts", "\""+strings.Join(vals, " ")+"\"")
	}
	return strings.Join(parts, " ")
}
`, Expect: ""},
	{Name: "benign: weighRoute assigns the weights itself", File: "route/table.go", Old: c05WeighOld,
		New: c05WeighInline("\tif len(matched) == 0 {\n\t\treturn errNoMatch\n\t}\n"), Expect: ""},
	{Name: "inlined weighRoute succeeds without a match", File: "route/table.go", Old: c05WeighOld,
		New: c05WeighInline(""), Expect: "C05.W1"},
	{Name: "benign: the append to Route.Targets sits in a small helper", File: "route/route.go",
		Old: "\tr.Targets = append(r.Targets, t)\n\tr.weighTargets()\n}\n\nfunc (r *Route) filter(",
		New: "\tr.appendTarget(t)\n}\n\nfunc (r *Route) appendTarget(t *Target) {\n\tr.Targets = append(r.Targets, t)\n\tr.weighTargets()\n}\n\nfunc (r *Route) filter(", Expect: ""},
}

const c05KeepHelper = `func keep[T any](s []T, f func(T) bool) []T {
	var out []T
	for _, x := range s {
		if f(x) {
			out = append(out, x)
		}
	}
	return out
}

`

func c05WeighInline(guard string) string {
	return `	r := t.route(host, path)
	if r == nil {
		return errNoMatch
	}
	var matched []*Target
	for _, tg := range r.Targets {
		if d.Service != "" && tg.Service != d.Service {
			continue
		}
		if len(d.Tags) > 0 && !contains(tg.Tags, d.Tags) {
			continue
		}
		matched = append(matched, tg)
	}
` + guard + `	for _, tg := range matched {
		tg.FixedWeight = d.Weight / float64(len(matched))
	}
	if len(matched) > 0 {
		r.weighTargets()
	}
	return nil
}
`
}
