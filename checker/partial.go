package main

import (
	"fmt"
	"go/token"
	"regexp"
	"strings"

	"golang.org/x/tools/go/ssa"
)

// E3 — partial-operation guards (DESIGN §4): constant indices into results of the
// strings.Split family and regexp submatches, slice bounds taken from strings.Index*.

var splitFamily = map[string]int{ // callee -> guaranteed minimum length of the result
	"strings.Split":       1,
	"strings.SplitN":      1, // n != 0 (checked)
	"strings.SplitAfter":  1,
	"strings.SplitAfterN": 1,
	"strings.Fields":      0,
	"bytes.Split":         1,
	"bytes.Fields":        0,
}

var submatchFamily = map[string]bool{
	"(*regexp.Regexp).FindStringSubmatch": true,
	"(*regexp.Regexp).FindSubmatch":       true,
}

var indexFamily = map[string]bool{
	"strings.Index": true, "strings.IndexByte": true, "strings.IndexRune": true, "strings.IndexAny": true,
	"strings.LastIndex": true, "strings.LastIndexByte": true, "strings.LastIndexAny": true,
	"bytes.Index": true, "bytes.IndexByte": true, "bytes.LastIndex": true, "bytes.LastIndexByte": true,
	"strings.IndexFunc": true,
}

// lenLowerBound computes a lower bound of len(x) at block b from dominating facts.
func lenLowerBound(b *ssa.BasicBlock, x ssa.Value, start int64) int64 {
	lower := start
	same := samePath(x)
	isLen := func(v ssa.Value) bool {
		call, ok := v.(*ssa.Call)
		return ok && calleeName(&call.Call) == "builtin.len" && len(call.Call.Args) == 1 && same(call.Call.Args[0])
	}
	var excluded []int64
	for _, f := range factsAt(b) {
		cmp, ok := f.Cond.(*ssa.BinOp)
		if !ok {
			continue
		}
		op := cmp.Op
		var k int64
		if isLen(cmp.X) {
			n, ok := constInt(cmp.Y)
			if !ok {
				continue
			}
			k = n
		} else if isLen(cmp.Y) {
			n, ok := constInt(cmp.X)
			if !ok {
				continue
			}
			k = n
			switch op {
			case token.LSS:
				op = token.GTR
			case token.GTR:
				op = token.LSS
			case token.LEQ:
				op = token.GEQ
			case token.GEQ:
				op = token.LEQ
			}
		} else {
			continue
		}
		if !f.Truth {
			switch op {
			case token.LSS:
				op = token.GEQ
			case token.GEQ:
				op = token.LSS
			case token.GTR:
				op = token.LEQ
			case token.LEQ:
				op = token.GTR
			case token.EQL:
				op = token.NEQ
			case token.NEQ:
				op = token.EQL
			}
		}
		switch op {
		case token.EQL:
			if k > lower {
				lower = k
			}
		case token.GEQ:
			if k > lower {
				lower = k
			}
		case token.GTR:
			if k+1 > lower {
				lower = k + 1
			}
		case token.NEQ:
			excluded = append(excluded, k)
		}
	}
	for changed := true; changed; {
		changed = false
		for _, e := range excluded {
			if e == lower {
				lower++
				changed = true
			}
		}
	}
	return lower
}

// regexpGroups resolves the number of capture groups of the regexp value re (a load of a
// package-level *regexp.Regexp initialised from a constant pattern, possibly through a repo
// wrapper of the form MustCompile(strings.Replace(const...))).
func (c *Ctx) regexpGroups(re ssa.Value) (int, string, bool) {
	u, ok := re.(*ssa.UnOp)
	if !ok || u.Op != token.MUL {
		return 0, "", false
	}
	g, ok := u.X.(*ssa.Global)
	if !ok {
		return 0, "", false
	}
	initFn := g.Pkg.Func("init")
	if initFn == nil {
		return 0, "", false
	}
	var pat string
	found := false
	eachInstr(initFn, func(i ssa.Instruction) {
		st, ok := i.(*ssa.Store)
		if !ok || st.Addr != g {
			return
		}
		call, ok := st.Val.(*ssa.Call)
		if !ok || len(call.Call.Args) != 1 {
			return
		}
		p, ok := constString(call.Call.Args[0])
		if !ok {
			return
		}
		n := calleeName(&call.Call)
		if n == "regexp.MustCompile" {
			pat, found = p, true
			return
		}
		if sc := call.Call.StaticCallee(); sc != nil && isRepoFn(sc) {
			// wrapper: apply constant strings.Replace(All) transformations found in its body
			eachInstr(sc, func(j ssa.Instruction) {
				cc := callCommon(j)
				if cc == nil {
					return
				}
				switch calleeName(cc) {
				case "strings.Replace", "strings.ReplaceAll":
					o, ok1 := constString(cc.Args[1])
					nw, ok2 := constString(cc.Args[2])
					if ok1 && ok2 {
						p = strings.ReplaceAll(p, o, nw)
					}
				}
			})
			pat, found = p, true
		}
	})
	if !found {
		return 0, "", false
	}
	r, err := regexp.Compile(pat)
	if err != nil {
		return 0, pat, false
	}
	return r.NumSubexp(), pat, true
}

// runPartialOps applies P1/P2 to every function in scope.
func runPartialOps(c *Ctx, rule string, scope map[*ssa.Function]bool) int {
	n := 0
	for _, f := range c.AllFns {
		if !scope[f] {
			continue
		}
		eachInstr(f, func(i ssa.Instruction) {
			switch x := i.(type) {
			case *ssa.IndexAddr:
				k, isConst := constInt(x.Index)
				if !isConst {
					return
				}
				src := x.X
				// P1: result of the split family
				if call, ok := src.(*ssa.Call); ok {
					name := calleeName(&call.Call)
					if min, isSplit := splitFamily[name]; isSplit {
						n++
						start := int64(min)
						if name == "strings.SplitN" || name == "strings.SplitAfterN" {
							if cnt, ok := constInt(call.Call.Args[2]); !ok || cnt == 0 {
								start = 0
							}
						}
						lb := lenLowerBound(x.Block(), src, start)
						c.check(rule, fnKey(f)+"|"+name+" result ["+fmt.Sprint(k)+"]", x.Pos(), lb > k,
							fmt.Sprintf("index %d into the result of %s is not protected: only len >= %d is known here, so an input without the separator panics (index out of range)", k, name, lb))
						return
					}
					if submatchFamily[name] {
						n++
						groups, pat, ok := c.regexpGroups(call.Call.Args[0])
						nonNil := knownNonNil(x.Block(), sameVal(src))
						detail := fmt.Sprintf("index %d into a submatch result needs a dominating `m != nil` and at most %d capture groups in %q", k, groups, pat)
						if !ok {
							c.ob(rule, fnKey(f)+"|submatch ["+fmt.Sprint(k)+"]", x.Pos(), Undecided, "cannot resolve the regexp's constant pattern: "+detail)
							return
						}
						c.check(rule, fnKey(f)+"|submatch ["+fmt.Sprint(k)+"]", x.Pos(), nonNil && k <= int64(groups), detail)
						return
					}
				}
			case *ssa.Slice:
				// P2: bounds taken from strings.Index*
				for _, bnd := range []ssa.Value{x.Low, x.High} {
					if bnd == nil {
						continue
					}
					var idxCall *ssa.Call
					derives(bnd, func(v ssa.Value) bool {
						if call, ok := v.(*ssa.Call); ok && indexFamily[calleeName(&call.Call)] {
							idxCall = call
							return true
						}
						return false
					})
					if idxCall == nil {
						continue
					}
					n++
					ok := indexNonNegative(x.Block(), idxCall)
					c.check(rule, fnKey(f)+"|slice bound from "+calleeName(&idxCall.Call), x.Pos(), ok,
						"a slice bound computed from "+calleeName(&idxCall.Call)+" is used without a dominating test that the index is >= 0: when the separator is absent the result is -1 and the slice expression panics")
				}
			}
		})
	}
	return n
}

// indexNonNegative: a dominating fact shows idx >= 0 (n >= 0, n > -1, n != -1, n > 0, n < 0 false, n == -1 false).
func indexNonNegative(b *ssa.BasicBlock, idx ssa.Value) bool {
	for _, f := range factsAt(b) {
		cmp, ok := f.Cond.(*ssa.BinOp)
		if !ok || cmp.X != idx {
			continue
		}
		k, ok := constInt(cmp.Y)
		if !ok {
			continue
		}
		switch cmp.Op {
		case token.GEQ:
			if f.Truth && k >= 0 {
				return true
			}
		case token.GTR:
			if f.Truth && k >= -1 {
				return true
			}
		case token.LSS:
			if !f.Truth && k >= 0 {
				return true
			}
		case token.LEQ:
			if !f.Truth && k >= -1 {
				return true
			}
		case token.NEQ:
			if f.Truth && k == -1 {
				return true
			}
		case token.EQL:
			if !f.Truth && k == -1 {
				return true
			}
		}
	}
	return false
}
