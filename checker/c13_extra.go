package main

// Rules of C13 added after the rounds of independently authored breaking changes (DESIGN 11.6, 11.7).

import (
	"golang.org/x/tools/go/ssa"
)

// C13.L2: wherever the lookup (Table.Lookup or a helper of it) concludes "this redirect points back at the request"
// - the block that hands on nil / continues with the next host - it knows scheme, host:port and path to be equal.
func runC13L2(c *Ctx) {
	lk := c.method("route", "Table", "Lookup")
	if !c.need("C13.L2", lk, "route.Table.Lookup") {
		return
	}
	reg := c.region(lk)
	n := 0
	for _, sp := range c13skipPoints(reg) {
		n++
		sf := sp.sf
		c.check("C13.L2", "(route.Table).Lookup|self-redirect means same scheme, same host:port and same path", sp.oc.at.Pos(), sf.scheme && sf.host && sf.path,
			"a redirect is skipped only when it would point back at the request itself: the skip edge must carry RedirectURL.Scheme == forwarded proto, RedirectURL.Host == req.Host (the full host including the port) and RedirectURL.Path == request path as field comparisons; comparing less (e.g. host names without port) skips legitimate redirects to another port and sends the request to an upstream instead")
	}
	c.atLeast("C13.L2", "self-redirect skip edges", n, 1)
}

// C13.E2: every caller of the location builder hands it the request URL itself or a copy carrying RawPath.
func runC13E2(c *Ctx) {
	lk := c.method("route", "Table", "Lookup")
	if !c.need("C13.E2", lk, "route.Table.Lookup") {
		return
	}
	bi := c13findBuilders(c)
	if len(bi.fns) == 0 {
		c.undecided("C13.E2", "anchor|requestURL parameter", "no function of package route has a request parameter (*url.URL or *http.Request) from which the \"$path\" substitution derives")
		return
	}
	inLookup := map[*ssa.Function]bool{}
	for _, f := range c.region(lk) {
		inLookup[f] = true
	}
	isReqURL := func(v ssa.Value) bool { _, ok := fieldOf(v, "http.Request", "URL"); return ok }
	var carriesRawPath func(arg ssa.Value, depth int) bool
	carriesRawPath = func(arg ssa.Value, depth int) bool {
		return c13allArgs(arg, func(arg ssa.Value) bool {
			if isReqURL(arg) {
				return true
			}
			switch a := arg.(type) {
			case *ssa.Alloc:
				fs := fieldStores(a)
				if len(fs["RawPath"]) > 0 && len(fs["Path"]) > 0 {
					return true
				}
				for _, r := range *a.Referrers() {
					if st, isSt := r.(*ssa.Store); isSt && st.Addr == a {
						if u, isU := st.Val.(*ssa.UnOp); isU && carriesRawPath(u.X, depth+1) {
							return true // whole-struct copy of *req.URL
						}
					}
				}
			case *ssa.Call:
				// a repository helper that returns the request URL or such a copy (cloneURL(req.URL))
				sc := a.Call.StaticCallee()
				if sc == nil || !isRepoFn(sc) || len(sc.Blocks) == 0 || depth > 2 {
					return false
				}
				n, all := 0, true
				eachInstr(sc, func(i ssa.Instruction) {
					if r, ok := i.(*ssa.Return); ok && len(r.Results) > 0 {
						n++
						if !carriesRawPath(r.Results[0], depth+1) {
							all = false
						}
					}
				})
				return n > 0 && all
			}
			return false
		})
	}
	const detail = "BuildRedirectURL substitutes $path with the encoded path (RawPath) when the request has one; it must be given req.URL itself or a copy that carries RawPath — a URL rebuilt from Path and RawQuery alone turns %2F in the request into '/' in the Location"
	n := 0
	// (i) the hand-over: every caller of a function of the builder family passes the request URL or such a copy
	for _, build := range bi.fns {
		for _, site := range gSites[build] {
			cc := site.Common()
			for idx, p := range build.Params {
				if !bi.isParam(p) || bi.kind != "*net/url.URL" || idx >= len(cc.Args) {
					continue
				}
				// a member of the family that passes its own request URL on: its callers are checked in turn
				passOn := bi.isParam(cc.Args[idx])
				if inLookup[site.Parent()] && !passOn {
					n++
				}
				c.check("C13.E2", "(route.Table).Lookup|redirect built from the request URL including RawPath", site.Pos(), passOn || carriesRawPath(cc.Args[idx], 0), detail)
			}
		}
	}
	// (ii) wherever it is made: a url.URL assembled in package route from which the $path replacement derives carries
	// RawPath (a builder that takes the *http.Request has no hand-over to look at)
	var repls []ssa.Value
	reg := c.region(append([]*ssa.Function{lk}, bi.fns...)...)
	eachInstrOf(reg, func(f *ssa.Function, i ssa.Instruction) {
		if cc := callCommon(i); cc != nil {
			if v, r, ok := c13subst(cc); ok && v == "$path" {
				repls = append(repls, r)
				if bi.kind != "*net/url.URL" && inLookup[f] && derives(r, isReqURL) {
					n++
				}
			}
		}
	})
	for _, f := range c.fnsWhere("route", func(*ssa.Function) bool { return true }) {
		for _, a := range allocsOf(f, "url.URL") {
			fromRequest := false
			for _, st := range fieldStores(a)["Path"] {
				if derives(st.Val, func(x ssa.Value) bool { return isReqURL(x) || bi.isParam(x) }) {
					fromRequest = true
				}
			}
			if !fromRequest {
				continue
			}
			used := false
			for _, r := range repls {
				if derives(r, sameVal(a)) {
					used = true
					break
				}
			}
			if used {
				c.check("C13.E2", "(route.Table).Lookup|redirect built from the request URL including RawPath", a.Pos(), carriesRawPath(a, 0), detail)
			}
		}
	}
	c.atLeast("C13.E2", "BuildRedirectURL calls reachable from Table.Lookup", n, 1)
}
