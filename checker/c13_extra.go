package main

// Rules of C13 added after the rounds of independently authored breaking changes (DESIGN 11.6, 11.7).

import (
	"golang.org/x/tools/go/ssa"
)

// C13.L2: wherever the lookup (Table.Lookup or a helper of it) concludes "this redirect points back at the request"
// - the block that hands on nil / continues with the next host - it knows scheme, host:port and path to be equal.
func runC13L2(c *Ctx) {
	lk := c.method("route", "Table", "Lookup")
	if !c.need("C13.L2", lk, "route.Table.Lookup") {
		return
	}
	reg := c.region(lk)
	n := 0
	for _, sp := range c13skipPoints(reg) {
		n++
		sf := sp.sf
		c.check("C13.L2", "(route.Table).Lookup|self-redirect means same scheme, same host:port and same path", sp.oc.at.Pos(), sf.scheme && sf.host && sf.path,
			"a redirect is skipped only when it would point back at the request itself: the skip edge must carry RedirectURL.Scheme == forwarded proto, RedirectURL.Host == req.Host (the full host including the port) and RedirectURL.Path == request path as field comparisons; comparing less (e.g. host names without port) skips legitimate redirects to another port and sends the request to an upstream instead")
	}
	c.atLeast("C13.L2", "self-redirect skip edges", n, 1)
}

// C13.E2: every caller of the location builder hands it the request URL itself or a copy carrying RawPath.
func runC13E2(c *Ctx) {
	lk := c.method("route", "Table", "Lookup")
	build := c13buildFn(c)
	if !c.need("C13.E2", lk, "route.Table.Lookup") || !c.need("C13.E2", build, "route.Target.BuildRedirectURL") {
		return
	}
	inLookup := map[*ssa.Function]bool{}
	for _, f := range c.region(lk) {
		inLookup[f] = true
	}
	idx := -1
	for k, p := range build.Params {
		if typeStr(p.Type()) == "*net/url.URL" {
			idx = k
		}
	}
	if idx < 0 {
		c.undecided("C13.E2", "anchor|requestURL parameter", "BuildRedirectURL has no *url.URL parameter")
		return
	}
	isReqURL := func(v ssa.Value) bool { _, ok := fieldOf(v, "http.Request", "URL"); return ok }
	var carriesRawPath func(arg ssa.Value, depth int) bool
	carriesRawPath = func(arg ssa.Value, depth int) bool {
		return c13allArgs(arg, func(arg ssa.Value) bool {
			if isReqURL(arg) {
				return true
			}
			switch a := arg.(type) {
			case *ssa.Alloc:
				fs := fieldStores(a)
				if len(fs["RawPath"]) > 0 && len(fs["Path"]) > 0 {
					return true
				}
				for _, r := range *a.Referrers() {
					if st, isSt := r.(*ssa.Store); isSt && st.Addr == a {
						if u, isU := st.Val.(*ssa.UnOp); isU && carriesRawPath(u.X, depth+1) {
							return true // whole-struct copy of *req.URL
						}
					}
				}
			case *ssa.Call:
				// a repository helper that returns the request URL or such a copy (cloneURL(req.URL))
				sc := a.Call.StaticCallee()
				if sc == nil || !isRepoFn(sc) || len(sc.Blocks) == 0 || depth > 2 {
					return false
				}
				n, all := 0, true
				eachInstr(sc, func(i ssa.Instruction) {
					if r, ok := i.(*ssa.Return); ok && len(r.Results) > 0 {
						n++
						if !carriesRawPath(r.Results[0], depth+1) {
							all = false
						}
					}
				})
				return n > 0 && all
			}
			return false
		})
	}
	n := 0
	for _, site := range gSites[build] {
		cc := site.Common()
		if idx >= len(cc.Args) {
			continue
		}
		if inLookup[site.Parent()] {
			n++
		}
		c.check("C13.E2", "(route.Table).Lookup|redirect built from the request URL including RawPath", site.Pos(), carriesRawPath(cc.Args[idx], 0),
			"BuildRedirectURL substitutes $path with the encoded path (RawPath) when the request has one; it must be given req.URL itself or a copy that carries RawPath — a URL rebuilt from Path and RawQuery alone turns %2F in the request into '/' in the Location")
	}
	c.atLeast("C13.E2", "BuildRedirectURL calls reachable from Table.Lookup", n, 1)
}
