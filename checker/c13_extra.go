package main

// Rules of C13 added after the rounds of independently authored breaking changes (DESIGN 11.6, 11.7).

import (
	"go/token"
	"strings"

	"golang.org/x/tools/go/ssa"
)

func runC13L2(c *Ctx) {
	lk := c.method("route", "Table", "Lookup")
	if lk == nil {
		return
	}
	// the skip edge: block in the loop that jumps back to the head under RedirectCode != 0 with a nil result (L1)
	n := 0
	for _, l := range loopsOf(lk) {
		for _, p := range l.Head.Preds {
			if !l.Body[p] {
				continue
			}
			fs := factsAt(p)
			isRedirect := false
			for _, ft := range fs {
				if b, ok := ft.Cond.(*ssa.BinOp); ok && b.Op == token.NEQ && ft.Truth {
					if _, isF := fieldOf(b.X, "route.Target", "RedirectCode"); isF {
						isRedirect = true
					}
				}
			}
			if !isRedirect {
				continue
			}
			n++
			var scheme, host, path bool
			for _, ft := range fs {
				b, ok := ft.Cond.(*ssa.BinOp)
				if !ok || b.Op != token.EQL || !ft.Truth {
					continue
				}
				fx := func(v ssa.Value, typ, field string) bool { _, ok := fieldOf(v, typ, field); return ok }
				onRedirect := func(v ssa.Value) bool {
					return derives(v, func(x ssa.Value) bool { _, ok := fieldOf(x, "route.Target", "RedirectURL"); return ok })
				}
				switch {
				case fx(b.X, "url.URL", "Scheme") && onRedirect(b.X):
					scheme = true
				case fx(b.X, "url.URL", "Host") && onRedirect(b.X) && fx(b.Y, "http.Request", "Host"):
					host = true
				case fx(b.X, "url.URL", "Path") && onRedirect(b.X) && fx(b.Y, "url.URL", "Path"):
					path = true
				}
			}
			c.check("C13.L2", "(route.Table).Lookup|self-redirect means same scheme, same host:port and same path", p.Instrs[len(p.Instrs)-1].Pos(), scheme && host && path,
				"a redirect is skipped only when it would point back at the request itself: the skip edge must carry RedirectURL.Scheme == forwarded proto, RedirectURL.Host == req.Host (the full host including the port) and RedirectURL.Path == request path as field comparisons; comparing less (e.g. host names without port) skips legitimate redirects to another port and sends the request to an upstream instead")
		}
	}
	c.atLeast("C13.L2", "self-redirect skip edges", n, 1)
}

// ---- C15.V3: enumerated options are validated on the very value that is used, against the registry's keys ----------

func runC13E2(c *Ctx) {
	lk := c.method("route", "Table", "Lookup")
	if !c.need("C13.E2", lk, "route.Table.Lookup") {
		return
	}
	n := 0
	eachInstr(lk, func(i ssa.Instruction) {
		cc := callCommon(i)
		if cc == nil || !strings.HasSuffix(calleeName(cc), "Target).BuildRedirectURL") || len(cc.Args) < 2 {
			return
		}
		n++
		arg := cc.Args[1]
		ok := false
		if _, isReqURL := fieldOf(arg, "http.Request", "URL"); isReqURL {
			ok = true
		} else if a, isAlloc := arg.(*ssa.Alloc); isAlloc {
			fs := fieldStores(a)
			if len(fs["RawPath"]) > 0 && len(fs["Path"]) > 0 {
				ok = true
			}
			for _, r := range *a.Referrers() {
				if st, isSt := r.(*ssa.Store); isSt && st.Addr == a {
					if u, isU := st.Val.(*ssa.UnOp); isU {
						if _, isReqURL := fieldOf(u.X, "http.Request", "URL"); isReqURL {
							ok = true // whole-struct copy of *req.URL
						}
					}
				}
			}
		}
		c.check("C13.E2", "(route.Table).Lookup|redirect built from the request URL including RawPath", i.Pos(), ok,
			"BuildRedirectURL substitutes $path with the encoded path (RawPath) when the request has one; it must be given req.URL itself or a copy that carries RawPath — a URL rebuilt from Path and RawQuery alone turns %2F in the request into '/' in the Location")
	})
	c.atLeast("C13.E2", "BuildRedirectURL calls in Table.Lookup", n, 1)
}

// ---- C14.E1: option text of a urlprefix tag is not environment-expanded -------------------------------------
