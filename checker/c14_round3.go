package main

// Rules of C14 added after the third round of independently authored breaking changes (DESIGN 11.10); wired in zzz_round3.go.

import (
	"go/token"
	"go/types"
	"strings"

	"golang.org/x/tools/go/ssa"
)

// ---- C14.W2 / C14.U1 -------------------------------------------------------------------------------------------------

// runC14W2: the weight of a command is the text the service registered, not a re-rendered number. Asked of the backward
// slice of every command (wherever the option is read and wherever the text is assembled - one function, a spec struct
// filled by one helper and rendered by another, a table of option handlers): no formatting call in the slice takes a
// number that was parsed from text.
func runC14W2(c *Ctx) {
	c14ctx = c
	st := c14stateOf(c)
	isParsed := func(v ssa.Value) bool {
		ex, ok := v.(*ssa.Extract)
		if !ok || ex.Index != 0 {
			return false
		}
		call, ok := ex.Tuple.(*ssa.Call)
		if !ok {
			return false
		}
		switch calleeName(&call.Call) {
		case "strconv.ParseFloat", "strconv.Atoi", "strconv.ParseInt", "strconv.ParseUint":
			return true
		}
		return false
	}
	isFormat := func(name string) bool {
		return strings.HasPrefix(name, "fmt.Sprint") || strings.HasPrefix(name, "fmt.Fprint") || strings.HasPrefix(name, "fmt.Append") ||
			strings.HasPrefix(name, "strconv.Format") || strings.HasPrefix(name, "strconv.Append") || name == "strconv.Itoa"
	}
	for _, sk := range st.sinks {
		var bad *ssa.Call
		seen := map[*ssa.Call]bool{}
		c14slice(sk.val, func(x ssa.Value) {
			call, ok := x.(*ssa.Call)
			if !ok || seen[call] || bad != nil || !isFormat(calleeName(&call.Call)) {
				return
			}
			seen[call] = true
			for _, a := range call.Call.Args {
				if c14derives(a, isParsed) {
					bad = call
				}
			}
		})
		pos, key := sk.store.Pos(), fnKey(sk.fn)
		if bad != nil {
			pos, key = bad.Pos(), fnKey(bad.Parent())
		}
		c.check("C14.W2", key+"|registered numbers are copied, not re-rendered", pos, bad == nil,
			"a number parsed from the registration (strconv.ParseFloat / Atoi / ParseInt) is formatted back into the command text: the command then denotes the rounded value, not the registered one (weight=0.00004 rendered with %.4f becomes 'weight 0.0000', i.e. NO fixed weight: the canary gets an equal share) — copy the option's text and let fabio's own parser judge it")
	}
	c.atLeast("C14.W2", "generators of route add commands", len(st.sinks), 1)
}

// runC14U1: the update loop skips an iteration only for unchanged text. The update loop is found by role: a loop whose
// body (directly, or through the functions it calls - the body may have become a method of a small updater type)
// reaches route.NewTable and route.SetTable. From the head of the loop the head cannot be reached again without passing
// a PARSE POINT, except over an edge on which two non-constant strings are known to be equal (candidate == last). A parse
// point is a call of route.NewTable, or a call of a repository function in which every path from entry to a return
// passes a parse point (or such an edge).
func runC14U1(c *Ctx) {
	c14ctx = c
	named := func(names ...string) func(ssa.Instruction) bool {
		return func(i ssa.Instruction) bool {
			cc := callCommon(i)
			if cc == nil || cc.StaticCallee() == nil {
				return false
			}
			for _, name := range names {
				if funcName(cc.StaticCallee()) == repoMod+"/route."+name {
					return true
				}
			}
			return false
		}
	}
	// (route.NewTableCustom is not a parse point: the custom backend's polling loop installs tables built from
	// definitions it fetched, and a failed fetch has nothing to parse)
	isNewTable, isSetTable := named("NewTable"), named("SetTable")
	// may: the instruction does it, or calls (not: starts as a goroutine) repository code that may
	var mayFn func(fn *ssa.Function, pred func(ssa.Instruction) bool, d int) bool
	may := func(i ssa.Instruction, pred func(ssa.Instruction) bool, d int) bool {
		if pred(i) {
			return true
		}
		if _, isGo := i.(*ssa.Go); isGo {
			return false
		}
		cc := callCommon(i)
		if cc == nil || (cc.StaticCallee() != nil && !isRepoFn(cc.StaticCallee())) {
			return false
		}
		for _, g := range c14callees(cc) {
			if mayFn(g, pred, d+1) {
				return true
			}
		}
		return false
	}
	mayFn = func(fn *ssa.Function, pred func(ssa.Instruction) bool, d int) bool {
		if fn == nil || !isRepoFn(fn) || len(fn.Blocks) == 0 || d > 3 {
			return false
		}
		hit := false
		eachInstr(fn, func(i ssa.Instruction) {
			if !hit && may(i, pred, d) {
				hit = true
			}
		})
		return hit
	}
	// equalStrings: the fact says two non-constant strings are equal - directly, or as the verdict of a repository
	// predicate every such outcome of which says so (`unchanged(next, last)`, `!u.changed(next)`)
	var equalStrings func(ft Fact, d int) bool
	equalStrings = func(ft Fact, d int) bool {
		isStr := func(v ssa.Value) bool {
			bt, ok := v.Type().Underlying().(*types.Basic)
			return ok && bt.Info()&types.IsString != 0
		}
		if x, op, y, ok := c14cmp(ft); ok {
			if op != token.EQL || !isStr(x) || !isStr(y) {
				return false
			}
			_, kx := x.(*ssa.Const)
			_, ky := y.(*ssa.Const)
			return !kx && !ky
		}
		call, res, ok := c14callResult(ft.Cond)
		if !ok || d > 2 || !c14isBoolType(ft.Cond.Type()) {
			return false
		}
		// (bytes.Equal on slices is NOT accepted: a []byte kept from a reused buffer aliases the next candidate)
		callees := c14callees(&call.Call)
		if len(callees) == 0 {
			return false
		}
		for _, g := range callees {
			if g == nil || !isRepoFn(g) || len(g.Blocks) == 0 {
				return false
			}
			envs := c14returnEnvs(g, c14verdict{Call: call, Res: res, Truth: ft.Truth})
			if len(envs) == 0 {
				return false
			}
			for _, env := range envs {
				found := false
				for _, f2 := range env.Facts {
					if f2.Cond != ft.Cond && equalStrings(f2, d+1) {
						found = true
					}
				}
				if !found {
					return false
				}
			}
		}
		return true
	}
	cut := func(pred, succ *ssa.BasicBlock) bool {
		if len(pred.Instrs) == 0 || len(pred.Succs) != 2 || pred.Succs[0] == pred.Succs[1] {
			return false
		}
		iff, ok := pred.Instrs[len(pred.Instrs)-1].(*ssa.If)
		if !ok {
			return false
		}
		for _, ft := range appendCondFacts(nil, iff.Cond, pred.Succs[0] == succ, 0) {
			if equalStrings(ft, 0) {
				return true
			}
		}
		return false
	}
	// parse points
	mustMemo := map[*ssa.Function]int{} // 1: in progress / no, 2: yes
	var parsePoint func(i ssa.Instruction, d int) bool
	var mustParse func(fn *ssa.Function, d int) bool
	// escape: starting at instruction index idx of block b, can a target block (or, target == nil, a return) be reached
	// inside `within` (nil: the whole function) without a parse point and without a cut edge? Returns where.
	escape := func(b *ssa.BasicBlock, idx int, within map[*ssa.BasicBlock]bool, target *ssa.BasicBlock, d int) (token.Pos, bool) {
		type item struct {
			b   *ssa.BasicBlock
			idx int
		}
		lastPos := func(blk *ssa.BasicBlock) token.Pos {
			for k := len(blk.Instrs) - 1; k >= 0; k-- {
				if blk.Instrs[k].Pos().IsValid() {
					return blk.Instrs[k].Pos()
				}
			}
			return token.NoPos
		}
		seen := map[*ssa.BasicBlock]bool{}
		stack := []item{{b, idx}}
		for len(stack) > 0 {
			it := stack[len(stack)-1]
			stack = stack[:len(stack)-1]
			blocked := false
			for k := it.idx; k < len(it.b.Instrs); k++ {
				in := it.b.Instrs[k]
				if parsePoint(in, d) {
					blocked = true
					break
				}
				if _, isRet := in.(*ssa.Return); isRet && target == nil {
					return in.Pos(), true
				}
			}
			if blocked {
				continue
			}
			for _, sx := range it.b.Succs {
				if cut(it.b, sx) {
					continue
				}
				if target != nil && sx == target {
					return lastPos(it.b), true
				}
				if (within == nil || within[sx]) && !seen[sx] {
					seen[sx] = true
					stack = append(stack, item{sx, 0})
				}
			}
		}
		return token.NoPos, false
	}
	mustParse = func(fn *ssa.Function, d int) bool {
		if fn == nil || !isRepoFn(fn) || len(fn.Blocks) == 0 || d > 3 {
			return false
		}
		if m := mustMemo[fn]; m != 0 {
			return m == 2
		}
		mustMemo[fn] = 1
		if _, esc := escape(fn.Blocks[0], 0, nil, nil, d); !esc {
			mustMemo[fn] = 2
		}
		return mustMemo[fn] == 2
	}
	parsePoint = func(i ssa.Instruction, d int) bool {
		if isNewTable(i) {
			_, isGo := i.(*ssa.Go)
			_, isDefer := i.(*ssa.Defer)
			return !isGo && !isDefer
		}
		call, ok := i.(*ssa.Call)
		if !ok || (call.Call.StaticCallee() != nil && !isRepoFn(call.Call.StaticCallee())) {
			return false
		}
		callees := c14callees(&call.Call)
		if len(callees) == 0 {
			return false
		}
		for _, g := range callees {
			if !mustParse(g, d+1) {
				return false
			}
		}
		return true
	}

	n := 0
	for _, f := range c14fns(c) {
		for _, l := range loopsOf(f) {
			parses, installs := false, false
			for b := range l.Body {
				for _, in := range b.Instrs {
					if may(in, isNewTable, 0) {
						parses = true
					}
					if may(in, isSetTable, 0) {
						installs = true
					}
				}
			}
			if !parses || !installs {
				continue
			}
			n++
			skipAt, skips := escape(l.Head, 0, l.Body, l.Head, 0)
			if skips && !skipAt.IsValid() {
				skipAt = f.Pos()
			}
			c.check("C14.U1", fnKey(f)+"|a changed configuration is always parsed", skipAt, !skips,
				"an update of the registry can return to the head of the update loop without the new text being handed to route.NewTable although it differs from the last installed text: a failure of some side activity (registering aliases, logging, metrics) must not block table updates — one service's odd registration would freeze the routes of all services")
		}
	}
	c.atLeast("C14.U1", "update loops that parse the candidate text and install the table", n, 1)
}
