package main

// Rules of C14 added after the third round of independently authored breaking changes (DESIGN 11.10); wired in zzz_round3.go.

import (
	"go/token"
	"go/types"
	"strings"

	"golang.org/x/tools/go/ssa"
)

// ---- C14.W2 / C14.U1 -------------------------------------------------------------------------------------------------

// runC14W2: the weight of a command is the text the service registered, not a re-rendered number.
func runC14W2(c *Ctx) {
	n := 0
	for _, f := range c.fnsWhere("registry/consul", func(fn *ssa.Function) bool {
		hit := false
		eachInstr(fn, func(i ssa.Instruction) {
			for _, op := range i.Operands(nil) {
				if op != nil && *op != nil {
					if s, ok := constString(*op); ok && strings.HasPrefix(s, "route add") {
						hit = true
					}
				}
			}
		})
		return hit
	}) {
		n++
		eachInstr(f, func(i ssa.Instruction) {
			call, ok := i.(*ssa.Call)
			if !ok {
				return
			}
			name := calleeName(&call.Call)
			if name != "strconv.ParseFloat" && name != "strconv.Atoi" && name != "strconv.ParseInt" {
				return
			}
			// the parsed number flows into text (concatenation, Sprintf, FormatFloat)
			reaches := false
			eachInstr(f, func(j ssa.Instruction) {
				cc := callCommon(j)
				if cc == nil {
					return
				}
				jn := calleeName(cc)
				if strings.HasPrefix(jn, "fmt.Sprint") || strings.HasPrefix(jn, "strconv.Format") || jn == "strconv.Itoa" {
					for _, a := range cc.Args {
						for _, e := range append(c01Variadic(a), a) {
							if derives(e, func(v ssa.Value) bool { return v == ssa.Value(call) }) {
								reaches = true
							}
						}
					}
				}
			})
			c.check("C14.W2", fnKey(f)+"|registered numbers are copied, not re-rendered", i.Pos(), !reaches,
				"a number parsed from the registration ("+name+") is formatted back into the command text: the command then denotes the rounded value, not the registered one (weight=0.00004 rendered with %.4f becomes 'weight 0.0000', i.e. NO fixed weight: the canary gets an equal share) — copy the option's text and let fabio's own parser judge it")
		})
	}
	c.atLeast("C14.W2", "generators of route add commands", n, 1)
}

// runC14U1: between rebuilding the candidate text and parsing it, the update loop skips only for unchanged text.
func runC14U1(c *Ctx) {
	n := 0
	for _, f := range c.fnsWhere("main", func(*ssa.Function) bool { return true }) {
		for _, l := range loopsOf(f) {
			// the parse of the candidate: a call (direct or via a helper) that reaches route.NewTable, inside the loop
			isParse := func(i ssa.Instruction) bool {
				cc := callCommon(i)
				return cc != nil && cc.StaticCallee() != nil && funcName(cc.StaticCallee()) == repoMod+"/route.NewTable"
			}
			var parse ssa.Instruction
			var sel *ssa.Select
			for b := range l.Body {
				for _, in := range b.Instrs {
					if liftMay(isParse)(in) {
						if _, isGo := in.(*ssa.Go); !isGo {
							parse = in
						}
					}
					if s, ok := in.(*ssa.Select); ok && len(s.States) >= 2 {
						sel = s
					}
				}
			}
			if parse == nil || sel == nil {
				continue
			}
			n++
			// from the select, the loop head is not reachable without the parse, except over an edge "candidate == last"
			cut := func(pred, succ *ssa.BasicBlock) bool {
				if len(pred.Instrs) == 0 || len(pred.Succs) != 2 {
					return false
				}
				iff, ok := pred.Instrs[len(pred.Instrs)-1].(*ssa.If)
				if !ok {
					return false
				}
				truth := pred.Succs[0] == succ
				for _, ft := range appendCondFacts(nil, iff.Cond, truth, 0) {
					b, ok := ft.Cond.(*ssa.BinOp)
					if !ok {
						// a verdict helper: equal(a, b) on strings
						continue
					}
					isStr := func(v ssa.Value) bool {
						bt, ok := v.Type().Underlying().(*types.Basic)
						return ok && bt.Kind() == types.String
					}
					if isStr(b.X) && isStr(b.Y) && (b.Op == token.EQL && ft.Truth || b.Op == token.NEQ && !ft.Truth) {
						if _, isK := b.X.(*ssa.Const); isK {
							continue
						}
						if _, isK := b.Y.(*ssa.Const); isK {
							continue
						}
						return true
					}
				}
				return false
			}
			skipAt := token.NoPos
			type item struct {
				b   *ssa.BasicBlock
				idx int
			}
			seen := map[*ssa.BasicBlock]bool{}
			stack := []item{{sel.Block(), instrIndex(sel) + 1}}
			for len(stack) > 0 && skipAt == token.NoPos {
				it := stack[len(stack)-1]
				stack = stack[:len(stack)-1]
				blocked := false
				for k := it.idx; k < len(it.b.Instrs); k++ {
					if it.b.Instrs[k] == parse {
						blocked = true
						break
					}
				}
				if blocked {
					continue
				}
				for _, sx := range it.b.Succs {
					if cut(it.b, sx) {
						continue
					}
					if sx == l.Head {
						skipAt = sel.Pos()
						for k := len(it.b.Instrs) - 1; k >= 0; k-- {
							if it.b.Instrs[k].Pos().IsValid() {
								skipAt = it.b.Instrs[k].Pos()
								break
							}
						}
					} else if l.Body[sx] && !seen[sx] {
						seen[sx] = true
						stack = append(stack, item{sx, 0})
					}
				}
			}
			c.check("C14.U1", fnKey(f)+"|a changed configuration is always parsed", skipAt, skipAt == token.NoPos,
				"an update of the registry can return to the select without the new text being handed to route.NewTable although it differs from the last installed text: a failure of some side activity (registering aliases, logging, metrics) must not block table updates — one service's odd registration would freeze the routes of all services")
		}
	}
	c.atLeast("C14.U1", "update loops of package main that parse the candidate text", n, 1)
}
