package main

// Rules of C04 added after the rounds of independently authored breaking changes (DESIGN 11.6, 11.7).

import (
	"go/token"
	"go/types"

	"golang.org/x/tools/go/ssa"
)

func runC04R6(c *Ctx) {
	weigh := c.method("route", "Route", "weighTargets")
	if weigh == nil {
		return
	}
	isFloatSub := func(v ssa.Value) bool {
		b, ok := v.(*ssa.BinOp)
		if !ok || b.Op != token.SUB {
			return false
		}
		bt, ok := b.Type().Underlying().(*types.Basic)
		return ok && bt.Info()&types.IsFloat != 0
	}
	n := 0
	eachInstr(weigh, func(i ssa.Instruction) {
		st, ok := i.(*ssa.Store)
		if !ok {
			return
		}
		if _, isW := fieldOf(st.Addr, "route.Target", "Weight"); !isW {
			return
		}
		if !derives(st.Val, isFloatSub) {
			return
		}
		n++
		// clamp: the stored value is a merge of the raw value and the constant 0, the 0 chosen under raw < 0
		okClamp := false
		for _, d := range defsOf(st.Val) {
			k, isK := d.Val.(*ssa.Const)
			if !isK || k.Value == nil || k.Float64() != 0 || d.Block == nil {
				continue
			}
			for _, ft := range factsAt(d.Block) {
				if b, ok := ft.Cond.(*ssa.BinOp); ok && derives(b.X, isFloatSub) {
					if z, isZ := b.Y.(*ssa.Const); isZ && z.Value != nil && z.Float64() == 0 {
						if (b.Op == token.LSS && ft.Truth) || (b.Op == token.GEQ && !ft.Truth) || (b.Op == token.LEQ && ft.Truth) {
							okClamp = true
						}
					}
				}
			}
		}
		// math.Max(0, x) form
		if call, ok := st.Val.(*ssa.Call); ok && (calleeName(&call.Call) == "math.Max" || calleeName(&call.Call) == "builtin.max") {
			okClamp = true
		}
		c.check("C04.R6", "route.(*Route).weighTargets|remainder weight clamped at zero", st.Pos(), okClamp,
			"the share left for targets without a fixed weight is computed by subtraction; without the `< 0 => 0` clamp rounding (or fixed weights above 100%) yields a negative or spurious tiny weight: effective weights must be non-negative and a target that should get nothing must not receive a ring slot")
	})
	c.atLeast("C04.R6", "weights computed by subtraction in weighTargets", n, 1)
}

// ---- C05.I1: URLs are compared by their text, never by pointer / shallow struct equality -------------------
