package main

// Rules of C04 added after the rounds of independently authored breaking changes (DESIGN 11.6, 11.7).

import (
	"go/token"

	"golang.org/x/tools/go/ssa"
)

// runC04R6: an effective weight computed by subtraction is clamped at zero. Sites: the stores to Target.Weight in the
// region of the ring builder whose value derives from a floating-point subtraction. The stored value is expanded
// into the definitions that reach it (phi edges, local variables, results of helpers, arguments of helpers); every
// definition that still carries the raw difference must be chosen only where the difference is known not to be
// negative: on the false edge of `raw < 0`, under a comparison of the operands of the subtraction, or through
// max(raw, 0).
func runC04R6(c *Ctx) {
	b := c04cachedBuilder(c)
	if b == nil {
		c.undecided("C04.R6", "anchor|ring builder", "the ring builder does not resolve")
		return
	}
	isFloatSub := func(v ssa.Value) bool {
		bo, ok := v.(*ssa.BinOp)
		return ok && bo.Op == token.SUB && c04isFloat(bo.Type())
	}
	n := 0
	eachInstrOf(b.reg, func(f *ssa.Function, i ssa.Instruction) {
		st, ok := i.(*ssa.Store)
		if !ok || !c04isWeight(st.Addr) {
			return
		}
		if !derives(st.Val, isFloatSub) {
			return
		}
		n++
		okClamp, nRaw := true, 0
		for _, lf := range c04leaves(st.Val, st.Block()) {
			if !derives(lf.v, isFloatSub) {
				continue // the constant 0, a fixed weight ...
			}
			nRaw++
			if !c04nonNegative(lf, isFloatSub) {
				okClamp = false
			}
		}
		c.check("C04.R6", "ring builder|remainder weight clamped at zero", st.Pos(), okClamp && nRaw > 0,
			"the share left for targets without a fixed weight is computed by subtraction; without the `< 0 => 0` clamp rounding (or fixed weights above 100%) yields a negative or spurious tiny weight: effective weights must be non-negative and a target that should get nothing must not receive a ring slot")
	})
	c.atLeast("C04.R6", "weights computed by subtraction in the ring builder", n, 1)
}

// c04nonNegative: the definition lf (a value derived from a float subtraction) is known not to be negative where it
// is chosen.
func c04nonNegative(lf c04leaf, isFloatSub func(ssa.Value) bool) bool {
	// max(raw, 0) / math.Max(raw, 0)
	if call, ok := lf.v.(*ssa.Call); ok {
		if name := calleeName(&call.Call); name == "math.Max" || name == "builtin.max" {
			for _, a := range call.Call.Args {
				if k, ok := c04constFloat(a); ok && k >= 0 {
					return true
				}
			}
		}
	}
	facts := c04edgeFacts(lf.b, lf.to)
	same := samePath(lf.v)
	isRaw := func(x ssa.Value) bool { return x == lf.v || same(x) }
	for _, f := range facts {
		// raw >= 0, !(raw < 0) ... on the value itself or on a value the raw difference was derived from with the same sign
		if x, op, k, _, ok := c04cmp(f); ok && (isRaw(x) || (derives(lf.v, func(v ssa.Value) bool { return v == x }) && derives(x, isFloatSub))) {
			if (op == token.GEQ && k >= 0) || (op == token.GTR && k >= 0) || (op == token.EQL && k >= 0) {
				return true
			}
		}
	}
	// a - b under b <= a
	var subs []*ssa.BinOp
	derives(lf.v, func(v ssa.Value) bool {
		if isFloatSub(v) {
			subs = append(subs, v.(*ssa.BinOp))
		}
		return false
	})
	if len(subs) == 0 {
		return false
	}
	for _, sub := range subs {
		okSub := false
		sa, sb := samePath(sub.X), samePath(sub.Y)
		for _, f := range append(facts, factsAt(sub.Block())...) {
			cmp, ok := f.Cond.(*ssa.BinOp)
			if !ok {
				continue
			}
			op := cmp.Op
			if !f.Truth {
				op = c04negate(op)
			}
			switch {
			case sa(cmp.X) && sb(cmp.Y): // a op b
				okSub = okSub || op == token.GEQ || op == token.GTR || op == token.EQL
			case sb(cmp.X) && sa(cmp.Y): // b op a
				okSub = okSub || op == token.LEQ || op == token.LSS || op == token.EQL
			}
		}
		if !okSub {
			return false
		}
	}
	return true
}
