package main

import (
	"golang.org/x/tools/go/ssa"
)

func init() {
	register(&propDef{
		ID:      "C05",
		Level:   "other",
		Explain: "Structural necessary conditions of the route command semantics; every rule finds its sites by ROLE (what an instruction does) in the whole package / repository, not by the name of the enclosing function. (K1) every index, update and delete on a route.Table uses a canonical host key — the result of strings.ToLower (or of a function all of whose returns are), a table range key, a constant, Route.Host, or a lower-case preserving operation on such values — followed through local cells and closures, helper parameters (all call sites, callbacks of visitors), multi-value returns, struct fields (all stores) and key slices, so add, del and weight all address the same entry whatever the letter case of the command; (D1) wherever targets are removed from a route (a store to Route.Targets that is not an append to it: Route.filter today), every path to return — in that function or, travelling up the static call sites, in every caller — runs a full pass over the table that stores for each host a route list from which target-less routes were left out, and then a full pass that deletes exactly the hosts whose list is empty (two loops, one merged loop, helpers, a deferred call, slices.DeleteFunc / maps.DeleteFunc are all recognised); (G1) the keywords the renderer of 'route add' commands emits — route add, weight, tags, opts — appear in the order the add grammar (the regular expression of package route that spells 'route add') accepts them: the order of the TEXT when the rendered string can be followed as a value through concatenation, Sprintf, Join and helper results, otherwise the order in which the pieces are written; (Q1) producers and consumer of quoted fields agree on the encoding: the parser takes the text between the quotes verbatim (no Unquote), so no producer of route commands (any function with a constant that begins 'route add': Route.TargetConfig, consul routecmd.build, and their helpers) may escape with %q / strconv.Quote; (W1) every caller of a weight setter (a function that assigns Target.FixedWeight of existing targets and returns how many / whether any matched) either hands the verdict on or returns an error on the branch where it is zero, and a function that assigns the weights itself and reports errors returns one on a branch that says none matched; (I1) URLs are compared by their text, never by pointer or shallow struct equality, and where a target is appended to Route.Targets an existing one is recognised by comparing URL.String() (idempotent add). Not decided: equality of the resulting table with an independent model over generated scripts, that the count returned by the weight setter counts matches rather than changes, the 4-decimal weight round trip (value equality of data structures).",
		Run:     runC05,
		Trusted: []string{"regexp capture groups return the matched text verbatim"},
		Mutants: append([]mutant{
			{Name: "hostpath no longer lower-cases", File: "route/table.go", Old: "\thost, path = strings.ToLower(p[0]), \"\"", New: "\thost, path = p[0], \"\"", Expect: "C05.K1"},
			{Name: "addRoute stores under the raw host", File: "route/table.go", Old: "\thost = strings.ToLower(host) // maintain compatibility with parseURLPrefixTag\n", New: "\thost = d.Src[:len(host)]\n", Expect: "C05.K1"},
			{Name: "empty routes kept after a tag delete", File: "route/table.go", Old: "\t// remove all routes without targets\n\tfor host, routes := range t {", New: "\t// remove all routes without targets\n\tfor host, routes := range t {\n\t\tif len(d.Tags) > 0 {\n\t\t\tbreak\n\t\t}", Expect: "C05.D1"},
			{Name: "early return skips the cleanup", File: "route/table.go", Old: "\t\tr.filter(func(tg *Target) bool {\n\t\t\treturn tg.Service == d.Service\n\t\t})\n\n\tdefault:", New: "\t\tr.filter(func(tg *Target) bool {\n\t\t\treturn tg.Service == d.Service\n\t\t})\n\t\treturn nil\n\n\tdefault:", Expect: "C05.D1"},
			{Name: "tags rendered before weight", File: "route/route.go", Old: "\ts := fmt.Sprintf(\"route add %s %s %s\", t.Service, r.Host+r.Path, t.URL)\n", New: "\ts := fmt.Sprintf(\"route add %s %s %s\", t.Service, r.Host+r.Path, t.URL)\n\tif len(t.Tags) > 0 {\n\t\ts += fmt.Sprintf(\" tags \\\"%s\\\"\", strings.Join(t.Tags, \",\"))\n\t\tt = &Target{Opts: t.Opts, Weight: t.Weight, FixedWeight: t.FixedWeight}\n\t}\n", Expect: "C05.G1"},
			{Name: "%q for opts", File: "route/route.go", Old: "s += fmt.Sprintf(\" opts \\\"%s\\\"\", strings.Join(vals, \" \"))", New: "s += fmt.Sprintf(\" opts %q\", strings.Join(vals, \" \"))", Expect: "C05.Q1"},
			{Name: "strconv.Quote in the consul generator", File: "registry/consul/routecmd.go", Old: "cfg += \" tags \\\"\" + strings.Join(svctags, \",\") + \"\\\"\"", New: "cfg += \" tags \" + strconv.Quote(strings.Join(svctags, \",\"))", Expect: "C05.Q1"},
			{Name: "weight without a match reports success", File: "route/table.go", Old: "\tif n := t[host].find(path).setWeight(d.Service, d.Weight, d.Tags); n == 0 {\n\t\treturn errNoMatch\n\t}", New: "\tt[host].find(path).setWeight(d.Service, d.Weight, d.Tags)", Expect: "C05.W1"},
			{Name: "targets de-duplicated by URL struct equality", File: "route/route.go", Old: "t.URL.String() == targetURL.String() && t.FixedWeight == fixedWeight", New: "*t.URL == *targetURL && t.FixedWeight == fixedWeight", Expect: "C05.I1"},
			{Name: "benign: renderer with strings.Builder-like concatenation", File: "route/route.go", Old: "s += fmt.Sprintf(\" opts \\\"%s\\\"\", strings.Join(vals, \" \"))", New: "s += \" opts \\\"\" + strings.Join(vals, \" \") + \"\\\"\"", Expect: ""},
		}, append(c05ExtraMutants, c05HardenMutants...)...),
	})
}

func runC05(c *Ctx) {
	runTableKeys(c, "C05.K1")
	runC05D1(c)
	runC05G1(c)
	runQuoting(c, "C05.Q1")
	runC05W1(c)
	runC05I1(c)
}

// pathAvoidingFromBlockTo: a path from the start of block b to the start of block target avoiding matched instructions.
func pathAvoidingFromBlockTo(b, target *ssa.BasicBlock, avoid func(ssa.Instruction) bool) bool {
	avoid = liftMust(avoid, 1) // a helper that does it on all of its paths counts
	seen := map[*ssa.BasicBlock]bool{b: true}
	stack := []*ssa.BasicBlock{b}
	for len(stack) > 0 {
		x := stack[len(stack)-1]
		stack = stack[:len(stack)-1]
		blocked := false
		for _, in := range x.Instrs {
			if avoid(in) {
				blocked = true
				break
			}
		}
		if blocked {
			continue
		}
		for _, sx := range x.Succs {
			if sx == target {
				return true
			}
			if !seen[sx] {
				seen[sx] = true
				stack = append(stack, sx)
			}
		}
	}
	return false
}
