package main

import (
	"go/token"
	"strings"

	"golang.org/x/tools/go/ssa"
)

func init() {
	register(&propDef{
		ID:      "C05",
		Level:   "other",
		Explain: "Structural necessary conditions of the route command semantics: (K1) every index, update and delete on a route.Table uses a canonical host key — the result of strings.ToLower (or of a function all of whose returns are), a range key of a table, a constant, or Route.Host — checked interprocedurally through parameters and multi-value returns, so add, del and weight all address the same entry whatever the letter case of the command; (D1) in every Table method that calls Route.filter, each such call is followed on every path to return by the loop that rebuilds the host's route list without empty routes and by the loop that deletes hosts without routes; (G1) the keywords the renderer (Route.TargetConfig) emits — route add, weight, tags, opts — appear in the order the add grammar accepts them; (Q1) producers and consumer of quoted fields agree on the encoding: the parser takes the text between the quotes verbatim (no Unquote), so no producer of route commands (Route.TargetConfig, consul routecmd.build) may escape with %q / strconv.Quote; (W1) weighRoute reports 'no match' when setWeight changed nothing, and setWeight does not rebuild the ring in that case. (I1) URLs are compared by their text, never by pointer or shallow struct equality (idempotent add). Not decided: equality of the resulting table with an independent model over generated scripts, idempotence of add (value comparison of targets), the 4-decimal weight round trip (value equality of data structures).",
		Run:     runC05,
		Trusted: []string{"regexp capture groups return the matched text verbatim"},
		Mutants: []mutant{
			{Name: "hostpath no longer lower-cases", File: "route/table.go", Old: "\thost, path = strings.ToLower(p[0]), \"\"", New: "\thost, path = p[0], \"\"", Expect: "C05.K1"},
			{Name: "addRoute stores under the raw host", File: "route/table.go", Old: "\thost = strings.ToLower(host) // maintain compatibility with parseURLPrefixTag\n", New: "\thost = d.Src[:len(host)]\n", Expect: "C05.K1"},
			{Name: "empty routes kept after a tag delete", File: "route/table.go", Old: "\t// remove all routes without targets\n\tfor host, routes := range t {", New: "\t// remove all routes without targets\n\tfor host, routes := range t {\n\t\tif len(d.Tags) > 0 {\n\t\t\tbreak\n\t\t}", Expect: "C05.D1"},
			{Name: "early return skips the cleanup", File: "route/table.go", Old: "\t\tr.filter(func(tg *Target) bool {\n\t\t\treturn tg.Service == d.Service\n\t\t})\n\n\tdefault:", New: "\t\tr.filter(func(tg *Target) bool {\n\t\t\treturn tg.Service == d.Service\n\t\t})\n\t\treturn nil\n\n\tdefault:", Expect: "C05.D1"},
			{Name: "tags rendered before weight", File: "route/route.go", Old: "\ts := fmt.Sprintf(\"route add %s %s %s\", t.Service, r.Host+r.Path, t.URL)\n", New: "\ts := fmt.Sprintf(\"route add %s %s %s\", t.Service, r.Host+r.Path, t.URL)\n\tif len(t.Tags) > 0 {\n\t\ts += fmt.Sprintf(\" tags \\\"%s\\\"\", strings.Join(t.Tags, \",\"))\n\t\tt = &Target{Opts: t.Opts, Weight: t.Weight, FixedWeight: t.FixedWeight}\n\t}\n", Expect: "C05.G1"},
			{Name: "%q for opts", File: "route/route.go", Old: "s += fmt.Sprintf(\" opts \\\"%s\\\"\", strings.Join(vals, \" \"))", New: "s += fmt.Sprintf(\" opts %q\", strings.Join(vals, \" \"))", Expect: "C05.Q1"},
			{Name: "strconv.Quote in the consul generator", File: "registry/consul/routecmd.go", Old: "cfg += \" tags \\\"\" + strings.Join(svctags, \",\") + \"\\\"\"", New: "cfg += \" tags \" + strconv.Quote(strings.Join(svctags, \",\"))", Expect: "C05.Q1"},
			{Name: "weight without a match reports success", File: "route/table.go", Old: "\tif n := t[host].find(path).setWeight(d.Service, d.Weight, d.Tags); n == 0 {\n\t\treturn errNoMatch\n\t}", New: "\tt[host].find(path).setWeight(d.Service, d.Weight, d.Tags)", Expect: "C05.W1"},
			{Name: "targets de-duplicated by URL struct equality", File: "route/route.go", Old: "t.URL.String() == targetURL.String() && t.FixedWeight == fixedWeight", New: "*t.URL == *targetURL && t.FixedWeight == fixedWeight", Expect: "C05.I1"},
			{Name: "benign: renderer with strings.Builder-like concatenation", File: "route/route.go", Old: "s += fmt.Sprintf(\" opts \\\"%s\\\"\", strings.Join(vals, \" \"))", New: "s += \" opts \\\"\" + strings.Join(vals, \" \") + \"\\\"\"", Expect: ""},
		},
	})
}

func runC05(c *Ctx) {
	runTableKeys(c, "C05.K1")
	runC05D1(c)
	runC05G1(c)
	runQuoting(c, "C05.Q1")
	runC05W1(c)
	runC05I1(c)
}

// ---- K1 -------------------------------------------------------------------------------------

type keyCanon struct {
	c     *Ctx
	memo  map[ssa.Value]int
	smemo map[ssa.Value]int
}

func (k *keyCanon) returnsCanonical(f *ssa.Function, idx int, depth int) bool {
	if depth > 4 || len(f.Blocks) == 0 {
		return false
	}
	ok := true
	n := 0
	eachInstr(f, func(i ssa.Instruction) {
		r, isR := i.(*ssa.Return)
		if !isR || idx >= len(r.Results) {
			return
		}
		n++
		if !k.canonical(r.Results[idx], depth+1) {
			ok = false
		}
	})
	return ok && n > 0
}

func (k *keyCanon) canonical(v ssa.Value, depth int) bool {
	if depth > 6 {
		return false
	}
	if st, seen := k.memo[v]; seen {
		return st != 2 // in-progress counts as ok (cycles through phis)
	}
	k.memo[v] = 1
	res := k.canonical1(v, depth)
	if res {
		k.memo[v] = 3
	} else {
		k.memo[v] = 2
	}
	return res
}

func (k *keyCanon) canonical1(v ssa.Value, depth int) bool {
	switch x := v.(type) {
	case *ssa.Const:
		return true
	case *ssa.Call:
		if calleeName(&x.Call) == "strings.ToLower" {
			return true
		}
		if sc := x.Call.StaticCallee(); sc != nil && isRepoFn(sc) && sc.Signature.Results().Len() == 1 {
			return k.returnsCanonical(sc, 0, depth)
		}
		return false
	case *ssa.Extract:
		if nx, ok := x.Tuple.(*ssa.Next); ok {
			if rg, ok := nx.Iter.(*ssa.Range); ok && x.Index == 1 && namedIs(rg.X.Type(), "route.Table") {
				return true
			}
			return false
		}
		if call, ok := x.Tuple.(*ssa.Call); ok {
			if sc := call.Call.StaticCallee(); sc != nil && isRepoFn(sc) {
				return k.returnsCanonical(sc, x.Index, depth)
			}
		}
		return false
	case *ssa.Phi:
		for _, e := range x.Edges {
			if !k.canonical(e, depth+1) {
				return false
			}
		}
		return true
	case *ssa.UnOp:
		if x.Op == token.MUL {
			if _, ok := fieldOf(x, "route.Route", "Host"); ok {
				return true
			}
			// local variable cell
			if a, ok := x.X.(*ssa.Alloc); ok {
				okAll, n := true, 0
				for _, r := range *a.Referrers() {
					if st, ok := r.(*ssa.Store); ok && st.Addr == a {
						n++
						if !k.canonical(st.Val, depth+1) {
							okAll = false
						}
					}
				}
				return okAll && n > 0
			}
			// element of a []string that only ever receives canonical values (hosts lists built from table keys)
			if ia, ok := x.X.(*ssa.IndexAddr); ok {
				return k.canonicalSlice(ia.X, depth+1)
			}
		}
		return false
	case *ssa.Parameter:
		f := x.Parent()
		idx := -1
		for i, p := range f.Params {
			if p == x {
				idx = i
			}
		}
		okAll, n := true, 0
		for _, g := range k.c.AllFns {
			eachInstr(g, func(i ssa.Instruction) {
				cc := callCommon(i)
				if cc == nil || cc.StaticCallee() != f || idx >= len(cc.Args) {
					return
				}
				n++
				if !k.canonical(cc.Args[idx], depth+1) {
					okAll = false
				}
			})
		}
		return okAll && n > 0
	case *ssa.Slice:
		return k.canonical(x.X, depth+1)
	}
	return false
}

func (k *keyCanon) canonicalSlice(v ssa.Value, depth int) bool {
	if depth > 12 {
		return false
	}
	if k.smemo == nil {
		k.smemo = map[ssa.Value]int{}
	}
	if st, seen := k.smemo[v]; seen {
		return st != 2
	}
	k.smemo[v] = 1
	res := k.canonicalSlice1(v, depth)
	if res {
		k.smemo[v] = 3
	} else {
		k.smemo[v] = 2
	}
	return res
}

func (k *keyCanon) canonicalSlice1(v ssa.Value, depth int) bool {
	// every append into / call producing the slice yields canonical strings
	switch x := v.(type) {
	case *ssa.Phi:
		for _, e := range x.Edges {
			if !k.canonicalSlice(e, depth+1) {
				return false
			}
		}
		return true
	case *ssa.Const:
		return true
	case *ssa.MakeSlice:
		return true // zero values; element stores are not tracked (documented imprecision)
	case *ssa.Slice:
		if arr, ok := x.X.(*ssa.Alloc); ok {
			for _, r := range *arr.Referrers() {
				if ia, ok := r.(*ssa.IndexAddr); ok {
					for _, r2 := range *ia.Referrers() {
						if st, ok := r2.(*ssa.Store); ok && !k.canonical(st.Val, depth+1) {
							return false
						}
					}
				}
			}
			return true
		}
		return k.canonicalSlice(x.X, depth+1)
	case *ssa.Call:
		n := calleeName(&x.Call)
		if n == "builtin.append" {
			if !k.canonicalSlice(x.Call.Args[0], depth+1) {
				return false
			}
			// appended elements: variadic slice of an array alloc
			if sl, ok := x.Call.Args[1].(*ssa.Slice); ok {
				if arr, ok := sl.X.(*ssa.Alloc); ok {
					for _, r := range *arr.Referrers() {
						if ia, ok := r.(*ssa.IndexAddr); ok {
							for _, r2 := range *ia.Referrers() {
								if st, ok := r2.(*ssa.Store); ok && !k.canonical(st.Val, depth+1) {
									return false
								}
							}
						}
					}
					return true
				}
			}
			return k.canonicalSlice(x.Call.Args[1], depth+1)
		}
		if sc := x.Call.StaticCallee(); sc != nil && isRepoFn(sc) && depth < 5 {
			ok := true
			eachInstr(sc, func(i ssa.Instruction) {
				if r, isR := i.(*ssa.Return); isR && len(r.Results) > 0 && !k.canonicalSlice(r.Results[0], depth+1) {
					ok = false
				}
			})
			return ok
		}
		return false
	case *ssa.Parameter:
		// caller-owned slice rewritten in place (sortHostsReverseHostPort): accepted when all callers pass canonical slices
		f := x.Parent()
		idx := -1
		for i, p := range f.Params {
			if p == x {
				idx = i
			}
		}
		okAll, n := true, 0
		for _, g := range k.c.AllFns {
			eachInstr(g, func(i ssa.Instruction) {
				cc := callCommon(i)
				if cc == nil || cc.StaticCallee() != f || idx >= len(cc.Args) {
					return
				}
				n++
				if !k.canonicalSlice(cc.Args[idx], depth+1) {
					okAll = false
				}
			})
		}
		return okAll && n > 0
	}
	return false
}

// runTableKeys checks every key used on a route.Table in non-test repo code.
func runTableKeys(c *Ctx, rule string) {
	k := &keyCanon{c: c, memo: map[ssa.Value]int{}}
	n := 0
	for _, f := range c.AllFns {
		eachInstr(f, func(i ssa.Instruction) {
			var m, key ssa.Value
			what := ""
			switch x := i.(type) {
			case *ssa.Lookup:
				m, key, what = x.X, x.Index, "lookup"
			case *ssa.MapUpdate:
				m, key, what = x.Map, x.Key, "update"
			case *ssa.Call:
				if calleeName(&x.Call) == "builtin.delete" {
					m, key, what = x.Call.Args[0], x.Call.Args[1], "delete"
				}
			}
			if m == nil || !namedIs(m.Type(), "route.Table") {
				return
			}
			n++
			c.check(rule, fnKey(f)+"|table "+what+" with a canonical host key", i.Pos(), k.canonical(key, 0),
				"the table is keyed by lower-cased host names (addRoute stores them so); a key that is not derived from strings.ToLower, a table range key, a constant or Route.Host addresses a different entry: 'route del svc Foo.com/' deletes nothing and 'route weight' reports no match")
		})
	}
	c.atLeast(rule, "index/update/delete sites on route.Table", n, 3)
}

// ---- D1 -------------------------------------------------------------------------------------

func runC05D1(c *Ctx) {
	filter := c.method("route", "Route", "filter")
	if !c.need("C05.D1", filter, "route.Route.filter") {
		return
	}
	n := 0
	for _, f := range c.AllFns {
		if f.Signature.Recv() == nil || !namedIs(f.Signature.Recv().Type(), "route.Table") {
			continue
		}
		var calls []ssa.Instruction
		eachInstr(f, func(i ssa.Instruction) {
			if staticCalleeIs(i, filter) {
				calls = append(calls, i)
			}
		})
		if len(calls) == 0 {
			continue
		}
		recv := f.Params[0]
		// cleanup loops: a range over the receiver whose body rebuilds t[host] / deletes hosts under len == 0
		var rebuild, drop ssa.Instruction
		for _, l := range loopsOf(f) {
			var rg ssa.Instruction
			for _, in := range l.Head.Instrs {
				if nx, ok := in.(*ssa.Next); ok {
					if r, ok := nx.Iter.(*ssa.Range); ok && r.X == recv {
						rg = r
					}
				}
			}
			if rg == nil {
				continue
			}
			// the loop must visit every host: no exit other than exhaustion
			earlyExit := false
			for b := range l.Body {
				if b == l.Head {
					continue
				}
				for _, sx := range b.Succs {
					if !l.Body[sx] {
						earlyExit = true
					}
				}
			}
			if earlyExit {
				continue
			}
			for b := range l.Body {
				for _, in := range b.Instrs {
					if mu, ok := in.(*ssa.MapUpdate); ok && mu.Map == recv {
						// executed on every iteration: the body cannot return to the head without it
						skip := false
						for _, entry := range l.Head.Succs {
							if l.Body[entry] && entry != l.Head && pathAvoidingFromBlockTo(entry, l.Head, func(i ssa.Instruction) bool { return i == in }) {
								skip = true
							}
						}
						if !skip {
							rebuild = rg
						}
					}
					if cc := callCommon(in); cc != nil && calleeName(cc) == "builtin.delete" && cc.Args[0] == recv {
						guard := false
						for _, ft := range factsAt(b) {
							if bo, ok := ft.Cond.(*ssa.BinOp); ok && bo.Op == token.EQL && ft.Truth {
								if lc, ok := bo.X.(*ssa.Call); ok && calleeName(&lc.Call) == "builtin.len" {
									if z, ok := constInt(bo.Y); ok && z == 0 {
										guard = true
									}
								}
							}
						}
						if guard {
							drop = rg
						}
					}
				}
			}
		}
		for _, call := range calls {
			n++
			okR, okD := rebuild != nil, drop != nil
			if okR {
				_, open := exitReachableAvoiding(call, func(i ssa.Instruction) bool { return i == rebuild })
				okR = !open
			}
			if okD {
				_, open := exitReachableAvoiding(call, func(i ssa.Instruction) bool { return i == drop })
				okD = !open
			}
			c.check("C05.D1", fnKey(f)+"|filter followed by removal of empty routes and hosts", call.Pos(), okR && okD,
				"after targets were removed from a route, every path to return must run the loop that rebuilds each host's route list without target-less routes and the loop that deletes hosts without routes; otherwise 'route del' leaves empty routes/hosts behind (they shadow less specific routes and answer 'no route')")
		}
	}
	c.atLeast("C05.D1", "Route.filter calls in Table methods", n, 4)
}

// ---- G1 -------------------------------------------------------------------------------------

func runC05G1(c *Ctx) {
	tc := c.method("route", "Route", "TargetConfig")
	if !c.need("C05.G1", tc, "route.Route.TargetConfig") {
		return
	}
	// grammar order from the add regexp
	reAdd := c.global("route", "reAdd")
	if reAdd == nil {
		c.undecided("C05.G1", "route.reAdd", "add grammar not found")
		return
	}
	pat := ""
	initFn := c.spkg("route").Func("init")
	eachInstr(initFn, func(i ssa.Instruction) {
		if st, ok := i.(*ssa.Store); ok && st.Addr == reAdd {
			if call, ok := st.Val.(*ssa.Call); ok && len(call.Call.Args) == 1 {
				pat, _ = constString(call.Call.Args[0])
			}
		}
	})
	order := []string{"route add", "weight", "tags", "opts"}
	last := -1
	okGrammar := pat != ""
	for _, kw := range order {
		p := strings.Index(pat, kw)
		if p < 0 || p < last {
			okGrammar = false
		}
		last = p
	}
	if !okGrammar {
		c.undecided("C05.G1", "route.reAdd|keyword order", "the add grammar no longer has the form route add .. weight .. tags .. opts: "+pat)
		return
	}
	// renderer: constant fragments containing each keyword, in program order
	frag := map[string][]ssa.Instruction{}
	eachInstr(tc, func(i ssa.Instruction) {
		for _, op := range i.Operands(nil) {
			if op == nil || *op == nil {
				continue
			}
			if s, ok := constString(*op); ok {
				for _, kw := range order {
					if strings.Contains(s, kw+" ") || strings.HasPrefix(strings.TrimSpace(s), kw) {
						frag[kw] = append(frag[kw], i)
					}
				}
			}
		}
	})
	ok := true
	detail := ""
	for k := 0; k < len(order); k++ {
		if len(frag[order[k]]) == 0 {
			ok, detail = false, "the renderer no longer emits '"+order[k]+"'"
		}
		for j := k + 1; j < len(order); j++ {
			for _, a := range frag[order[k]] {
				for _, b := range frag[order[j]] {
					if pathAvoiding(b, a, nil) {
						ok, detail = false, "'"+order[j]+"' can be emitted before '"+order[k]+"'"
					}
				}
			}
		}
	}
	c.check("C05.G1", "route.(*Route).TargetConfig|keywords in the order the add grammar accepts", tc.Pos(), ok,
		"the text rendering of a table must be accepted by the parser: the add grammar is 'route add <svc> <src> <dst>[ weight <w>][ tags \"..\"][ opts \"..\"]' in that order; "+detail)
}

// ---- Q1 -------------------------------------------------------------------------------------

// runQuoting: producers of quoted fields vs. the consumer in the route parser.
func runQuoting(c *Ctx, rule string) {
	consumerUnquotes := false
	for _, n := range []string{"parseTags", "parseOpts", "parseRouteAdd", "parseRouteDel", "parseRouteWeight"} {
		if f := c.fn("route", n); f != nil {
			eachInstr(f, func(i ssa.Instruction) {
				if cc := callCommon(i); cc != nil && strings.HasPrefix(calleeName(cc), "strconv.Unquote") {
					consumerUnquotes = true
				}
			})
		}
	}
	producers := []*ssa.Function{c.method("route", "Route", "TargetConfig"), c.method("registry/consul", "routecmd", "build")}
	n := 0
	for _, p := range producers {
		if p == nil {
			c.undecided(rule, "anchor|route command producer", "TargetConfig / routecmd.build not found")
			continue
		}
		n++
		quotes := false
		var pos token.Pos = p.Pos()
		eachInstr(p, func(i ssa.Instruction) {
			cc := callCommon(i)
			if cc == nil {
				return
			}
			name := calleeName(cc)
			if strings.HasPrefix(name, "strconv.Quote") || strings.HasPrefix(name, "strconv.AppendQuote") {
				quotes, pos = true, i.Pos()
			}
			if name == "fmt.Sprintf" || name == "fmt.Fprintf" || name == "fmt.Sprint" {
				for _, a := range cc.Args {
					if s, ok := constString(a); ok && strings.Contains(s, "%q") && (strings.Contains(s, "tags") || strings.Contains(s, "opts")) {
						quotes, pos = true, i.Pos()
					}
				}
			}
		})
		c.check(rule, fnKey(p)+"|quoted fields written the way the parser reads them", pos, quotes == consumerUnquotes,
			"the route parser takes the text between the double quotes verbatim (it never unquotes), so a producer that escapes with %q / strconv.Quote writes text that parses into different tags/options (backslashes, non-printable characters) or, for a value containing a quote, into an invalid line")
	}
	c.atLeast(rule, "producers of route command text", n, 2)
}

// ---- W1 -------------------------------------------------------------------------------------

func runC05W1(c *Ctx) {
	wr := c.method("route", "Table", "weighRoute")
	sw := c.method("route", "Route", "setWeight")
	if !c.need("C05.W1", wr, "route.Table.weighRoute") || sw == nil {
		return
	}
	noMatch := c.global("route", "errNoMatch")
	n := 0
	eachInstr(wr, func(i ssa.Instruction) {
		call, ok := i.(*ssa.Call)
		if !ok || call.Call.StaticCallee() != sw {
			return
		}
		n++
		// there is a return of errNoMatch under `result == 0`
		found := false
		eachInstr(wr, func(j ssa.Instruction) {
			r, isR := j.(*ssa.Return)
			if !isR || len(r.Results) != 1 {
				return
			}
			u, isU := r.Results[0].(*ssa.UnOp)
			if !isU || u.X != noMatch {
				return
			}
			for _, ft := range factsAt(r.Block()) {
				if b, ok := ft.Cond.(*ssa.BinOp); ok && b.X == call {
					if z, ok := constInt(b.Y); ok && z == 0 && ((b.Op == token.EQL && ft.Truth) || (b.Op == token.NEQ && !ft.Truth) || (b.Op == token.GTR && !ft.Truth)) {
						found = true
					}
				}
			}
		})
		c.check("C05.W1", "(route.Table).weighRoute|no matching target is reported", call.Pos(), found,
			"'route weight' that matches no target must fail with the no-match error (the count returned by setWeight must be examined); silently succeeding hides a mistyped service or tag")
	})
	c.atLeast("C05.W1", "setWeight calls in weighRoute", n, 1)
}

// pathAvoidingFromBlockTo: a path from the start of block b to the start of block target avoiding matched instructions.
func pathAvoidingFromBlockTo(b, target *ssa.BasicBlock, avoid func(ssa.Instruction) bool) bool {
	avoid = liftMust(avoid, 1) // a helper that does it on all of its paths counts
	seen := map[*ssa.BasicBlock]bool{b: true}
	stack := []*ssa.BasicBlock{b}
	for len(stack) > 0 {
		x := stack[len(stack)-1]
		stack = stack[:len(stack)-1]
		blocked := false
		for _, in := range x.Instrs {
			if avoid(in) {
				blocked = true
				break
			}
		}
		if blocked {
			continue
		}
		for _, sx := range x.Succs {
			if sx == target {
				return true
			}
			if !seen[sx] {
				seen[sx] = true
				stack = append(stack, sx)
			}
		}
	}
	return false
}
