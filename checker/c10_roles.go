package main

import (
	"fmt"
	"go/token"
	"go/types"
	"strings"

	"golang.org/x/tools/go/ssa"
)

// Roles of C10, resolved from what the code DOES inside the region of the SNI handler (the handler itself is an
// interface method of an exported type and is named). No unexported function is looked up by name:
//
//   - route lookup     : a call of a func-typed field named Lookup in the handler region;
//   - consuming reads  : io.ReadFull & co., Read/Discard of a reader, in the handler region, that can execute before a lookup;
//   - capture buffers  : the make([]byte, n) values those reads fill; peeks: (*bufio.Reader).Peek results (non-consuming);
//   - parser roots     : same-package functions with a pure-data signature that a handler function (one that is not
//                        itself pure-data) calls with bytes derived from a capture buffer or a peek - today
//                        clientHelloBufferSize and readServerName;
//   - parser region    : the roots and everything of the package they call (helpers, closures), however it is cut;
//   - size function    : the root whose first result is the length of a capture buffer ((int, error) signature);
//   - handler functions: the handler region minus the parser region.

type c10env struct {
	c *Ctx
	h *ssa.Function

	all    []*ssa.Function // region of the handler
	hfns   []*ssa.Function // handler functions (region minus parser region)
	inH    map[*ssa.Function]bool
	pfns   []*ssa.Function // parser region
	inP    map[*ssa.Function]bool
	roots  []*ssa.Function
	isRoot map[*ssa.Function]bool

	lookups   []*ssa.Call
	reads     []*ssa.Call      // consuming reads that can execute before a lookup
	buffers   []*ssa.MakeSlice // capture buffers
	peeks     []*ssa.Call
	rootCalls []*ssa.Call // calls of parser roots from handler functions with hostile bytes

	fstores map[string][]*ssa.Store // stores into struct fields, by struct type and field (derivesMem)

	sizeFn     *ssa.Function
	sizeCalls  []*ssa.Call
	parseCalls []*ssa.Call // root calls other than the size function's
}

func c10isByteSlice(t types.Type) bool {
	s, ok := t.Underlying().(*types.Slice)
	if !ok {
		return false
	}
	b, ok := s.Elem().Underlying().(*types.Basic)
	return ok && b.Kind() == types.Uint8
}

func c10isBytesOrString(t types.Type) bool {
	if c10isByteSlice(t) {
		return true
	}
	b, ok := t.Underlying().(*types.Basic)
	return ok && b.Info()&types.IsString != 0
}

// c10carriesBytes: a byte slice, a string, an array of bytes, or a struct / pointer to a struct or array (of the
// package) that holds one: the forms in which client bytes are handed to a parser (as an argument or in its receiver).
func c10carriesBytes(t types.Type, depth int) bool {
	if depth > 3 {
		return false
	}
	if c10isBytesOrString(t) || c10byteLike(t) {
		return true
	}
	switch u := t.Underlying().(type) {
	case *types.Pointer:
		return c10carriesBytes(u.Elem(), depth+1)
	case *types.Struct:
		for i := 0; i < u.NumFields(); i++ {
			if c10carriesBytes(u.Field(i).Type(), depth+1) {
				return true
			}
		}
	}
	return false
}

// c10pureType: plain data - numbers, strings, slices/arrays of plain data, structs of plain data and pointers to such
// structs declared in pkg. Interfaces, funcs, channels, maps and foreign pointers (net.Conn, *bufio.Reader, *SNIProxy
// with its callbacks and counters) are what a handler function works with, not a parser.
func c10pureType(t types.Type, pkg *types.Package, depth int) bool {
	if depth > 4 {
		return false
	}
	switch u := t.Underlying().(type) {
	case *types.Basic:
		return u.Kind() != types.UnsafePointer
	case *types.Slice:
		return c10pureType(u.Elem(), pkg, depth+1)
	case *types.Array:
		return c10pureType(u.Elem(), pkg, depth+1)
	case *types.Struct:
		for i := 0; i < u.NumFields(); i++ {
			if !c10pureType(u.Field(i).Type(), pkg, depth+1) {
				return false
			}
		}
		return true
	case *types.Pointer:
		n, ok := types.Unalias(u.Elem()).(*types.Named)
		if !ok || n.Obj().Pkg() != pkg {
			return false
		}
		switch n.Underlying().(type) {
		case *types.Struct, *types.Array, *types.Slice:
			// *clientHelloMsg, *helloPrefix ([9]byte), *helloCursor ([]byte): data of the package itself
			return c10pureType(n, pkg, depth+1)
		}
		return false
	}
	return false
}

// c10pureSig: every parameter (and the receiver) is plain data and at least one is a byte slice or a string.
func c10pureSig(f *ssa.Function) bool {
	if f == nil || f.Pkg == nil || len(f.Params) == 0 {
		return false
	}
	hasBytes := false
	for _, p := range f.Params {
		if !c10pureType(p.Type(), f.Pkg.Pkg, 0) {
			return false
		}
		if c10carriesBytes(p.Type(), 0) {
			hasBytes = true
		}
	}
	return hasBytes
}

// c10isRouteLookup: the call asks the routing table for the target of a host name: the Lookup callback of the proxy
// (a func-typed field), or - when the callback has been replaced by an interface or is held in a local variable - any
// dynamic call (func value or interface method) of type func(string) *route.Target.
func c10isRouteLookup(call *ssa.Call) bool {
	if isLookupFieldCall(call) {
		return true
	}
	if call.Call.StaticCallee() != nil {
		return false
	}
	sig := call.Call.Signature()
	if sig == nil || sig.Params().Len() != 1 || sig.Results().Len() != 1 || sig.Variadic() {
		return false
	}
	if b, ok := sig.Params().At(0).Type().Underlying().(*types.Basic); !ok || b.Info()&types.IsString == 0 {
		return false
	}
	return namedIs(sig.Results().At(0).Type(), "route.Target")
}

var c10consuming = map[string]bool{
	"io.ReadFull": true, "io.ReadAtLeast": true, "io.ReadAll": true, "io.Copy": true, "io.CopyN": true, "io.CopyBuffer": true,
	"(*bufio.Reader).Discard": true, "(*bufio.Reader).WriteTo": true,
}

// c10isConsumingRead: the call takes bytes off a stream.
func c10isConsumingRead(call *ssa.Call) bool {
	if call.Call.IsInvoke() {
		n := call.Call.Method.Name()
		return n == "Read" || n == "ReadFrom" || n == "WriteTo" || n == "ReadByte"
	}
	n := calleeName(&call.Call)
	return c10consuming[n] || strings.HasPrefix(n, "(*bufio.Reader).Read") || strings.HasPrefix(n, "(*bufio.Scanner).")
}

func c10isPeek(v ssa.Value) bool {
	call, ok := v.(*ssa.Call)
	return ok && !call.Call.IsInvoke() && calleeName(&call.Call) == "(*bufio.Reader).Peek"
}

// c10origin follows a value back through the boundaries a refactoring introduces without changing it: the parameter
// of a helper with a single static call site is the argument passed there; a type change keeps the value; a merge of
// one origin is that origin.
func c10origin(v ssa.Value) ssa.Value {
	for hop := 0; hop < 8 && v != nil; hop++ {
		switch x := v.(type) {
		case *ssa.Parameter:
			f := x.Parent()
			sites := gSites[f]
			if f == nil || len(sites) != 1 || !onlyStaticallyCalled(f) {
				return v
			}
			idx := -1
			for k, p := range f.Params {
				if p == x {
					idx = k
				}
			}
			args := sites[0].Common().Args
			if idx < 0 || idx >= len(args) {
				return v
			}
			v = args[idx]
		case *ssa.FreeVar:
			f := x.Parent()
			if f == nil || f.Parent() == nil {
				return v
			}
			idx := -1
			for k, fv := range f.FreeVars {
				if fv == x {
					idx = k
				}
			}
			var bound ssa.Value
			n := 0
			eachInstr(f.Parent(), func(i ssa.Instruction) {
				if mc, ok := i.(*ssa.MakeClosure); ok && mc.Fn == f && idx >= 0 && idx < len(mc.Bindings) {
					bound = mc.Bindings[idx]
					n++
				}
			})
			if n != 1 {
				return v
			}
			v = bound
		case *ssa.ChangeType:
			v = x.X
		case *ssa.UnOp:
			// a value parked in a local variable or a field of a local object and read back in the same function: the
			// load observes exactly the stored value when nothing in between may write the location (c10_mem.go)
			if x.Op != token.MUL || c10proverForRoles == nil {
				return v
			}
			cv := c10proverForRoles.canon(x, c10proverForRoles.at(x.Block(), 0))
			if cv == v {
				return v
			}
			v = cv
		case *ssa.Phi:
			var o ssa.Value
			for _, e := range x.Edges {
				eo := c10origin(e)
				if o != nil && eo != o {
					return v
				}
				o = eo
			}
			if o == nil {
				return v
			}
			return o
		default:
			return v
		}
	}
	return v
}

// c10res names one result of one call.
type c10res struct {
	call *ssa.Call
	idx  int
}

func c10resOf(v ssa.Value) (c10res, bool) {
	switch x := c10origin(v).(type) {
	case *ssa.Extract:
		if call, ok := x.Tuple.(*ssa.Call); ok {
			return c10res{call, x.Index}, true
		}
	case *ssa.Call:
		if x.Call.Signature().Results().Len() == 1 {
			return c10res{x, 0}, true
		}
	}
	return c10res{}, false
}

// c10maySucceed: the return r may report success in its flag result k (an error that is not certainly non-nil, a bool
// that is not the constant false).
func c10maySucceed(r *ssa.Return, k int) bool {
	if k >= len(r.Results) {
		return false
	}
	v := r.Results[k]
	if c10isBool(v.Type()) {
		b, isK := constBool(v)
		return !isK || b
	}
	return !c10certainlyNonNil(v, r.Block())
}

// successKnown: at block b the flag result k of call (seen through forwarding handler functions) is known to report
// success: the error is nil, the bool is true.
func (e *c10env) successKnown(b *ssa.BasicBlock, call *ssa.Call, k int) bool {
	is := func(v ssa.Value) bool {
		r, ok := e.resOf(v)
		return ok && r.call == call && r.idx == k
	}
	res := call.Call.Signature().Results()
	if k >= res.Len() {
		return false
	}
	if c10isBool(res.At(k).Type()) {
		for _, f := range c10factsAt(b) {
			if f.Truth && is(f.Cond) {
				return true
			}
		}
		return false
	}
	return c10knownNil(b, is)
}

// structResult: v is a field of a struct that a call returned by value - read directly (Field) or from the local the
// result was stored in once and that is only read afterwards. Returns that result.
func (e *c10env) structResult(v ssa.Value) (c10res, bool) {
	switch x := v.(type) {
	case *ssa.Field:
		return e.resOf(x.X)
	case *ssa.UnOp:
		fa, ok := x.X.(*ssa.FieldAddr)
		if !ok || x.Op != token.MUL {
			break
		}
		if a, ok := fa.X.(*ssa.Alloc); ok {
			if st := c10onlyStore(a); st != nil && c10readOnly(a, st, nil, 0) {
				if _, isStruct := st.Val.Type().Underlying().(*types.Struct); isStruct {
					return e.resOf(st.Val)
				}
			}
		}
	}
	return c10res{}, false
}

// c10failureReturn: the return reports failure to its caller: an error that is certainly not nil, or a constant false.
func c10failureReturn(r *ssa.Return) bool {
	for _, v := range r.Results {
		if typeStr(v.Type()) == "error" && c10certainlyNonNil(v, r.Block()) {
			return true
		}
		if b, ok := constBool(v); ok && !b {
			return true
		}
	}
	return false
}

// forward looks through handler functions that merely hand on a result of an inner call on their success path
// (func (p *SNIProxy) sni(data []byte) (string, bool) { return readServerName(data[5:]) }): under a fact that the
// outer call succeeded, its result IS the inner call's result.
func (e *c10env) forward(r c10res, depth int) c10res {
	g := r.call.Call.StaticCallee()
	if depth > 3 || g == nil || !e.inH[g] || len(g.Blocks) == 0 {
		return r
	}
	var inner c10res
	ok, n := true, 0
	eachInstr(g, func(i ssa.Instruction) {
		ret, isR := i.(*ssa.Return)
		if !isR || c10failureReturn(ret) {
			return
		}
		if r.idx >= len(ret.Results) {
			ok = false
			return
		}
		rr, isRes := c10resOf(ret.Results[r.idx])
		if !isRes && isNilConst(ret.Results[r.idx]) && typeStr(ret.Results[r.idx].Type()) == "error" {
			// `return n, nil` below `if err != nil { return 0, err }`: the nil stands for the inner call's error,
			// which is known to be nil here
			for _, other := range ret.Results {
				o, ok := c10resOf(other)
				if !ok {
					continue
				}
				sig := o.call.Call.Signature().Results()
				for j := 0; j < sig.Len(); j++ {
					if typeStr(sig.At(j).Type()) != "error" {
						continue
					}
					jj := j
					if c10knownNil(ret.Block(), func(v ssa.Value) bool {
						x, ok := c10resOf(v)
						return ok && x.call == o.call && x.idx == jj
					}) {
						rr, isRes = c10res{o.call, j}, true
					}
				}
			}
		}
		if !isRes || (n > 0 && rr != inner) {
			ok = false
			return
		}
		inner = rr
		n++
	})
	if !ok || n == 0 {
		return r
	}
	return e.forward(inner, depth+1)
}

// resOf: the call result v stands for, looking through forwarding handler functions.
func (e *c10env) resOf(v ssa.Value) (c10res, bool) {
	r, ok := c10resOf(v)
	if !ok {
		return r, false
	}
	return e.forward(r, 0), true
}

// c10points: the instructions of function in through which instruction i comes to execute: i itself, or the calls
// (call, go, defer) in `in` that lead to i's function, or the place where a closure handed out as a value is made.
func c10points(i ssa.Instruction, in *ssa.Function, depth int) []ssa.Instruction {
	f := i.Parent()
	if f == in {
		return []ssa.Instruction{i}
	}
	if depth > 4 || f == nil {
		return nil
	}
	var out []ssa.Instruction
	for _, s := range gSites[f] {
		out = append(out, c10points(s, in, depth+1)...)
	}
	if f.Parent() != nil && gAddrTaken[f] {
		eachInstr(f.Parent(), func(j ssa.Instruction) {
			if mc, ok := j.(*ssa.MakeClosure); ok && mc.Fn == f {
				out = append(out, c10points(mc, in, depth+1)...)
			}
		})
	}
	return out
}

// happensBefore: in some function of the region, a point through which a executes can reach a point through which b
// executes.
func (e *c10env) happensBefore(a, b ssa.Instruction) bool {
	for _, f := range e.all {
		pa, pb := c10points(a, f, 0), c10points(b, f, 0)
		for _, x := range pa {
			for _, y := range pb {
				if x != y && canReach(x, y) {
					return true
				}
			}
		}
	}
	return false
}

// c10isForwarder: a plain-data function that does not look at a single byte itself: one block that cuts its input with
// constant bounds (h[5:]), hands it to ONE plain-data function of the package and returns that function's results as
// they are - `func (h clientHello) serverName() (string, bool) { return readServerName(h[recordHeaderLen:]) }`. Such a
// function is plumbing between the handler and the parser, like the method of the proxy that does the same: it is a
// handler function, what it cuts is judged by M3 from what every call site guarantees about the captured bytes (the
// bound of the size function), and the function it hands on to is the parser root, about whose input nothing is assumed.
func c10isForwarder(g *ssa.Function) bool {
	if g == nil || len(g.Blocks) != 1 || g.Parent() != nil || !c10pureSig(g) {
		return false
	}
	var inner *ssa.Call
	for _, in := range g.Blocks[0].Instrs {
		switch x := in.(type) {
		case *ssa.DebugRef:
		case *ssa.Slice:
			if !c10byteLike(x.X.Type()) {
				return false
			}
			for _, bnd := range []ssa.Value{x.Low, x.High, x.Max} {
				if bnd != nil {
					if _, isK := constInt(bnd); !isK {
						return false
					}
				}
			}
		case *ssa.ChangeType:
			if !c10byteLike(x.X.Type()) {
				return false
			}
		case *ssa.Alloc:
			// (the local a struct receiver passed by value is spilled into)
		case *ssa.Store:
			if _, isParam := x.Val.(*ssa.Parameter); !isParam {
				return false
			}
			if _, isLocal := x.Addr.(*ssa.Alloc); !isLocal {
				return false
			}
		case *ssa.FieldAddr:
			// a small wrapper type around the captured bytes (`type capturedHello struct{ raw []byte }`): taking the
			// bytes out of the wrapper is not looking at them
			switch x.X.(type) {
			case *ssa.Alloc, *ssa.Parameter:
			default:
				return false
			}
		case *ssa.Field:
			if _, isParam := x.X.(*ssa.Parameter); !isParam {
				return false
			}
		case *ssa.UnOp:
			if _, isField := x.X.(*ssa.FieldAddr); !isField || x.Op != token.MUL || !c10byteLike(x.Type()) {
				return false
			}
			if _, isArr := x.Type().Underlying().(*types.Array); isArr {
				return false
			}
		case *ssa.Call:
			callee := x.Call.StaticCallee()
			if inner != nil || callee == nil || callee == g || len(callee.Blocks) == 0 || rootPkg(callee) != rootPkg(g) || !c10pureSig(callee) {
				return false
			}
			inner = x
		case *ssa.Extract:
			if inner == nil || x.Tuple != ssa.Value(inner) {
				return false
			}
		case *ssa.Return:
			if inner == nil || len(x.Results) != inner.Call.Signature().Results().Len() {
				return false
			}
			for k, r := range x.Results {
				if !c10sameRes(r, inner, k) {
					return false
				}
			}
		default:
			return false
		}
	}
	return inner != nil
}

func c10resolve(c *Ctx, h *ssa.Function) *c10env {
	e := &c10env{c: c, h: h, inH: map[*ssa.Function]bool{}, inP: map[*ssa.Function]bool{}, isRoot: map[*ssa.Function]bool{}}
	e.all = c.region(h)
	home := rootPkg(h)
	// route lookups and the reads that can precede one
	var reads []*ssa.Call
	eachInstrOf(e.all, func(f *ssa.Function, i ssa.Instruction) {
		call, ok := i.(*ssa.Call)
		if !ok {
			return
		}
		if c10isRouteLookup(call) {
			e.lookups = append(e.lookups, call)
		}
		if c10isConsumingRead(call) {
			reads = append(reads, call)
		}
		if c10isPeek(call) {
			e.peeks = append(e.peeks, call)
		}
	})
	for _, r := range reads {
		for _, lk := range e.lookups {
			if e.happensBefore(r, lk) {
				e.reads = append(e.reads, r)
				break
			}
		}
	}
	// capture buffers: byte slices made in the region and handed to such a read
	isBuf := map[*ssa.MakeSlice]bool{}
	for _, r := range e.reads {
		for _, a := range r.Call.Args {
			if !c10isByteSlice(a.Type()) {
				continue
			}
			e.derivesMem(a, func(v ssa.Value) bool {
				if mk, ok := v.(*ssa.MakeSlice); ok && c10isByteSlice(mk.Type()) && !isBuf[mk] {
					isBuf[mk] = true
					e.buffers = append(e.buffers, mk)
				}
				return false
			})
		}
	}
	// parser roots
	inAll := map[*ssa.Function]bool{}
	for _, f := range e.all {
		inAll[f] = true
	}
	eachInstrOf(e.all, func(f *ssa.Function, i ssa.Instruction) {
		call, ok := i.(*ssa.Call)
		if !ok {
			return
		}
		g := call.Call.StaticCallee()
		if g == nil || len(g.Blocks) == 0 || rootPkg(g) != home || g == f || !c10pureSig(g) {
			return
		}
		if c10isForwarder(g) {
			return // plumbing between the handler and the parser (see c10isForwarder): the function it hands on to is the root
		}
		outer := f
		for outer.Parent() != nil {
			outer = outer.Parent()
		}
		if c10pureSig(outer) && !c10isForwarder(outer) {
			return // a parser function calling another one: part of a region, not a root
		}
		hostile := false
		for _, a := range call.Call.Args {
			if c10carriesBytes(a.Type(), 0) && e.hostile(a) {
				hostile = true
			}
		}
		if !hostile {
			return
		}
		e.rootCalls = append(e.rootCalls, call)
		if !e.isRoot[g] {
			e.isRoot[g] = true
			e.roots = append(e.roots, g)
		}
	})
	e.pfns = c.regionDepth(8, e.roots...)
	for _, f := range e.pfns {
		e.inP[f] = true
	}
	for _, f := range e.all {
		if !e.inP[f] {
			e.inH[f] = true
			e.hfns = append(e.hfns, f)
		}
	}
	// the size function: its first result is the length of a capture buffer; failing that, the (int, error) root
	sizeSig := func(g *ssa.Function) bool {
		r := g.Signature.Results()
		return r.Len() == 2 && isIntType(r.At(0).Type()) && (typeStr(r.At(1).Type()) == "error" || c10isBool(r.At(1).Type()))
	}
	for _, mk := range e.buffers {
		if r, ok := e.resOf(mk.Len); ok && r.idx == 0 {
			if g := r.call.Call.StaticCallee(); g != nil && e.isRoot[g] && sizeSig(g) {
				e.sizeFn = g
			}
		}
	}
	if e.sizeFn == nil {
		var cands []*ssa.Function
		for _, g := range e.roots {
			if sizeSig(g) {
				cands = append(cands, g)
			}
		}
		if len(cands) == 1 {
			e.sizeFn = cands[0]
		}
	}
	for _, call := range e.rootCalls {
		if e.sizeFn != nil && call.Call.StaticCallee() == e.sizeFn {
			e.sizeCalls = append(e.sizeCalls, call)
		} else {
			e.parseCalls = append(e.parseCalls, call)
		}
	}
	return e
}

// derivesMem is derives (shared) extended through object fields: a load of field F of a struct type may observe
// whatever is stored into field F of that struct type anywhere in the repository (field-sensitive, object-insensitive:
// an over-approximation, used only to decide what MAY carry hostile bytes, i.e. what becomes an obligation). This is
// what keeps the roles when the captured bytes live in a field of a connection object between capture and parsing.
func (e *c10env) derivesMem(v ssa.Value, pred func(ssa.Value) bool) bool {
	if e.fstores == nil {
		e.fstores = map[string][]*ssa.Store{}
		for _, f := range c10allFns {
			eachInstr(f, func(i ssa.Instruction) {
				st, ok := i.(*ssa.Store)
				if !ok {
					return
				}
				if fa, ok := st.Addr.(*ssa.FieldAddr); ok {
					if k := c10fieldKey(fa); k != "" {
						e.fstores[k] = append(e.fstores[k], st)
					}
				}
			})
		}
	}
	seen := map[ssa.Value]bool{}
	var rec func(v ssa.Value, depth int) bool
	rec = func(v ssa.Value, depth int) bool {
		return derives(v, func(x ssa.Value) bool {
			if pred(x) {
				return true
			}
			u, ok := x.(*ssa.UnOp)
			if !ok || u.Op != token.MUL || seen[u] || depth > 3 {
				return false
			}
			fa, ok := u.X.(*ssa.FieldAddr)
			if !ok {
				return false
			}
			seen[u] = true
			for _, st := range e.fstores[c10fieldKey(fa)] {
				if rec(st.Val, depth+1) {
					return true
				}
			}
			return false
		})
	}
	return rec(v, 0)
}

func c10fieldKey(fa *ssa.FieldAddr) string {
	st := c10deref(fa.X.Type())
	if st == nil {
		return ""
	}
	return fmt.Sprintf("%s#%d", typeStr(st.Underlying()), fa.Field)
}

// hostile: v carries bytes read from the client before routing (a capture buffer, a peek, or something cut from them).
func (e *c10env) hostile(v ssa.Value) bool {
	return e.derivesMem(v, func(x ssa.Value) bool {
		if mk, ok := x.(*ssa.MakeSlice); ok {
			for _, b := range e.buffers {
				if b == mk {
					return true
				}
			}
			return false
		}
		if c10isPeek(x) {
			for _, p := range e.peeks {
				if ssa.Value(p) == x {
					return true
				}
			}
		}
		return false
	})
}

// ---- bytes of the input a value is assembled from ---------------------------------------------------------------------

// c10bind is the chain of calls entered while reading a helper's body: a parameter of the callee stands for the
// argument of the innermost matching call.
type c10bind struct {
	call  *ssa.Call
	outer *c10bind
}

// c10ref: the big-endian integer held in root[off : off+n].
type c10ref struct {
	root ssa.Value
	off  int64
	n    int64
}

// c10sliceBase resolves a byte slice to (root, offset): data[5:9][1:4] is (data, 6).
func c10sliceBase(v ssa.Value, b *c10bind, depth int) (ssa.Value, int64, bool) {
	if depth > 12 {
		return nil, 0, false
	}
	switch x := v.(type) {
	case *ssa.Slice:
		lo := int64(0)
		if x.Low != nil {
			k, ok := constInt(x.Low)
			if !ok {
				return nil, 0, false
			}
			lo = k
		}
		r, o, ok := c10sliceBase(x.X, b, depth+1)
		return r, o + lo, ok
	case *ssa.ChangeType:
		return c10sliceBase(x.X, b, depth+1)
	case *ssa.SliceToArrayPointer:
		// (*[N]byte)(s) points at s[0]
		return c10sliceBase(x.X, b, depth+1)
	case *ssa.UnOp:
		// an array VALUE loaded from where it lives: the same bytes, copied
		if _, isArr := x.Type().Underlying().(*types.Array); isArr && x.Op == token.MUL {
			return c10sliceBase(x.X, b, depth+1)
		}
		return v, 0, true
	case *ssa.Alloc:
		// a local array that is initialised once with a copy of bytes and only read afterwards
		if _, isArr := x.Type().Underlying().(*types.Pointer).Elem().Underlying().(*types.Array); isArr {
			if st := c10onlyStore(x); st != nil && c10readOnly(x, st, nil, 0) {
				return c10sliceBase(st.Val, b, depth+1)
			}
			// var a [N]byte; copy(a[:], src) with len(src) >= N proved at the copy
			if sl, src := c10onlyCopyInto(x); sl != nil && c10readOnly(x, nil, sl, 0) {
				return c10sliceBase(src, b, depth+1)
			}
		}
		return v, 0, true
	case *ssa.Parameter:
		if b != nil && b.call.Call.StaticCallee() == x.Parent() {
			for k, p := range x.Parent().Params {
				if p == x && k < len(b.call.Call.Args) {
					return c10sliceBase(b.call.Call.Args[k], b.outer, depth+1)
				}
			}
			return nil, 0, false
		}
		return v, 0, true
	}
	return v, 0, true
}

// c10onlyStore: the single store that writes the whole of the local a.
func c10onlyStore(a *ssa.Alloc) *ssa.Store {
	var out *ssa.Store
	if a.Referrers() == nil {
		return nil
	}
	for _, r := range *a.Referrers() {
		if st, ok := r.(*ssa.Store); ok && st.Addr == ssa.Value(a) {
			if out != nil {
				return nil
			}
			out = st
		}
	}
	return out
}

// c10proverForRoles: the prover of the current run (set in runC10); byte provenance needs one length proof (copy).
var c10proverForRoles *c10prover

// c10onlyCopyInto: the local array a is filled by exactly one copy(a[:], src) whose source is proved to hold at least
// len(a) bytes there; returns the a[:] instruction and src.
func c10onlyCopyInto(a *ssa.Alloc) (*ssa.Slice, ssa.Value) {
	arr, ok := c10deref(a.Type()).Underlying().(*types.Array)
	if !ok || a.Referrers() == nil || c10proverForRoles == nil {
		return nil, nil
	}
	var out *ssa.Slice
	var src ssa.Value
	for _, r := range *a.Referrers() {
		sl, ok := r.(*ssa.Slice)
		if !ok {
			continue
		}
		if out != nil || sl.X != ssa.Value(a) || sl.High != nil || sl.Max != nil || sl.Referrers() == nil || len(*sl.Referrers()) != 1 {
			return nil, nil
		}
		if sl.Low != nil {
			if k, isK := constInt(sl.Low); !isK || k != 0 {
				return nil, nil
			}
		}
		call, ok := (*sl.Referrers())[0].(*ssa.Call)
		if !ok || calleeName(&call.Call) != "builtin.copy" || len(call.Call.Args) != 2 || call.Call.Args[0] != ssa.Value(sl) {
			return nil, nil
		}
		if !c10proverForRoles.at(call.Block(), 0).proveLE(c10k(arr.Len()), c10len(call.Call.Args[1]), 0) {
			return nil, nil
		}
		out, src = sl, call.Call.Args[1]
	}
	return out, src
}

// c10readOnly: apart from the store init (or the slice fill handed to the one copy that fills it), the memory the
// pointer p points to is only read: loads, element loads, and calls of repository functions that only read through
// the corresponding parameter.
func c10readOnly(p ssa.Value, init *ssa.Store, fill *ssa.Slice, depth int) bool {
	refs := p.Referrers()
	if refs == nil || depth > 4 {
		return false
	}
	// the initialisation comes first: every other use is dominated by it (a read before it would see zeroes)
	var first ssa.Instruction
	if init != nil {
		first = init
	} else if fill != nil && fill.Referrers() != nil && len(*fill.Referrers()) == 1 {
		first = (*fill.Referrers())[0]
	}
	for _, r := range *refs {
		if first != nil && r != ssa.Instruction(init) && r != ssa.Instruction(fill) {
			if _, isDbg := r.(*ssa.DebugRef); !isDbg && !dominatesInstr(first, r) {
				return false
			}
		}
		switch x := r.(type) {
		case *ssa.Store:
			if x != init {
				return false // written again, or the pointer itself is stored somewhere
			}
		case *ssa.UnOp:
			if x.Op != token.MUL {
				return false
			}
		case *ssa.DebugRef:
		case *ssa.Slice:
			if x != fill {
				return false
			}
		case *ssa.FieldAddr:
			if x.X != p {
				return false
			}
			for _, r2 := range *x.Referrers() {
				if u, ok := r2.(*ssa.UnOp); !ok || u.Op != token.MUL {
					if _, isDbg := r2.(*ssa.DebugRef); !isDbg {
						return false
					}
				}
			}
		case *ssa.IndexAddr:
			if x.X != p {
				return false
			}
			for _, r2 := range *x.Referrers() {
				if u, ok := r2.(*ssa.UnOp); !ok || u.Op != token.MUL {
					if _, isDbg := r2.(*ssa.DebugRef); !isDbg {
						return false
					}
				}
			}
		case *ssa.Call:
			g := x.Call.StaticCallee()
			if g == nil || x.Call.IsInvoke() || !isRepoFn(g) || len(g.Blocks) == 0 {
				return false
			}
			for k, a := range x.Call.Args {
				if a == p && (k >= len(g.Params) || !c10readOnly(g.Params[k], nil, nil, depth+1)) {
					return false
				}
			}
		default:
			return false
		}
	}
	return true
}

// c10intBits: the width of an integer type (64 for int, uint, uintptr: the platforms fabio is built for).
func c10intBits(t types.Type) int64 {
	b, ok := t.Underlying().(*types.Basic)
	if !ok || b.Info()&types.IsInteger == 0 {
		return 0
	}
	switch b.Kind() {
	case types.Int8, types.Uint8:
		return 8
	case types.Int16, types.Uint16:
		return 16
	case types.Int32, types.Uint32:
		return 32
	}
	return 64
}

type c10shifted struct {
	ref   c10ref
	shift int64
}

var c10beFuncs = map[string]int64{
	"(encoding/binary.bigEndian).Uint16": 2, "(encoding/binary.bigEndian).Uint32": 4, "(encoding/binary.bigEndian).Uint64": 8,
}

// c10beBytes reads v as the big-endian value of consecutive bytes of one slice: int(d[3])<<8 | int(d[4]),
// binary.BigEndian.Uint16(d[3:5]), or a repository helper that computes one of these from its parameter.
func c10beBytes(v ssa.Value, b *c10bind, depth int) (c10ref, bool) {
	parts, ok := c10parts(v, b, depth)
	if !ok || len(parts) == 0 {
		return c10ref{}, false
	}
	// order by decreasing shift; must tile [off, off+n) exactly with the last part at shift 0
	for i := range parts {
		for j := i + 1; j < len(parts); j++ {
			if parts[j].shift > parts[i].shift {
				parts[i], parts[j] = parts[j], parts[i]
			}
		}
	}
	out := parts[0].ref
	for k := 1; k < len(parts); k++ {
		p := parts[k]
		if p.ref.root != out.root || p.ref.off != out.off+out.n {
			return c10ref{}, false
		}
		out.n += p.ref.n
	}
	bits := int64(0)
	for k := len(parts) - 1; k >= 0; k-- {
		if parts[k].shift != bits {
			return c10ref{}, false
		}
		bits += 8 * parts[k].ref.n
	}
	return out, true
}

func c10parts(v ssa.Value, b *c10bind, depth int) ([]c10shifted, bool) {
	if depth > 12 {
		return nil, false
	}
	switch x := v.(type) {
	case *ssa.Convert:
		if isIntType(x.X.Type()) && isIntType(x.Type()) && staticWidens(x.X.Type(), x.Type()) {
			return c10parts(x.X, b, depth+1)
		}
		return nil, false
	case *ssa.BinOp:
		switch x.Op {
		case token.OR, token.ADD, token.XOR:
			l, ok1 := c10parts(x.X, b, depth+1)
			r, ok2 := c10parts(x.Y, b, depth+1)
			if !ok1 || !ok2 {
				return nil, false
			}
			return append(l, r...), true
		case token.SHL, token.MUL:
			// x << 8 and x * 256 (either order) move x up by whole bytes
			operand := x.X
			k, ok := constInt(x.Y)
			if x.Op == token.MUL {
				if !ok {
					k, ok = constInt(x.X)
					operand = x.Y
				}
				sh := int64(0)
				for ok && k > 1 && k%256 == 0 {
					k /= 256
					sh += 8
				}
				if !ok || k != 1 {
					return nil, false
				}
				k = sh
			}
			if !ok || k < 0 || k%8 != 0 {
				return nil, false
			}
			l, ok := c10parts(operand, b, depth+1)
			if !ok {
				return nil, false
			}
			// the shifted bytes must still fit the type of the operation (uint8(b)<<8 is 0, not b*256)
			bytes := int64(0)
			for i := range l {
				l[i].shift += k
				bytes += l[i].ref.n
			}
			if sz := c10intBits(x.Type()); sz == 0 || k+8*bytes > sz {
				return nil, false
			}
			return l, true
		}
		return nil, false
	case *ssa.UnOp:
		if x.Op != token.MUL {
			return nil, false
		}
		if fa, isField := x.X.(*ssa.FieldAddr); isField {
			// an integer kept in a field of a header struct: what was stored there (c10_fields.go)
			return c10fieldLoadParts(x, fa, b, depth)
		}
		ia, ok := x.X.(*ssa.IndexAddr)
		if !ok {
			return nil, false
		}
		k, ok := constInt(ia.Index)
		if !ok {
			return nil, false
		}
		r, o, ok := c10sliceBase(ia.X, b, depth+1)
		if !ok {
			return nil, false
		}
		return []c10shifted{{c10ref{r, o + k, 1}, 0}}, true
	case *ssa.Field:
		if ref, ok := c10fieldBytes(x.X, x.Field, b, depth+1); ok {
			return []c10shifted{{ref, 0}}, true
		}
		return nil, false
	case *ssa.Index:
		// element of an array value
		k, ok := constInt(x.Index)
		if !ok {
			return nil, false
		}
		r, o, ok := c10sliceBase(x.X, b, depth+1)
		if !ok {
			return nil, false
		}
		return []c10shifted{{c10ref{r, o + k, 1}, 0}}, true
	case *ssa.Extract:
		if call, ok := x.Tuple.(*ssa.Call); ok {
			return c10callParts(call, x.Index, b, depth)
		}
	case *ssa.Call:
		return c10callParts(x, 0, b, depth)
	case *ssa.Parameter:
		if b != nil && b.call.Call.StaticCallee() == x.Parent() {
			for k, p := range x.Parent().Params {
				if p == x && k < len(b.call.Call.Args) {
					return c10parts(b.call.Call.Args[k], b.outer, depth+1)
				}
			}
		}
	}
	return nil, false
}

func c10callParts(call *ssa.Call, idx int, b *c10bind, depth int) ([]c10shifted, bool) {
	if n, ok := c10beFuncs[calleeName(&call.Call)]; ok && len(call.Call.Args) == 2 {
		r, o, ok := c10sliceBase(call.Call.Args[1], b, depth+1)
		if !ok {
			return nil, false
		}
		return []c10shifted{{c10ref{r, o, n}, 0}}, true
	}
	g := call.Call.StaticCallee()
	if g == nil || !isRepoFn(g) || len(g.Blocks) == 0 {
		return nil, false
	}
	// every return of the helper must denote the same bytes
	var out c10ref
	n, okAll := 0, true
	inner := &c10bind{call, b}
	eachInstr(g, func(i ssa.Instruction) {
		r, ok := i.(*ssa.Return)
		if !ok || i.Parent() != g || idx >= len(r.Results) {
			return
		}
		if len(r.Results) > 1 && c10failureReturn(r) {
			return // what a failure return hands out next to its error (0, "") is not what the caller computes with
		}
		ref, ok := c10beBytes(r.Results[idx], inner, depth+1)
		if !ok || (n > 0 && ref != out) {
			okAll = false
			return
		}
		out = ref
		n++
	})
	if !okAll || n == 0 {
		return nil, false
	}
	return []c10shifted{{out, 0}}, true
}
