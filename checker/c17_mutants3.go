package main

// Overlay mutants of C17 added in the third hardening round (after the fourth round of breaking patches):
//
//   - the SELECTED representation of the decision (c17_select.go; benign/C17-r10): no `writer io.Writer` field, a
//     `decided` flag and the destination of the body chosen where it is written - as behaviour-preserving rewrites
//     and as breaking variants of the same shape, one per rule that reads the shape differently;
//   - the compressing serve moved into a method / a helper of the response writer (benign/C17-r11);
//   - verdicts that are one of several constants instead of a bool (benign/C17-r12).

import (
	"os"
	"strings"
)

// c17sel: the selected-writer shape; the parts that variants change are parameters.
type c17sel struct {
	fields    string // replaces the writer / gzipWriter fields
	whOpen    string // WriteHeader: the guard
	cond      string // the condition of the compress edge
	install   string // the compress arm
	elseArm   string // text after the compress arm's closing brace (" else {...}\n" or "\n")
	afterArms string // inside the guard, after the arms
	whTail    string
	writeOpen string // Write: the guard before the sniffing
	writeWH   string // Write: the implicit WriteHeader
	writeTail string // the end of Write
	decls     string // further declarations (body() ...)
	closeFn   string
}

const (
	c17selInstall = "\t\t\tgrw.Header().Del(headerContentLength)\n\t\t\tgrw.Header().Set(headerContentEncoding, encodingGzip)\n\t\t\tgrw.gzipWriter = gzipWriterPool.Get().(*gzip.Writer)\n\t\t\tgrw.gzipWriter.Reset(grw.ResponseWriter)\n"
	c17selBody    = "func (grw *GzipResponseWriter) body() io.Writer {\n\tif grw.gzipWriter != nil {\n\t\treturn grw.gzipWriter\n\t}\n\treturn grw.ResponseWriter\n}\n"
	c17srcWriteWH = "\t\tgrw.WriteHeader(http.StatusOK)\n"
	c17useIO      = "var _ io.Writer = (*GzipResponseWriter)(nil)\n"
)

func c17selDefault() c17sel {
	return c17sel{
		fields:    "\tdecided      bool\n\tgzipWriter   *gzip.Writer\n",
		whOpen:    "\tif !grw.decided {\n",
		cond:      "isCompressable(grw.Header(), grw.contentTypes)",
		install:   c17selInstall,
		elseArm:   "\n",
		afterArms: "\t\tgrw.decided = true\n",
		whTail:    "\tgrw.ResponseWriter.WriteHeader(code)\n",
		writeOpen: "\tif !grw.decided {\n",
		writeWH:   c17srcWriteWH,
		writeTail: "\treturn grw.body().Write(b)\n",
		decls:     c17selBody,
		closeFn:   c17srcClose,
	}
}

func (p c17sel) mutant(name, expect string) mutant {
	wh := "func (grw *GzipResponseWriter) WriteHeader(code int) {\n" + p.whOpen + "\t\tif " + p.cond + " {\n" + p.install + "\t\t}" + p.elseArm + p.afterArms + "\t}\n" + p.whTail + "}\n"
	return mutant{Name: name, File: c17file, Old: c17srcFields, New: p.fields, Expect: expect, More: []repl{
		{c17srcWH, wh},
		{c17srcWriteHead, p.writeOpen + "\t\tif _, ok :="},
		{c17srcWriteWH, p.writeWH},
		{c17srcWriteRet, p.writeTail},
		{c17srcClose, p.closeFn + "\n" + p.decls},
	}}
}

func c17round5Mutants() []mutant {
	b := func(name, old, new string, more ...repl) mutant {
		return mutant{Name: "benign: " + name, File: c17file, Old: old, New: new, More: more, Expect: ""}
	}
	x := func(name, expect, old, new string, more ...repl) mutant {
		return mutant{Name: name, File: c17file, Old: old, New: new, More: more, Expect: expect}
	}
	sel := func(name, expect string, f func(*c17sel)) mutant {
		p := c17selDefault()
		if f != nil {
			f(&p)
		}
		if expect == "" {
			name = "benign: " + name
		}
		return p.mutant(name, expect)
	}
	const (
		inlineSel = "\tvar dst io.Writer = grw.ResponseWriter\n\tif grw.gzipWriter != nil {\n\t\tdst = grw.gzipWriter\n\t}\n\treturn dst.Write(b)\n"
		twoWrites = "\tif grw.gzipWriter != nil {\n\t\treturn grw.gzipWriter.Write(b)\n\t}\n\treturn grw.ResponseWriter.Write(b)\n"
		// the compressing serve as a method of the response writer (benign/C17-r11)
		serveMethod = "func (grw *GzipResponseWriter) serve(h http.Handler, r *http.Request) {\n\tdefer grw.Close()\n\th.ServeHTTP(grw, r)\n}\n\n"
		handlerGzip = "\t\t\tgzWriter := NewGzipResponseWriter(w, contentTypes)\n\t\t\tdefer gzWriter.Close()\n\t\t\th.ServeHTTP(gzWriter, r)\n"
		wrType      = "type GzipResponseWriter struct {\n"
		// the verdict as a content coding (benign/C17-r12)
		acceptSig  = "func acceptsGzip(r *http.Request) bool {\n"
		acceptNo   = "\t\t\treturn false\n"
		acceptCall = "\t\tif acceptsGzip(r) {\n"
		negotiated = "\tif strings.Contains(r.Header.Get(headerAcceptEncoding), encodingGzip) {\n\t\treturn encodingGzip\n\t}\n\treturn \"identity\"\n"
		isCompCall = "\t\tif isCompressable(grw.Header(), grw.contentTypes) {\n"
	)
	list := []mutant{
		// ---- the selected representation (benign/C17-r10) ----------------------------------------------------------
		sel("sel: decided flag + body() selector (benign/C17-r10)", "", nil),
		sel("sel: destination chosen inline with a local variable", "", func(p *c17sel) { p.writeTail, p.decls = inlineSel, "" }),
		sel("sel: two Write calls under gzipWriter != nil", "", func(p *c17sel) { p.writeTail, p.decls = twoWrites, c17useIO }),
		sel("sel: flag set before the arms", "", func(p *c17sel) {
			p.whOpen, p.afterArms = "\tif !grw.decided {\n\t\tgrw.decided = true\n", ""
		}),
		sel("sel: selector is a plain function with a local copy of the field", "", func(p *c17sel) {
			p.writeTail = "\treturn destination(grw).Write(b)\n"
			p.decls = "func destination(grw *GzipResponseWriter) io.Writer {\n\tgz := grw.gzipWriter\n\tif gz == nil {\n\t\treturn grw.ResponseWriter\n\t}\n\treturn gz\n}\n"
		}),
		sel("sel: guard clause in WriteHeader, flag named started", "", func(p *c17sel) {
			p.fields = "\tstarted      bool\n\tgzipWriter   *gzip.Writer\n"
			p.whOpen = "\tif grw.started {\n\t\tgrw.ResponseWriter.WriteHeader(code)\n\t\treturn\n\t}\n\tgrw.started = true\n\t{\n"
			p.afterArms = ""
			p.writeOpen = "\tif !grw.started {\n"
		}),
		sel("sel: decision in a helper that both methods call", "", func(p *c17sel) {
			p.whOpen, p.cond, p.install, p.afterArms = "\tgrw.decide()\n\t{\n", "false", "", ""
			p.writeWH = "\t\tgrw.decide()\n\t\tgrw.ResponseWriter.WriteHeader(http.StatusOK)\n"
			p.decls = c17selBody + "\nfunc (grw *GzipResponseWriter) decide() {\n\tif grw.decided {\n\t\treturn\n\t}\n\tgrw.decided = true\n\tif isCompressable(grw.Header(), grw.contentTypes) {\n" +
				strings.ReplaceAll(c17selInstall, "\t\t\t", "\t\t") + "\t}\n}\n"
		}),
		sel("sel: selector inverted", "C17.T1", func(p *c17sel) {
			p.decls = "func (grw *GzipResponseWriter) body() io.Writer {\n\tif grw.gzipWriter == nil {\n\t\treturn grw.gzipWriter\n\t}\n\treturn grw.ResponseWriter\n}\n"
		}),
		sel("sel: gzip writer chosen by the flag, not by the field", "C17.T1", func(p *c17sel) {
			p.writeTail, p.decls = "\tif grw.decided {\n\t\treturn grw.gzipWriter.Write(b)\n\t}\n\treturn grw.ResponseWriter.Write(b)\n", c17useIO
		}),
		sel("sel: compressed response written around the gzip writer", "C17.T1", func(p *c17sel) {
			p.writeTail, p.decls = "\tif grw.gzipWriter != nil && len(b) < 512 {\n\t\treturn grw.gzipWriter.Write(b)\n\t}\n\treturn grw.ResponseWriter.Write(b)\n", c17useIO
		}),
		sel("sel: destination chosen before the decision", "C17.T1", func(p *c17sel) {
			p.writeOpen = "\tdst := grw.body()\n\tif !grw.decided {\n"
			p.writeTail = "\treturn dst.Write(b)\n"
		}),
		sel("sel: Write does not decide", "C17.T1", func(p *c17sel) { p.writeWH = "" }),
		sel("sel: decided again on a server error", "C17.T1", func(p *c17sel) { p.whOpen = "\tif !grw.decided || code >= 500 {\n" }),
		sel("sel: flag not set on the compress edge", "C17.T1", func(p *c17sel) {
			p.elseArm, p.afterArms = " else {\n\t\t\tgrw.decided = true\n\t\t}\n", ""
		}),
		sel("sel: flag cleared by Close", "C17.T1", func(p *c17sel) {
			p.closeFn = strings.Replace(c17srcClose, "\tif grw.gzipWriter != nil {", "\tgrw.decided = false\n\tif grw.gzipWriter != nil {", 1)
		}),
		sel("sel: WriteHeader may leave the response undecided", "C17.T1", func(p *c17sel) {
			p.afterArms = "\t\tif code != http.StatusNotModified {\n\t\t\tgrw.decided = true\n\t\t}\n"
		}),
		sel("sel: gzip writer without the content-type test", "C17.D1", func(p *c17sel) { p.cond += " || grw.contentTypes != nil" }),
		sel("sel: Content-Length kept", "C17.H1", func(p *c17sel) {
			p.install = strings.Replace(c17selInstall, "\t\t\tgrw.Header().Del(headerContentLength)\n", "", 1)
		}),
		sel("sel: headers sent before the decision", "C17.H1", func(p *c17sel) {
			p.whOpen, p.whTail = "\tgrw.ResponseWriter.WriteHeader(code)\n\tif !grw.decided {\n", ""
		}),
		sel("sel: no Reset after Get", "C17.T2", func(p *c17sel) {
			p.install = strings.Replace(c17selInstall, "\t\t\tgrw.gzipWriter.Reset(grw.ResponseWriter)\n", "", 1)
		}),
		sel("sel: two Write calls, no Reset after Get", "C17.T2", func(p *c17sel) {
			p.install = strings.Replace(c17selInstall, "\t\t\tgrw.gzipWriter.Reset(grw.ResponseWriter)\n", "", 1)
			p.writeTail, p.decls = twoWrites, c17useIO
		}),
		sel("sel: Put without Close", "C17.T2", func(p *c17sel) {
			p.closeFn = strings.Replace(c17srcClose, "\t\tgrw.gzipWriter.Close()\n", "", 1)
		}),
		sel("sel: Write drops the last byte", "C17.W1", func(p *c17sel) { p.writeTail = "\treturn grw.body().Write(b[:len(b)-1])\n" }),
		sel("sel: two Write calls, error of the gzip writer swallowed", "C17.W1", func(p *c17sel) {
			p.writeTail, p.decls = "\tif grw.gzipWriter != nil {\n\t\tgrw.gzipWriter.Write(b)\n\t\treturn len(b), nil\n\t}\n\treturn grw.ResponseWriter.Write(b)\n", c17useIO
		}),

		// ---- the compressing serve in a method / helper of the response writer (benign/C17-r11) -------------------------
		b("r11: serve method defers Close and serves", handlerGzip, "\t\t\tNewGzipResponseWriter(w, contentTypes).serve(h, r)\n", repl{wrType, serveMethod + wrType}),
		b("r11: exported Serve method", handlerGzip, "\t\t\tNewGzipResponseWriter(w, contentTypes).Serve(h, r)\n", repl{wrType, strings.Replace(serveMethod, ") serve(", ") Serve(", 1) + wrType}),
		b("r11: serving helper takes the writer as a parameter", handlerGzip, "\t\t\tserveCompressed(NewGzipResponseWriter(w, contentTypes), h, r)\n",
			repl{wrType, "func serveCompressed(gzw *GzipResponseWriter, h http.Handler, r *http.Request) {\n\tdefer gzw.Close()\n\th.ServeHTTP(gzw, r)\n}\n\n" + wrType}),
		b("r11: pool without New, borrow helper with fallback and Reset", "\t\t\tgrw.gzipWriter = gzipWriterPool.Get().(*gzip.Writer)\n\t\t\tgrw.gzipWriter.Reset(grw.ResponseWriter)\n", "\t\t\tgrw.gzipWriter = borrowGzipWriter(grw.ResponseWriter)\n",
			repl{c17srcPoolVar, "var gzipWriterPool sync.Pool\n\nfunc borrowGzipWriter(dst io.Writer) *gzip.Writer {\n\tgz, ok := gzipWriterPool.Get().(*gzip.Writer)\n\tif !ok {\n\t\tgz = gzip.NewWriter(nil)\n\t}\n\tgz.Reset(dst)\n\treturn gz\n}\n"}),
		x("r11: serve method used for every client", "C17.D1", c17srcHandlerBody, "\t\tNewGzipResponseWriter(w, contentTypes).serve(h, r)", repl{wrType, serveMethod + wrType}),
		x("r11: serve method also reached without the Accept-Encoding test", "C17.D1", c17srcHandlerBody,
			"\t\tif acceptsGzip(r) {\n\t\t\tNewGzipResponseWriter(w, contentTypes).serve(h, r)\n\t\t} else if r.Method == \"GET\" {\n\t\t\tNewGzipResponseWriter(w, contentTypes).serve(h, r)\n\t\t} else {\n\t\t\th.ServeHTTP(w, r)\n\t\t}", repl{wrType, serveMethod + wrType}),
		x("r11: serve method closes without defer", "C17.T2", handlerGzip, "\t\t\tNewGzipResponseWriter(w, contentTypes).serve(h, r)\n",
			repl{wrType, "func (grw *GzipResponseWriter) serve(h http.Handler, r *http.Request) {\n\th.ServeHTTP(grw, r)\n\tgrw.Close()\n}\n\n" + wrType}),
		x("r11: borrow helper resets to nothing", "C17.T2", "\t\t\tgrw.gzipWriter = gzipWriterPool.Get().(*gzip.Writer)\n\t\t\tgrw.gzipWriter.Reset(grw.ResponseWriter)\n", "\t\t\tgrw.gzipWriter = borrowGzipWriter(grw.ResponseWriter)\n",
			repl{c17srcPoolVar, "var gzipWriterPool sync.Pool\n\nfunc borrowGzipWriter(dst io.Writer) *gzip.Writer {\n\tgz, ok := gzipWriterPool.Get().(*gzip.Writer)\n\tif !ok {\n\t\tgz = gzip.NewWriter(dst)\n\t}\n\treturn gz\n}\n"}),

		// ---- verdicts that are one of several constants (benign/C17-r12) -------------------------------------------------
		b("r12: acceptsGzip returns the negotiated coding, handler switches on it", acceptSig, "func acceptsGzip(r *http.Request) string {\n",
			repl{acceptNo, "\t\t\treturn \"identity\"\n"}, repl{c17srcAcceptRet, negotiated},
			repl{c17srcHandlerBody, "\t\tswitch acceptsGzip(r) {\n\t\tcase encodingGzip:\n" + handlerGzip + "\t\tdefault:\n\t\t\th.ServeHTTP(w, r)\n\t\t}"}),
		b("r12: negotiated coding kept in a local, compared with !=", acceptSig, "func acceptsGzip(r *http.Request) string {\n",
			repl{acceptNo, "\t\t\treturn \"identity\"\n"}, repl{c17srcAcceptRet, negotiated},
			repl{c17srcHandlerBody, "\t\tcoding := acceptsGzip(r)\n\t\tif coding != encodingGzip {\n\t\t\th.ServeHTTP(w, r)\n\t\t\treturn\n\t\t}\n" + strings.ReplaceAll(handlerGzip, "\t\t\t", "\t\t")}),
		b("r12: verdict as an int enumeration with one return", acceptSig, "type coding int\n\nconst (\n\tcodingIdentity coding = iota\n\tcodingGzip\n)\n\nfunc acceptsGzip(r *http.Request) coding {\n",
			repl{acceptNo, "\t\t\treturn codingIdentity\n"},
			repl{c17srcAcceptRet, "\tc := codingIdentity\n\tif strings.Contains(r.Header.Get(headerAcceptEncoding), encodingGzip) {\n\t\tc = codingGzip\n\t}\n\treturn c\n"},
			repl{acceptCall, "\t\tif acceptsGzip(r) == codingGzip {\n"}),
		b("r12: isCompressable returns a mode", c17srcIsCompSig, "const (\n\tmodePlain = iota\n\tmodeGzip\n)\n\nfunc isCompressable(header http.Header, contentTypes *regexp.Regexp) int {\n",
			repl{c17srcIsComp, "\tif header.Get(headerContentEncoding) != \"\" {\n\t\treturn modePlain\n\t}\n\tif contentTypes.MatchString(header.Get(headerContentType)) {\n\t\treturn modeGzip\n\t}\n\treturn modePlain\n"},
			repl{isCompCall, "\t\tif isCompressable(grw.Header(), grw.contentTypes) == modeGzip {\n"}),
		x("r12: negotiated coding defaults to gzip", "C17.D1", acceptSig, "func acceptsGzip(r *http.Request) string {\n",
			repl{acceptNo, "\t\t\treturn \"identity\"\n"},
			repl{c17srcAcceptRet, "\tif strings.Contains(r.Header.Get(headerAcceptEncoding), \"identity\") {\n\t\treturn \"identity\"\n\t}\n\treturn encodingGzip\n"},
			repl{c17srcHandlerBody, "\t\tswitch acceptsGzip(r) {\n\t\tcase encodingGzip:\n" + handlerGzip + "\t\tdefault:\n\t\t\th.ServeHTTP(w, r)\n\t\t}"}),
		x("r12: handler compresses for every coding but identity, blacklisted clients get an empty coding", "C17.D1", acceptSig, "func acceptsGzip(r *http.Request) string {\n",
			repl{acceptNo, "\t\t\treturn \"\"\n"}, repl{c17srcAcceptRet, negotiated},
			repl{c17srcHandlerBody, "\t\tif acceptsGzip(r) != \"identity\" {\n" + handlerGzip + "\t\t} else {\n\t\t\th.ServeHTTP(w, r)\n\t\t}"}),
		x("r12: switch arms swapped", "C17.D1", acceptSig, "func acceptsGzip(r *http.Request) string {\n",
			repl{acceptNo, "\t\t\treturn \"identity\"\n"}, repl{c17srcAcceptRet, negotiated},
			repl{c17srcHandlerBody, "\t\tswitch acceptsGzip(r) {\n\t\tcase \"identity\":\n" + handlerGzip + "\t\tdefault:\n\t\t\th.ServeHTTP(w, r)\n\t\t}"}),
		x("r12: mode gzip although already encoded", "C17.D1", c17srcIsCompSig, "const (\n\tmodePlain = iota\n\tmodeGzip\n)\n\nfunc isCompressable(header http.Header, contentTypes *regexp.Regexp) int {\n",
			repl{c17srcIsComp, "\tif contentTypes.MatchString(header.Get(headerContentType)) {\n\t\treturn modeGzip\n\t}\n\tif header.Get(headerContentEncoding) != \"\" {\n\t\treturn modePlain\n\t}\n\treturn modePlain\n"},
			repl{isCompCall, "\t\tif isCompressable(grw.Header(), grw.contentTypes) == modeGzip {\n"}),
		x("r12: compared with the wrong mode", "C17.D1", c17srcIsCompSig, "const (\n\tmodePlain = iota\n\tmodeGzip\n)\n\nfunc isCompressable(header http.Header, contentTypes *regexp.Regexp) int {\n",
			repl{c17srcIsComp, "\tif header.Get(headerContentEncoding) != \"\" {\n\t\treturn modePlain\n\t}\n\tif contentTypes.MatchString(header.Get(headerContentType)) {\n\t\treturn modeGzip\n\t}\n\treturn modePlain\n"},
			repl{isCompCall, "\t\tif isCompressable(grw.Header(), grw.contentTypes) != modeGzip {\n"}),

		sel("sel: guarded by a latch that has nothing to do with the decision", "C17.T1", func(p *c17sel) {
			p.fields = "\tdecided      bool\n\thijacked     bool\n\tgzipWriter   *gzip.Writer\n"
			p.whOpen = "\tif !grw.hijacked {\n"
			p.closeFn = c17srcClose + "\nfunc (grw *GzipResponseWriter) markHijacked() { grw.hijacked = true }\n"
		}),
		// ---- further spellings cured in this round (not in the corpus) ------------------------------------------------
		sel("sel: flag tested as == false, spelled out in the constructor", "", func(p *c17sel) {
			p.whOpen, p.writeOpen = "\tif grw.decided == false {\n", "\tif grw.decided == false {\n"
			p.decls = c17selBody + "\nfunc newUndecided(w http.ResponseWriter, contentTypes *regexp.Regexp) *GzipResponseWriter {\n\treturn &GzipResponseWriter{decided: false, ResponseWriter: w, contentTypes: contentTypes}\n}\n"
		}),
		b("explicit decided flag tested as == false", c17srcWH, "func (grw *GzipResponseWriter) WriteHeader(code int) {\n\tif grw.decided == false {\n\t\tgrw.decided = true\n"+c17srcDecide+"\t}\n\tgrw.ResponseWriter.WriteHeader(code)\n}\n",
			repl{c17srcFields, "\tdecided      bool\n" + c17srcFields},
			repl{c17srcWriteHead, "\tif grw.decided != true {\n\t\tif _, ok :="}),
		sel("sel: gzip writer chosen by a boolean that is equivalent to the field", "", func(p *c17sel) {
			p.fields = "\tdecided      bool\n\tcompressing  bool\n\tgzipWriter   *gzip.Writer\n"
			p.install = c17selInstall + "\t\t\tgrw.compressing = true\n"
			p.decls = "func (grw *GzipResponseWriter) body() io.Writer {\n\tif grw.compressing {\n\t\treturn grw.gzipWriter\n\t}\n\treturn grw.ResponseWriter\n}\n"
			p.closeFn = strings.Replace(c17srcClose, "if grw.gzipWriter != nil {", "if grw.compressing {", 1)
		}),
		sel("sel: gzip writer chosen by a boolean that is also set when passing through", "C17.T", func(p *c17sel) {
			p.fields = "\tdecided      bool\n\tcompressing  bool\n\tgzipWriter   *gzip.Writer\n"
			p.install = c17selInstall + "\t\t\tgrw.compressing = true\n"
			p.elseArm = " else {\n\t\t\tgrw.compressing = code < 300\n\t\t}\n"
			p.decls = "func (grw *GzipResponseWriter) body() io.Writer {\n\tif grw.compressing {\n\t\treturn grw.gzipWriter\n\t}\n\treturn grw.ResponseWriter\n}\n"
		}),
		b("Close guarded by a boolean set where the writer is taken", c17srcClose, strings.Replace(c17srcClose, "if grw.gzipWriter != nil {", "if grw.compressing {", 1),
			repl{c17srcFields, "\tcompressing  bool\n" + c17srcFields},
			repl{"\t\t\tgrw.writer = grw.gzipWriter\n", "\t\t\tgrw.writer = grw.gzipWriter\n\t\t\tgrw.compressing = true\n"}),
		b("Close guarded by a boolean, tested as a guard clause with == false", c17srcClose, "func (grw *GzipResponseWriter) Close() {\n\tif grw.compressing == false {\n\t\treturn\n\t}\n\tgrw.gzipWriter.Close()\n\tgzipWriterPool.Put(grw.gzipWriter)\n}\n",
			repl{c17srcFields, "\tcompressing  bool\n" + c17srcFields},
			repl{"\t\t\tgrw.gzipWriter = gzipWriterPool.Get().(*gzip.Writer)\n", "\t\t\tgrw.compressing = true\n\t\t\tgrw.gzipWriter = gzipWriterPool.Get().(*gzip.Writer)\n"}),
		x("Close guarded by a boolean that is set on both edges", "C17.T2", c17srcClose, strings.Replace(c17srcClose, "if grw.gzipWriter != nil {", "if grw.compressing {", 1),
			repl{c17srcFields, "\tcompressing  bool\n" + c17srcFields},
			repl{"\t\tif isCompressable(grw.Header(), grw.contentTypes) {\n", "\t\tgrw.compressing = true\n\t\tif isCompressable(grw.Header(), grw.contentTypes) {\n"}),
		x("Close guarded by a boolean of the request, not of the writer", "C17.T2", c17srcClose, strings.Replace(c17srcClose, "if grw.gzipWriter != nil {", "if grw.compressing {", 1),
			repl{c17srcFields, "\tcompressing  bool\n" + c17srcFields},
			repl{c17srcCtor, "\treturn &GzipResponseWriter{ResponseWriter: w, contentTypes: contentTypes, compressing: contentTypes != nil}\n"}),
		b("verdict handed to a serving helper as a bool parameter", c17srcHandlerBody, "\t\tserve(w, r, h, contentTypes, acceptsGzip(r))",
			repl{wrType, "func serve(w http.ResponseWriter, r *http.Request, h http.Handler, contentTypes *regexp.Regexp, compress bool) {\n\tif !compress {\n\t\th.ServeHTTP(w, r)\n\t\treturn\n\t}\n" + strings.ReplaceAll(handlerGzip, "\t\t\t", "\t") + "}\n\n" + wrType}),
		x("serving helper with a bool parameter, called with true", "C17.D1", c17srcHandlerBody, "\t\tserve(w, r, h, contentTypes, acceptsGzip(r) || r.ProtoMajor > 1)",
			repl{wrType, "func serve(w http.ResponseWriter, r *http.Request, h http.Handler, contentTypes *regexp.Regexp, compress bool) {\n\tif !compress {\n\t\th.ServeHTTP(w, r)\n\t\treturn\n\t}\n" + strings.ReplaceAll(handlerGzip, "\t\t\t", "\t") + "}\n\n" + wrType}),
		x("serving helper with a bool parameter, second caller passes true", "C17.D1", c17srcHandlerBody, "\t\tif r.Method == \"HEAD\" {\n\t\t\tserve(w, r, h, contentTypes, true)\n\t\t\treturn\n\t\t}\n\t\tserve(w, r, h, contentTypes, acceptsGzip(r))",
			repl{wrType, "func serve(w http.ResponseWriter, r *http.Request, h http.Handler, contentTypes *regexp.Regexp, compress bool) {\n\tif !compress {\n\t\th.ServeHTTP(w, r)\n\t\treturn\n\t}\n" + strings.ReplaceAll(handlerGzip, "\t\t\t", "\t") + "}\n\n" + wrType}),
		b("mode of the response kept in a field", isCompCall, "\t\tgrw.mode = responseMode(grw.Header(), grw.contentTypes)\n\t\tif grw.mode == modeGzip {\n",
			repl{c17srcFields, "\tmode         int\n" + c17srcFields},
			repl{c17srcIsCompSig, "const (\n\tmodeUnknown = iota\n\tmodePlain\n\tmodeGzip\n)\n\nfunc responseMode(header http.Header, contentTypes *regexp.Regexp) int {\n\tif isCompressable(header, contentTypes) {\n\t\treturn modeGzip\n\t}\n\treturn modePlain\n}\n\n" + c17srcIsCompSig}),
		x("mode of the response kept in a field that the constructor presets to gzip", "C17.D1", isCompCall, "\t\tif grw.mode == modeUnknown {\n\t\t\tgrw.mode = responseMode(grw.Header(), grw.contentTypes)\n\t\t}\n\t\tif grw.mode == modeGzip {\n",
			repl{c17srcFields, "\tmode         int\n" + c17srcFields},
			repl{c17srcCtor, "\treturn &GzipResponseWriter{ResponseWriter: w, contentTypes: contentTypes, mode: modeGzip}\n"},
			repl{c17srcIsCompSig, "const (\n\tmodeUnknown = iota\n\tmodePlain\n\tmodeGzip\n)\n\nfunc responseMode(header http.Header, contentTypes *regexp.Regexp) int {\n\tif isCompressable(header, contentTypes) {\n\t\treturn modeGzip\n\t}\n\treturn modePlain\n}\n\n" + c17srcIsCompSig}),
		x("mode of the response kept in a field, zero value means gzip", "C17.D1", isCompCall, "\t\tif code >= 200 {\n\t\t\tgrw.mode = responseMode(grw.Header(), grw.contentTypes)\n\t\t}\n\t\tif grw.mode == modeGzip {\n",
			repl{c17srcFields, "\tmode         int\n" + c17srcFields},
			repl{c17srcIsCompSig, "const (\n\tmodeGzip = iota\n\tmodePlain\n)\n\nfunc responseMode(header http.Header, contentTypes *regexp.Regexp) int {\n\tif isCompressable(header, contentTypes) {\n\t\treturn modeGzip\n\t}\n\treturn modePlain\n}\n\n" + c17srcIsCompSig}),
		b("inner handler served through its method value", c17srcHandlerBody, "\t\tserve := h.ServeHTTP\n\t\tif acceptsGzip(r) {\n\t\t\tgzWriter := NewGzipResponseWriter(w, contentTypes)\n\t\t\tdefer gzWriter.Close()\n\t\t\tserve(gzWriter, r)\n\t\t} else {\n\t\t\tserve(w, r)\n\t\t}"),
		x("inner handler served through its method value, without the Accept-Encoding test", "C17.D1", c17srcHandlerBody, "\t\tserve := h.ServeHTTP\n\t\tif r.Method != \"HEAD\" {\n\t\t\tgzWriter := NewGzipResponseWriter(w, contentTypes)\n\t\t\tdefer gzWriter.Close()\n\t\t\tserve(gzWriter, r)\n\t\t} else {\n\t\t\tserve(w, r)\n\t\t}"),
		x("inner handler served through its method value, Close not deferred", "C17.T2", c17srcHandlerBody, "\t\tserve := h.ServeHTTP\n\t\tif acceptsGzip(r) {\n\t\t\tgzWriter := NewGzipResponseWriter(w, contentTypes)\n\t\t\tserve(gzWriter, r)\n\t\t\tgzWriter.Close()\n\t\t} else {\n\t\t\tserve(w, r)\n\t\t}"),

		// ---- the state of the writer as an enumeration ------------------------------------------------------------------
		sel("state: enumeration instead of the writer field, Write switches on it", "", stateEnum),
		sel("state: enumeration, Write selects by the gzip-writer field", "", func(p *c17sel) {
			stateEnum(p)
			p.writeTail = twoWrites
		}),
		sel("state: enumeration tested with a switch in WriteHeader", "", func(p *c17sel) {
			stateEnum(p)
			p.whOpen = "\tswitch grw.state {\n\tcase stateUndecided:\n"
		}),
		sel("state: plain response marked as gzip", "C17.T", func(p *c17sel) {
			stateEnum(p)
			p.elseArm = " else {\n\t\t\tgrw.state = stateGzip\n\t\t}\n"
		}),
		sel("state: Write sends the gzip state around the gzip writer", "C17.T1", func(p *c17sel) {
			stateEnum(p)
			p.writeTail = "\tswitch grw.state {\n\tcase statePlain:\n\t\treturn grw.gzipWriter.Write(b)\n\t}\n\treturn grw.ResponseWriter.Write(b)\n"
		}),
		sel("state: decided again when the state is plain", "C17.T1", func(p *c17sel) {
			stateEnum(p)
			p.whOpen = "\tif grw.state != stateGzip {\n"
		}),
		sel("state: reset to undecided by Close", "C17.T1", func(p *c17sel) {
			stateEnum(p)
			p.closeFn = strings.Replace(p.closeFn, "\tif grw.state == stateGzip {", "\tdefer func() { grw.state = stateUndecided }()\n\tif grw.state == stateGzip {", 1)
		}),
		sel("state: Close for every decided response", "C17.T2", func(p *c17sel) {
			stateEnum(p)
			p.closeFn = strings.Replace(p.closeFn, "if grw.state == stateGzip {", "if grw.state != stateUndecided {", 1)
		}),
		b("state: enumeration next to the writer field", c17srcWH, "func (grw *GzipResponseWriter) WriteHeader(code int) {\n\tif grw.state == stateUndecided {\n"+
			strings.Replace(strings.Replace(c17srcDecide, "\t\t\tgrw.writer = grw.gzipWriter\n", "\t\t\tgrw.writer, grw.state = grw.gzipWriter, stateGzip\n", 1), "\t\t\tgrw.writer = grw.ResponseWriter\n", "\t\t\tgrw.writer, grw.state = grw.ResponseWriter, statePlain\n", 1)+
			"\t}\n\tgrw.ResponseWriter.WriteHeader(code)\n}\n",
			repl{c17srcFields, "\tstate        int\n" + c17srcFields},
			repl{c17srcWriteHead, "\tif grw.state == stateUndecided {\n\t\tif _, ok :="},
			repl{c17srcClose, strings.Replace(c17srcClose, "if grw.gzipWriter != nil {", "if grw.state == stateGzip {", 1) + "\nconst (\n\tstateUndecided = iota\n\tstatePlain\n\tstateGzip\n)\n"}),
		x("state: enumeration next to the writer field, set without a decision on one path", "C17.T1", c17srcWH, "func (grw *GzipResponseWriter) WriteHeader(code int) {\n\tif grw.state == stateUndecided {\n\t\tgrw.state = statePlain\n\t\tif code != http.StatusNoContent {\n"+
			strings.Replace(c17srcDecide, "\t\t\tgrw.writer = grw.gzipWriter\n", "\t\t\tgrw.writer, grw.state = grw.gzipWriter, stateGzip\n", 1)+
			"\t\t}\n\t}\n\tgrw.ResponseWriter.WriteHeader(code)\n}\n",
			repl{c17srcFields, "\tstate        int\n" + c17srcFields},
			repl{c17srcWriteHead, "\tif grw.state == stateUndecided {\n\t\tif _, ok :="},
			repl{c17srcClose, c17srcClose + "\nconst (\n\tstateUndecided = iota\n\tstatePlain\n\tstateGzip\n)\n"}),

		// ---- type aliases ------------------------------------------------------------------------------------------
		b("alias for the pooled writer's type", "\tgzipWriter   *gzip.Writer\n", "\tgzipWriter   *gzWriter\n",
			repl{"\t\t\tgrw.gzipWriter = gzipWriterPool.Get().(*gzip.Writer)\n", "\t\t\tgrw.gzipWriter = gzipWriterPool.Get().(*gzWriter)\n"},
			repl{wrType, "type gzWriter = gzip.Writer\n\n" + wrType}),
		b("aliases for the header map and the expression", c17srcIsCompSig, "type (\n\theader  = http.Header\n\tmatcher = *regexp.Regexp\n)\n\nfunc isCompressable(header header, contentTypes matcher) bool {\n",
			repl{"\tcontentTypes *regexp.Regexp\n\thttp.ResponseWriter\n", "\tcontentTypes matcher\n\thttp.ResponseWriter\n"}),
		x("alias for the pooled writer's type, Reset lost", "C17.T2", "\tgzipWriter   *gzip.Writer\n", "\tgzipWriter   *gzWriter\n",
			repl{"\t\t\tgrw.gzipWriter = gzipWriterPool.Get().(*gzip.Writer)\n\t\t\tgrw.gzipWriter.Reset(grw.ResponseWriter)\n", "\t\t\tgrw.gzipWriter = gzipWriterPool.Get().(*gzWriter)\n"},
			repl{wrType, "type gzWriter = gzip.Writer\n\n" + wrType}),

		// ---- residual brittleness of round 4: Close / release guarded by a boolean instead of the nil test --------------
		b("r4: Close and release split, both guarded by a boolean, release deferred first", c17srcClose, c17flagSplit,
			repl{c17srcFields, "\tcompressing  bool\n" + c17srcFields},
			repl{"\t\t\tgrw.writer = grw.gzipWriter\n", "\t\t\tgrw.writer = grw.gzipWriter\n\t\t\tgrw.compressing = true\n"},
			repl{c17r4defer, "\t\t\tdefer gzWriter.release()\n\t\t\tdefer gzWriter.Close()\n"}),
		x("r4: Close and release split, both guarded by a boolean, release deferred last", "C17.T2", c17srcClose, c17flagSplit,
			repl{c17srcFields, "\tcompressing  bool\n" + c17srcFields},
			repl{"\t\t\tgrw.writer = grw.gzipWriter\n", "\t\t\tgrw.writer = grw.gzipWriter\n\t\t\tgrw.compressing = true\n"},
			repl{c17r4defer, "\t\t\tdefer gzWriter.Close()\n\t\t\tdefer gzWriter.release()\n"}),
	}
	return list
}

// Close finishes the stream, release recycles; both ask a boolean instead of the field
const c17flagSplit = "func (grw *GzipResponseWriter) Close() error {\n\tif !grw.compressing {\n\t\treturn nil\n\t}\n\treturn grw.gzipWriter.Close()\n}\n\nfunc (grw *GzipResponseWriter) release() {\n\tif grw.compressing {\n\t\tgzipWriterPool.Put(grw.gzipWriter)\n\t}\n}\n"

// stateEnum: the selected representation with an enumeration: stateUndecided (zero), statePlain, stateGzip.
func stateEnum(p *c17sel) {
	p.fields = "\tstate        int\n\tgzipWriter   *gzip.Writer\n"
	p.whOpen = "\tif grw.state == stateUndecided {\n"
	p.install = c17selInstall + "\t\t\tgrw.state = stateGzip\n"
	p.elseArm = " else {\n\t\t\tgrw.state = statePlain\n\t\t}\n"
	p.afterArms = ""
	p.writeOpen = "\tif grw.state == stateUndecided {\n"
	p.writeTail = "\tswitch grw.state {\n\tcase stateGzip:\n\t\treturn grw.gzipWriter.Write(b)\n\t}\n\treturn grw.ResponseWriter.Write(b)\n"
	p.decls = "const (\n\tstateUndecided = iota\n\tstatePlain\n\tstateGzip\n)\n\n" + c17useIO
	p.closeFn = strings.Replace(c17srcClose, "if grw.gzipWriter != nil {", "if grw.state == stateGzip {", 1)
}

// c17filterMutants: development aid: C17_MUT=<substring> restricts `verifcheck mutants C17` to the matching mutants.
func c17filterMutants(ms []mutant) []mutant {
	want := os.Getenv("C17_MUT")
	if want == "" {
		return ms
	}
	var out []mutant
	for _, m := range ms {
		if strings.Contains(m.Name, want) {
			out = append(out, m)
		}
	}
	return out
}
