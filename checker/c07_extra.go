package main

// Rules of C07 added after the rounds of independently authored breaking changes (DESIGN 11.6, 11.7).

import (
	"golang.org/x/tools/go/ssa"
)

func forwardsOnEveryPath(f *ssa.Function, mn string, isInner func(ssa.Value) bool) bool {
	var fwd []ssa.Instruction
	eachInstr(f, func(i ssa.Instruction) {
		cc := callCommon(i)
		if cc != nil && cc.IsInvoke() && cc.Method.Name() == mn && isInner(cc.Value) {
			fwd = append(fwd, i)
		}
	})
	if len(fwd) == 0 {
		return false
	}
	_, open := exitReachableAvoidingFromBlock(f.Blocks[0], func(i ssa.Instruction) bool {
		for _, x := range fwd {
			if i == x {
				return true
			}
		}
		return false
	})
	return !open
}

// ---- C08.X3: the websocket X-Forwarded-For branch and the tunnel decision depend on the same header -----------
