package main

// Rules of C07 added after the rounds of independently authored breaking changes (DESIGN 11.6, 11.7).

import (
	"golang.org/x/tools/go/ssa"
)

// forwardsOnEveryPath: every path through f passes a call of method mn on the wrapped writer - in f itself or in a
// helper that does it on all of its paths (exitReachableAvoidingFromBlock lifts the landmark through static calls).
func forwardsOnEveryPath(f *ssa.Function, mn string, isInner func(ssa.Value) bool) bool {
	_, open := exitReachableAvoidingFromBlock(f.Blocks[0], func(i ssa.Instruction) bool {
		cc := callCommon(i)
		return cc != nil && cc.IsInvoke() && cc.Method.Name() == mn && isInner(cc.Value)
	})
	return !open
}

// ---- C08.X3: the websocket X-Forwarded-For branch and the tunnel decision depend on the same header -----------
