package main

// Helpers private to the C15 rules. They exist because the rules are phrased in terms of ROLES (what an instruction
// does) inside REGIONS (an exported entry point plus whatever same-package helpers and closures it uses), never in
// terms of the unexported function that happens to contain a site today.

import (
	"go/token"
	"go/types"
	"strings"

	"golang.org/x/tools/go/ssa"
)

// c15cell maps a captured variable (FreeVar) to the cell bound in the enclosing function (through several levels).
func c15cell(v ssa.Value) ssa.Value {
	for d := 0; d < 4; d++ {
		fv, ok := v.(*ssa.FreeVar)
		if !ok {
			return v
		}
		fn := fv.Parent()
		if fn == nil || fn.Parent() == nil {
			return v
		}
		idx := -1
		for k, x := range fn.FreeVars {
			if x == fv {
				idx = k
			}
		}
		var bound ssa.Value
		eachInstr(fn.Parent(), func(i ssa.Instruction) {
			if mc, ok := i.(*ssa.MakeClosure); ok && mc.Fn == fn && idx >= 0 && idx < len(mc.Bindings) {
				bound = mc.Bindings[idx]
			}
		})
		if bound == nil {
			return v
		}
		v = bound
	}
	return v
}

// c15stores: the values stored into a local cell (an Alloc, or the Alloc behind a captured variable), by the owner
// of the cell and by the closures of the owner that captured it.
func c15stores(cell ssa.Value) []ssa.Value {
	cell = c15cell(cell)
	a, ok := cell.(*ssa.Alloc)
	if !ok || a.Referrers() == nil {
		return nil
	}
	var out []ssa.Value
	var visit func(addr ssa.Value, d int)
	visit = func(addr ssa.Value, d int) {
		refs := addr.Referrers()
		if refs == nil || d > 3 {
			return
		}
		for _, r := range *refs {
			switch x := r.(type) {
			case *ssa.Store:
				if x.Addr == addr {
					out = append(out, x.Val)
				}
			case *ssa.MakeClosure:
				fn, _ := x.Fn.(*ssa.Function)
				for k, b := range x.Bindings {
					if b == addr && fn != nil && k < len(fn.FreeVars) {
						visit(fn.FreeVars[k], d+1)
					}
				}
			}
		}
	}
	visit(a, 0)
	return out
}

// c15funcsOf: funcsOf, plus closures kept in a (possibly captured) local variable.
func c15funcsOf(v ssa.Value) []*ssa.Function {
	if out := funcsOf(v); len(out) > 0 {
		return out
	}
	var out []*ssa.Function
	if u, ok := v.(*ssa.UnOp); ok && u.Op == token.MUL {
		for _, sv := range c15stores(u.X) {
			out = append(out, funcsOf(sv)...)
		}
	}
	return out
}

// c15callees: the repository functions a call can enter: the static callee, or what a function-typed value denotes.
func c15callees(cc *ssa.CallCommon) []*ssa.Function {
	if cc == nil {
		return nil
	}
	if cc.IsInvoke() {
		// a method of an interface declared in the repository: the implementations the receiver can have
		return c15dyn(cc).repoFns()
	}
	if sc := cc.StaticCallee(); sc != nil {
		sc = unwrap(sc)
		if isRepoFn(sc) && len(sc.Blocks) > 0 {
			return []*ssa.Function{sc}
		}
		return nil
	}
	var out []*ssa.Function
	for _, f := range c15funcsOf(cc.Value) {
		if isRepoFn(f) && len(f.Blocks) > 0 {
			out = append(out, f)
		}
	}
	if len(out) == 0 {
		// a function taken from a list of functions
		return c15dyn(cc).repoFns()
	}
	return out
}

// c15closure: roots plus everything they can enter (c15callees) and the closures / function values they mention, in
// the same package, depth-bounded; deterministic order.
func (c *Ctx) c15closure(depth int, roots ...*ssa.Function) []*ssa.Function {
	var out []*ssa.Function
	seen := map[*ssa.Function]bool{}
	var add func(f *ssa.Function, d int)
	add = func(f *ssa.Function, d int) {
		if f == nil || seen[f] || len(f.Blocks) == 0 || !isRepoFn(f) {
			return
		}
		seen[f] = true
		out = append(out, f)
		if d >= depth {
			return
		}
		for _, g := range c.region(f) {
			if !seen[g] && g != f {
				add(g, d+1)
			}
		}
		eachInstr(f, func(i ssa.Instruction) {
			if cc := callCommon(i); cc != nil {
				for _, g := range c15callees(cc) {
					if rootPkg(g) == rootPkg(f) {
						add(g, d+1)
					}
				}
			}
		})
	}
	for _, r := range roots {
		add(r, 0)
	}
	return out
}

// c15may: instruction i does pred, or is a (non-go) call that can enter a repository function which (transitively,
// depth-bounded) contains an instruction doing pred.
func c15may(i ssa.Instruction, pred func(ssa.Instruction) bool) bool {
	if pred(i) {
		return true
	}
	call, ok := i.(*ssa.Call)
	if !ok {
		return false
	}
	for _, g := range c15callees(&call.Call) {
		if c15mayFn(g, pred, 1) {
			return true
		}
	}
	return false
}

func c15mayFn(fn *ssa.Function, pred func(ssa.Instruction) bool, depth int) bool {
	if fn == nil || depth > 4 {
		return false
	}
	hit := false
	eachInstr(fn, func(i ssa.Instruction) {
		if hit {
			return
		}
		if pred(i) {
			hit = true
			return
		}
		if call, ok := i.(*ssa.Call); ok {
			for _, g := range c15callees(&call.Call) {
				if g != fn && c15mayFn(g, pred, depth+1) {
					hit = true
				}
			}
		}
	})
	return hit
}

// c15must: instruction i does pred, or is a call all of whose possible callees do pred on every path to a return.
func c15must(i ssa.Instruction, pred func(ssa.Instruction) bool) bool {
	if pred(i) {
		return true
	}
	call, ok := i.(*ssa.Call)
	if !ok {
		return false
	}
	gs := c15callees(&call.Call)
	if len(gs) == 0 || len(c15dyn(&call.Call).exts()) > 0 {
		return false // (a dynamic call that can also enter code outside the repository)
	}
	for _, g := range gs {
		if !mustExec(g, pred, 1) {
			return false
		}
	}
	return true
}

// c15before: whenever an instruction doing B executes in fn (directly or inside a helper it calls), an instruction
// doing A has been executed before, on every path. nB counts the places where B can happen.
func c15before(fn *ssa.Function, isA, isB func(ssa.Instruction) bool, depth int) (ok bool, nB int) {
	ok = true
	if fn == nil {
		return false, 0
	}
	var as []ssa.Instruction
	eachInstr(fn, func(i ssa.Instruction) {
		if c15must(i, isA) {
			as = append(as, i)
		}
	})
	eachInstr(fn, func(i ssa.Instruction) {
		direct := isB(i)
		if !direct && !c15may(i, isB) {
			return
		}
		nB++
		for _, a := range as {
			if a != i && dominatesInstr(a, i) {
				return
			}
		}
		if !direct && depth < 3 {
			all := true
			for _, g := range c15callees(callCommon(i)) {
				if !c15mayFn(g, isB, 1) {
					continue
				}
				if sub, _ := c15before(g, isA, isB, depth+1); !sub {
					all = false
				}
			}
			if all {
				return
			}
		}
		ok = false
	})
	return ok, nB
}

// c15siteIndex: call sites (static, or through a closure kept in a variable) of the functions of a region.
type c15siteIndex map[*ssa.Function][]ssa.Instruction

func c15buildSites(fns []*ssa.Function) c15siteIndex {
	idx := c15siteIndex{}
	for _, f := range fns {
		eachInstr(f, func(i ssa.Instruction) {
			if cc := callCommon(i); cc != nil {
				for _, g := range c15callees(cc) {
					idx[g] = append(idx[g], i)
				}
			}
		})
	}
	return idx
}

// c15holdsAt: pred holds of the branch facts at instruction `at`, or — when the function containing it is only
// entered through known call sites of the region — at every one of those call sites (transitively). stop lists the
// functions that are entered from outside (callbacks handed to the library): nothing is known at their entry.
func c15holdsAt(at ssa.Instruction, sites c15siteIndex, stop map[*ssa.Function]bool, pred func(ssa.Instruction, []Fact) bool, depth int) bool {
	if at == nil || at.Block() == nil {
		return false
	}
	if pred(at, localFactsAt(at.Block())) {
		return true
	}
	fn := at.Parent()
	if fn == nil || stop[fn] || depth > 3 {
		return false
	}
	ss := sites[fn]
	if len(ss) == 0 {
		return false
	}
	if fn.Parent() == nil && !onlyStaticallyCalled(fn) {
		return false // may be entered from elsewhere
	}
	for _, s := range ss {
		if _, isGo := s.(*ssa.Go); isGo {
			return false
		}
		if !c15holdsAt(s, sites, stop, pred, depth+1) {
			return false
		}
	}
	return true
}

// c15factsChain: the branch facts at `at` together with those at the (transitive) call sites of its function when
// the function has exactly one known site — used to look for facts that must NOT be there.
func c15factsChain(at ssa.Instruction, sites c15siteIndex, stop map[*ssa.Function]bool) []Fact {
	var out []Fact
	for d := 0; at != nil && at.Block() != nil && d < 4; d++ {
		out = append(out, localFactsAt(at.Block())...)
		fn := at.Parent()
		if fn == nil || stop[fn] || len(sites[fn]) != 1 {
			break
		}
		at = sites[fn][0]
	}
	return out
}

// c15derives: derives, which also looks through calls of closures kept in (captured) local variables.
func c15derives(v ssa.Value, pred func(ssa.Value) bool) bool {
	seen := map[ssa.Value]bool{}
	var p2 func(ssa.Value) bool
	p2 = func(x ssa.Value) bool {
		if pred(x) {
			return true
		}
		call, ok := x.(*ssa.Call)
		if !ok || call.Call.StaticCallee() != nil || seen[x] {
			return false
		}
		seen[x] = true
		var gs []*ssa.Function
		if call.Call.IsInvoke() {
			gs = c15dyn(&call.Call).repoFns() // the implementations behind an interface of the repository
		} else if gs = c15funcsOf(call.Call.Value); len(gs) == 0 {
			gs = c15dyn(&call.Call).repoFns() // a function taken from a list
		}
		for _, g := range gs {
			found := false
			eachInstr(g, func(i ssa.Instruction) {
				if r, ok := i.(*ssa.Return); ok && !found {
					for _, res := range r.Results {
						if derives(res, p2) {
							found = true
						}
					}
				}
			})
			if found {
				return true
			}
		}
		return false
	}
	return derives(v, p2)
}

// c15pathCut: is there a path that starts right after `from` and executes `to`, not taking any branch edge for
// which cut(cond, takenTruth) is true (cond is the If condition with negations stripped)?
func c15pathCut(from, to ssa.Instruction, cut func(cond ssa.Value, truth bool) bool) bool {
	if from.Parent() != to.Parent() {
		return false
	}
	type item struct {
		b   *ssa.BasicBlock
		idx int
	}
	seen := map[*ssa.BasicBlock]bool{}
	stack := []item{{from.Block(), instrIndex(from) + 1}}
	for len(stack) > 0 {
		it := stack[len(stack)-1]
		stack = stack[:len(stack)-1]
		for k := it.idx; k < len(it.b.Instrs); k++ {
			if it.b.Instrs[k] == to {
				return true
			}
		}
		var cond ssa.Value
		neg := false
		if n := len(it.b.Instrs); n > 0 {
			if iff, ok := it.b.Instrs[n-1].(*ssa.If); ok {
				cond = iff.Cond
				for {
					u, isNot := cond.(*ssa.UnOp)
					if !isNot || u.Op != token.NOT {
						break
					}
					cond, neg = u.X, !neg
				}
			}
		}
		for k, s := range it.b.Succs {
			if cond != nil && len(it.b.Succs) == 2 && cut != nil {
				truth := k == 0
				if neg {
					truth = !truth
				}
				if cut(cond, truth) {
					continue
				}
			}
			if !seen[s] {
				seen[s] = true
				stack = append(stack, item{s, 0})
			}
		}
	}
	return false
}

// c15isErrorType: t is the predeclared interface type error.
func c15isErrorType(t types.Type) bool {
	return types.Identical(t, types.Universe.Lookup("error").Type())
}

// c15short: callee / function names without the module path.
func c15short(s string) string {
	return strings.ReplaceAll(s, repoMod+"/", "")
}
