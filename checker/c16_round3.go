package main

// Rules of C16 added after the third round of independently authored breaking changes (DESIGN 11.10); wired in zzz_round3.go.

import (
	"go/token"
	"go/types"
	"strings"

	"golang.org/x/tools/go/ssa"
)

// ---- C16.P5: a pooled connection leaves the pool closed ------------------------------------------------------------

func runC16P5(c *Ctx) {
	n := 0
	for _, f := range c.fnsWhere("proxy", func(*ssa.Function) bool { return true }) {
		eachInstr(f, func(i ssa.Instruction) {
			cc := callCommon(i)
			if cc == nil || calleeName(cc) != "builtin.delete" || len(cc.Args) != 2 {
				return
			}
			mt, ok := cc.Args[0].Type().Underlying().(*types.Map)
			if !ok || !holdsClientConn(mt.Elem(), 0) {
				return
			}
			// only the janitor (a function that ranges over the pool) is in scope
			ranged := false
			eachInstr(f, func(j ssa.Instruction) {
				if r, ok := j.(*ssa.Range); ok {
					if rm, ok := r.X.Type().Underlying().(*types.Map); ok && types.Identical(rm, mt) {
						ranged = true
					}
				}
			})
			if !ranged {
				return
			}
			n++
			// on every path of the iteration that reaches the delete, the connection is either known to be shut down already
			// (an edge with state == connectivity.Shutdown) or is closed (directly, by a helper, or by a goroutine started
			// on the way)
			closes := func(j ssa.Instruction) bool {
				jc := callCommon(j)
				return jc != nil && strings.HasSuffix(calleeName(jc), "grpc.ClientConn).Close")
			}
			closing := func(j ssa.Instruction) bool {
				if closes(j) {
					return true
				}
				if g, ok := j.(*ssa.Go); ok {
					for _, fn := range append(funcsOf(g.Call.Value), g.Call.StaticCallee()) {
						if fn != nil && mayExec(fn, closes, 0) {
							return true
						}
					}
				}
				if call, ok := j.(*ssa.Call); ok {
					if sc := call.Call.StaticCallee(); sc != nil && isRepoFn(sc) && mayExec(unwrap(sc), closes, 1) {
						return true
					}
				}
				return false
			}
			isShutdownEdge := func(pred, succ *ssa.BasicBlock) bool {
				if len(pred.Succs) != 2 || len(pred.Instrs) == 0 {
					return false
				}
				iff, ok := pred.Instrs[len(pred.Instrs)-1].(*ssa.If)
				if !ok {
					return false
				}
				for _, ft := range appendCondFacts(nil, iff.Cond, pred.Succs[0] == succ, 0) {
					b, ok := ft.Cond.(*ssa.BinOp)
					if !ok || !(b.Op == token.EQL && ft.Truth || b.Op == token.NEQ && !ft.Truth) {
						continue
					}
					for _, side := range []ssa.Value{b.X, b.Y} {
						if k, isK := side.(*ssa.Const); isK && strings.HasSuffix(typeStr(k.Type()), "connectivity.State") && k.Int64() == 4 {
							return true
						}
					}
				}
				return false
			}
			// the iteration starts at the Next of the range over the pool
			var start ssa.Instruction
			eachInstr(f, func(j ssa.Instruction) {
				if nx, ok := j.(*ssa.Next); ok && dominatesInstr(j, i) {
					if r, ok := nx.Iter.(*ssa.Range); ok {
						if rm, ok := r.X.Type().Underlying().(*types.Map); ok && types.Identical(rm, mt) {
							start = j
						}
					}
				}
			})
			shutdown, closed := false, false
			if start != nil {
				type item struct {
					b   *ssa.BasicBlock
					idx int
				}
				open := false
				seenB := map[*ssa.BasicBlock]bool{}
				stack := []item{{start.Block(), instrIndex(start) + 1}}
				for len(stack) > 0 && !open {
					it := stack[len(stack)-1]
					stack = stack[:len(stack)-1]
					blocked := false
					for k := it.idx; k < len(it.b.Instrs); k++ {
						if it.b.Instrs[k] == i {
							open = true
							break
						}
						if closing(it.b.Instrs[k]) {
							blocked = true
							break
						}
					}
					if blocked || open {
						continue
					}
					for _, sx := range it.b.Succs {
						if isShutdownEdge(it.b, sx) || seenB[sx] || sx == start.Block() {
							continue
						}
						seenB[sx] = true
						stack = append(stack, item{sx, 0})
					}
				}
				closed = !open
			}
			c.check("C16.P5", fnKey(f)+"|connection removed from the pool is closed", i.Pos(), shutdown || closed,
				"the janitor drops a pooled connection without closing it and without knowing that it is already shut down (state == connectivity.Shutdown as the only condition): a ClientConn in TransientFailure keeps re-dialling in the background, reconnects when the backend returns, and is never closed — connections are no longer 'reused per backend and dropped once the backend leaves the table'")
		})
	}
	c.atLeast("C16.P5", "deletions from the connection pool by its janitor", n, 1)
}

// holdsClientConn: t is *grpc.ClientConn or a (pointer to a) struct with such a field.
func holdsClientConn(t types.Type, d int) bool {
	if strings.HasSuffix(typeStr(t), "grpc.ClientConn") {
		return true
	}
	if d > 2 {
		return false
	}
	if p, ok := t.Underlying().(*types.Pointer); ok {
		return holdsClientConn(p.Elem(), d+1)
	}
	if st, ok := t.Underlying().(*types.Struct); ok {
		for i := 0; i < st.NumFields(); i++ {
			if holdsClientConn(st.Field(i).Type(), d+1) {
				return true
			}
		}
	}
	return false
}
