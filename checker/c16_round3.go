package main

// Rules of C16 added after the third round of independently authored breaking changes (DESIGN 11.10); wired in zzz_round3.go.

import (
	"go/token"
	"go/types"
	"strings"

	"golang.org/x/tools/go/ssa"
)

// ---- C16.P5: a pooled connection leaves the pool closed ------------------------------------------------------------

func runC16P5(c *Ctx) {
	isPool := func(v ssa.Value) bool {
		if v == nil {
			return false
		}
		mt, ok := v.Type().Underlying().(*types.Map)
		return ok && holdsClientConn(mt.Elem(), 0)
	}
	isSweepStep := func(j ssa.Instruction) bool {
		r, ok := j.(*ssa.Range)
		return ok && isPool(r.X)
	}
	// in scope: the deletions the janitor performs — in a function that ranges over the pool, or in what such a function
	// runs synchronously per entry (a helper, a method, a closure handed to a locking wrapper)
	var scope []*ssa.Function
	c16resolve(c)
	for _, f := range c.fnsWhere("", func(f *ssa.Function) bool { return isRepoFn(f) && c16grpcPkg(rootPkg(f)) }) {
		if !fnHas(f, isSweepStep) {
			continue
		}
		for _, g := range c16syncRegion(f) {
			if !c16inFns(scope, g) {
				scope = append(scope, g)
			}
		}
	}
	n := 0
	for _, f := range scope {
		eachInstr(f, func(i ssa.Instruction) {
			cc := callCommon(i)
			if cc == nil || calleeName(cc) != "builtin.delete" || len(cc.Args) != 2 || !isPool(cc.Args[0]) {
				return
			}
			if _, isCall := i.(*ssa.Call); !isCall {
				return
			}
			n++
			// on every path of the iteration that reaches the delete, the connection is either known to be shut down already
			// (an edge with state == connectivity.Shutdown) or is closed (directly, by a helper, or by a goroutine started
			// on the way); where the delete sits in a helper, the path goes on at the helper's call sites
			c.check("C16.P5", fnKey(f)+"|connection removed from the pool is closed", i.Pos(), !c16p5open(i, isPool, 0),
				"the janitor drops a pooled connection without closing it and without knowing that it is already shut down (state == connectivity.Shutdown as the only condition): a ClientConn in TransientFailure keeps re-dialling in the background, reconnects when the backend returns, and is never closed — connections are no longer 'reused per backend and dropped once the backend leaves the table'")
		})
	}
	c.atLeast("C16.P5", "deletions from the connection pool by its janitor", n, 1)
}

func c16p5closes(j ssa.Instruction) bool {
	jc := callCommon(j)
	return jc != nil && strings.HasSuffix(calleeName(jc), "grpc.ClientConn).Close")
}

// c16p5closing: j closes a connection: directly, in what it runs synchronously, or in a goroutine it starts.
func c16p5closing(j ssa.Instruction) bool {
	if c16p5closes(j) {
		return true
	}
	if g, ok := j.(*ssa.Go); ok {
		for _, fn := range append(funcsOf(g.Call.Value), g.Call.StaticCallee()) {
			if fn == nil {
				continue
			}
			for _, h := range c16syncRegion(unwrap(fn)) {
				if fnHas(h, c16p5closes) {
					return true
				}
			}
		}
		return false
	}
	if _, ok := j.(*ssa.Call); ok {
		return c16mayDo(j, c16p5closes)
	}
	return c16p5handoff(j)
}

var c16p5drain struct {
	c      *Ctx
	exists bool
}

// c16p5handoff: j puts the connection into a slice or sends it on a channel, and the repository closes connections it
// takes out of such a collection: the sweep only collects under the lock, the closing is done afterwards (two-phase
// janitor).
func c16p5handoff(j ssa.Instruction) bool {
	var v ssa.Value
	switch x := j.(type) {
	case *ssa.Store:
		if _, ok := x.Addr.(*ssa.IndexAddr); ok {
			v = x.Val
		}
	case *ssa.Send:
		v = x.X
	}
	if v == nil || !holdsClientConn(v.Type(), 0) {
		return false
	}
	c := c16cache.c
	if c == nil {
		return false
	}
	if c16p5drain.c != c {
		c16p5drain.c, c16p5drain.exists = c, false
		for _, f := range c.AllFns {
			if !isRepoFn(f) || !c16grpcPkg(rootPkg(f)) {
				continue
			}
			eachInstr(f, func(i ssa.Instruction) {
				cc := callCommon(i)
				if cc == nil || !c16p5closes(i) || len(cc.Args) == 0 {
					return
				}
				if derives(cc.Args[0], func(x ssa.Value) bool {
					switch y := x.(type) {
					case *ssa.IndexAddr:
						return holdsClientConn(deref(y.Type()), 0)
					case *ssa.Index:
						return holdsClientConn(y.Type(), 0)
					case *ssa.UnOp:
						return y.Op == token.ARROW && holdsClientConn(y.Type(), 0)
					}
					return false
				}) {
					c16p5drain.exists = true
				}
			})
		}
	}
	return c16p5drain.exists
}

// c16p5shutdownEdge: the edge pred -> succ is taken only where a connectivity.State equals Shutdown.
func c16p5shutdownEdge(pred, succ *ssa.BasicBlock) bool {
	if len(pred.Succs) != 2 || len(pred.Instrs) == 0 {
		return false
	}
	iff, ok := pred.Instrs[len(pred.Instrs)-1].(*ssa.If)
	if !ok {
		return false
	}
	for _, ft := range appendCondFacts(nil, iff.Cond, pred.Succs[0] == succ, 0) {
		b, ok := ft.Cond.(*ssa.BinOp)
		if !ok || !(b.Op == token.EQL && ft.Truth || b.Op == token.NEQ && !ft.Truth) {
			continue
		}
		for _, side := range []ssa.Value{b.X, b.Y} {
			if c16p6isShutdown(side) {
				return true
			}
		}
	}
	// the comparison extracted into a predicate over the connection or its state (isDead(cs), gone(state)): the edge on
	// which the predicate gives a verdict it gives only for a connection that is shut down
	for _, ft := range appendCondFacts(nil, iff.Cond, pred.Succs[0] == succ, 0) {
		call, ok := ft.Cond.(*ssa.Call)
		if !ok {
			continue
		}
		sc := call.Call.StaticCallee()
		if sc == nil || !isRepoFn(sc) || typeStr(call.Type().Underlying()) != "bool" {
			continue
		}
		about := false
		for _, a := range call.Call.Args {
			about = about || holdsClientConn(a.Type(), 0) || strings.HasSuffix(typeStr(a.Type()), "connectivity.State")
		}
		if about && c16p5onlyWhenShutdown(unwrap(sc), ft.Truth, 0) {
			return true
		}
	}
	return false
}

// c16p5onlyWhenShutdown: the bool predicate g returns verdict only where a connectivity.State equals Shutdown: every
// return that can yield verdict is the comparison itself (in the right sense), a constant reached only over such an
// edge, or the verdict of another such predicate.
func c16p5onlyWhenShutdown(g *ssa.Function, verdict bool, depth int) bool {
	if g == nil || len(g.Blocks) == 0 || depth > 2 {
		return false
	}
	n, ok := 0, true
	eachInstr(g, func(i ssa.Instruction) {
		r, isR := i.(*ssa.Return)
		if !isR || !ok {
			return
		}
		if len(r.Results) != 1 {
			ok = false
			return
		}
		v, want := r.Results[0], verdict
		for {
			u, isNot := v.(*ssa.UnOp)
			if !isNot || u.Op != token.NOT {
				break
			}
			v, want = u.X, !want
		}
		if bv, isK := constBool(v); isK {
			if bv != want {
				return // cannot yield the verdict
			}
			n++
			if c16p5reach(g.Blocks[0], 0, nil, r) {
				ok = false
			}
			return
		}
		n++
		switch x := v.(type) {
		case *ssa.BinOp:
			sd := c16p6isShutdown(x.X) || c16p6isShutdown(x.Y)
			if !(sd && (x.Op == token.EQL && want || x.Op == token.NEQ && !want)) {
				ok = false
			}
		case *ssa.Call:
			sc := x.Call.StaticCallee()
			if sc == nil || !isRepoFn(sc) || !c16p5onlyWhenShutdown(unwrap(sc), want, depth+1) {
				ok = false
			}
		default:
			ok = false
		}
	})
	return ok && n > 0
}

// c16p5verdictCovered: every return of the predicate g that can yield verdict passes, from g's entry, a close (or the
// start of a goroutine that closes) or an edge on which the connection is known to be shut down.
func c16p5verdictCovered(g *ssa.Function, verdict bool) bool {
	if g == nil || len(g.Blocks) == 0 {
		return false
	}
	n, ok := 0, true
	eachInstr(g, func(i ssa.Instruction) {
		r, isR := i.(*ssa.Return)
		if !isR || len(r.Results) != 1 {
			return
		}
		if bv, isK := constBool(r.Results[0]); isK && bv != verdict {
			return
		}
		n++
		if c16p5reach(g.Blocks[0], 0, nil, r) {
			ok = false
		}
	})
	return ok && n > 0
}

// c16p5reach: at is reachable from instruction idx of block b without passing a close and without taking an edge on
// which the connection is known to be shut down (head: the loop header of the sweep, where the next iteration starts).
func c16p5reach(b *ssa.BasicBlock, idx int, head *ssa.BasicBlock, at ssa.Instruction) bool {
	type item struct {
		b   *ssa.BasicBlock
		idx int
	}
	stack := []item{{b, idx}}
	seenB := map[*ssa.BasicBlock]bool{}
	for len(stack) > 0 {
		it := stack[len(stack)-1]
		stack = stack[:len(stack)-1]
		blocked := false
		for k := it.idx; k < len(it.b.Instrs); k++ {
			if it.b.Instrs[k] == at {
				return true
			}
			if c16p5closing(it.b.Instrs[k]) {
				blocked = true
				break
			}
		}
		if blocked {
			continue
		}
		for _, sx := range it.b.Succs {
			if c16p5shutdownEdge(it.b, sx) || seenB[sx] || sx == head {
				continue
			}
			seenB[sx] = true
			stack = append(stack, item{sx, 0})
		}
	}
	return false
}

// c16p5open: instruction at can be reached, within one iteration of the sweep, without passing a close and without taking
// an edge on which the connection is known to be shut down. The iteration starts at the Next of the range over the pool
// where that is in at's function; otherwise at's function is a per-entry helper: the walk starts at its entry and, if at
// is reachable from there, goes on at the helper's call sites.
func c16p5open(at ssa.Instruction, isPool func(ssa.Value) bool, depth int) bool {
	f := at.Parent()
	if f == nil || len(f.Blocks) == 0 {
		return true
	}
	// the drop is decided by a per-entry predicate (dropIf(func(key, conn) bool {...})): what the predicate does on the
	// way to the verdict under which the entry is dropped counts
	for _, ft := range localFactsAt(at.Block()) {
		call, ok := ft.Cond.(*ssa.Call)
		if !ok || typeStr(call.Type().Underlying()) != "bool" {
			continue
		}
		conn := false
		for _, a := range call.Call.Args {
			conn = conn || holdsClientConn(a.Type(), 0)
		}
		gs := c16syncCallees(call)
		if !conn || len(gs) == 0 {
			continue
		}
		covered := true
		for _, g := range gs {
			covered = covered && c16p5verdictCovered(g, ft.Truth)
		}
		if covered {
			return false
		}
	}
	var start ssa.Instruction
	eachInstr(f, func(j ssa.Instruction) {
		if nx, ok := j.(*ssa.Next); ok && dominatesInstr(j, at) {
			if r, ok := nx.Iter.(*ssa.Range); ok && isPool(r.X) {
				start = j
			}
		}
	})
	var open bool
	if start != nil {
		open = c16p5reach(start.Block(), instrIndex(start)+1, start.Block(), at)
	} else {
		open = c16p5reach(f.Blocks[0], 0, nil, at)
	}
	if !open || start != nil {
		return open
	}
	// open from the helper's entry: it depends on how the helper is reached
	var sites []ssa.Instruction
	for _, s := range gSites[f] {
		if _, isGo := s.(*ssa.Go); !isGo && s.Parent() != f {
			sites = append(sites, s)
		}
	}
	if dyn, _ := c16dynSites(f); len(dyn) > 0 {
		for _, s := range dyn {
			sites = append(sites, s)
		}
	}
	if len(sites) == 0 || depth >= 3 {
		return true
	}
	for _, s := range sites {
		if c16p5open(s, isPool, depth+1) {
			return true
		}
	}
	return false
}

// holdsClientConn: t is *grpc.ClientConn or a (pointer to a) struct with such a field.
func holdsClientConn(t types.Type, d int) bool {
	if strings.HasSuffix(typeStr(t), "grpc.ClientConn") {
		return true
	}
	if d > 2 {
		return false
	}
	if p, ok := t.Underlying().(*types.Pointer); ok {
		return holdsClientConn(p.Elem(), d+1)
	}
	if st, ok := t.Underlying().(*types.Struct); ok {
		for i := 0; i < st.NumFields(); i++ {
			if holdsClientConn(st.Field(i).Type(), d+1) {
				return true
			}
		}
	}
	return false
}
