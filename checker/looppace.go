package main

import (
	"go/token"
	"strings"

	"golang.org/x/tools/go/ssa"
)

// E6 — loop pacing (DESIGN §4): every cycle of a condition-less `for` loop (or a
// range over a channel) must contain a pacing operation.

var pacingCalls = map[string]bool{
	"time.Sleep":                      true,
	"(*sync.WaitGroup).Wait":          true,
	"(*sync.Cond).Wait":               true,
	"(net.Listener).Accept":           true,
	"(*time.Timer).Reset":             false,
	"os/signal.Notify":                false,
	"(*bufio.Scanner).Scan":           false,
	"(*net/http.Client).Do":           false, // a failing request returns at once
	"(*encoding/json.Decoder).Decode": false,
}

// blockingQueryParam: fn is a repository wrapper around a Consul blocking query — one of its (uint64) parameters is
// stored into the WaitIndex field of the api.QueryOptions it passes on. Returns the index of that parameter among the
// call's arguments. Found by role, so a renamed or newly added wrapper is recognised (rule W3: a call paces the loop
// only if that argument is loop-carried and advanced from the call's own index result).
func blockingQueryParam(fn *ssa.Function) (int, bool) {
	if fn == nil || !isRepoFn(fn) || len(fn.Blocks) == 0 {
		return 0, false
	}
	if k, ok := blockingQueryMemo[fn]; ok {
		return k, k >= 0
	}
	res := -1
	eachInstr(fn, func(i ssa.Instruction) {
		st, ok := i.(*ssa.Store)
		if !ok {
			return
		}
		if _, isWI := fieldOf(st.Addr, apiPkg+".QueryOptions", "WaitIndex"); !isWI {
			return
		}
		for k, p := range fn.Params {
			if st.Val == p {
				res = k
			}
		}
	})
	blockingQueryMemo[fn] = res
	return res, res >= 0
}

var blockingQueryMemo = map[*ssa.Function]int{}

// extraPacing lets a property add repository-specific pacing operations (e.g. direct Consul queries).
var extraPacing func(ssa.Instruction, *loop) bool

func isPacingInstr(i ssa.Instruction, l *loop) bool {
	if extraPacing != nil && extraPacing(i, l) {
		return true
	}
	switch x := i.(type) {
	case *ssa.Send:
		return true
	case *ssa.Select:
		return x.Blocking
	case *ssa.UnOp:
		return x.Op == token.ARROW
	case *ssa.Call:
		n := calleeName(&x.Call)
		if pacingCalls[n] {
			return true
		}
		if k, ok := blockingQueryParam(x.Call.StaticCallee()); ok && k < len(x.Call.Args) {
			return waitIndexAdvances(x, x.Call.Args[k], l)
		}
	}
	return false
}

// waitIndexAdvances: arg is a phi at the loop header that has a back-edge operand derived from the
// call's own results (the reply's LastIndex), so the query blocks until the index moves.
func waitIndexAdvances(call *ssa.Call, arg ssa.Value, l *loop) bool {
	phi, ok := arg.(*ssa.Phi)
	if !ok || phi.Block() != l.Head {
		return false
	}
	for k, e := range phi.Edges {
		if !l.Body[l.Head.Preds[k]] {
			continue
		}
		if derives(e, func(v ssa.Value) bool { return v == call }) {
			return true
		}
	}
	return false
}

// condLessLoops returns the loops of f written as `for { ... }` (header is the body's first block)
// or ranging over a channel.
func condLessLoops(f *ssa.Function) []*loop {
	var out []*loop
	for _, l := range loopsOf(f) {
		if l.Head.Comment == "for.body" {
			out = append(out, l)
		}
	}
	return out
}

// spinCycle finds a cycle through the header that contains no pacing instruction; it returns a
// block on the cycle for diagnostics.
func spinCycle(l *loop) *ssa.BasicBlock {
	paced := map[*ssa.BasicBlock]bool{}
	for b := range l.Body {
		for _, i := range b.Instrs {
			if isPacingInstr(i, l) {
				paced[b] = true
			}
		}
	}
	if paced[l.Head] {
		return nil
	}
	// DFS from head within the loop avoiding paced blocks; reaching head again = spin
	seen := map[*ssa.BasicBlock]bool{}
	prev := map[*ssa.BasicBlock]*ssa.BasicBlock{}
	stack := []*ssa.BasicBlock{l.Head}
	for len(stack) > 0 {
		b := stack[len(stack)-1]
		stack = stack[:len(stack)-1]
		for _, s := range b.Succs {
			if !l.Body[s] || paced[s] {
				continue
			}
			if s == l.Head {
				return b
			}
			if !seen[s] {
				seen[s] = true
				prev[s] = b
				stack = append(stack, s)
			}
		}
	}
	return nil
}

// runLoopPacing checks all condition-less loops of the functions in the given packages.
func runLoopPacing(c *Ctx, rule string, pkgs []string, min int) {
	n := 0
	for _, f := range c.AllFns {
		in := false
		for _, p := range pkgs {
			if rootPkg(f) == c.spkg(p) {
				in = true
			}
		}
		if !in {
			continue
		}
		for _, l := range condLessLoops(f) {
			if pureComputationLoop(l) {
				// a search / scan loop written as `for { ... break ... }` over strings or slices: it calls nothing that
				// could wait for, or look at, anything outside the goroutine, so it is no reload/watch loop and "spins
				// while the source stays unusable" does not apply to it
				continue
			}
			n++
			b := spinCycle(l)
			pos := l.Head.Instrs[0].Pos()
			detail := "every cycle of this reload/watch loop sleeps, blocks on a channel or issues an advancing blocking query"
			if b != nil {
				last := b.Instrs[len(b.Instrs)-1]
				if last.Pos().IsValid() {
					pos = last.Pos()
				} else {
					for k := len(b.Instrs) - 1; k >= 0; k-- {
						if b.Instrs[k].Pos().IsValid() {
							pos = b.Instrs[k].Pos()
							break
						}
					}
				}
				detail = "a cycle of this loop returns to its head without sleeping, blocking on a channel or issuing an advancing blocking query (the edge back to the head from here): when that path is taken persistently (e.g. unusable material that does not change) the loop spins at full speed"
			}
			c.check(rule, fnKey(f)+"|every cycle of the loop is paced", pos, b == nil, detail)
		}
	}
	c.atLeast(rule, "condition-less loops in "+strings.Join(pkgs, ","), n, min)
}

// consulQueryCalls lists the Consul query calls (direct api calls or the repo wrappers of the
// blocking-query table) inside loop l, with whether their wait index advances.
func consulQueryCalls(l *loop) map[*ssa.Call]bool {
	out := map[*ssa.Call]bool{}
	for b := range l.Body {
		for _, in := range b.Instrs {
			call, ok := in.(*ssa.Call)
			if !ok {
				continue
			}
			n := calleeName(&call.Call)
			if k, isTab := blockingQueryParam(call.Call.StaticCallee()); isTab && k < len(call.Call.Args) {
				out[call] = waitIndexAdvances(call, call.Call.Args[k], l)
				continue
			}
			if n == "(*"+apiPkg+".Health).State" || n == "(*"+apiPkg+".KV).List" || n == "(*"+apiPkg+".KV).Get" || n == "(*"+apiPkg+".Catalog).Service" {
				if n == "(*"+apiPkg+".Catalog).Service" {
					continue
				}
				out[call] = consulQueryPaced(call, l)
			}
		}
	}
	return out
}

// runConsulWatchLoops (W3): in every condition-less loop that queries Consul, (a) the query blocks
// (advancing wait index, or a sleeping poll branch) and (b) the query's error edge sleeps before the
// next attempt. A channel send does not count: the consumer receives at once.
func runConsulWatchLoops(c *Ctx, rule string, pkgs []string, min int) {
	n := 0
	for _, f := range c.AllFns {
		in := false
		for _, p := range pkgs {
			if rootPkg(f) == c.spkg(p) {
				in = true
			}
		}
		if !in {
			continue
		}
		for _, l := range condLessLoops(f) {
			for call, blocks := range consulQueryCalls(l) {
				n++
				c.check(rule, fnKey(f)+"|"+strings.TrimPrefix(calleeName(&call.Call), repoMod+"/")+" blocks until the registry changes", call.Pos(), blocks,
					"the query's WaitIndex must be the loop-carried index advanced from the reply's LastIndex (or the poll branch must sleep); otherwise the query returns at once every time and the loop polls Consul at full speed")
				// (b) error edge
				isErr := func(v ssa.Value) bool {
					e, ok := v.(*ssa.Extract)
					return ok && e.Tuple == call && typeStr(e.Type()) == "error"
				}
				nErr := 0
				for b := range l.Body {
					if len(b.Preds) != 1 || !knownNonNil(b, isErr) || knownNonNil(b.Preds[0], isErr) {
						continue
					}
					nErr++
					// from b back to the head without sleeping?
					spin := false
					seen := map[*ssa.BasicBlock]bool{}
					stack := []*ssa.BasicBlock{b}
					for len(stack) > 0 && !spin {
						x := stack[len(stack)-1]
						stack = stack[:len(stack)-1]
						if seen[x] {
							continue
						}
						seen[x] = true
						sleeps := false
						for _, in := range x.Instrs {
							if cc := callCommon(in); cc != nil && calleeName(cc) == "time.Sleep" {
								sleeps = true
							}
							if u, ok := in.(*ssa.UnOp); ok && u.Op == token.ARROW {
								sleeps = true
							}
						}
						if sleeps {
							continue
						}
						for _, s := range x.Succs {
							if s == l.Head {
								spin = true
							} else if l.Body[s] {
								stack = append(stack, s)
							}
						}
					}
					c.check(rule, fnKey(f)+"|error edge of the query sleeps before retrying", b.Instrs[0].Pos(), !spin,
						"when the query fails (agent unreachable) it returns immediately; without a sleep on that edge the loop retries at full speed")
				}
				if nErr == 0 {
					c.check(rule, fnKey(f)+"|error edge of the query sleeps before retrying", call.Pos(), false, "the query's error is not examined inside the loop")
				}
			}
		}
	}
	c.atLeast(rule, "Consul queries inside watch loops of "+strings.Join(pkgs, ","), n, min)
}

// purePkgs: standard-library packages whose functions only compute on their arguments.
var purePkgs = map[string]bool{"strings": true, "bytes": true, "strconv": true, "unicode": true, "unicode/utf8": true,
	"slices": true, "maps": true, "sort": true, "math": true, "math/bits": true}

// pureComputationLoop: the loop body contains no channel operation, go or defer statement, and every call in it is a
// builtin or a static call of a function of purePkgs. Anything else (a repository function, a method through an
// interface, I/O, time) makes the loop a candidate watch loop as before.
func pureComputationLoop(l *loop) bool {
	for b := range l.Body {
		for _, in := range b.Instrs {
			switch x := in.(type) {
			case *ssa.Send, *ssa.Select, *ssa.Go, *ssa.Defer:
				return false
			case *ssa.UnOp:
				if x.Op == token.ARROW {
					return false
				}
			case *ssa.Call:
				if _, isBuiltin := x.Call.Value.(*ssa.Builtin); isBuiltin {
					continue
				}
				callee := x.Call.StaticCallee()
				if callee == nil || callee.Pkg == nil || callee.Pkg.Pkg == nil || !purePkgs[callee.Pkg.Pkg.Path()] {
					return false
				}
			}
		}
	}
	return true
}
