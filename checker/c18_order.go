package main

// C18.O1 (order inside tcp.Server.Shutdown), C18.R1 (every server is registered before it serves), C18.E1 (order of the
// exit handler). All three are path statements between landmarks found by role; a landmark may sit in a helper.

import (
	"go/token"
	"go/types"
	"strings"

	"golang.org/x/tools/go/ssa"
)

func runC18O1(c *Ctx) {
	sd := c.method("proxy/tcp", "Server", "Shutdown") // interface method of an exported type
	if !c.need("C18.O1", sd, "tcp.Server.Shutdown") {
		return
	}
	lisF := c18ElemFieldVars(c, "proxy/tcp", "net.Listener")
	connF := c18ElemFieldVars(c, "proxy/tcp", "net.Conn")
	if len(lisF) == 0 || len(connF) == 0 {
		c.undecided("C18.O1", "proxy/tcp.Server|tracked listeners and connections", "package proxy/tcp has no struct field holding a collection of net.Listener values or none holding net.Conn values")
		return
	}
	var ctx *ssa.Parameter
	for _, p := range sd.Params {
		if c18IsCtx(p.Type()) {
			ctx = p
		}
	}
	// closesElems(fields): the instruction closes an element of one of the collections - or ends it in another way
	// (CloseRead / CloseWrite, a deadline that is not the context's own: c18IsCut)
	closesElems := func(fields map[*types.Var]bool) func(ssa.Instruction) bool {
		return func(i ssa.Instruction) bool {
			if _, isGo := i.(*ssa.Go); isGo {
				return false
			}
			recv, ok := c18IsCut(i)
			return ok && c18FromFields(recv, fields)
		}
	}
	closesLis, closesConn := closesElems(lisF), closesElems(connF)
	// The landmarks of one frame (a function reached from Shutdown, callback parameters resolved to what was passed on
	// this path): the instructions that close the elements - a close written there, with the load of the collection
	// (or the call of the helper that returns it) the closed elements come from, which precedes a loop that may run zero
	// times; a call of a function that may close them; for a deferred call, the points where the deferred calls run.
	type marks struct{ lis, conns []ssa.Instruction }
	memo := map[*c18Frame]*marks{}
	landmarks := func(fr *c18Frame, fields map[*types.Var]bool, pred func(ssa.Instruction) bool) []ssa.Instruction {
		var out []ssa.Instruction
		add := func(i ssa.Instruction) {
			for _, x := range out {
				if x == i {
					return
				}
			}
			out = append(out, i)
		}
		eachInstr(fr.fn, func(i ssa.Instruction) {
			switch x := i.(type) {
			case *ssa.Go:
				// a goroutine started here that closes the elements without waiting for the end of a context first
				// (a reaper of "idle" tunnels) closes them from this point on
				if c18GoCuts(x, pred) {
					add(i)
				}
				return
			case *ssa.Defer:
				if fr.may(x, pred) {
					eachInstr(fr.fn, func(r ssa.Instruction) {
						if _, isRun := r.(*ssa.RunDefers); isRun && dominatesInstr(x, r) {
							add(r)
						}
					})
				}
				return
			}
			if !fr.may(i, pred) {
				return
			}
			add(i)
			recv, direct := c18IsCut(i)
			if !direct || !pred(i) {
				return
			}
			eachInstr(fr.fn, func(s ssa.Instruction) {
				v, isVal := s.(ssa.Value)
				if !isVal {
					return
				}
				src := false
				switch y := s.(type) {
				case *ssa.UnOp:
					src = y.Op == token.MUL && fields[c18FieldVarOf(y)]
				case *ssa.Field:
					src = fields[c18FieldVarOf(y)]
				case *ssa.Call:
					src = len(c18Targets(&y.Call)) > 0 && c18FromFields(y, fields)
				}
				if src && derives(recv, func(z ssa.Value) bool { return z == v }) {
					add(s)
				}
			})
		})
		return out
	}
	marksOf := func(fr *c18Frame) *marks {
		if m := memo[fr]; m != nil {
			return m
		}
		m := &marks{landmarks(fr, lisF, closesLis), landmarks(fr, connF, closesConn)}
		memo[fr] = m
		return m
	}
	oneOf := func(set []ssa.Instruction) func(ssa.Instruction) bool {
		return func(i ssa.Instruction) bool {
			for _, x := range set {
				if x == i {
					return true
				}
			}
			return false
		}
	}
	// the waits: receives from (selects on) a deadline channel in Shutdown or in what it runs synchronously; below
	// Shutdown itself the channel must be the Done channel of Shutdown's context, or the context must have been
	// handed down on the way
	onCtx := func(w c18Wait) bool {
		for _, ch := range w.Chans {
			if ctx != nil && derives(ch, func(v ssa.Value) bool {
				call, ok := v.(*ssa.Call)
				return ok && call.Call.IsInvoke() && call.Call.Method.Name() == "Done" && c18Derives(call.Call.Value, func(z ssa.Value) bool { return z == ctx })
			}) {
				return true
			}
		}
		return false
	}
	handsCtx := func(fr *c18Frame) bool {
		for f := fr; f != nil && f.site != nil; f = f.parent {
			cc := f.site.Common()
			vals := append([]ssa.Value{}, cc.Args...)
			if mc, ok := cc.Value.(*ssa.MakeClosure); ok {
				vals = append(vals, mc.Bindings...)
			}
			for _, a := range cc.Args {
				if mc, ok := a.(*ssa.MakeClosure); ok {
					vals = append(vals, mc.Bindings...) // a closure / method value that carries the context
				}
			}
			for _, a := range vals {
				if ctx != nil && c18Derives(a, func(z ssa.Value) bool { return z == ctx }) {
					return true
				}
			}
		}
		return false
	}
	type waitSite struct {
		i      ssa.Instruction
		fr     *c18Frame
		single bool
	}
	var waits []waitSite
	nLis, nConn := 0, 0
	var lisPos, connPos token.Pos
	c18EachFrame(sd, c18MaxFrameDepth, true, func(fr *c18Frame) bool {
		m := marksOf(fr)
		if len(m.lis) > 0 {
			nLis += len(m.lis)
			if lisPos == token.NoPos {
				lisPos = m.lis[0].Pos()
			}
		}
		if len(m.conns) > 0 {
			nConn += len(m.conns)
			connPos = m.conns[len(m.conns)-1].Pos()
		}
		eachInstr(fr.fn, func(i ssa.Instruction) {
			w, ok := c18WaitOf(i)
			if !ok || !w.Deadline {
				return
			}
			if fr.parent == nil || onCtx(w) || handsCtx(fr) {
				waits = append(waits, waitSite{i, fr, w.Single})
			}
		})
		return true
	})
	if nLis == 0 || nConn == 0 || len(waits) == 0 {
		c.undecided("C18.O1", "(*proxy/tcp.Server).Shutdown|close listeners / wait on ctx / close connections", "one of the three steps was not found")
		return
	}
	// The three facts are path facts of the function that holds the wait; where that function does not decide one (the
	// wait sits in a helper, in a callback, behind an interface), its call site in the frame above is asked, and so on
	// up to Shutdown.
	precededByLis := func(w waitSite) bool {
		t := w.i
		for fr := w.fr; fr != nil; fr = fr.parent {
			if !c18EntryReaches(t, oneOf(marksOf(fr).lis)) {
				return true
			}
			t = fr.site
		}
		return false
	}
	connClosedBefore := func(w waitSite) bool {
		t := w.i
		for fr := w.fr; fr != nil; fr = fr.parent {
			for _, k := range marksOf(fr).conns {
				if k != t && pathAvoiding(k, t, nil) {
					return true
				}
			}
			t = fr.site
		}
		return false
	}
	connClosedAfter := func(w waitSite) bool {
		t := w.i
		for fr := w.fr; fr != nil; fr = fr.parent {
			conns := marksOf(fr).conns
			if w.single {
				rest := conns[:0:0]
				for _, k := range conns {
					if k != t {
						rest = append(rest, k)
					}
				}
				if _, open := exitReachableAvoiding(t, oneOf(rest)); !open {
					return true
				}
			} else {
				for _, k := range conns {
					if k != t && pathAvoiding(t, k, nil) {
						return true
					}
				}
			}
			if _, isCall := fr.site.(*ssa.Call); fr.site != nil && !isCall {
				return false
			}
			t = fr.site
		}
		return false
	}
	okLis, okBefore, okAfter := true, true, true
	for _, w := range waits {
		if !precededByLis(w) {
			okLis = false
		}
		if connClosedBefore(w) {
			okBefore = false
		}
		if !connClosedAfter(w) {
			okAfter = false
		}
	}
	c.check("C18.O1", "(*proxy/tcp.Server).Shutdown|listeners closed before the wait", lisPos, okLis,
		"the listeners must be closed before waiting on ctx.Done(): otherwise new connections are accepted during the whole shutdown wait")
	c.check("C18.O1", "(*proxy/tcp.Server).Shutdown|connections closed after the wait", connPos, okBefore && okAfter,
		"open connections must be closed only after the wait, and then on every path: closing them first cuts tunnels that would have finished within the configured wait; not closing them leaves never-ending tunnels open")
	// the wait that precedes the closing of the connections ends with the context, not with a timer of its own: a
	// one-shot timer case (time.After / time.NewTimer with a duration that is not taken from the context's deadline) of
	// the select that waits, from which the closing of the connections is reached without waiting again, caps the wait
	capped := false
	var capPos token.Pos
	for _, w := range waits {
		sel, isSel := w.i.(*ssa.Select)
		if !isSel || c18InLoop(w.i) {
			continue // a timer case inside a loop is the tick of a poll: what the poll decides is a run-time matter
		}
		for k, st := range sel.States {
			if st.Dir != types.RecvOnly || !c18CapTimer(st.Chan) {
				continue
			}
			start := c18SelectCase(sel, k)
			if start == nil {
				continue
			}
			// from the timer case: a close of the connections in this frame, or - when the function returns - after the
			// call site one frame up, and so on
			// (a timer case that goes on to wait for the end of the context - it only reports that the wait is long - caps nothing)
			again := func(i ssa.Instruction) bool { return i == w.i || c18CtxWait(i) }
			if c18CtxWait(start) {
				continue
			}
			t := start
			for fr := w.fr; fr != nil && !capped; fr = fr.parent {
				for _, kk := range marksOf(fr).conns {
					if kk == t || pathAvoiding(t, kk, again) {
						capped, capPos = true, st.Pos
					}
				}
				if _, open := exitReachableAvoiding(t, again); !open || fr.site == nil {
					break
				}
				if _, isCall := fr.site.(*ssa.Call); !isCall {
					break
				}
				t = fr.site
			}
		}
	}
	if !capPos.IsValid() {
		capPos = connPos
	}
	c.check("C18.O1", "(*proxy/tcp.Server).Shutdown|the wait ends with the context only", capPos, !capped,
		"the wait before the connections are closed also ends when a timer of its own fires (a cap that is not the context's deadline): tunnels that would have finished within the configured wait are cut when the cap is shorter")
}

func runC18R1(c *Ctx) {
	sp := c.spkg("proxy")
	srvT, iface := c18ServerIface(c)
	regs := c18Registries(c, srvT)
	if sp == nil || iface == nil || regs.n == 0 {
		c.undecided("C18.R1", "proxy|server interface and registry", "package proxy, its Server interface or the registry of running servers (a package-level map of Server) was not found")
		return
	}
	// registration: storing a server into the registry map
	isReg := func(i ssa.Instruction) bool {
		mu, ok := i.(*ssa.MapUpdate)
		return ok && regs.from(mu.Map)
	}
	nReg := 0
	for _, f := range c.AllFns {
		if rootPkg(f) != sp {
			continue
		}
		eachInstr(f, func(i ssa.Instruction) {
			if !isReg(i) {
				return
			}
			nReg++
			locked := len(heldAt(i, true)) > 0
			if !locked && c18OnlyStatic(f) && len(gSites[f]) > 0 {
				locked = true
				for _, s := range gSites[f] {
					if len(heldAt(s, true)) == 0 {
						locked = false
					}
				}
			}
			c.check("C18.R1", fnKey(f)+"|registry written under the lock", i.Pos(), locked,
				"the registry of running servers is written without the mutex that proxy.Shutdown / CloseProxy take: a concurrent map write, and a server that Shutdown's snapshot can miss")
		})
	}
	c.atLeast("C18.R1", "registrations into the server registry", nReg, 1)

	// the composite server: what the Serve methods of Server implementations in package proxy run
	var serveMethods []*ssa.Function
	for _, f := range c.AllFns {
		if rootPkg(f) != sp || f.Parent() != nil || f.Name() != "Serve" || f.Signature.Recv() == nil {
			continue
		}
		recv := f.Signature.Recv().Type()
		if types.Implements(recv, iface) || types.Implements(types.NewPointer(recv), iface) {
			serveMethods = append(serveMethods, f)
		}
	}
	composite := map[*ssa.Function]bool{}
	for _, f := range c18Region(c, serveMethods...) {
		composite[f] = true
	}
	// starting a server: Serve invoked on a proxy.Server, or Serve(net.Listener) called on a concrete server
	isServe := func(i ssa.Instruction) bool {
		cc := callCommon(i)
		if cc == nil {
			return false
		}
		if cc.IsInvoke() {
			return cc.Method.Name() == "Serve" && c18IsServer(cc.Value.Type(), srvT)
		}
		sc := cc.StaticCallee()
		if sc == nil || sc.Name() != "Serve" || sc.Signature.Recv() == nil || sc.Signature.Params().Len() != 1 {
			return false
		}
		return namedIs(sc.Signature.Params().At(0).Type(), "net.Listener")
	}
	n, nTop := 0, 0
	var topServes []ssa.Instruction
	for _, f := range c.AllFns {
		if rootPkg(f) != sp {
			continue
		}
		eachInstr(f, func(i ssa.Instruction) {
			if !isServe(i) {
				return
			}
			n++
			if composite[f] {
				return // a child of a composite server: the composite is what gets registered
			}
			nTop++
			ok := c18PrecededBy(i, isReg, 0)
			if ok {
				topServes = append(topServes, i)
			}
			c.check("C18.R1", fnKey(f)+"|server registered before it serves", i.Pos(), ok,
				"Serve is called on a server that was not entered into the registry (under mu) on every path before: a server started without registration is never reached by proxy.Shutdown (its listener keeps accepting after shutdown began)")
		})
	}
	c.atLeast("C18.R1", "Serve invocations on proxy.Server outside composite servers", nTop, 1)
	// every ListenAndServe* (exported API) starts its server through a registering serve
	isTop := func(i ssa.Instruction) bool {
		for _, x := range topServes {
			if x == i {
				return true
			}
		}
		return false
	}
	nl := 0
	var names []string
	for name := range sp.Members {
		names = append(names, name)
	}
	sortStrings(names)
	for _, name := range names {
		f, ok := sp.Members[name].(*ssa.Function)
		if !ok || !strings.HasPrefix(f.Name(), "ListenAndServe") || len(f.Blocks) == 0 {
			continue
		}
		nl++
		c.check("C18.R1", fnKey(f)+"|serves through serve()", f.Pos(), c18MayExec(f, isTop, 0), "every ListenAndServe* must start its server through the function that registers it for shutdown before calling Serve")
	}
	c.atLeast("C18.R1", "ListenAndServe* functions", nl, 3)
}

func runC18E1(c *Ctx) {
	sd := c.fn("proxy", "Shutdown")
	mp := c.spkg("main")
	if mp == nil || !c.need("C18.E1", sd, "proxy.Shutdown") {
		return
	}
	// the exit handlers: what package main hands to exit.Listen
	var handlers []*ssa.Function
	var listenPos token.Pos
	nListen := 0
	for _, f := range c.AllFns {
		if rootPkg(f) != mp {
			continue
		}
		eachInstr(f, func(i ssa.Instruction) {
			cc := callCommon(i)
			if cc == nil || calleeName(cc) != repoMod+"/exit.Listen" || len(cc.Args) != 1 {
				return
			}
			nListen++
			listenPos = i.Pos()
			handlers = append(handlers, c18FuncsOf(cc.Args[0])...)
			// the handler as a small interface instead of a function: the methods of the concrete type handed over
			if it, isIface := cc.Args[0].Type().Underlying().(*types.Interface); isIface {
				for k := 0; k < it.NumMethods(); k++ {
					handlers = append(handlers, (&c18Frame{fn: f}).concreteMethods(cc.Args[0], it.Method(k))...)
				}
			}
		})
	}
	if nListen == 0 || len(handlers) == 0 {
		c.undecided("C18.E1", "main.main|exit callback", "package main does not hand a resolvable function to exit.Listen")
		return
	}
	reg := c18Region(c, handlers...)
	isShut := func(i ssa.Instruction) bool {
		_, isGo := i.(*ssa.Go)
		return !isGo && staticCalleeIs(i, sd)
	}
	isDereg := func(i ssa.Instruction) bool {
		cc := callCommon(i)
		_, isGo := i.(*ssa.Go)
		return cc != nil && !isGo && cc.IsInvoke() && cc.Method.Name() == "DeregisterAll"
	}
	isSleep := func(i ssa.Instruction) bool {
		cc := callCommon(i)
		if cc == nil || len(cc.Args) == 0 {
			return false
		}
		switch calleeName(cc) {
		case "time.Sleep", "time.After", "time.NewTimer":
		default:
			return false
		}
		return c18Derives(cc.Args[0], func(v ssa.Value) bool {
			_, ok := fieldOf(v, "config.Proxy", "DeregisterGracePeriod")
			return ok
		})
	}
	// the shutdown sequence is registered: the handler (with what it calls) reaches proxy.Shutdown
	registered := false
	eachInstrOf(reg, func(_ *ssa.Function, i ssa.Instruction) {
		if isShut(i) {
			registered = true
		}
	})
	c.check("C18.E1", "main.main|exit callback registered with exit.Listen", listenPos, registered, "the shutdown sequence (ending in proxy.Shutdown) must be the callback given to exit.Listen")
	if !registered {
		return
	}
	// each pair of steps is judged in the function in which the two are distinct instructions (a step may be a call of a
	// helper that performs it; when one call performs both, the order is decided inside that helper)
	collect := func(f *ssa.Function, pred func(ssa.Instruction) bool) []ssa.Instruction {
		var out []ssa.Instruction
		lifted := c18LiftMay(pred)
		eachInstr(f, func(i ssa.Instruction) {
			if _, isGo := i.(*ssa.Go); !isGo && lifted(i) {
				out = append(out, i)
			}
		})
		return out
	}
	present := func(pred func(ssa.Instruction) bool) bool {
		for _, f := range reg {
			if len(collect(f, pred)) > 0 {
				return true
			}
		}
		return false
	}
	if !present(isDereg) || !present(isSleep) {
		c.check("C18.E1", "main.main$exit|deregister, grace sleep, shutdown all present", listenPos, false, "the exit callback must deregister from the registry, sleep proxy.deregistergraceperiod and then call proxy.Shutdown")
		return
	}
	graceBranch := func(i ssa.Instruction) bool {
		iff, ok := i.(*ssa.If)
		return ok && c18Derives(iff.Cond, func(v ssa.Value) bool {
			_, is := fieldOf(v, "config.Proxy", "DeregisterGracePeriod")
			return is
		})
	}
	// before(a, b, must): a never runs after b; with must, a lies on every way to b
	before := func(a, b func(ssa.Instruction) bool, must bool) (found, ok bool, pos token.Pos) {
		for _, f := range reg {
			as, bs := collect(f, a), collect(f, b)
			if len(as) == 0 || len(bs) == 0 {
				continue
			}
			overlap := false
			isA := func(i ssa.Instruction) bool {
				for _, x := range as {
					if x == i {
						return true
					}
				}
				return false
			}
			for _, y := range bs {
				if isA(y) {
					overlap = true
				}
			}
			if overlap {
				continue
			}
			ok = true
			for _, y := range bs {
				for _, x := range as {
					if pathAvoiding(y, x, nil) {
						ok = false
					}
				}
				// a lies on every way to b; a branch decided by the grace period itself ("if d > 0 { sleep }") counts as a
				if must && c18EntryReaches(y, func(i ssa.Instruction) bool { return isA(i) || graceBranch(i) }) {
					ok = false
				}
			}
			return true, ok, bs[0].Pos()
		}
		return false, false, token.NoPos
	}
	f1, o1, _ := before(isDereg, isSleep, false)
	f2, o2, pos := before(isSleep, isShut, true)
	f3, o3, _ := before(isDereg, isShut, false)
	if !f1 || !f2 || !f3 {
		c.undecided("C18.E1", "main.main$exit|deregister -> grace sleep -> proxy.Shutdown", "the three steps are present but no function of the exit handler's region holds two of them as separate steps")
		return
	}
	c.check("C18.E1", "main.main$exit|deregister -> grace sleep -> proxy.Shutdown", pos, o1 && o2 && o3,
		"order matters: the instance must leave the registry and wait the grace period before listeners stop accepting, otherwise balancers still send new connections to closed listeners")
}
