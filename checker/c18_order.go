package main

// C18.O1 (order inside tcp.Server.Shutdown), C18.R1 (every server is registered before it serves), C18.E1 (order of the
// exit handler). All three are path statements between landmarks found by role; a landmark may sit in a helper.

import (
	"go/token"
	"go/types"
	"strings"

	"golang.org/x/tools/go/ssa"
)

func runC18O1(c *Ctx) {
	sd := c.method("proxy/tcp", "Server", "Shutdown") // interface method of an exported type
	if !c.need("C18.O1", sd, "tcp.Server.Shutdown") {
		return
	}
	lisF := c18ElemFields(c, "proxy/tcp", "Server", "net.Listener")
	connF := c18ElemFields(c, "proxy/tcp", "Server", "net.Conn")
	if len(lisF) == 0 || len(connF) == 0 {
		c.undecided("C18.O1", "proxy/tcp.Server|tracked listeners and connections", "tcp.Server has no field holding net.Listener values or none holding net.Conn values")
		return
	}
	// closesElems(fields): the instruction closes an element of one of the collections
	closesElems := func(fields map[string]bool) func(ssa.Instruction) bool {
		return func(i ssa.Instruction) bool {
			if _, isGo := i.(*ssa.Go); isGo {
				return false
			}
			recv, ok := c18IsClose(i)
			return ok && c18FromFieldElems(recv, "tcp.Server", fields)
		}
	}
	// landmarks in Shutdown itself: a call of a helper that may close the elements, or - when the loop is written in
	// Shutdown - the loads of the collection the closed elements come from (they precede the loop, which may run zero times)
	landmarks := func(fields map[string]bool) []ssa.Instruction {
		var out []ssa.Instruction
		pred := closesElems(fields)
		inline := false
		eachInstr(sd, func(i ssa.Instruction) {
			if pred(i) {
				inline = true
			}
		})
		eachInstr(sd, func(i ssa.Instruction) {
			if _, isGo := i.(*ssa.Go); isGo {
				return
			}
			if cc := callCommon(i); cc != nil {
				if c18LiftMay(pred)(i) {
					out = append(out, i)
				}
				return
			}
			if v, ok := i.(ssa.Value); ok && inline && c18FieldLoad(v, "tcp.Server", fields) {
				if _, isLoad := i.(*ssa.UnOp); isLoad {
					out = append(out, i)
				}
			}
		})
		return out
	}
	lis, conns := landmarks(lisF), landmarks(connF)
	oneOf := func(set []ssa.Instruction) func(ssa.Instruction) bool {
		return func(i ssa.Instruction) bool {
			for _, x := range set {
				if x == i {
					return true
				}
			}
			return false
		}
	}
	// the wait: a receive from (or select on) the context's Done channel, in Shutdown or in a helper it calls
	var ctx *ssa.Parameter
	for _, p := range sd.Params {
		if c18IsCtx(p.Type()) {
			ctx = p
		}
	}
	isCtxWait := func(i ssa.Instruction) bool {
		w, ok := c18WaitOf(i)
		return ok && w.Deadline
	}
	type waitSite struct {
		i      ssa.Instruction
		single bool
	}
	var waits []waitSite
	eachInstr(sd, func(i ssa.Instruction) {
		if w, ok := c18WaitOf(i); ok && w.Deadline {
			waits = append(waits, waitSite{i, w.Single})
			return
		}
		if call, ok := i.(*ssa.Call); ok {
			if c18LiftMay(isCtxWait)(i) {
				passesCtx := false
				for _, a := range call.Call.Args {
					if ctx != nil && derives(a, func(v ssa.Value) bool { return v == ctx }) {
						passesCtx = true
					}
				}
				if passesCtx {
					waits = append(waits, waitSite{i, true})
				}
			}
		}
	})
	if len(lis) == 0 || len(conns) == 0 || len(waits) == 0 {
		c.undecided("C18.O1", "(*proxy/tcp.Server).Shutdown|close listeners / wait on ctx / close connections", "one of the three steps was not found")
		return
	}
	okLis, okBefore, okAfter := true, true, true
	for _, w := range waits {
		if c18EntryReaches(w.i, oneOf(lis)) {
			okLis = false
		}
		for _, k := range conns {
			if pathAvoiding(k, w.i, nil) {
				okBefore = false
			}
		}
		if w.single {
			if _, open := exitReachableAvoiding(w.i, oneOf(conns)); open {
				okAfter = false
			}
		} else {
			reach := false
			for _, k := range conns {
				if pathAvoiding(w.i, k, nil) {
					reach = true
				}
			}
			if !reach {
				okAfter = false
			}
		}
	}
	c.check("C18.O1", "(*proxy/tcp.Server).Shutdown|listeners closed before the wait", lis[0].Pos(), okLis,
		"the listeners must be closed before waiting on ctx.Done(): otherwise new connections are accepted during the whole shutdown wait")
	c.check("C18.O1", "(*proxy/tcp.Server).Shutdown|connections closed after the wait", conns[len(conns)-1].Pos(), okBefore && okAfter,
		"open connections must be closed only after the wait, and then on every path: closing them first cuts tunnels that would have finished within the configured wait; not closing them leaves never-ending tunnels open")
}

func runC18R1(c *Ctx) {
	sp := c.spkg("proxy")
	srvT, iface := c18ServerIface(c)
	regs := c18Registries(c, srvT)
	if sp == nil || iface == nil || regs.n == 0 {
		c.undecided("C18.R1", "proxy|server interface and registry", "package proxy, its Server interface or the registry of running servers (a package-level map of Server) was not found")
		return
	}
	// registration: storing a server into the registry map
	isReg := func(i ssa.Instruction) bool {
		mu, ok := i.(*ssa.MapUpdate)
		return ok && regs.from(mu.Map)
	}
	nReg := 0
	for _, f := range c.AllFns {
		if rootPkg(f) != sp {
			continue
		}
		eachInstr(f, func(i ssa.Instruction) {
			if !isReg(i) {
				return
			}
			nReg++
			locked := len(heldAt(i, true)) > 0
			if !locked && c18OnlyStatic(f) && len(gSites[f]) > 0 {
				locked = true
				for _, s := range gSites[f] {
					if len(heldAt(s, true)) == 0 {
						locked = false
					}
				}
			}
			c.check("C18.R1", fnKey(f)+"|registry written under the lock", i.Pos(), locked,
				"the registry of running servers is written without the mutex that proxy.Shutdown / CloseProxy take: a concurrent map write, and a server that Shutdown's snapshot can miss")
		})
	}
	c.atLeast("C18.R1", "registrations into the server registry", nReg, 1)

	// the composite server: what the Serve methods of Server implementations in package proxy run
	var serveMethods []*ssa.Function
	for _, f := range c.AllFns {
		if rootPkg(f) != sp || f.Parent() != nil || f.Name() != "Serve" || f.Signature.Recv() == nil {
			continue
		}
		recv := f.Signature.Recv().Type()
		if types.Implements(recv, iface) || types.Implements(types.NewPointer(recv), iface) {
			serveMethods = append(serveMethods, f)
		}
	}
	composite := map[*ssa.Function]bool{}
	for _, f := range c18Region(c, serveMethods...) {
		composite[f] = true
	}
	// starting a server: Serve invoked on a proxy.Server, or Serve(net.Listener) called on a concrete server
	isServe := func(i ssa.Instruction) bool {
		cc := callCommon(i)
		if cc == nil {
			return false
		}
		if cc.IsInvoke() {
			return cc.Method.Name() == "Serve" && c18IsServer(cc.Value.Type(), srvT)
		}
		sc := cc.StaticCallee()
		if sc == nil || sc.Name() != "Serve" || sc.Signature.Recv() == nil || sc.Signature.Params().Len() != 1 {
			return false
		}
		return namedIs(sc.Signature.Params().At(0).Type(), "net.Listener")
	}
	n, nTop := 0, 0
	var topServes []ssa.Instruction
	for _, f := range c.AllFns {
		if rootPkg(f) != sp {
			continue
		}
		eachInstr(f, func(i ssa.Instruction) {
			if !isServe(i) {
				return
			}
			n++
			if composite[f] {
				return // a child of a composite server: the composite is what gets registered
			}
			nTop++
			ok := c18PrecededBy(i, isReg, 0)
			if ok {
				topServes = append(topServes, i)
			}
			c.check("C18.R1", fnKey(f)+"|server registered before it serves", i.Pos(), ok,
				"Serve is called on a server that was not entered into the registry (under mu) on every path before: a server started without registration is never reached by proxy.Shutdown (its listener keeps accepting after shutdown began)")
		})
	}
	c.atLeast("C18.R1", "Serve invocations on proxy.Server outside composite servers", nTop, 1)
	// every ListenAndServe* (exported API) starts its server through a registering serve
	isTop := func(i ssa.Instruction) bool {
		for _, x := range topServes {
			if x == i {
				return true
			}
		}
		return false
	}
	nl := 0
	var names []string
	for name := range sp.Members {
		names = append(names, name)
	}
	sortStrings(names)
	for _, name := range names {
		f, ok := sp.Members[name].(*ssa.Function)
		if !ok || !strings.HasPrefix(f.Name(), "ListenAndServe") || len(f.Blocks) == 0 {
			continue
		}
		nl++
		c.check("C18.R1", fnKey(f)+"|serves through serve()", f.Pos(), c18MayExec(f, isTop, 0), "every ListenAndServe* must start its server through the function that registers it for shutdown before calling Serve")
	}
	c.atLeast("C18.R1", "ListenAndServe* functions", nl, 3)
}

func runC18E1(c *Ctx) {
	sd := c.fn("proxy", "Shutdown")
	mp := c.spkg("main")
	if mp == nil || !c.need("C18.E1", sd, "proxy.Shutdown") {
		return
	}
	// the exit handlers: what package main hands to exit.Listen
	var handlers []*ssa.Function
	var listenPos token.Pos
	nListen := 0
	for _, f := range c.AllFns {
		if rootPkg(f) != mp {
			continue
		}
		eachInstr(f, func(i ssa.Instruction) {
			cc := callCommon(i)
			if cc == nil || calleeName(cc) != repoMod+"/exit.Listen" || len(cc.Args) != 1 {
				return
			}
			nListen++
			listenPos = i.Pos()
			handlers = append(handlers, funcsOf(cc.Args[0])...)
		})
	}
	if nListen == 0 || len(handlers) == 0 {
		c.undecided("C18.E1", "main.main|exit callback", "package main does not hand a resolvable function to exit.Listen")
		return
	}
	reg := c18Region(c, handlers...)
	isShut := func(i ssa.Instruction) bool {
		_, isGo := i.(*ssa.Go)
		return !isGo && staticCalleeIs(i, sd)
	}
	isDereg := func(i ssa.Instruction) bool {
		cc := callCommon(i)
		_, isGo := i.(*ssa.Go)
		return cc != nil && !isGo && cc.IsInvoke() && cc.Method.Name() == "DeregisterAll"
	}
	isSleep := func(i ssa.Instruction) bool {
		cc := callCommon(i)
		if cc == nil || len(cc.Args) == 0 {
			return false
		}
		switch calleeName(cc) {
		case "time.Sleep", "time.After", "time.NewTimer":
		default:
			return false
		}
		return derives(cc.Args[0], func(v ssa.Value) bool {
			_, ok := fieldOf(v, "config.Proxy", "DeregisterGracePeriod")
			return ok
		})
	}
	// the shutdown sequence is registered: the handler (with what it calls) reaches proxy.Shutdown
	registered := false
	eachInstrOf(reg, func(_ *ssa.Function, i ssa.Instruction) {
		if isShut(i) {
			registered = true
		}
	})
	c.check("C18.E1", "main.main|exit callback registered with exit.Listen", listenPos, registered, "the shutdown sequence (ending in proxy.Shutdown) must be the callback given to exit.Listen")
	if !registered {
		return
	}
	// each pair of steps is judged in the function in which the two are distinct instructions (a step may be a call of a
	// helper that performs it; when one call performs both, the order is decided inside that helper)
	collect := func(f *ssa.Function, pred func(ssa.Instruction) bool) []ssa.Instruction {
		var out []ssa.Instruction
		lifted := c18LiftMay(pred)
		eachInstr(f, func(i ssa.Instruction) {
			if _, isGo := i.(*ssa.Go); !isGo && lifted(i) {
				out = append(out, i)
			}
		})
		return out
	}
	present := func(pred func(ssa.Instruction) bool) bool {
		for _, f := range reg {
			if len(collect(f, pred)) > 0 {
				return true
			}
		}
		return false
	}
	if !present(isDereg) || !present(isSleep) {
		c.check("C18.E1", "main.main$exit|deregister, grace sleep, shutdown all present", listenPos, false, "the exit callback must deregister from the registry, sleep proxy.deregistergraceperiod and then call proxy.Shutdown")
		return
	}
	graceBranch := func(i ssa.Instruction) bool {
		iff, ok := i.(*ssa.If)
		return ok && derives(iff.Cond, func(v ssa.Value) bool {
			_, is := fieldOf(v, "config.Proxy", "DeregisterGracePeriod")
			return is
		})
	}
	// before(a, b, must): a never runs after b; with must, a lies on every way to b
	before := func(a, b func(ssa.Instruction) bool, must bool) (found, ok bool, pos token.Pos) {
		for _, f := range reg {
			as, bs := collect(f, a), collect(f, b)
			if len(as) == 0 || len(bs) == 0 {
				continue
			}
			overlap := false
			isA := func(i ssa.Instruction) bool {
				for _, x := range as {
					if x == i {
						return true
					}
				}
				return false
			}
			for _, y := range bs {
				if isA(y) {
					overlap = true
				}
			}
			if overlap {
				continue
			}
			ok = true
			for _, y := range bs {
				for _, x := range as {
					if pathAvoiding(y, x, nil) {
						ok = false
					}
				}
				// a lies on every way to b; a branch decided by the grace period itself ("if d > 0 { sleep }") counts as a
				if must && c18EntryReaches(y, func(i ssa.Instruction) bool { return isA(i) || graceBranch(i) }) {
					ok = false
				}
			}
			return true, ok, bs[0].Pos()
		}
		return false, false, token.NoPos
	}
	f1, o1, _ := before(isDereg, isSleep, false)
	f2, o2, pos := before(isSleep, isShut, true)
	f3, o3, _ := before(isDereg, isShut, false)
	if !f1 || !f2 || !f3 {
		c.undecided("C18.E1", "main.main$exit|deregister -> grace sleep -> proxy.Shutdown", "the three steps are present but no function of the exit handler's region holds two of them as separate steps")
		return
	}
	c.check("C18.E1", "main.main$exit|deregister -> grace sleep -> proxy.Shutdown", pos, o1 && o2 && o3,
		"order matters: the instance must leave the registry and wait the grace period before listeners stop accepting, otherwise balancers still send new connections to closed listeners")
}
