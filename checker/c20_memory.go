package main

// C20.P3 prover: two loads of the same memory location with nothing in between that could write it denote the same
// value (l.rest read for the call `lex(l.rest)` and read again for `l.rest[:n]`): state kept in a field of a small type
// instead of a local variable.

import (
	"go/token"
	"go/types"

	"golang.org/x/tools/go/ssa"
)

// c20sameAddr: the two addresses are the same location: the same value, or the same field of the same location.
func c20sameAddr(a, b ssa.Value, depth int) bool {
	if a == b {
		return true
	}
	if depth > 3 {
		return false
	}
	fa, ok1 := a.(*ssa.FieldAddr)
	fb, ok2 := b.(*ssa.FieldAddr)
	if !ok1 || !ok2 || fa.Field != fb.Field || !types.Identical(fa.X.Type(), fb.X.Type()) {
		return false
	}
	if fa.X == fb.X {
		return true
	}
	// the struct pointer itself read twice from an unchanged place is not followed: only parameters / locals
	return c20sameAddr(fa.X, fb.X, depth+1)
}

// c20sameMemory: a and b are loads of the same location, the first dominates the second (or vice versa), and no
// instruction that may write that location lies on a path between them.
func c20sameMemory(a, b ssa.Value) bool {
	la, ok1 := a.(*ssa.UnOp)
	lb, ok2 := b.(*ssa.UnOp)
	if !ok1 || !ok2 || la.Op != token.MUL || lb.Op != token.MUL || la == lb || la.Parent() != lb.Parent() || la.Parent() == nil {
		return false
	}
	if !c20sameAddr(la.X, lb.X, 0) {
		return false
	}
	first, second := la, lb
	if !dominatesInstr(first, second) {
		first, second = lb, la
		if !dominatesInstr(first, second) {
			return false
		}
	}
	loaded := first.Type()
	isFirst := func(i ssa.Instruction) bool { return i == ssa.Instruction(first) }
	clobbered := false
	eachInstr(first.Parent(), func(i ssa.Instruction) {
		if clobbered || !c20mayWrite(i, first.X, loaded, 0) {
			return
		}
		// on a path first -> i -> second (the latter without passing first again)?
		if (i == ssa.Instruction(second) || pathAvoiding(first, i, nil)) && pathAvoiding(i, second, isFirst) {
			clobbered = true
		}
	})
	return !clobbered
}

// c20mayWrite: instruction i may change the value at addr (of type t): a store that is not provably to another place,
// a call that may perform one (go, defer included), a dynamic call.
func c20mayWrite(i ssa.Instruction, addr ssa.Value, t types.Type, depth int) bool {
	switch x := i.(type) {
	case *ssa.Store:
		if c20localOnly(x.Addr) && !c20sameAddr(x.Addr, addr, 0) {
			return false // a store into a local variable that is not the location
		}
		if fa, ok := x.Addr.(*ssa.FieldAddr); ok {
			if fb, ok2 := addr.(*ssa.FieldAddr); ok2 && (fa.Field != fb.Field || !types.Identical(fa.X.Type(), fb.X.Type())) {
				return false // another field
			}
		}
		return types.Identical(x.Val.Type(), t)
	case *ssa.MapUpdate, *ssa.Send:
		return false
	}
	cc := callCommon(i)
	if cc == nil {
		return false
	}
	if _, isB := cc.Value.(*ssa.Builtin); isB {
		return false // append/copy write elements, not the slice header / variable read here
	}
	sc := cc.StaticCallee()
	if sc == nil {
		return true
	}
	if !isRepoFn(sc) || len(sc.Blocks) == 0 {
		// library code can only write what it is handed a pointer to
		for _, a := range cc.Args {
			if _, isPtr := a.Type().Underlying().(*types.Pointer); isPtr && !c20localOnly(a) {
				return true
			}
			if _, isIface := a.Type().Underlying().(*types.Interface); isIface {
				return true
			}
			if _, isFn := a.Type().Underlying().(*types.Signature); isFn {
				return true
			}
		}
		return false
	}
	if depth > 2 {
		return true
	}
	may := false
	for _, g := range withAnon(sc) {
		eachInstr(g, func(j ssa.Instruction) {
			if !may && c20mayWrite(j, addr, t, depth+1) {
				may = true
			}
		})
	}
	return may
}

// c20localOnly: the address is (inside) a local variable of the function whose address goes nowhere else.
func c20localOnly(addr ssa.Value) bool {
	for d := 0; d < 4; d++ {
		switch x := addr.(type) {
		case *ssa.FieldAddr:
			addr = x.X
			continue
		case *ssa.IndexAddr:
			addr = x.X
			continue
		case *ssa.Alloc:
			if x.Heap {
				return false
			}
			return true
		}
		break
	}
	return false
}

// capturedLen: the length of the value a closure reads from a captured variable before it writes the variable
// itself: the length the variable has at the places where the closure is called (`for len(s) > 0 { typ, val := next() }`
// with `next := func() ... { typ, n := lex(s); ...; s = s[n:] ... }` - the loop condition of the caller holds for the
// first read of s inside next). The closure is only called directly (never used as a value), in the function that
// makes it; at every call a read of the variable dominates the call with nothing in between that could write it.
func (p *c20prover) capturedLen(ld *ssa.UnOp, fv *ssa.FreeVar, seen map[ssa.Value]bool) (c20iv, bool) {
	fn := ld.Parent()
	if fn == nil || fn.Parent() == nil || !p.onlyStatic(fn) {
		return c20iv{}, false
	}
	idx := -1
	for k, x := range fn.FreeVars {
		if x == fv {
			idx = k
		}
	}
	sites := p.sites[fn]
	if idx < 0 || len(sites) == 0 {
		return c20iv{}, false
	}
	// nothing in the closure writes the variable on a path to this read
	clobbered := false
	eachInstr(fn, func(i ssa.Instruction) {
		if !clobbered && i != ssa.Instruction(ld) && c20mayWrite(i, fv, ld.Type(), 0) && pathAvoiding(i, ld, nil) {
			clobbered = true
		}
	})
	if clobbered {
		return c20iv{}, false
	}
	r := c20empty
	for _, s := range sites {
		call, isCall := s.(*ssa.Call)
		if !isCall || call.Parent() != fn.Parent() {
			return c20iv{}, false // deferred, started as a goroutine, or called from somewhere else
		}
		mc, isMC := call.Call.Value.(*ssa.MakeClosure)
		if !isMC || idx >= len(mc.Bindings) {
			return c20iv{}, false
		}
		cell := mc.Bindings[idx]
		var read *ssa.UnOp
		eachInstr(call.Parent(), func(i ssa.Instruction) {
			u, ok := i.(*ssa.UnOp)
			if !ok || u.Op != token.MUL || u.X != cell || !dominatesInstr(u, call) {
				return
			}
			isU := func(j ssa.Instruction) bool { return j == ssa.Instruction(u) }
			written := false
			eachInstr(call.Parent(), func(j ssa.Instruction) {
				if written || j == ssa.Instruction(call) || j == ssa.Instruction(u) || !c20mayWrite(j, cell, u.Type(), 0) {
					return
				}
				if pathAvoiding(u, j, nil) && pathAvoiding(j, call, isU) {
					written = true
				}
			})
			if !written {
				read = u
			}
		})
		if read == nil {
			return c20iv{}, false
		}
		r = r.union(p.lenOf(read, call.Block(), seen))
	}
	if r.empty() {
		return c20iv{}, false
	}
	return r, true
}
