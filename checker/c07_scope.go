package main

// The scope of C07.H1 / C07.H2: the functions in which the client's request can be changed on its way upstream.
//
// The shared call graph resolves a call of a function value whose origin it cannot see (`defer h.connOpened()()`,
// a func kept in a map, a func received from a channel) to EVERY address-taken repository function of that signature.
// For the signature func() that is half of the program: one such call in a handler made the whole gRPC proxy
// "reachable from HTTPProxy.ServeHTTP" through a closure of package main, and the synthetic request that
// GrpcProxyInterceptor.lookup builds for a table lookup was taken for the client's request.
//
// A function can change the client's request only if it can get hold of it: through a parameter or the receiver
// (the request, its header map, or a repository struct that carries one of them), or through a captured variable
// of such a type. c07requestReach follows the edges of the call graph only into such functions: the over-approximate
// edges into unrelated code (func(), func(error), func() error ...) are cut where they start, because their targets
// take no request, while every function the request really travels through is kept whatever the shape of the call
// (static, interface, adapter, function value). Not followed: a request that travels in a package-level variable,
// a context.Context, a channel or an interface-typed parameter (any).

import (
	"go/types"
	"strings"

	"golang.org/x/tools/go/ssa"
)

// c07requestish: a value of type t is, points to, or carries a request or a header map. Repository structs are
// looked into (fields, embedded structs, pointers to structs) to a small depth: a per-request carrier such as
// reqCtx{w, r, target} or upstream{req *http.Request}; not the structs of packages config and route.
func c07requestish(t types.Type, depth int, seen map[types.Type]bool) bool {
	if t == nil || depth > 3 || seen[t] {
		return false
	}
	seen[t] = true
	switch typeStr(t) {
	case "*net/http.Request", "net/http.Request", "net/http.Header", "net/textproto.MIMEHeader", "**net/http.Request", "*net/http.Header":
		return true
	}
	switch u := t.(type) {
	case *types.Pointer:
		return c07requestish(u.Elem(), depth, seen)
	case *types.Alias:
		return c07requestish(types.Unalias(u), depth, seen)
	case *types.Named:
		if u.Obj().Pkg() == nil || !strings.HasPrefix(u.Obj().Pkg().Path(), repoMod) {
			return false
		}
		switch u.Obj().Pkg().Name() {
		case "config", "route":
			// the configuration and the routing table are not per-request carriers (config.CertSource keeps the
			// http.Header sent to a certificate store): the convention of c07_fields.go
			return false
		}
		switch st := u.Underlying().(type) {
		case *types.Struct:
			for k := 0; k < st.NumFields(); k++ {
				if c07requestish(st.Field(k).Type(), depth+1, seen) {
					return true
				}
			}
		case *types.Pointer, *types.Map, *types.Slice, *types.Array:
			return c07requestish(u.Underlying(), depth+1, seen)
		}
	case *types.Struct:
		for k := 0; k < u.NumFields(); k++ {
			if c07requestish(u.Field(k).Type(), depth+1, seen) {
				return true
			}
		}
	case *types.Slice:
		return c07requestish(u.Elem(), depth+1, seen)
	case *types.Array:
		return c07requestish(u.Elem(), depth+1, seen)
	case *types.Map:
		return c07requestish(u.Elem(), depth+1, seen)
	}
	return false
}

// c07canHoldRequest: fn has a parameter, a receiver or a captured variable through which a request can reach it.
func c07canHoldRequest(fn *ssa.Function) bool {
	for _, p := range fn.Params {
		if c07requestish(p.Type(), 0, map[types.Type]bool{}) {
			return true
		}
	}
	for _, fv := range fn.FreeVars {
		if c07requestish(fv.Type(), 0, map[types.Type]bool{}) {
			return true
		}
	}
	return false
}

// c07requestReach: root and the repository functions reachable from it. Precise edges - a static call, a closure the
// function makes, a function or method whose value it takes - are always followed (a constructor that takes no
// request builds the Director that does). The call graph's resolved edges - an interface call to every
// implementing method, a called function value to every address-taken function of its signature - are followed only
// into functions that can hold a request.
func c07requestReach(c *Ctx, root *ssa.Function) map[*ssa.Function]bool {
	g := c.callgraph()
	seen := map[*ssa.Function]bool{}
	stack := []*ssa.Function{root}
	for len(stack) > 0 {
		f := stack[len(stack)-1]
		stack = stack[:len(stack)-1]
		if f == nil || seen[f] {
			continue
		}
		seen[f] = true
		precise := map[*ssa.Function]bool{}
		eachInstr(f, func(i ssa.Instruction) {
			cc := callCommon(i)
			for _, op := range i.Operands(nil) {
				if op == nil || *op == nil {
					continue
				}
				switch x := (*op).(type) {
				case *ssa.Function:
					if isRepoFn(x) {
						precise[unwrap(x)] = true
					}
				case *ssa.MakeClosure:
					if fn, ok := x.Fn.(*ssa.Function); ok {
						precise[unwrap(fn)] = true
					}
				}
			}
			if cc != nil && !cc.IsInvoke() {
				if sc := cc.StaticCallee(); sc != nil && isRepoFn(sc) {
					precise[unwrap(sc)] = true
				}
			}
		})
		for _, t := range g.out[f] {
			if !seen[t] && (precise[t] || c07canHoldRequest(t)) {
				stack = append(stack, t)
			}
		}
	}
	return seen
}
