package main

// C05.K1 (also run as C03.K1): every index, update and delete on a route.Table uses a canonical (lower-case) host key.
//
// The sites are found by ROLE in the whole repository (a map operation whose map operand is a route.Table), never by
// the name of the enclosing function. The key is followed backwards through whatever shape the code has: local
// variables (registers, cells, cells captured by closures), helper results (single and multi-value), helper and
// closure parameters (all static call sites; callbacks handed to a visitor), struct fields (all stores of the field),
// string operations that preserve lower case, slices of keys (append, sort, slices.* / maps.Keys).

import (
	"go/token"
	"go/types"
	"strings"

	"golang.org/x/tools/go/ssa"
)

type keyCanon struct {
	c     *Ctx
	memo  map[ssa.Value]int
	smemo map[ssa.Value]int
	fmemo map[string]int
}

const (
	c05MaxDepth    = 14
	c05MaxRetDepth = 8
)

// c05Name: callee name without type arguments ("slices.Sorted[string]" -> "slices.Sorted").
func c05Name(cc *ssa.CallCommon) string {
	return typeArgs.ReplaceAllString(calleeName(cc), "")
}

// c05IsTable: v is a route.Table, possibly converted to its underlying map type.
func c05IsTable(v ssa.Value) bool {
	for {
		if namedIs(v.Type(), "route.Table") {
			return true
		}
		switch x := v.(type) {
		case *ssa.ChangeType:
			v = x.X
			continue
		case *ssa.MakeInterface:
			v = x.X
			continue
		}
		return false
	}
}

func (k *keyCanon) returnsCanonical(f *ssa.Function, idx int, depth int) bool {
	if depth > c05MaxRetDepth || len(f.Blocks) == 0 {
		return false
	}
	ok := true
	n := 0
	eachInstr(f, func(i ssa.Instruction) {
		r, isR := i.(*ssa.Return)
		if !isR || idx >= len(r.Results) {
			return
		}
		n++
		if !k.canonical(r.Results[idx], depth+1) {
			ok = false
		}
	})
	return ok && n > 0
}

func (k *keyCanon) canonical(v ssa.Value, depth int) bool {
	if depth > c05MaxDepth {
		return false
	}
	if st, seen := k.memo[v]; seen {
		return st != 2 // in-progress counts as ok (cycles through phis)
	}
	k.memo[v] = 1
	res := k.canonical1(v, depth)
	if res {
		k.memo[v] = 3
	} else {
		k.memo[v] = 2
	}
	return res
}

func (k *keyCanon) allCanonical(vals []ssa.Value, depth int) bool {
	for _, v := range vals {
		if !k.canonical(v, depth) {
			return false
		}
	}
	return len(vals) > 0
}

// lower-case preserving string functions: the result is canonical when the first argument is.
var c05CasePreserving = map[string]bool{
	"strings.TrimSpace": true, "strings.Trim": true, "strings.TrimLeft": true, "strings.TrimRight": true,
	"strings.TrimPrefix": true, "strings.TrimSuffix": true, "strings.TrimFunc": true, "strings.TrimLeftFunc": true,
	"strings.TrimRightFunc": true, "strings.Clone": true,
}

// multi-value functions whose string results are parts of the first argument.
var c05CasePreservingTuple = map[string]bool{
	"strings.Cut": true, "strings.CutPrefix": true, "strings.CutSuffix": true, "net.SplitHostPort": true,
}

// functions returning pieces of their first argument as a slice.
var c05CasePreservingSplit = map[string]bool{
	"strings.Split": true, "strings.SplitN": true, "strings.SplitAfter": true, "strings.SplitAfterN": true, "strings.Fields": true,
}

func (k *keyCanon) canonical1(v ssa.Value, depth int) bool {
	switch x := v.(type) {
	case *ssa.Const:
		return true
	case *ssa.Call:
		n := c05Name(&x.Call)
		if n == "strings.ToLower" {
			return true
		}
		if c05CasePreserving[n] && len(x.Call.Args) > 0 {
			return k.canonical(x.Call.Args[0], depth+1)
		}
		if n == "net.JoinHostPort" && len(x.Call.Args) == 2 {
			return k.canonical(x.Call.Args[0], depth+1) && k.canonical(x.Call.Args[1], depth+1)
		}
		if sc := x.Call.StaticCallee(); sc != nil && isRepoFn(sc) && sc.Signature.Results().Len() == 1 {
			return k.returnsCanonical(sc, 0, depth)
		}
		return false
	case *ssa.Extract:
		if nx, ok := x.Tuple.(*ssa.Next); ok {
			if rg, ok := nx.Iter.(*ssa.Range); ok && x.Index == 1 && c05IsTable(rg.X) {
				return true
			}
			return false
		}
		if call, ok := x.Tuple.(*ssa.Call); ok {
			if sc := call.Call.StaticCallee(); sc != nil && isRepoFn(sc) {
				return k.returnsCanonical(sc, x.Index, depth)
			}
			if c05CasePreservingTuple[c05Name(&call.Call)] && len(call.Call.Args) > 0 {
				return k.canonical(call.Call.Args[0], depth+1)
			}
		}
		return false
	case *ssa.Phi:
		for _, e := range x.Edges {
			if !k.canonical(e, depth+1) {
				return false
			}
		}
		return true
	case *ssa.BinOp:
		if x.Op == token.ADD {
			return k.canonical(x.X, depth+1) && k.canonical(x.Y, depth+1)
		}
		return false
	case *ssa.Convert:
		if isStringType(x.X.Type()) {
			return k.canonical(x.X, depth+1)
		}
		return false
	case *ssa.ChangeType:
		return k.canonical(x.X, depth+1)
	case *ssa.Field:
		return k.canonicalField(x.X.Type(), x.Field, depth)
	case *ssa.UnOp:
		if x.Op != token.MUL {
			return false
		}
		switch a := x.X.(type) {
		case *ssa.FieldAddr:
			return k.canonicalField(a.X.Type(), a.Field, depth)
		case *ssa.Alloc, *ssa.FreeVar:
			// local variable cell, possibly shared with closures
			vals, ok := c05CellStores(a)
			return ok && k.allCanonical(vals, depth+1)
		case *ssa.IndexAddr:
			// element of a []string that only ever receives canonical values (hosts lists built from table keys)
			return k.canonicalSlice(a.X, depth+1)
		}
		return false
	case *ssa.FreeVar:
		// variable captured by value
		return k.allCanonical(c05Bindings(x), depth+1)
	case *ssa.Parameter:
		return k.canonicalParam(x, depth)
	case *ssa.Slice:
		return k.canonical(x.X, depth+1)
	}
	return false
}

func isStringType(t types.Type) bool {
	b, ok := t.Underlying().(*types.Basic)
	return ok && b.Info()&types.IsString != 0
}

// canonicalField: Route.Host is canonical by construction (K1 checks the stores into the table, and addRoute is the
// only constructor); any other field of a repository struct is canonical when every store into it is.
func (k *keyCanon) canonicalField(structT types.Type, field int, depth int) bool {
	name := fieldName(structT, field)
	if namedIs(structT, "route.Route") && name == "Host" {
		return true
	}
	t := structT
	if p, ok := t.Underlying().(*types.Pointer); ok {
		t = p.Elem()
	}
	named, ok := t.(*types.Named)
	if !ok || named.Obj().Pkg() == nil || !strings.HasPrefix(named.Obj().Pkg().Path(), repoMod) {
		return false
	}
	key := typeStr(named) + "." + name
	if k.fmemo == nil {
		k.fmemo = map[string]int{}
	}
	if st, seen := k.fmemo[key]; seen {
		return st != 2
	}
	k.fmemo[key] = 1
	okAll, n := true, 0
	for _, g := range k.c.AllFns {
		eachInstr(g, func(i ssa.Instruction) {
			st, isSt := i.(*ssa.Store)
			if !isSt {
				return
			}
			fa, isFA := st.Addr.(*ssa.FieldAddr)
			if !isFA || fa.Field != field {
				return
			}
			ft := fa.X.Type()
			if p, ok := ft.Underlying().(*types.Pointer); ok {
				ft = p.Elem()
			}
			if !types.Identical(ft, named) {
				return
			}
			n++
			if !k.canonical(st.Val, depth+1) {
				okAll = false
			}
		})
	}
	res := okAll && n > 0
	if res {
		k.fmemo[key] = 3
	} else {
		k.fmemo[key] = 2
	}
	return res
}

// canonicalParam: a parameter is canonical when every static call site passes a canonical argument; the parameter of
// a callback (a closure that is never called by name) is canonical when the visitor it is handed to calls it with
// canonical arguments only (a repository helper ranging over a table, maps.DeleteFunc on a table).
func (k *keyCanon) canonicalParam(x *ssa.Parameter, depth int) bool {
	f := x.Parent()
	idx := -1
	for i, p := range f.Params {
		if p == x {
			idx = i
		}
	}
	okAll, n := true, 0
	for _, g := range k.c.AllFns {
		eachInstr(g, func(i ssa.Instruction) {
			cc := callCommon(i)
			if cc == nil || cc.StaticCallee() != f || idx >= len(cc.Args) {
				return
			}
			n++
			if !k.canonical(cc.Args[idx], depth+1) {
				okAll = false
			}
		})
	}
	if n > 0 || f.Parent() == nil {
		return okAll && n > 0
	}
	// callback
	eachInstr(f.Parent(), func(i ssa.Instruction) {
		mc, ok := i.(*ssa.MakeClosure)
		if !ok || mc.Fn != f {
			return
		}
		for _, r := range *mc.Referrers() {
			cc := callCommon(r)
			if cc == nil {
				okAll = false
				continue
			}
			pos := -1
			for j, a := range cc.Args {
				if a == ssa.Value(mc) {
					pos = j
				}
			}
			if pos < 0 {
				okAll = false // called directly would have been a static site; anything else is unknown
				continue
			}
			name := c05Name(cc)
			if (name == "maps.DeleteFunc") && len(cc.Args) == 2 && c05IsTable(cc.Args[0]) && idx == 0 {
				n++
				continue
			}
			sc := cc.StaticCallee()
			if sc == nil || !isRepoFn(sc) || len(sc.Blocks) == 0 || pos >= len(sc.Params) {
				okAll = false
				continue
			}
			fp := sc.Params[pos]
			m := 0
			eachInstr(sc, func(j ssa.Instruction) {
				c2 := callCommon(j)
				if c2 == nil || c2.IsInvoke() || c2.Value != ssa.Value(fp) {
					return
				}
				m++
				if idx >= len(c2.Args) || !k.canonical(c2.Args[idx], depth+1) {
					okAll = false
				}
			})
			// the callback must not travel further inside the visitor
			for _, r2 := range *fp.Referrers() {
				if c2 := callCommon(r2); c2 == nil || c2.Value != ssa.Value(fp) {
					if _, isDbg := r2.(*ssa.DebugRef); !isDbg {
						okAll = false
					}
				}
			}
			if m == 0 {
				okAll = false
			}
			n += m
		}
	})
	return okAll && n > 0
}

// c05Bindings: the values bound to a free variable where its closure is made.
func c05Bindings(fv *ssa.FreeVar) []ssa.Value {
	fn := fv.Parent()
	if fn == nil || fn.Parent() == nil {
		return nil
	}
	idx := -1
	for i, v := range fn.FreeVars {
		if v == fv {
			idx = i
		}
	}
	var out []ssa.Value
	eachInstr(fn.Parent(), func(i ssa.Instruction) {
		if mc, ok := i.(*ssa.MakeClosure); ok && mc.Fn == fn && idx >= 0 && idx < len(mc.Bindings) {
			out = append(out, mc.Bindings[idx])
		}
	})
	return out
}

// c05CellStores: every value stored into a local variable cell, in the function that owns it and in the closures
// that capture it. ok is false when the cell escapes to code that could write it unseen (its address is passed on).
func c05CellStores(cell ssa.Value) (vals []ssa.Value, ok bool) {
	// climb to the owning allocs
	var roots []*ssa.Alloc
	seenUp := map[ssa.Value]bool{}
	var up func(v ssa.Value) bool
	up = func(v ssa.Value) bool {
		if seenUp[v] {
			return true
		}
		seenUp[v] = true
		switch x := v.(type) {
		case *ssa.Alloc:
			roots = append(roots, x)
			return true
		case *ssa.FreeVar:
			bs := c05Bindings(x)
			if len(bs) == 0 {
				return false
			}
			for _, b := range bs {
				if !up(b) {
					return false
				}
			}
			return true
		}
		return false
	}
	if !up(cell) {
		return nil, false
	}
	ok = true
	seen := map[ssa.Value]bool{}
	var down func(addr ssa.Value)
	down = func(addr ssa.Value) {
		if seen[addr] {
			return
		}
		seen[addr] = true
		refs := addr.Referrers()
		if refs == nil {
			return
		}
		for _, r := range *refs {
			switch y := r.(type) {
			case *ssa.Store:
				if y.Addr == addr {
					vals = append(vals, y.Val)
				} else {
					ok = false // the address itself is stored somewhere
				}
			case *ssa.UnOp, *ssa.DebugRef:
			case *ssa.MakeClosure:
				if fn, isFn := y.Fn.(*ssa.Function); isFn {
					for j, b := range y.Bindings {
						if b == addr && j < len(fn.FreeVars) {
							down(fn.FreeVars[j])
						}
					}
				}
			default:
				ok = false
			}
		}
	}
	for _, a := range roots {
		down(a)
	}
	return vals, ok
}

func (k *keyCanon) canonicalSlice(v ssa.Value, depth int) bool {
	if depth > c05MaxDepth {
		return false
	}
	if k.smemo == nil {
		k.smemo = map[ssa.Value]int{}
	}
	if st, seen := k.smemo[v]; seen {
		return st != 2
	}
	k.smemo[v] = 1
	res := k.canonicalSlice1(v, depth)
	if res {
		k.smemo[v] = 3
	} else {
		k.smemo[v] = 2
	}
	return res
}

// arrayElemsCanonical: every element stored into a local array (the backing store of a literal / of variadic arguments).
func (k *keyCanon) arrayElemsCanonical(arr *ssa.Alloc, depth int) bool {
	for _, r := range *arr.Referrers() {
		if ia, ok := r.(*ssa.IndexAddr); ok {
			for _, r2 := range *ia.Referrers() {
				if st, ok := r2.(*ssa.Store); ok && !k.canonical(st.Val, depth+1) {
					return false
				}
			}
		}
	}
	return true
}

func (k *keyCanon) canonicalSlice1(v ssa.Value, depth int) bool {
	// every append into / call producing the slice yields canonical strings
	switch x := v.(type) {
	case *ssa.Phi:
		for _, e := range x.Edges {
			if !k.canonicalSlice(e, depth+1) {
				return false
			}
		}
		return true
	case *ssa.Const:
		return true
	case *ssa.MakeSlice:
		return true // zero values; element stores are not tracked (documented imprecision)
	case *ssa.ChangeType:
		return k.canonicalSlice(x.X, depth+1)
	case *ssa.Convert:
		return k.canonicalSlice(x.X, depth+1)
	case *ssa.Slice:
		if arr, ok := x.X.(*ssa.Alloc); ok {
			return k.arrayElemsCanonical(arr, depth)
		}
		return k.canonicalSlice(x.X, depth+1)
	case *ssa.UnOp:
		if x.Op == token.MUL {
			switch a := x.X.(type) {
			case *ssa.Alloc, *ssa.FreeVar:
				vals, ok := c05CellStores(a)
				if !ok || len(vals) == 0 {
					return false
				}
				for _, sv := range vals {
					if !k.canonicalSlice(sv, depth+1) {
						return false
					}
				}
				return true
			}
		}
		return false
	case *ssa.Call:
		n := c05Name(&x.Call)
		if n == "builtin.append" {
			if !k.canonicalSlice(x.Call.Args[0], depth+1) {
				return false
			}
			if len(x.Call.Args) < 2 {
				return true
			}
			// appended elements: variadic slice of an array alloc
			if sl, ok := x.Call.Args[1].(*ssa.Slice); ok {
				if arr, ok := sl.X.(*ssa.Alloc); ok {
					return k.arrayElemsCanonical(arr, depth)
				}
			}
			return k.canonicalSlice(x.Call.Args[1], depth+1)
		}
		if c05CasePreservingSplit[n] && len(x.Call.Args) > 0 {
			return k.canonical(x.Call.Args[0], depth+1)
		}
		if strings.HasPrefix(n, "slices.") || strings.HasPrefix(n, "sort.") {
			// Sorted / Collect / Clone / Compact / DeleteFunc ...: the elements come from the slice or sequence arguments
			m := 0
			for _, a := range x.Call.Args {
				switch {
				case c05IsKeySeq(a):
					m++
				case c05IsStringSlice(a.Type()):
					if !k.canonicalSlice(a, depth+1) {
						return false
					}
					m++
				case isStringType(a.Type()):
					if !k.canonical(a, depth+1) { // slices.Insert(hosts, i, h)
						return false
					}
				}
			}
			return m > 0
		}
		if sc := x.Call.StaticCallee(); sc != nil && isRepoFn(sc) && depth < c05MaxRetDepth {
			ok := true
			eachInstr(sc, func(i ssa.Instruction) {
				if r, isR := i.(*ssa.Return); isR && len(r.Results) > 0 && !k.canonicalSlice(r.Results[0], depth+1) {
					ok = false
				}
			})
			return ok
		}
		return false
	case *ssa.Parameter:
		// caller-owned slice rewritten in place (sortHostsReverseHostPort): accepted when all callers pass canonical slices
		f := x.Parent()
		idx := -1
		for i, p := range f.Params {
			if p == x {
				idx = i
			}
		}
		okAll, n := true, 0
		for _, g := range k.c.AllFns {
			eachInstr(g, func(i ssa.Instruction) {
				cc := callCommon(i)
				if cc == nil || cc.StaticCallee() != f || idx >= len(cc.Args) {
					return
				}
				n++
				if !k.canonicalSlice(cc.Args[idx], depth+1) {
					okAll = false
				}
			})
		}
		return okAll && n > 0
	}
	return false
}

func c05IsStringSlice(t types.Type) bool {
	s, ok := t.Underlying().(*types.Slice)
	return ok && isStringType(s.Elem())
}

// c05IsKeySeq: maps.Keys(t) of a route.Table.
func c05IsKeySeq(v ssa.Value) bool {
	call, ok := v.(*ssa.Call)
	if !ok {
		return false
	}
	return c05Name(&call.Call) == "maps.Keys" && len(call.Call.Args) == 1 && c05IsTable(call.Call.Args[0])
}

// runTableKeys checks every key used on a route.Table in non-test repo code.
func runTableKeys(c *Ctx, rule string) {
	k := &keyCanon{c: c, memo: map[ssa.Value]int{}}
	nLookup, nUpdate := 0, 0
	for _, f := range c.AllFns {
		eachInstr(f, func(i ssa.Instruction) {
			var m, key ssa.Value
			what := ""
			switch x := i.(type) {
			case *ssa.Lookup:
				m, key, what = x.X, x.Index, "lookup"
			case *ssa.MapUpdate:
				m, key, what = x.Map, x.Key, "update"
			case *ssa.Call:
				if calleeName(&x.Call) == "builtin.delete" {
					m, key, what = x.Call.Args[0], x.Call.Args[1], "delete"
				}
			}
			if m == nil || !c05IsTable(m) {
				return
			}
			if what == "lookup" {
				nLookup++
			} else {
				nUpdate++
			}
			c.check(rule, fnKey(f)+"|table "+what+" with a canonical host key", i.Pos(), k.canonical(key, 0),
				"the table is keyed by lower-cased host names (addRoute stores them so); a key that is not derived from strings.ToLower, a table range key, a constant or Route.Host addresses a different entry: 'route del svc Foo.com/' deletes nothing and 'route weight' reports no match")
		})
	}
	// roles, not occurrences: the table must be written somewhere and read by key somewhere
	c.atLeast(rule, "keyed writes (update/delete) of a route.Table", nUpdate, 1)
	c.atLeast(rule, "keyed reads of a route.Table", nLookup, 1)
}
