package main

// C04.R4 / C04.R5: the ring builder. All sites are found by role in the region of the builder (c04ringBuilder), so
// that splitting the builder, extracting the slot computation or the placement loop, or renaming any of it does not
// move a site out of sight.

import (
	"go/token"
	"go/types"

	"golang.org/x/tools/go/ssa"
)

var c04builders = map[*ssa.Program]*c04builder{}

func c04cachedBuilder(c *Ctx) *c04builder {
	if b, ok := c04builders[c.Prog]; ok {
		c04resolveRingField(c)
		return b
	}
	b := c04ringBuilder(c)
	c04builders[c.Prog] = b
	return b
}

// c04weightPositive: the fact states weight > 0 on a float that is (derived from) Target.Weight.
func c04weightPositive(f Fact) bool {
	return c04isPositiveFact(f, func(x ssa.Value) bool {
		return c04isFloat(x.Type()) && derives(x, c04isWeight)
	})
}

// runC04R4: a target with weight > 0 receives at least one slot, a target with weight 0 none. The slot count is the
// float->int conversion of a value derived from Target.Weight; every use of that raw count other than a comparison
// must be the merge that raises it to one exactly when it is zero and the weight is positive.
func runC04R4(c *Ctx, b *c04builder) {
	var raw []*ssa.Convert
	var rawIn []*ssa.Function
	eachInstrOf(b.reg, func(f *ssa.Function, i ssa.Instruction) {
		cv, ok := i.(*ssa.Convert)
		if !ok || !c04isInt(cv.Type()) || !c04isFloat(cv.X.Type()) {
			return
		}
		if derives(cv.X, c04isWeight) {
			raw = append(raw, cv)
			rawIn = append(rawIn, f)
		}
	})
	if len(raw) == 0 {
		c.undecided("C04.R4", "anchor|slot count conversion in the ring builder", "no conversion of a value derived from Target.Weight to an integer slot count in the region of "+fnKey(b.entry))
	}
	for k, n0 := range raw {
		alias := map[ssa.Value]bool{n0: true} // n0, and the parameters of helpers it is handed to
		isN0 := func(v ssa.Value) bool { return alias[v] }
		floorLeaf := func(v ssa.Value, facts []Fact) (isFloor, zero, pos bool) {
			one := false
			if kk, ok := constInt(v); ok && kk >= 1 {
				one = true
			}
			if bo, ok := v.(*ssa.BinOp); ok && bo.Op == token.ADD {
				if kk, ok := constInt(bo.Y); ok && kk >= 1 && alias[bo.X] {
					one = true
				}
				if kk, ok := constInt(bo.X); ok && kk >= 1 && alias[bo.Y] {
					one = true
				}
			}
			isMax := false
			if call, ok := v.(*ssa.Call); ok && calleeName(&call.Call) == "builtin.max" {
				hasN0, hasOne := false, false
				for _, a := range call.Call.Args {
					if alias[a] {
						hasN0 = true
					}
					if kk, ok := constInt(a); ok && kk >= 1 {
						hasOne = true
					}
				}
				isMax = hasN0 && hasOne
			}
			if !one && !isMax {
				return false, false, false
			}
			zero = isMax // max(n, 1) needs no zero test
			for _, f := range facts {
				if c04isZeroFact(f, isN0) {
					zero = true
				}
				if c04weightPositive(f) {
					pos = true
				}
			}
			return true, zero, pos
		}
		okFloor, rawUse := false, ""
		detail := "the slot count must be raised to 1 when it is 0 and the weight is > 0"
		judge := func(leaves []c04leaf) {
			for _, lf := range leaves {
				if alias[lf.v] {
					continue
				}
				isFloor, zero, pos := floorLeaf(lf.v, c04edgeFacts(lf.b, lf.to))
				if !isFloor {
					continue
				}
				switch {
				case zero && pos:
					okFloor = true
				case !pos:
					detail = "the one-slot floor must apply only to targets with weight > 0 (a zero-weight target must never be picked)"
				default:
					detail = "the one-slot floor must replace only a slot count of 0"
				}
			}
		}
		seenUse := map[ssa.Instruction]bool{}
		var uses func(v ssa.Value, d int)
		uses = func(v ssa.Value, d int) {
			refs := v.Referrers()
			if refs == nil || d > 3 {
				return
			}
			for _, r := range *refs {
				if seenUse[r] {
					continue
				}
				seenUse[r] = true
				switch x := r.(type) {
				case *ssa.DebugRef:
				case *ssa.BinOp:
					switch x.Op {
					case token.EQL, token.NEQ, token.LSS, token.LEQ, token.GTR, token.GEQ:
					case token.ADD:
						other := x.Y
						if other == v {
							other = x.X
						}
						if kk, ok := constInt(other); ok && kk >= 1 {
							uses(x, d+1) // n+1 as the floor value: judged where it is merged
						} else {
							rawUse = "added up"
						}
					default:
						rawUse = "arithmetic"
					}
				case *ssa.Phi:
					var ls []c04leaf
					for e, ev := range x.Edges {
						ls = append(ls, c04leaf{ev, x.Block().Preds[e], x.Block()})
					}
					judge(ls)
				case *ssa.Return:
					var ls []c04leaf
					idx := 0
					for e, ev := range x.Results {
						if ev == v {
							idx = e
						}
					}
					eachInstr(x.Parent(), func(j ssa.Instruction) {
						if rr, ok := j.(*ssa.Return); ok && idx < len(rr.Results) {
							ls = append(ls, c04leaf{rr.Results[idx], rr.Block(), nil})
						}
					})
					judge(ls)
				case *ssa.Store:
					if a, ok := x.Addr.(*ssa.Alloc); ok && x.Val == v {
						var ls []c04leaf
						for _, ar := range *a.Referrers() {
							if st, ok := ar.(*ssa.Store); ok && st.Addr == a {
								ls = append(ls, c04leaf{st.Val, st.Block(), nil})
							}
						}
						judge(ls)
					} else {
						rawUse = "stored"
					}
				case *ssa.Call:
					if calleeName(&x.Call) == "builtin.max" {
						judge([]c04leaf{{x, x.Block(), nil}})
						break
					}
					// handed to a helper of the package: the floor may be applied there
					handed := false
					if sc := x.Call.StaticCallee(); sc != nil && isRepoFn(sc) && len(sc.Blocks) > 0 {
						for ai, a := range x.Call.Args {
							if a == v && ai < len(sc.Params) {
								handed = true
								alias[sc.Params[ai]] = true
								uses(sc.Params[ai], d+1)
							}
						}
					}
					if !handed {
						rawUse = "passed to " + calleeName(&x.Call)
					}
				}
			}
		}
		uses(n0, 0)
		key := "ring builder|positive weight gets at least one slot"
		if len(raw) > 1 {
			key = fnKey(rawIn[k]) + "|positive weight gets at least one slot"
		}
		switch {
		case !okFloor:
			c.check("C04.R4", key, n0.Pos(), false, detail+": otherwise a small positive weight is starved, or a zero weight receives traffic")
		case rawUse != "":
			c.check("C04.R4", key, n0.Pos(), false, "the slot count computed from the weight is "+rawUse+" before the one-slot floor is applied: the ring size and the placement must use the floored count, otherwise a small positive weight is starved")
		default:
			c.check("C04.R4", key, n0.Pos(), true, "")
		}
	}

	// ring arithmetic: integer divisions in the builder region are guarded (the placement of a target with a slot
	// count <= 0 is skipped; nothing is placed on an empty ring)
	nDiv := 0
	eachInstrOf(b.reg, func(f *ssa.Function, i ssa.Instruction) {
		bo, ok := i.(*ssa.BinOp)
		if !ok || (bo.Op != token.QUO && bo.Op != token.REM) || !c04isInt(bo.X.Type()) {
			return
		}
		if _, isConst := bo.Y.(*ssa.Const); isConst {
			return
		}
		nDiv++
		ok2, why := divisorNonZero(bo)
		if !ok2 {
			if nz, _ := c04bound(bo.Y, bo.Block(), 0); nz {
				ok2 = true
			}
		}
		c.check("C04.R5", "ring builder|integer division by "+shortPath(bo.Y), bo.Pos(), ok2, "ring arithmetic: "+why)
	})
	c.atLeast("C04.R5", "integer divisions in the ring builder", nDiv, 1)
}

// runC04R5: ring arithmetic cannot panic: the ring allocation has a non-negative size, weights are finite when they
// leave the parser. (Signature kept: C02 reuses it.)
func runC04R5(c *Ctx) {
	b := c04cachedBuilder(c)
	if b == nil {
		c.undecided("C04.R5", "anchor|ring builder", "the ring builder does not resolve (no function of package route whose region stores Target.Weight and Route.wTargets)")
		runFiniteWeight(c, "C04.R5")
		return
	}
	n := 0
	eachInstrOf(b.reg, func(f *ssa.Function, i ssa.Instruction) {
		ms, ok := i.(*ssa.MakeSlice)
		if !ok {
			return
		}
		if _, isConst := ms.Len.(*ssa.Const); isConst {
			return
		}
		if call, isCall := c04stripConv(ms.Len).(*ssa.Call); isCall && calleeName(&call.Call) == "builtin.len" {
			return // len(x) is never negative
		}
		n++
		_, nonNeg := c04bound(ms.Len, ms.Block(), 0)
		c.check("C04.R5", "ring builder|ring allocation size >= 0", ms.Pos(), nonNeg,
			"make([]*Target, usedSlots) panics for a negative size (slot counts computed from non-finite or overflowing weights); it must be dominated by a usedSlots > 0 test")
	})
	c.atLeast("C04.R5", "computed-size allocations in the ring builder", n, 1)
	runFiniteWeight(c, "C04.R5")
}

// runFiniteWeight: a float produced by strconv.ParseFloat in the route parser leaves the function that parsed it
// (as a result, or stored into a structure) only when it is known to be finite: ParseFloat accepts "NaN" and "Inf".
// (Signature kept: C02 and C14 reuse it.)
func runFiniteWeight(c *Ctx, rule string) {
	// a source is a call whose result idx is a freshly parsed float: strconv.ParseFloat itself, or - one level up - the
	// call of an unexported helper that hands the parsed float on unchecked (all of its call sites are then sources)
	type source struct {
		call *ssa.Call
		idx  int
	}
	var work []source
	queued := map[*ssa.Call]bool{}
	for _, f := range c.fnsWhere("route", func(*ssa.Function) bool { return true }) {
		eachInstr(f, func(i ssa.Instruction) {
			if call, ok := i.(*ssa.Call); ok && calleeName(&call.Call) == "strconv.ParseFloat" {
				work = append(work, source{call, 0})
				queued[call] = true
			}
		})
	}
	n := 0
	const detail = "strconv.ParseFloat accepts 'Inf' and 'NaN'; a non-finite weight becomes a NaN share in the ring builder, int(NaN) is a huge negative slot count and make() panics in the table update loop (no recover) - the parser must reject it"
	for round := 0; len(work) > 0 && round < 64; round++ {
		src := work[0]
		work = work[1:]
		call, fn := src.call, src.call.Parent()
		fromCall := func(v ssa.Value) bool {
			seen := map[ssa.Value]bool{}
			var walk func(v ssa.Value) bool
			walk = func(v ssa.Value) bool {
				if v == nil || seen[v] {
					return false
				}
				seen[v] = true
				switch x := v.(type) {
				case *ssa.Call:
					_, isTuple := x.Type().(*types.Tuple)
					return x == call && !isTuple
				case *ssa.Extract:
					return x.Tuple == call && x.Index == src.idx
				case *ssa.Phi:
					for _, e := range x.Edges {
						if walk(e) {
							return true
						}
					}
				case *ssa.Convert:
					return walk(x.X)
				case *ssa.ChangeType:
					return walk(x.X)
				case *ssa.UnOp:
					if a, ok := x.X.(*ssa.Alloc); ok && x.Op == token.MUL {
						for _, r := range *a.Referrers() {
							if st, ok := r.(*ssa.Store); ok && st.Addr == a && walk(st.Val) {
								return true
							}
						}
					}
				}
				return false
			}
			return walk(v)
		}
		sink := func(at ssa.Instruction, v ssa.Value, resIdx int) {
			if !c04isFloat(v.Type()) {
				return
			}
			for _, lf := range c04leavesLocal(v, at.Block()) {
				if !fromCall(lf.v) {
					continue
				}
				n++
				key := fnKey(c04outer(fn)) + "|parsed weight is finite"
				if c04finiteAt(lf.v, c04edgeFacts(lf.b, lf.to), 0) {
					c.check(rule, key, at.Pos(), true, "")
					continue
				}
				// returned unchecked by a helper: its callers must check
				if _, isRet := at.(*ssa.Return); isRet && resIdx >= 0 {
					if sites, known := c04callersOf(c, fn); known {
						for _, s := range sites {
							if sc, ok := s.(*ssa.Call); ok && sc.Call.StaticCallee() != nil && !queued[sc] {
								queued[sc] = true
								work = append(work, source{sc, resIdx})
							} else if !ok || sc.Call.StaticCallee() == nil {
								known = false
							}
						}
						if known {
							continue
						}
					}
				}
				c.check(rule, key, at.Pos(), false, detail)
			}
		}
		eachInstr(fn, func(j ssa.Instruction) {
			switch x := j.(type) {
			case *ssa.Return:
				for k, res := range x.Results {
					sink(x, res, k)
				}
			case *ssa.Store:
				if _, isLocal := x.Addr.(*ssa.Alloc); !isLocal {
					sink(x, x.Val, -1)
				}
			}
		})
	}
	c.atLeast(rule, "places where a float parsed by strconv.ParseFloat leaves the route parser", n, 1)
}

// c04finiteAt: the facts exclude NaN and both infinities for v: !IsNaN / a comparison observed true; !IsInf(v, 0) /
// both signs / bounds on both sides; or the verdict of a repository helper that was handed v and whose accepting
// returns lie under such facts.
func c04finiteAt(v ssa.Value, facts []Fact, depth int) bool {
	same := samePath(v)
	isV := func(o ssa.Value) bool { return o == v || same(o) }
	notNaN, noPosInf, noNegInf := false, false, false
	upper, lower := false, false         // exact (comparison observed true)
	upperWeak, lowerWeak := false, false // negation of a comparison observed false: holds unless NaN
	for _, f := range facts {
		if call, ok := f.Cond.(*ssa.Call); ok {
			name := calleeName(&call.Call)
			switch {
			case name == "math.IsNaN" && len(call.Call.Args) == 1 && isV(call.Call.Args[0]) && !f.Truth:
				notNaN = true
			case name == "math.IsInf" && len(call.Call.Args) == 2 && isV(call.Call.Args[0]) && !f.Truth:
				sign, _ := constInt(call.Call.Args[1])
				if sign >= 0 {
					noPosInf = true
				}
				if sign <= 0 {
					noNegInf = true
				}
			default:
				if c04validatorAccepts(call, f.Truth, isV, depth) {
					return true
				}
			}
			continue
		}
		// err == nil where err is the verdict of a validator that was handed v
		if nn, ok := nilFact(f, func(ssa.Value) bool { return true }); ok && !nn {
			if b, isB := f.Cond.(*ssa.BinOp); isB {
				for _, side := range []ssa.Value{b.X, b.Y} {
					if call, isCall := side.(*ssa.Call); isCall && c04validatorAcceptsNil(call, isV, depth) {
						return true
					}
				}
			}
		}
		x, op, _, exact, ok := c04cmp(f)
		if !ok || !isV(x) {
			// v != v / v == v
			if b, isB := f.Cond.(*ssa.BinOp); isB && isV(b.X) && isV(b.Y) {
				if (b.Op == token.EQL && f.Truth) || (b.Op == token.NEQ && !f.Truth) {
					notNaN = true
				}
			}
			continue
		}
		switch op {
		case token.LSS, token.LEQ:
			if exact {
				upper, notNaN = true, true
			} else {
				upperWeak = true
			}
		case token.GTR, token.GEQ:
			if exact {
				lower, notNaN = true, true
			} else {
				lowerWeak = true
			}
		case token.EQL:
			if exact {
				return true
			}
		}
	}
	if notNaN {
		upper, lower = upper || upperWeak, lower || lowerWeak
	}
	return notNaN && (noPosInf || upper) && (noNegInf || lower)
}

// c04validatorAccepts: call is a boolean repository helper that received v; whenever it yields `truth` the
// corresponding parameter is finite: every constant `truth` it returns lies under such facts, and every computed
// verdict (`!math.IsNaN(f) && !math.IsInf(f, 0)`) being `truth` is itself such a fact.
func c04validatorAccepts(call *ssa.Call, truth bool, isV func(ssa.Value) bool, depth int) bool {
	return c04validator(call, isV, depth, func(lf c04leaf) (accepting bool, extra []Fact, known bool) {
		if bv, ok := constBool(lf.v); ok {
			return bv == truth, nil, true
		}
		cond, t := lf.v, truth
		for {
			u, isNot := cond.(*ssa.UnOp)
			if !isNot || u.Op != token.NOT {
				break
			}
			cond, t = u.X, !t
		}
		return true, []Fact{{cond, t}}, true
	})
}

// c04validatorAcceptsNil: call is an error-returning repository helper that received v; every `return nil` lies under
// facts that make the corresponding parameter finite.
func c04validatorAcceptsNil(call *ssa.Call, isV func(ssa.Value) bool, depth int) bool {
	return c04validator(call, isV, depth, func(lf c04leaf) (accepting bool, extra []Fact, known bool) {
		if isNilConst(lf.v) {
			return true, nil, true
		}
		if _, isMk := lf.v.(*ssa.MakeInterface); isMk {
			return false, nil, true
		}
		if c, ok := lf.v.(*ssa.Call); ok && c.Call.StaticCallee() != nil {
			return false, nil, true // errors.New / fmt.Errorf: a non-nil error
		}
		return true, nil, false
	})
}

func c04validator(call *ssa.Call, isV func(ssa.Value) bool, depth int, classify func(c04leaf) (bool, []Fact, bool)) bool {
	sc := call.Call.StaticCallee()
	if sc == nil || !isRepoFn(sc) || len(sc.Blocks) == 0 || depth > 1 || sc.Signature.Results().Len() != 1 {
		return false
	}
	var param *ssa.Parameter
	for k, a := range call.Call.Args {
		if isV(a) && k < len(sc.Params) {
			param = sc.Params[k]
		}
	}
	if param == nil {
		return false
	}
	n, all := 0, true
	eachInstr(sc, func(i ssa.Instruction) {
		r, ok := i.(*ssa.Return)
		if !ok || len(r.Results) != 1 {
			return
		}
		var leaves []c04leaf
		if phi, isPhi := r.Results[0].(*ssa.Phi); isPhi {
			for e, ev := range phi.Edges {
				leaves = append(leaves, c04leaf{ev, phi.Block().Preds[e], phi.Block()})
			}
		} else {
			leaves = []c04leaf{{r.Results[0], r.Block(), nil}}
		}
		for _, lf := range leaves {
			accepting, extra, known := classify(lf)
			if !accepting {
				continue
			}
			n++
			if !known || !c04finiteAt(param, append(c04edgeFacts(lf.b, lf.to), extra...), depth+1) {
				all = false
			}
		}
	})
	return n > 0 && all
}
