package main

// C11, representation of the name index: the index may hold interior pointers (map[string]*tls.Certificate), values, or
// POSITIONS into the certificate list (map[string]int, map[string]entry{pos}); a certificate taken at a position that the
// index delivered for a key is chosen by name, not by position.

import (
	"go/token"
	"go/types"

	"golang.org/x/tools/go/ssa"
)

// c11factsAtPoint: the branch facts at a point control passed through (block facts, plus the condition of the edge).
func c11factsAtPoint(at c11at) []Fact {
	if at.b == nil {
		return nil
	}
	out := factsAt(at.b)
	if at.to == nil || len(at.b.Instrs) == 0 || len(at.b.Succs) != 2 || at.b.Succs[0] == at.b.Succs[1] {
		return out
	}
	if iff, ok := at.b.Instrs[len(at.b.Instrs)-1].(*ssa.If); ok {
		out = appendCondFacts(out, iff.Cond, at.b.Succs[0] == at.to, 0)
	}
	return out
}

// c11positionOf: the index operand of the element access v (&list[i], list[i]), nil if v is none.
func c11positionOf(v ssa.Value) ssa.Value {
	if u, ok := v.(*ssa.UnOp); ok && u.Op == token.MUL {
		v = u.X
	}
	switch x := v.(type) {
	case *ssa.IndexAddr:
		return x.Index
	case *ssa.Index:
		return x.Index
	}
	return nil
}

// c11lookupHit: fact f says that the index lookup lk found its key: the comma-ok flag is true, or (plain lookup, positions
// stored with an offset so that the zero value means 'absent') the looked-up value itself was compared.
func c11lookupHit(f Fact, lk *ssa.Lookup) bool {
	ofLookup := func(v ssa.Value, idx int) bool {
		is := func(x ssa.Value) bool {
			e, ok := x.(*ssa.Extract)
			return ok && e.Tuple == ssa.Value(lk) && e.Index == idx
		}
		if is(v) {
			return true
		}
		if u, ok := v.(*ssa.UnOp); ok && u.Op == token.MUL {
			if _, isAlloc := u.X.(*ssa.Alloc); isAlloc {
				ds := defsOf(u)
				for _, d := range ds {
					if !is(d.Val) {
						return false
					}
				}
				return len(ds) > 0
			}
		}
		return false
	}
	if lk.CommaOk {
		return f.Truth && ofLookup(f.Cond, 1)
	}
	b, ok := f.Cond.(*ssa.BinOp)
	if !ok {
		return false
	}
	switch b.Op {
	case token.EQL, token.NEQ, token.LSS, token.LEQ, token.GTR, token.GEQ:
	default:
		return false
	}
	return c11isLookupValue(b.X, lk, 0) || c11isLookupValue(b.Y, lk, 0)
}

// c11isLookupValue: v is the value the plain lookup lk delivered, possibly converted, shifted by a constant or kept in a
// local variable (same function, no helpers: a test of something merely computed from the position does not count).
func c11isLookupValue(v ssa.Value, lk *ssa.Lookup, depth int) bool {
	if v == ssa.Value(lk) {
		return true
	}
	if depth > 4 {
		return false
	}
	switch x := v.(type) {
	case *ssa.Convert:
		return c11isLookupValue(x.X, lk, depth+1)
	case *ssa.ChangeType:
		return c11isLookupValue(x.X, lk, depth+1)
	case *ssa.Field: // the position kept in an entry struct
		return c11isLookupValue(x.X, lk, depth+1)
	case *ssa.BinOp:
		if _, isK := x.Y.(*ssa.Const); isK && (x.Op == token.ADD || x.Op == token.SUB) {
			return c11isLookupValue(x.X, lk, depth+1)
		}
	case *ssa.UnOp:
		if _, isAlloc := x.X.(*ssa.Alloc); isAlloc && x.Op == token.MUL {
			ds := defsOf(x)
			for _, d := range ds {
				if !c11isLookupValue(d.Val, lk, depth+1) {
					return false
				}
			}
			return len(ds) > 0
		}
	}
	return false
}

// c11impliesHit: the condition having this truth value means that one of the lookups found its key — directly
// (c11lookupHit), or as the verdict of an accessor (`i, ok := cs.position(name)`: every return of the accessor that can
// deliver true does so with the lookup's own comma-ok, or from a block where the lookup is known to have hit).
func c11impliesHit(cond ssa.Value, truth bool, lks []*ssa.Lookup, depth int) bool {
	for _, lk := range lks {
		if c11lookupHit(Fact{Cond: cond, Truth: truth}, lk) {
			return true
		}
	}
	if !truth || depth > 2 {
		return false
	}
	var call *ssa.Call
	idx := 0
	switch x := cond.(type) {
	case *ssa.Extract:
		call, _ = x.Tuple.(*ssa.Call)
		idx = x.Index
	case *ssa.Call:
		call = x
	}
	if call == nil {
		return false
	}
	h := c11callee(&call.Call)
	if h == nil || len(h.Blocks) == 0 {
		return false
	}
	n, all := 0, true
	eachInstr(h, func(i ssa.Instruction) {
		r, ok := i.(*ssa.Return)
		if !ok || idx >= len(r.Results) || !all {
			return
		}
		res := r.Results[idx]
		if k, isK := constBool(res); isK {
			if !k {
				return // this return cannot deliver true
			}
			n++
			for _, f := range factsAt(r.Block()) {
				if c11impliesHit(f.Cond, f.Truth, lks, depth+1) {
					return
				}
			}
			all = false
			return
		}
		n++
		if !c11impliesHit(res, true, lks, depth+1) {
			all = false
		}
	})
	return all && n > 0
}

// positionByName: the leaf is an element of a certificate list whose POSITION is what the name index holds for a key
// (`i, ok := cs.index[name]; ... &cs.Certificates[i]`), and on the way from there to the callback's return the lookup is
// known to have hit. Such a certificate is selected by name; a position from anywhere else (a constant, a length, a loop
// variable) or from a lookup nobody tested (a miss yields position 0 = the first certificate) is a fallback.
func (m *c11Model) positionByName(l c11leaf) bool {
	pos := c11positionOf(l.v)
	if pos == nil || m.idxType == "" {
		return false
	}
	if _, isConst := pos.(*ssa.Const); isConst {
		return false
	}
	var lks []*ssa.Lookup
	derives(pos, func(v ssa.Value) bool {
		if lk, ok := v.(*ssa.Lookup); ok && m.isIndexMap(lk.X) {
			lks = append(lks, lk)
		}
		return false
	})
	if len(lks) == 0 {
		return false
	}
	// one of the lookups the position can come from (an accessor `at(i)` is shared by the exact and the wildcard match) is
	// known to have hit somewhere on this way to the return
	for _, at := range l.chain {
		for _, f := range c11factsAtPoint(at) {
			if c11impliesHit(f.Cond, f.Truth, lks, 0) {
				return true
			}
		}
	}
	return false
}

// ---- where the index lives -------------------------------------------------------------------------------------------

// c11index: the maps of a certificate set that serve as its name index.
type c11index struct {
	first, firstType string          // field (of the set) that is or holds the first index map; type string of that map
	types            map[string]bool // type strings of all index maps
	path             map[string]bool // "struct type.field" of the fields on the way from the set to the maps
}

func c11fieldKey(structT types.Type, field int) string {
	t := structT
	if p, ok := t.Underlying().(*types.Pointer); ok {
		t = p.Elem()
	}
	return typeStr(t) + "." + fieldName(structT, field)
}

// c11certish: what an index map can deliver for a name: a certificate, a pointer to one, a position (integer), a small
// struct or list of these.
func c11certish(t types.Type, depth int) bool {
	t = types.Unalias(t)
	if namedIs(t, "crypto/tls.Certificate") {
		return true
	}
	switch u := t.Underlying().(type) {
	case *types.Pointer:
		return depth < 3 && c11certish(u.Elem(), depth+1)
	case *types.Slice:
		return depth < 3 && c11certish(u.Elem(), depth+1)
	case *types.Basic:
		return u.Info()&types.IsInteger != 0
	case *types.Struct:
		if depth < 2 {
			for i := 0; i < u.NumFields(); i++ {
				if c11certish(u.Field(i).Type(), depth+1) {
					return true
				}
			}
		}
	}
	return false
}

func c11stringKeyedMap(t types.Type) (*types.Map, bool) {
	mp, ok := types.Unalias(t).Underlying().(*types.Map)
	if !ok {
		return nil, false
	}
	b, ok := mp.Key().Underlying().(*types.Basic)
	return mp, ok && b.Kind() == types.String
}

// c11findIndex looks for the name index of set type n: string-keyed maps that deliver a certificate or a position, as
// fields of the set or of a struct of the same package the set holds (by value or by pointer, two levels). When no map
// delivers something certificate-like, the first string-keyed map of the set itself is taken.
func c11findIndex(n *types.Named) c11index {
	ix := c11index{types: map[string]bool{}, path: map[string]bool{}}
	var visit func(owner *types.Named, depth int, strict bool) bool
	nest := true
	visit = func(owner *types.Named, depth int, strict bool) bool {
		st, ok := owner.Underlying().(*types.Struct)
		if !ok {
			return false
		}
		found := false
		for i := 0; i < st.NumFields(); i++ {
			f := st.Field(i)
			hit := false
			if mp, ok := c11stringKeyedMap(f.Type()); ok && (!strict || c11certish(mp.Elem(), 0)) {
				hit = true
				ix.types[typeStr(f.Type())] = true
				if ix.firstType == "" {
					ix.firstType = typeStr(f.Type())
				}
			} else if nest && depth < 2 {
				ft := types.Unalias(f.Type())
				if p, isPtr := ft.Underlying().(*types.Pointer); isPtr {
					ft = types.Unalias(p.Elem())
				}
				if inner, isNamed := ft.(*types.Named); isNamed && inner.Obj().Pkg() == n.Obj().Pkg() && inner != owner {
					hit = visit(inner, depth+1, strict)
				}
			}
			if hit {
				found = true
				ix.path[typeStr(owner)+"."+f.Name()] = true
				if depth == 0 && ix.first == "" {
					ix.first = f.Name()
				}
			}
		}
		return found
	}
	if !visit(n, 0, true) {
		nest = false
		visit(n, 0, false) // old behaviour: any string-keyed map field of the set itself
	}
	return ix
}

// c11atEverySite judges a lookup key: when the key is handed to the function of the lookup as a parameter (an accessor
// `byName(name)` shared by the exact and the wildcard match), ok must hold for the argument at EVERY call site below the
// handshake callbacks — derives alone is satisfied by one of them.
func (m *c11Model) atEverySite(v ssa.Value, depth int, ok func(ssa.Value) bool) bool {
	p, isParam := v.(*ssa.Parameter)
	if !isParam || depth > 3 || p.Parent() == nil || !onlyStaticallyCalled(p.Parent()) {
		return ok(v)
	}
	fn := p.Parent()
	inRegion := map[*ssa.Function]bool{}
	for _, f := range m.hsReg {
		inRegion[f] = true
	}
	for k, q := range fn.Params {
		if q != p {
			continue
		}
		n, all := 0, true
		for _, s := range gSites[fn] {
			cc := s.Common()
			if !inRegion[s.Parent()] || k >= len(cc.Args) {
				continue
			}
			n++
			if !m.atEverySite(cc.Args[k], depth+1, ok) {
				all = false
			}
		}
		if n > 0 {
			return all
		}
	}
	return ok(v)
}
