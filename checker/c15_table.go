package main

// C15.R1, table-driven registration: flag definitions that sit in a loop over a slice / array literal of descriptors
//
//	for _, t := range table { f.DurationVar(t.field(cfg), t.name, *t.field(defaults), t.usage) }
//
// are expanded once per row of the literal: a read of a field of the loop's element is replaced by the value the row
// stores into that field (a constant name, an accessor closure, a pointer). The table is found by what it is (the
// slice / array the element is indexed from, initialised by exactly one literal: a package-level variable set in the
// package initialiser, or a local), never by its name.

import (
	"go/token"
	"go/types"

	"golang.org/x/tools/go/ssa"
)

// c15elemKey identifies "the current element" of a table inside a loop: the table and the index value.
type c15elemKey struct {
	table ssa.Value
	index ssa.Value
}

// c15elemAddr: v is (a load of) the address of an element of a slice / array selected by a non-constant index, or a
// local copy of such an element; returns the IndexAddr.
func c15elemAddr(v ssa.Value, depth int) (*ssa.IndexAddr, bool) {
	if v == nil || depth > 4 {
		return nil, false
	}
	switch x := v.(type) {
	case *ssa.IndexAddr:
		if _, isK := constInt(x.Index); isK {
			return nil, false
		}
		return x, true
	case *ssa.UnOp:
		if x.Op != token.MUL {
			return nil, false
		}
		switch y := x.X.(type) {
		case *ssa.IndexAddr:
			return c15elemAddr(y, depth+1)
		case *ssa.Alloc, *ssa.FreeVar:
			// t := table[i] kept in a cell (captured, or its address taken)
			if sv := c15stores(y); len(sv) == 1 {
				return c15elemAddr(sv[0], depth+1)
			}
		}
	case *ssa.Alloc:
		if sv := c15stores(x); len(sv) == 1 {
			return c15elemAddr(sv[0], depth+1)
		}
	case *ssa.FreeVar:
		if sv := c15stores(x); len(sv) == 1 {
			return c15elemAddr(sv[0], depth+1)
		}
	}
	return nil, false
}

// c15tableRoot: the variable a table value is read from (the package-level variable, the local cell), or the value
// itself.
func c15tableRoot(v ssa.Value) ssa.Value {
	for d := 0; d < 4; d++ {
		switch x := v.(type) {
		case *ssa.UnOp:
			if x.Op == token.MUL {
				switch y := x.X.(type) {
				case *ssa.Global:
					return y
				case *ssa.Alloc, *ssa.FreeVar:
					return c15cell(y)
				}
			}
			return v
		case *ssa.ChangeType:
			v = x.X
		default:
			return v
		}
	}
	return v
}

func c15elemKeyOf(elem ssa.Value) (c15elemKey, bool) {
	ia, ok := c15elemAddr(elem, 0)
	if !ok {
		return c15elemKey{}, false
	}
	return c15elemKey{table: c15tableRoot(ia.X), index: ia.Index}, true
}

// c15rowAccess: v reads field `field` of a table element (t.name with t a copy of the element, table[i].name,
// p.name with p := &table[i] or with a table of pointers).
func c15rowAccess(v ssa.Value) (elem ssa.Value, field int, ok bool) {
	switch x := v.(type) {
	case *ssa.Field:
		if _, isElem := c15elemAddr(x.X, 0); isElem {
			return x.X, x.Field, true
		}
	case *ssa.UnOp:
		if x.Op != token.MUL {
			return nil, 0, false
		}
		if fa, isFA := x.X.(*ssa.FieldAddr); isFA {
			if _, isElem := c15elemAddr(fa.X, 0); isElem {
				return fa.X, fa.Field, true
			}
		}
	}
	return nil, 0, false
}

// c15globalInit: the single value stored into a package-level variable (by the package initialiser or anywhere else
// in the repository); nil when there is none or more than one.
func c15globalInit(c *Ctx, g *ssa.Global) ssa.Value {
	var vals []ssa.Value
	scan := func(f *ssa.Function) {
		if f == nil {
			return
		}
		eachInstr(f, func(i ssa.Instruction) {
			if st, ok := i.(*ssa.Store); ok && st.Addr == ssa.Value(g) {
				vals = append(vals, st.Val)
			}
		})
	}
	var pkgInit *ssa.Function
	if g.Pkg != nil {
		pkgInit = g.Pkg.Func("init")
		scan(pkgInit)
	}
	for _, f := range c.AllFns {
		if f != pkgInit {
			scan(f)
		}
	}
	if len(vals) != 1 {
		return nil
	}
	return vals[0]
}

// c15tableRows: the rows of the literal the table of `elem` is initialised with: per row, field index -> stored value.
// Empty when the table is not one literal the rule can read (built by code, modified after its initialisation).
func c15tableRows(c *Ctx, elem ssa.Value) []map[int]ssa.Value {
	ia, ok := c15elemAddr(elem, 0)
	if !ok {
		return nil
	}
	// the array behind the table, and the function whose instructions fill it
	var arr ssa.Value
	var filler *ssa.Function
	tbl := ia.X
	for d := 0; d < 6 && arr == nil; d++ {
		switch x := tbl.(type) {
		case *ssa.ChangeType:
			tbl = x.X
		case *ssa.Slice:
			if x.Low != nil || x.High != nil {
				return nil
			}
			tbl = x.X
		case *ssa.Alloc:
			if _, isArr := x.Type().(*types.Pointer).Elem().Underlying().(*types.Array); isArr {
				arr, filler = x, x.Parent()
			} else if sv := c15stores(x); len(sv) == 1 {
				tbl = sv[0]
			} else {
				return nil
			}
		case *ssa.Global:
			if _, isArr := x.Type().(*types.Pointer).Elem().Underlying().(*types.Array); isArr && x.Pkg != nil {
				arr, filler = x, x.Pkg.Func("init")
			} else {
				return nil
			}
		case *ssa.UnOp:
			if x.Op != token.MUL {
				return nil
			}
			switch y := x.X.(type) {
			case *ssa.Global:
				if _, isArr := y.Type().(*types.Pointer).Elem().Underlying().(*types.Array); isArr {
					tbl = y
				} else if v := c15globalInit(c, y); v != nil {
					tbl = v
				} else {
					return nil
				}
			case *ssa.Alloc, *ssa.FreeVar:
				if sv := c15stores(y); len(sv) == 1 {
					tbl = sv[0]
				} else {
					return nil
				}
			default:
				return nil
			}
		default:
			return nil
		}
	}
	if arr == nil || filler == nil {
		return nil
	}
	at, isArr := arr.Type().(*types.Pointer).Elem().Underlying().(*types.Array)
	if !isArr || at.Len() == 0 || at.Len() > 256 {
		return nil
	}
	rows := make([]map[int]ssa.Value, at.Len())
	for k := range rows {
		rows[k] = map[int]ssa.Value{}
	}
	ok = true
	// stores into the fields of the struct at `base` go to row k
	var fill func(base ssa.Value, k int64, depth int)
	fill = func(base ssa.Value, k int64, depth int) {
		refs := base.Referrers()
		if refs == nil || depth > 2 {
			return
		}
		for _, r := range *refs {
			switch y := r.(type) {
			case *ssa.FieldAddr:
				if y.X != base || y.Referrers() == nil {
					continue
				}
				for _, r2 := range *y.Referrers() {
					if st, isSt := r2.(*ssa.Store); isSt && st.Addr == ssa.Value(y) {
						if _, dup := rows[k][y.Field]; dup {
							ok = false
						}
						rows[k][y.Field] = st.Val
					}
				}
			case *ssa.Store:
				if y.Addr != base {
					continue
				}
				// a table of pointers: the element is the address of a struct literal
				if a, isAlloc := y.Val.(*ssa.Alloc); isAlloc {
					fill(a, k, depth+1)
				} else if _, isStruct := y.Val.Type().Underlying().(*types.Struct); isStruct {
					ok = false // a row copied from a value the rule does not read
				}
			}
		}
	}
	n := 0
	eachInstr(filler, func(i ssa.Instruction) {
		e, isIA := i.(*ssa.IndexAddr)
		if !isIA || e.X != arr {
			return
		}
		k, isK := constInt(e.Index)
		if !isK {
			return // a read of the table
		}
		if k < 0 || k >= at.Len() {
			ok = false
			return
		}
		n++
		fill(e, k, 0)
	})
	if !ok || n == 0 {
		return nil
	}
	return rows
}
