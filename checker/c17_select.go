package main

// C17, "selected writer" representation of the decision (hardening round 3).
//
// Today the response writer keeps the outcome of the compress / pass-through decision in an io.Writer field that is
// nil while undecided. That field is redundant: it only ever holds the pooled gzip writer or the wrapped
// ResponseWriter. A restructuring may drop it and keep
//
//	decided    bool          // set by the first WriteHeader / Write
//	gzipWriter *gzip.Writer  // nil = pass through
//
// and SELECT the destination of the body where it is written: `grw.body().Write(b)` with body() returning the gzip
// writer if one was taken and the wrapped writer otherwise, the same choice spelled inline with a local variable, or
// two Write calls under `if grw.gzipWriter != nil`. The rules then read (k.sel == true):
//
//	installing the gzip writer   = a non-nil store into a *gzip.Writer field (D1, H1, T2 look at it as before)
//	undecided / decided          = a decision flag (a bool field into which only `true` is ever stored) is false / true
//	the decided writer           = a value all of whose origins are the gzip-writer field or the wrapped writer
//	decide once (T1)             = the gzip writer is installed only under flag == false, on a path that sets the flag
//	the choice is the decision   = the gzip writer is chosen only where the field is known non-nil, the wrapped writer
//	                               only where it is known nil (T1 "writer is the gzip writer or the wrapped writer")
//	used only after the decision = every Write into a selected destination, and every load the selection reads, is at a
//	                               point where the flag is known to be set

import (
	"golang.org/x/tools/go/ssa"
)

// c17choice is one alternative of a selected destination: the value, the block in which it is chosen and - for an
// arm of a phi - the block the choice flows to (the edge b -> to carries a branch outcome of its own).
type c17choice struct {
	v  ssa.Value
	b  *ssa.BasicBlock
	to *ssa.BasicBlock
}

// selection: v (used in block at) is a destination chosen between the pooled gzip writer and the wrapped writer:
// every origin - through interface boxing, phis and the results of helpers of the region - is a load of a
// *gzip.Writer field (gz) or the wrapped ResponseWriter (rw), and at least one is the gzip writer.
func (k *c17kit) selection(v ssa.Value, at *ssa.BasicBlock) (gz, rw []c17choice, ok bool) {
	ok = true
	seen := map[ssa.Value]bool{}
	var walk func(v ssa.Value, b, to *ssa.BasicBlock, d int)
	walk = func(v ssa.Value, b, to *ssa.BasicBlock, d int) {
		if !ok || v == nil {
			return
		}
		if seen[v] {
			return
		}
		seen[v] = true
		if d > 8 {
			ok = false
			return
		}
		if b == nil {
			if i, isI := v.(ssa.Instruction); isI {
				b = i.Block()
			}
		}
		switch {
		case c17isGzipType(v.Type()):
			if k.isGzLoad(v) {
				gz = append(gz, c17choice{v, b, to})
				return
			}
		case c17respWriterIface(v.Type()):
			if k.wrapsUnderlying(v) {
				rw = append(rw, c17choice{v, b, to})
				return
			}
		}
		switch x := v.(type) {
		case *ssa.MakeInterface:
			walk(x.X, b, to, d+1)
		case *ssa.ChangeInterface:
			walk(x.X, b, to, d+1)
		case *ssa.ChangeType:
			walk(x.X, b, to, d+1)
		case *ssa.Phi:
			for i, e := range x.Edges {
				walk(e, x.Block().Preds[i], x.Block(), d+1)
			}
		case *ssa.Call:
			sc := x.Call.StaticCallee()
			if sc == nil || !k.inRegion(sc) || len(sc.Blocks) == 0 || sc.Signature.Results().Len() != 1 {
				ok = false
				return
			}
			n := 0
			eachInstr(sc, func(i ssa.Instruction) {
				if r, isR := i.(*ssa.Return); isR && len(r.Results) == 1 {
					n++
					walk(r.Results[0], r.Block(), nil, d+1)
				}
			})
			if n == 0 {
				ok = false
			}
		default:
			ok = false
		}
	}
	walk(v, at, nil, 0)
	if len(gz) == 0 {
		ok = false
	}
	return gz, rw, ok
}

// gzKnown: where ch is chosen the gzip-writer field is known to be set (want) / to be nil (!want): by a branch
// outcome that holds in the block (also through the callers of a helper), or by the outcome of the edge the choice
// flows along.
func (k *c17kit) gzKnown(ch c17choice, want bool) bool {
	same := func(x ssa.Value) bool { return x == ch.v || k.isGzLoad(x) }
	test := func(f Fact) bool {
		if nn, ok := nilFact(f, same); ok {
			return nn == want
		}
		set, ok := k.gzFlagFact(f)
		return ok && set == want
	}
	if ch.b == nil {
		return false
	}
	if c17holds(ch.b, test, 0) {
		return true
	}
	if ch.to != nil {
		for idx, s := range ch.b.Succs {
			if s != ch.to {
				continue
			}
			if ft, ok := c17edgeFact(ch.b, idx); ok && test(ft) {
				return true
			}
		}
	}
	return false
}

// c17bodySink classifies a call that sends bytes on towards the client in the selected representation.
type c17bodySink int

const (
	c17sinkNone     c17bodySink = iota
	c17sinkSelected             // Write on a selected destination
	c17sinkGzip                 // (*gzip.Writer).Write on the gzip-writer field
	c17sinkPlain                // Write on the wrapped ResponseWriter
)

func (k *c17kit) bodySink(i ssa.Instruction) (c17bodySink, ssa.Value) {
	if _, isGo := i.(*ssa.Go); isGo {
		return c17sinkNone, nil
	}
	return k.bodySinkCC(callCommon(i), i.Block())
}

func (k *c17kit) bodySinkCC(cc *ssa.CallCommon, at *ssa.BasicBlock) (c17bodySink, ssa.Value) {
	if cc == nil {
		return c17sinkNone, nil
	}
	if cc.IsInvoke() {
		if cc.Method.Name() != "Write" || len(cc.Args) != 1 {
			return c17sinkNone, nil
		}
		if c17respWriterIface(cc.Value.Type()) {
			if k.wrapsUnderlying(cc.Value) {
				return c17sinkPlain, cc.Args[0]
			}
			return c17sinkNone, nil
		}
		if _, _, ok := k.selection(cc.Value, at); ok {
			return c17sinkSelected, cc.Args[0]
		}
		return c17sinkNone, nil
	}
	if calleeName(cc) == "(*compress/gzip.Writer).Write" && len(cc.Args) == 2 && k.isGzLoad(cc.Args[0]) {
		return c17sinkGzip, cc.Args[1]
	}
	return c17sinkNone, nil
}

// resolveSelected: the response writer's Write (or a helper it calls) sends the body to a selected destination.
func (k *c17kit) resolveSelected() bool {
	k.sel = true
	found := false
	eachInstrOf(k.c.region(k.wr), func(_ *ssa.Function, i ssa.Instruction) {
		if kind, _ := k.bodySink(i); kind == c17sinkSelected || kind == c17sinkGzip {
			found = true
		}
	})
	if !found {
		k.sel = false
	}
	return found
}

// sinkSelected (W1): the call hands the body to the selected destination; returns the buffer.
func (k *c17kit) sinkSelected(cc *ssa.CallCommon) (ssa.Value, bool) {
	kind, buf := k.bodySinkCC(cc, nil)
	return buf, kind != c17sinkNone
}

// runC17T1sel: decide-once in the selected representation.
func runC17T1sel(c *Ctx, k *c17kit) {
	nStore := 0
	eachInstrOf(k.fns, func(f *ssa.Function, i ssa.Instruction) {
		if !k.isInstall(i) {
			return
		}
		st := i.(*ssa.Store)
		nStore++
		byFlag, undecided := k.knownUndecided(st.Block())
		// only once: under flag == false, and this path also sets the flag
		c.check("C17.T1", fnKey(f)+"|writer decided only once", st.Pos(), undecided && byFlag && k.tiedTo(st, k.isFlagSet),
			"the gzip writer may be installed only while the response is undecided (the decision flag is false) and on a path that sets the flag: deciding again after bytes were written mixes compressed and plain output")
	})
	c.atLeast("C17.T1", "stores that decide the writer", nStore, 1)
	c.check("C17.T1", fnKey(k.wh)+"|nil edge always decides", k.wh.Pos(), !k.undecidedReach(k.wh, nil, 0), "when the response is undecided WriteHeader must take the decision (set the decision flag) on every path")
	nUse := 0
	eachInstrOf(k.fns, func(f *ssa.Function, i ssa.Instruction) {
		kind, _ := k.bodySink(i)
		if kind == c17sinkNone {
			return
		}
		cc := callCommon(i)
		if kind == c17sinkPlain && !c17inMethodOf(f, k) {
			return // a Write on the wrapped writer outside the response writer's methods is not the body path
		}
		nUse++
		consistent, fresh := true, k.decidedAt(i, 0)
		switch kind {
		case c17sinkSelected:
			gz, rw, _ := k.selection(cc.Value, i.Block())
			for _, ch := range gz {
				if !k.gzKnown(ch, true) {
					consistent = false
				}
			}
			for _, ch := range rw {
				if !k.gzKnown(ch, false) {
					consistent = false
				}
			}
			// the state the choice reads must be final: read after the decision
			for _, ch := range append(gz, rw...) {
				if li, isI := ch.v.(ssa.Instruction); isI && li.Block() != nil && !k.decidedAt(li, 0) {
					fresh = false
				}
			}
		case c17sinkGzip:
			consistent = k.gzKnown(c17choice{cc.Args[0], i.Block(), nil}, true)
		case c17sinkPlain:
			consistent = k.gzKnown(c17choice{cc.Value, i.Block(), nil}, false)
		}
		c.check("C17.T1", fnKey(f)+"|writer is the gzip writer or the wrapped writer", i.Pos(), consistent,
			"the body must go to the pooled gzip writer exactly when one was installed for this response (the gzip-writer field is known to be set where it is chosen) and to the wrapped ResponseWriter exactly when none was (the field is known to be nil where the wrapped writer is chosen): a response labelled Content-Encoding: gzip whose body bypasses the gzip writer, or the reverse, reaches the client unreadable")
		c.check("C17.T1", fnKey(f)+"|writer used only after it is decided", i.Pos(), fresh,
			"the destination of the body is chosen on a path where the compress / pass-through decision may not have been taken yet (the decision flag is not known to be set): bytes written now go out plain, and a later decision to compress labels them gzip")
	})
	c.atLeast("C17.T1", "uses of the decided writer", nUse, 1)
}

// c17inMethodOf: f is a method of the response writer, a closure in one, or a helper of the region that only such
// methods call (depth-bounded).
func c17inMethodOf(f *ssa.Function, k *c17kit) bool {
	seen := map[*ssa.Function]bool{}
	var in func(f *ssa.Function, d int) bool
	in = func(f *ssa.Function, d int) bool {
		if f == nil || d > 3 || seen[f] {
			return false
		}
		seen[f] = true
		for f.Parent() != nil {
			f = f.Parent()
		}
		for _, m := range k.methods {
			if m == f {
				return true
			}
		}
		if !c17closed(f) {
			return false
		}
		for _, s := range gSites[f] {
			if !in(s.Parent(), d+1) {
				return false
			}
		}
		return true
	}
	return in(f, 0)
}
