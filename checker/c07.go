package main

import (
	"fmt"
	"go/token"
	"go/types"
	"os"
	"sort"
	"strings"

	"golang.org/x/tools/go/ssa"
)

func init() {
	register(&propDef{
		ID:      "C07",
		Level:   "other",
		Explain: "HTTP pass-through conditions decided on the region of proxy.HTTPProxy.ServeHTTP (the method, the helpers of package proxy it calls and their closures), the Director(s) and the response-writer wrappers; sites are found by what they do, not by the function that contains them today: (G1) every upstream-contact site lies, on every path, behind the target != nil edge of the route lookup (the test may live in a helper that returns the target or a verdict); (N1) where the looked-up target is known to be nil, WriteHeader gets a status whose only sources are Config.NoRouteStatus and the constant 404, and the noroute page is written on the same edge; (D1) every function stored into a ReverseProxy.Director (closure, named function, bound method) stores only to req.URL.{Scheme,Host,Path,RawPath,RawQuery} and touches no header but User-Agent, and FlushInterval is what the caller chose among the configured flush intervals; (H1) every Set/Add/Del/index-store on a request's header map in the functions of package proxy the client's request can travel through from ServeHTTP (static calls, closures and function values taken are always followed; an interface call or a called function value is followed into every function of that shape that can hold a request - a parameter, receiver or captured variable that is or carries a request or a header map - including a handler type's own ServeHTTP; also through a helper that takes the map or the key as a parameter) uses a key all of whose possible values are in the managed set (the forwarding headers, User-Agent, and the configured request-id / client-ip / TLS header names), and nothing stores to the request's Method, Body, Proto, ContentLength or TransferEncoding; (H2) every store to r.Host lies, on every path, behind a branch decided by Target.Host; (U1) on the URL that the Director copies into the outgoing request (all of its aliases across helpers): every strip / prepend of Path has a like operation on RawPath, RawPath starts from the client's RawPath, and every Director that copies Path copies RawPath; (U2) every stripped or prepended Path and RawPath is absolute by construction or passes, on every path before the URL is handed to the Director or installed in the request, an absolute-path normalisation of that field (HasPrefix(x, \"/\") true, \"/\"+x, for RawPath also empty); (Q1) every value stored to the URL's RawQuery is, in each of its alternatives, <route query>[&]<request query> with the separator exactly when both are known to be non-empty and nothing else mixed in; (W1) every wrapper implementing http.ResponseWriter forwards Header/Write/WriteHeader arguments unchanged on every path and returns the wrapped results. Where a rule asks for the sources of a value, a read of a field of a repository struct outside config/route (a per-request or per-upstream carrier such as upstream{target, tr, flush}) stands for everything stored to that field, an element of a slice/array literal or a package-level basic variable for its entries, and a function kept in such a field or passed as a method value for the functions it can denote; (H2) additionally requires that a direct comparison deciding the Host rewrite leaves the option non-empty; (W1) the forwarding call may sit in a helper method the wrapper method delegates to. Not decided: body bytes, chunking and hop-by-hop header handling (delegated to net/http/httputil.ReverseProxy).",
		Run:     runC07,
		Trusted: []string{"net/http/httputil.ReverseProxy copies method, body and end-to-end headers unchanged and removes hop-by-hop headers", "url.URL.EscapedPath uses RawPath only when it is a valid encoding of Path"},
		Mutants: []mutant{
			{Name: "no-route branch falls through to proxying", File: "proxy/http_proxy.go", Old: "\t\tif html != \"\" {\n\t\t\tio.WriteString(w, html)\n\t\t}\n\t\treturn\n\t}\n\n\tif t.AccessDeniedHTTP(r) {", New: "\t\tif html != \"\" {\n\t\t\tio.WriteString(w, html)\n\t\t}\n\t\tt = &route.Target{URL: r.URL}\n\t}\n\n\tif t.AccessDeniedHTTP(r) {", Expect: "C07.G1"},
			{Name: "no-route status constant", File: "proxy/http_proxy.go", Old: "\t\tstatus := p.Config.NoRouteStatus\n", New: "\t\tstatus := 404\n", Expect: "C07.N1"},
			{Name: "Director also sets req.Method", File: "proxy/http_handler.go", Old: "\t\t\treq.URL.RawQuery = target.RawQuery\n", New: "\t\t\treq.URL.RawQuery = target.RawQuery\n\t\t\treq.Method = \"GET\"\n", Expect: "C07.D1"},
			{Name: "Director drops a request header", File: "proxy/http_handler.go", Old: "\t\t\treq.URL.RawQuery = target.RawQuery\n", New: "\t\t\treq.URL.RawQuery = target.RawQuery\n\t\t\treq.Header.Del(\"Cookie\")\n", Expect: "C07."},
			{Name: "ServeHTTP deletes Authorization", File: "proxy/http_proxy.go", Old: "\t//Add OpenTrace Headers to response\n", New: "\tr.Header.Del(\"Authorization\")\n\t//Add OpenTrace Headers to response\n", Expect: "C07.H1"},
			{Name: "unconditional Host rewrite", File: "proxy/http_proxy.go", Old: "\tif t.Host == \"dst\" {\n\t\tr.Host = targetURL.Host\n\t} else if t.Host != \"\" {\n\t\tr.Host = t.Host\n\t}", New: "\tr.Host = targetURL.Host", Expect: "C07.H2"},
			{Name: "drop the absolute-path fix after prepend", File: "proxy/http_proxy.go", Old: "\t\t\ttargetURL.RawPath = t.PrependPath + targetURL.RawPath\n\t\t}\n\t\t// ensure absolute path after stripping to maintain compliance with\n\t\t// section 5.3 of RFC7230 (https://tools.ietf.org/html/rfc7230#section-5.3)\n\t\tif !strings.HasPrefix(targetURL.Path, \"/\") {\n\t\t\ttargetURL.Path = \"/\" + targetURL.Path\n\t\t}", New: "\t\t\ttargetURL.RawPath = t.PrependPath + targetURL.RawPath\n\t\t}", Expect: "C07.U2"},
			{Name: "prepend not applied to RawPath", File: "proxy/http_proxy.go", Old: "\t\tif targetURL.RawPath != \"\" {\n\t\t\ttargetURL.RawPath = t.PrependPath + targetURL.RawPath\n\t\t}\n", New: "", Expect: "C07.U1"},
			{Name: "strip not applied to RawPath", File: "proxy/http_proxy.go", Old: "\t\tif strings.HasPrefix(targetURL.RawPath, t.StripPath) {\n\t\t\ttargetURL.RawPath = targetURL.RawPath[len(t.StripPath):]\n\t\t} else {\n\t\t\ttargetURL.RawPath = \"\"\n\t\t}\n", New: "", Expect: "C07.U1"},
			{Name: "Director leaves the client's RawPath", File: "proxy/http_handler.go", Old: "\t\t\treq.URL.RawPath = target.RawPath\n", New: "", Expect: "C07.U1"},
			{Name: "swap query operands", File: "proxy/http_proxy.go", Old: "targetURL.RawQuery = t.URL.RawQuery + \"&\" + r.URL.RawQuery", New: "targetURL.RawQuery = r.URL.RawQuery + \"&\" + t.URL.RawQuery", Expect: "C07.Q1"},
			{Name: "responseWriter.Write forwards a shorter slice", File: "proxy/http_proxy.go", Old: "\tn, err := rw.w.Write(b)\n", New: "\tn, err := rw.w.Write(b[:len(b)/2])\n", Expect: "C07.W1"},
			{Name: "responseWriter changes the status", File: "proxy/http_proxy.go", Old: "\trw.w.WriteHeader(statusCode)\n", New: "\tif statusCode == 404 {\n\t\tstatusCode = 200\n\t}\n\trw.w.WriteHeader(statusCode)\n", Expect: "C07.W1"},
			{Name: "only the first WriteHeader is forwarded", File: "proxy/http_proxy.go", Old: "func (rw *responseWriter) WriteHeader(statusCode int) {\n", New: "func (rw *responseWriter) WriteHeader(statusCode int) {\n\tif rw.code != 0 {\n\t\treturn\n\t}\n", Expect: "C07.W1"},
			{Name: "body replaced", File: "proxy/http_proxy.go", Old: "\t//Add OpenTrace Headers to response\n", New: "\tr.Body = http.NoBody\n\t//Add OpenTrace Headers to response\n", Expect: "C07.H1"},
			{Name: "benign: reorder independent statements", File: "proxy/http_proxy.go", Old: "\taccept := r.Header.Get(\"Accept\")\n\n\ttr := p.Transport", New: "\ttr := p.Transport\n\taccept := r.Header.Get(\"Accept\")\n", Expect: ""},
		},
	})
}

var managedRequestHeaders = map[string]bool{
	"X-Real-Ip": true, "X-Forwarded-For": true, "X-Forwarded-Proto": true, "X-Forwarded-Port": true,
	"X-Forwarded-Host": true, "X-Forwarded-Prefix": true, "Forwarded": true, "User-Agent": true,
}
var managedHeaderConfig = map[string]bool{"RequestID": true, "ClientIPHeader": true, "TLSHeader": true}

func runC07(c *Ctx) {
	c07lastURL = nil
	serve := c.method("proxy", "HTTPProxy", "ServeHTTP")
	if !c.need("C07.G1", serve, "proxy.HTTPProxy.ServeHTTP") {
		return
	}
	c07buildFields(c.AllFns)
	runC07G1(c, serve)
	runC07N1(c, serve)
	directors := runC07D1(c)
	runC07H(c, serve)
	runC07U(c, serve, directors)
	runC07W1(c)
	if os.Getenv("C07_DEBUG") != "" {
		for _, o := range c.Obs {
			fmt.Fprintf(os.Stderr, "C07DBG %-10s %-8s %-28s %s\n", o.Status, o.Rule, o.Pos, o.Construct)
		}
	}
}

func isReqParam(v ssa.Value) bool {
	p, ok := v.(*ssa.Parameter)
	return ok && typeStr(p.Type()) == "*net/http.Request"
}

// runC07N1: the no-route edge. Sites are found by role - a WriteHeader on a response writer at a point where the
// looked-up target is known to be nil - anywhere in the region of ServeHTTP (the branch may have been extracted).
func runC07N1(c *Ctx, serve *ssa.Function) {
	reg := c07region(3, serve)
	isBodyWrite := func(j ssa.Instruction) bool {
		jc := callCommon(j)
		if jc == nil {
			return false
		}
		isWrite := false
		switch calleeName(jc) {
		case "io.WriteString", "fmt.Fprint", "fmt.Fprintf", "io.Copy":
			isWrite = true
		}
		if jc.IsInvoke() && (jc.Method.Name() == "Write" || jc.Method.Name() == "WriteString") {
			isWrite = true
		}
		if !isWrite {
			return false
		}
		for _, a := range jc.Args {
			if c07comesFrom(a, func(v ssa.Value) bool { _, ok := isCallTo(v, repoMod+"/noroute.GetHTML"); return ok }) {
				return true
			}
		}
		return false
	}
	n := 0
	eachInstrOf(reg, func(f *ssa.Function, i ssa.Instruction) {
		cc := callCommon(i)
		if cc == nil || !cc.IsInvoke() || cc.Method.Name() != "WriteHeader" || len(cc.Args) != 1 {
			return
		}
		if !c07knownNil(i.Block()) {
			return
		}
		n++
		// status: Config.NoRouteStatus, with the constant 404 as the only alternative (the out-of-range fallback)
		okCfg, ok404, other := false, false, ""
		leaves, complete := c07leavesAll(cc.Args[0])
		if !complete {
			other = "too many sources"
		}
		for _, l := range leaves {
			if _, isF := fieldOf(l, "config.Proxy", "NoRouteStatus"); isF {
				okCfg = true
			} else if k, isK := constInt(l); isK && k == 404 {
				ok404 = true
			} else {
				other = shortPath(l)
			}
		}
		_ = ok404 // no clamp is needed when config validation guarantees the range
		c.check("C07.N1", "proxy.(*HTTPProxy).ServeHTTP|no-route status from Config.NoRouteStatus", i.Pos(), okCfg && other == "",
			"a request without a route must be answered with the configured proxy.noroutestatus (404 only as the fallback for an out-of-range value)"+map[bool]string{true: "; found " + other, false: ""}[other != ""])
		// the body is the configured page, written after the status on the same edge
		body := false
		eachInstrOf(reg, func(g *ssa.Function, j ssa.Instruction) {
			if body || !isBodyWrite(j) || !c07knownNil(j.Block()) {
				return
			}
			if g != f || canReach(i, j) {
				body = true
			}
		})
		c.check("C07.N1", "proxy.(*HTTPProxy).ServeHTTP|no-route body is the configured page", i.Pos(), body, "the no-route body must be noroute.GetHTML()")
	})
	c.atLeast("C07.N1", "WriteHeader on the no-route edge", n, 1)
}

// runC07D1: the reverse proxy and its Director, wherever they are built in package proxy. Returns the Director
// functions (closures, named functions or methods).
func runC07D1(c *Ctx) []*ssa.Function {
	var directors []*ssa.Function
	n := 0
	fns := c07proxyFns(c)
	// a reverse proxy that is built by one function and completed by another (`rp := newReverseProxy(tr);
	// rp.Director = u.direct`): the stores to a field of a ReverseProxy that is not allocated where the store is
	late := map[string][]*ssa.Store{}
	eachInstrOf(fns, func(_ *ssa.Function, i ssa.Instruction) {
		if st, ok := i.(*ssa.Store); ok {
			if fa, ok := st.Addr.(*ssa.FieldAddr); ok && namedIs(fa.X.Type(), "httputil.ReverseProxy") {
				if _, local := fa.X.(*ssa.Alloc); !local {
					fname := fieldName(fa.X.Type(), fa.Field)
					late[fname] = append(late[fname], st)
				}
			}
		}
	})
	storesOf := func(a *ssa.Alloc, fs map[string][]*ssa.Store, field string) []*ssa.Store {
		if len(fs[field]) > 0 {
			return fs[field]
		}
		var out []*ssa.Store
		for _, st := range late[field] {
			for _, l := range c07leaves(st.Addr.(*ssa.FieldAddr).X) {
				if l == ssa.Value(a) {
					out = append(out, st)
					break
				}
			}
		}
		return out
	}
	for _, f := range fns {
		for _, a := range allocsOf(f, "httputil.ReverseProxy") {
			n++
			fs := fieldStores(a)
			// FlushInterval: what the caller chose (a parameter), i.e. one of the configured flush intervals; the value may
			// have travelled through a field of a struct (c07_fields.go)
			okFlush := false
			for _, st := range storesOf(a, fs, "FlushInterval") {
				ls, complete := c07leavesAll(st.Val)
				okFlush = len(ls) > 0 && complete
				for _, l := range ls {
					_, isP := l.(*ssa.Parameter)
					_, isF1 := fieldOf(l, "config.Proxy", "FlushInterval")
					_, isF2 := fieldOf(l, "config.Proxy", "GlobalFlushInterval")
					if !isP && !isF1 && !isF2 {
						okFlush = false
					}
				}
				if !okFlush {
					break
				}
			}
			c.check("C07.D1", fnKey(f)+"|ReverseProxy.FlushInterval from the parameter", a.Pos(), okFlush, "the flush interval chosen by ServeHTTP (SSE vs. global) must reach the reverse proxy")
			nd := 0
			for _, st := range storesOf(a, fs, "Director") {
				ds := c07funcsOf(st.Val)
				if len(ds) == 0 {
					c.check("C07.D1", fnKey(f)+"|Director", st.Pos(), false, "the Director must be a function of this repository whose body can be inspected")
					continue
				}
				for _, d := range ds {
					nd++
					directors = append(directors, d)
					c07checkDirector(c, d)
				}
			}
			c.atLeast("C07.D1", "Director functions", nd, 1)
		}
	}
	c.atLeast("C07.D1", "ReverseProxy values built in package proxy", n, 1)
	return directors
}

func c07checkDirector(c *Ctx, d *ssa.Function) {
	allowedURL := map[string]bool{"Scheme": true, "Host": true, "Path": true, "RawPath": true, "RawQuery": true}
	eachInstrOf(c.region(d), func(g *ssa.Function, i ssa.Instruction) {
		if st, ok := i.(*ssa.Store); ok {
			if fa, ok := st.Addr.(*ssa.FieldAddr); ok {
				fname := fieldName(fa.X.Type(), fa.Field)
				switch {
				case namedIs(fa.X.Type(), "url.URL"):
					c.check("C07.D1", fnKey(d)+"|store req.URL."+fname, st.Pos(), allowedURL[fname], "the Director may rewrite only Scheme, Host, Path, RawPath and RawQuery of the outgoing URL")
				case namedIs(fa.X.Type(), "http.Request"):
					c.check("C07.D1", fnKey(d)+"|store req."+fname, st.Pos(), false, "the Director must not change the request's "+fname+": method, body and end-to-end headers reach the upstream unchanged")
				}
			}
		}
		if mu, ok := i.(*ssa.MapUpdate); ok && typeStr(mu.Map.Type()) == "net/http.Header" {
			k, _ := constString(mu.Key)
			c.check("C07.D1", fnKey(d)+"|Header["+k+"] =", i.Pos(), c07canonical(k) == "User-Agent", "the Director may only pin User-Agent; every other header is the client's")
		}
		if m, _, key, isOp := c07headerOp(i); isOp {
			if key == nil {
				c.check("C07.D1", fnKey(d)+"|"+m+" on a header map", i.Pos(), false, "the Director may only pin User-Agent; a bulk change of a header map drops or replaces the client's headers")
				return
			}
			ls, ok := c07leavesAll(key)
			what := ""
			for _, l := range ls {
				k, isK := constString(l)
				if !isK {
					ok, what = false, "non-constant key"
				} else if what = k; c07canonical(k) != "User-Agent" {
					ok = false
				}
			}
			c.check("C07.D1", fnKey(d)+"|Header."+m+"("+what+")", i.Pos(), ok, "the Director may only pin User-Agent (to keep net/http from adding its default); every other header is the client's")
		}
	})
}

// requestHeaderOf: v is the Header field of an *http.Request value (parameter or request-derived).
func isRequestHeader(v ssa.Value) bool {
	_, ok := fieldOf(v, "http.Request", "Header")
	return ok
}

// c07isRequestHeader: v may denote a request's header map - directly, or as a helper's parameter / a local that
// receives one.
func c07isRequestHeader(v ssa.Value) bool {
	if isRequestHeader(v) {
		return true
	}
	if t := typeStr(v.Type()); t != "net/http.Header" && t != "net/textproto.MIMEHeader" {
		return false
	}
	for _, l := range c07leaves(v) {
		if ct, ok := l.(*ssa.ChangeType); ok {
			l = ct.X
		}
		if isRequestHeader(l) {
			return true
		}
	}
	return false
}

// c07managedKey: every value the key can take is a managed header name: a constant of the managed set or one of
// the configured header names (a helper's parameter stands for the arguments of its calls).
func c07managedKey(key ssa.Value) (bool, string) {
	ok, what := true, ""
	ls, complete := c07leavesAll(key)
	if len(ls) == 0 || !complete {
		return false, shortPath(key)
	}
	for _, l := range ls {
		// a key that is canonicalised first: the name is what goes in
		if call, isCanon := isCallTo(l, "net/http.CanonicalHeaderKey", "net/textproto.CanonicalMIMEHeaderKey"); isCanon && len(call.Call.Args) == 1 {
			if ok2, what2 := c07managedKey(call.Call.Args[0]); !ok2 {
				return false, what2
			} else {
				what = what2
			}
			continue
		}
		if k, isK := constString(l); isK {
			what = k
			if !managedRequestHeaders[c07canonical(k)] {
				return false, k
			}
			continue
		}
		isCfg := false
		for fn := range managedHeaderConfig {
			if _, isF := fieldOf(l, "config.Proxy", fn); isF {
				isCfg, what = true, "Config."+fn
			}
		}
		if !isCfg {
			return false, shortPath(l)
		}
	}
	return ok, what
}

func runC07H(c *Ctx, serve *ssa.Function) {
	sp := c.spkg("proxy")
	scope := map[*ssa.Function]bool{}
	// the functions of package proxy the client's request can travel through (c07_scope.go): the call graph's reach
	// of ServeHTTP, restricted to functions that can hold a request, so that an over-approximated call of a
	// func() value does not drag in unrelated code that builds a request of its own (the gRPC table lookup).
	// A handler the request is handed to (the websocket handler as a closure or as a type with its own ServeHTTP)
	// is part of the way upstream.
	for f := range c07requestReach(c, serve) {
		if rootPkg(f) == sp {
			scope[f] = true
		}
	}
	for _, f := range c.region(serve) {
		scope[f] = true
	}
	var fns []*ssa.Function
	for f := range scope {
		fns = append(fns, f)
	}
	sort.Slice(fns, func(i, j int) bool { return fns[i].String() < fns[j].String() })
	nH := 0
	eachInstrOf(fns, func(f *ssa.Function, i ssa.Instruction) {
		// header method calls on the request's header (also as a method value `set := r.Header.Set`, through
		// textproto.MIMEHeader, delete / clear / maps.Copy)
		if m, hdr, key, isOp := c07headerOp(i); isOp && c07isRequestHeader(hdr) {
			nH++
			if key == nil {
				c.check("C07.H1", fnKey(f)+"|request header "+m, i.Pos(), false,
					"a bulk change of the request's header map ("+m+") drops or replaces end-to-end headers of the client")
			} else {
				ok, what := c07managedKey(key)
				c.check("C07.H1", fnKey(f)+"|request Header."+m+"("+what+")", i.Pos(), ok,
					"only the forwarding headers fabio manages may be changed on the request; any other end-to-end header of the client must reach the upstream unchanged")
			}
		}
		// direct map stores r.Header[k] = v
		if mu, ok := i.(*ssa.MapUpdate); ok && c07isRequestHeader(mu.Map) {
			nH++
			ok, what := c07managedKey(mu.Key)
			c.check("C07.H1", fnKey(f)+"|request Header["+what+"] =", i.Pos(), ok, "direct store into the request's header map outside the managed set")
		}
		// stores to request fields
		if st, ok := i.(*ssa.Store); ok {
			if fa, ok := st.Addr.(*ssa.FieldAddr); ok && namedIs(fa.X.Type(), "http.Request") {
				fname := fieldName(fa.X.Type(), fa.Field)
				switch fname {
				case "Host", "URL":
					// Host: H2; URL: the websocket path installs the target URL
				default:
					c.check("C07.H1", fnKey(f)+"|store r."+fname, i.Pos(), false, "the request's "+fname+" must reach the upstream unchanged")
				}
			}
		}
	})
	c.atLeast("C07.H1", "mutations of the request header map", nH, 1)

	// H2: the Host is replaced only under a test that depends on the route's host option
	isHostOpt := func(v ssa.Value) bool { _, ok := fieldOf(v, "route.Target", "Host"); return ok }
	nHost := 0
	eachInstrOf(fns, func(f *ssa.Function, i ssa.Instruction) {
		st, ok := i.(*ssa.Store)
		if !ok {
			return
		}
		if _, isHost := fieldOf(st.Addr, "http.Request", "Host"); !isHost {
			return
		}
		if _, isAddr := st.Addr.(*ssa.FieldAddr); !isAddr {
			return
		}
		nHost++
		// on every path to the store some branch was decided by the route's host option
		dep := c07holdsBlock(st.Block(), func(ft Fact) bool { return c07hostOptSet(ft, isHostOpt) }, map[*ssa.BasicBlock]bool{})
		c.check("C07.H2", fnKey(f)+"|r.Host rewritten only when the route asks for it", st.Pos(), dep,
			"the Host header may be replaced only under a test of the route's host option (host=dst / host=<name>); otherwise the upstream must see the Host the client sent")
	})
	c.atLeast("C07.H2", "stores to r.Host", nHost, 1)
}

// c07hostOptSet: the branch fact was decided by the route's host option and does not say that the option is unset:
// a direct comparison of the option with a constant must leave it non-empty (`== "dst"` true, `!= ""` true, `== ""`
// false, `len(..) > 0`); an opaque verdict computed from the option (a helper's `ok`) is taken as it is.
func c07hostOptSet(ft Fact, isHostOpt func(ssa.Value) bool) bool {
	if !c07comesFrom(ft.Cond, isHostOpt) {
		return false
	}
	if v, empty, ok := c07emptyFact(ft); ok && c07comesFrom(v, isHostOpt) {
		return !empty
	}
	if b, ok := ft.Cond.(*ssa.BinOp); ok && (b.Op == token.EQL || b.Op == token.NEQ) {
		x, y := b.X, b.Y
		if _, isK := x.(*ssa.Const); isK {
			x, y = y, x
		}
		if _, isK := constString(y); isK && isStringType(x.Type()) {
			// compared with a non-empty constant (the empty one was handled above): only equality tells that it is set
			return (b.Op == token.EQL) == ft.Truth
		}
	}
	return true
}

// c07lastURL: the upstream URL (alias set) found by runC07U for the program being checked; nil when it was not found.
var c07lastURL *c07url

// runC07U: U1, U2 and Q1 on the URL the Director copies into the outgoing request.
func runC07U(c *Ctx, serve *ssa.Function, directors []*ssa.Function) {
	c07lastURL = nil
	u, ok := newC07url(c, serve, directors)
	if ok {
		c07lastURL = u // the rules of c07_round4.go (U3) work on the same alias set
	}
	if !ok {
		c.undecided("C07.U1", "anchor|upstream URL", "no Director copies a URL's Path into the outgoing request and no URL is installed in the request: the URL sent upstream was not found")
		return
	}
	_, pathOnly := c07directorSources(c, directors)
	u.runU(pathOnly, serve.Pos())
	u.runQ1()
}

// runC07W1: wrappers implementing http.ResponseWriter forward unchanged.
func runC07W1(c *Ctx) {
	n := 0
	for _, sp := range []*ssa.Package{c.spkg("proxy"), c.spkg("proxy/gzip")} {
		if sp == nil {
			continue
		}
		for _, m := range sp.Members {
			t, ok := m.(*ssa.Type)
			if !ok {
				continue
			}
			st, ok := t.Type().Underlying().(*types.Struct)
			if !ok {
				continue
			}
			// has a field of type http.ResponseWriter and a Write method
			inner := ""
			for k := 0; k < st.NumFields(); k++ {
				if typeStr(st.Field(k).Type()) == "net/http.ResponseWriter" {
					inner = st.Field(k).Name()
				}
			}
			if inner == "" {
				continue
			}
			name := sp.Pkg.Name() + "." + t.Name()
			if name == "gzip.GzipResponseWriter" || c07holdsCompressor(st) {
				continue // a compressing writer: its Write/WriteHeader are decided by C17 (compress or pass-through)
			}
			n++
			for _, mn := range []string{"Write", "WriteHeader", "Header"} {
				f := c.method(strings.TrimPrefix(sp.Pkg.Path(), repoMod+"/"), t.Name(), mn)
				if f == nil {
					continue // promoted from the embedded writer
				}
				fwd := false
				// the forwarding call may sit in the method itself or in a helper / another method of the wrapper that it
				// delegates to (`func (rw *responseWriter) WriteHeader(code int) { rw.record(code) }`)
				eachInstrOf(c.region(f), func(g *ssa.Function, i ssa.Instruction) {
					cc := callCommon(i)
					if cc == nil || !cc.IsInvoke() || cc.Method.Name() != mn {
						return
					}
					if _, isInner := fieldOf(cc.Value, name, inner); !isInner {
						return
					}
					// all arguments are the method's own parameters, in order
					same := len(cc.Args) == len(f.Params)-1
					for k := range cc.Args {
						if !same {
							break
						}
						if g == f {
							same = c07sameParam(cc.Args[k], f.Params[k+1])
						} else {
							same = c07onlyParam(cc.Args[k], f.Params[k+1])
						}
					}
					if same {
						fwd = true
					}
					// and every return hands the wrapped results back
					if same && mn != "WriteHeader" {
						eachInstr(f, func(j ssa.Instruction) {
							r, ok := j.(*ssa.Return)
							if !ok {
								return
							}
							for _, res := range r.Results {
								if !derives(res, func(v ssa.Value) bool { return v == i.(ssa.Value) }) {
									fwd = false
								}
							}
						})
					}
				})
				if fwd && !forwardsOnEveryPath(f, mn, func(v ssa.Value) bool { _, ok := fieldOf(v, name, inner); return ok }) {
					fwd = false
				}
				c.check("C07.W1", "(*"+name+")."+mn+"|forwards unchanged to the wrapped writer", f.Pos(), fwd,
					"a response-writer wrapper must pass "+mn+"'s arguments to the wrapped writer exactly as received, on every path, and return its results: the client must get the upstream's status, headers and bytes unchanged (httputil.ReverseProxy calls WriteHeader once per 1xx response and again for the final status — a wrapper that forwards only the first call turns the final status into 200)")
			}
		}
	}
	c.atLeast("C07.W1", "http.ResponseWriter wrappers", n, 1)
}

// c07holdsCompressor: the struct has a field that is a compress/* writer.
func c07holdsCompressor(st *types.Struct) bool {
	for k := 0; k < st.NumFields(); k++ {
		if strings.Contains(typeStr(st.Field(k).Type()), "compress/") {
			return true
		}
	}
	return false
}

// c07onlyParam: every value the argument of a forwarding call inside a helper can take is the parameter p of the
// wrapper's method (the helper's own parameter stands for what its callers pass).
func c07onlyParam(arg ssa.Value, p *ssa.Parameter) bool {
	ls, complete := c07leavesAll(arg)
	if !complete || len(ls) == 0 {
		return false
	}
	for _, l := range ls {
		if !c07sameParam(l, p) {
			return false
		}
	}
	return true
}

// c07sameParam: arg is the parameter itself, or a load of the local cell the parameter was spilled into (a parameter
// captured by a closure lives in a cell that is written once, on entry).
func c07sameParam(arg ssa.Value, p *ssa.Parameter) bool {
	if arg == p {
		return true
	}
	u, ok := arg.(*ssa.UnOp)
	if !ok || u.Op != token.MUL {
		return false
	}
	a, ok := u.X.(*ssa.Alloc)
	if !ok || a.Referrers() == nil {
		return false
	}
	n := 0
	for _, r := range *a.Referrers() {
		switch x := r.(type) {
		case *ssa.Store:
			if x.Addr == a {
				n++
				if x.Val != p {
					return false
				}
			}
		case *ssa.MakeClosure:
			// a closure sharing the cell must not write it
			fn, _ := x.Fn.(*ssa.Function)
			for k, b := range x.Bindings {
				if b != a || fn == nil || k >= len(fn.FreeVars) || fn.FreeVars[k].Referrers() == nil {
					continue
				}
				for _, fr := range *fn.FreeVars[k].Referrers() {
					if st, ok := fr.(*ssa.Store); ok && st.Addr == fn.FreeVars[k] {
						return false
					}
				}
			}
		}
	}
	return n == 1
}
