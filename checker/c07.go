package main

import (
	"go/token"
	"go/types"
	"strings"

	"golang.org/x/tools/go/ssa"
)

func init() {
	register(&propDef{
		ID:      "C07",
		Level:   "other",
		Explain: "HTTP pass-through conditions decided on every path of proxy.HTTPProxy.ServeHTTP, the Director and the response-writer wrappers: (G1) every upstream-contact site is dominated by the target != nil edge of the route lookup; (N1) the no-route edge writes a status derived from Config.NoRouteStatus (404 on the out-of-range edge) and the noroute page, then returns; (D1) the Director stores only to req.URL.{Scheme,Host,Path,RawPath,RawQuery}, touches no header but User-Agent, and the ReverseProxy literal takes Transport/FlushInterval from its parameters; (H1) every Set/Add/Del/index-store on the request's header map reachable from ServeHTTP uses a key from the managed set (the forwarding headers, User-Agent, and the configured request-id / client-ip / TLS header names), and nothing stores to the request's Method, Body, Proto, ContentLength or TransferEncoding; (H2) every store to r.Host is control-dependent on a test of Target.Host; (U1) a function that stores a sliced/concatenated request path into a url.URL.Path sent upstream applies the same transformation to RawPath (the client's percent-encoding must survive strip/prepend); (U2) every transformed path is followed, on every path, by the absolute-path normalisation; (Q1) the route's query is the left operand of the merged query, the request's the right; (W1) every wrapper implementing http.ResponseWriter forwards Header/Write/WriteHeader arguments unchanged and returns the wrapped results. Not decided: body bytes, chunking and hop-by-hop header handling (delegated to net/http/httputil.ReverseProxy).",
		Run:     runC07,
		Trusted: []string{"net/http/httputil.ReverseProxy copies method, body and end-to-end headers unchanged and removes hop-by-hop headers", "url.URL.EscapedPath uses RawPath only when it is a valid encoding of Path"},
		Mutants: []mutant{
			{Name: "no-route branch falls through to proxying", File: "proxy/http_proxy.go", Old: "\t\tif html != \"\" {\n\t\t\tio.WriteString(w, html)\n\t\t}\n\t\treturn\n\t}\n\n\tif t.AccessDeniedHTTP(r) {", New: "\t\tif html != \"\" {\n\t\t\tio.WriteString(w, html)\n\t\t}\n\t\tt = &route.Target{URL: r.URL}\n\t}\n\n\tif t.AccessDeniedHTTP(r) {", Expect: "C07.G1"},
			{Name: "no-route status constant", File: "proxy/http_proxy.go", Old: "\t\tstatus := p.Config.NoRouteStatus\n", New: "\t\tstatus := 404\n", Expect: "C07.N1"},
			{Name: "Director also sets req.Method", File: "proxy/http_handler.go", Old: "\t\t\treq.URL.RawQuery = target.RawQuery\n", New: "\t\t\treq.URL.RawQuery = target.RawQuery\n\t\t\treq.Method = \"GET\"\n", Expect: "C07.D1"},
			{Name: "Director drops a request header", File: "proxy/http_handler.go", Old: "\t\t\treq.URL.RawQuery = target.RawQuery\n", New: "\t\t\treq.URL.RawQuery = target.RawQuery\n\t\t\treq.Header.Del(\"Cookie\")\n", Expect: "C07."},
			{Name: "ServeHTTP deletes Authorization", File: "proxy/http_proxy.go", Old: "\t//Add OpenTrace Headers to response\n", New: "\tr.Header.Del(\"Authorization\")\n\t//Add OpenTrace Headers to response\n", Expect: "C07.H1"},
			{Name: "unconditional Host rewrite", File: "proxy/http_proxy.go", Old: "\tif t.Host == \"dst\" {\n\t\tr.Host = targetURL.Host\n\t} else if t.Host != \"\" {\n\t\tr.Host = t.Host\n\t}", New: "\tr.Host = targetURL.Host", Expect: "C07.H2"},
			{Name: "drop the absolute-path fix after prepend", File: "proxy/http_proxy.go", Old: "\t\t\ttargetURL.RawPath = t.PrependPath + targetURL.RawPath\n\t\t}\n\t\t// ensure absolute path after stripping to maintain compliance with\n\t\t// section 5.3 of RFC7230 (https://tools.ietf.org/html/rfc7230#section-5.3)\n\t\tif !strings.HasPrefix(targetURL.Path, \"/\") {\n\t\t\ttargetURL.Path = \"/\" + targetURL.Path\n\t\t}", New: "\t\t\ttargetURL.RawPath = t.PrependPath + targetURL.RawPath\n\t\t}", Expect: "C07.U2"},
			{Name: "prepend not applied to RawPath", File: "proxy/http_proxy.go", Old: "\t\tif targetURL.RawPath != \"\" {\n\t\t\ttargetURL.RawPath = t.PrependPath + targetURL.RawPath\n\t\t}\n", New: "", Expect: "C07.U1"},
			{Name: "strip not applied to RawPath", File: "proxy/http_proxy.go", Old: "\t\tif strings.HasPrefix(targetURL.RawPath, t.StripPath) {\n\t\t\ttargetURL.RawPath = targetURL.RawPath[len(t.StripPath):]\n\t\t} else {\n\t\t\ttargetURL.RawPath = \"\"\n\t\t}\n", New: "", Expect: "C07.U1"},
			{Name: "Director leaves the client's RawPath", File: "proxy/http_handler.go", Old: "\t\t\treq.URL.RawPath = target.RawPath\n", New: "", Expect: "C07.U1"},
			{Name: "swap query operands", File: "proxy/http_proxy.go", Old: "targetURL.RawQuery = t.URL.RawQuery + \"&\" + r.URL.RawQuery", New: "targetURL.RawQuery = r.URL.RawQuery + \"&\" + t.URL.RawQuery", Expect: "C07.Q1"},
			{Name: "responseWriter.Write forwards a shorter slice", File: "proxy/http_proxy.go", Old: "\tn, err := rw.w.Write(b)\n", New: "\tn, err := rw.w.Write(b[:len(b)/2])\n", Expect: "C07.W1"},
			{Name: "responseWriter changes the status", File: "proxy/http_proxy.go", Old: "\trw.w.WriteHeader(statusCode)\n", New: "\tif statusCode == 404 {\n\t\tstatusCode = 200\n\t}\n\trw.w.WriteHeader(statusCode)\n", Expect: "C07.W1"},
			{Name: "only the first WriteHeader is forwarded", File: "proxy/http_proxy.go", Old: "func (rw *responseWriter) WriteHeader(statusCode int) {\n", New: "func (rw *responseWriter) WriteHeader(statusCode int) {\n\tif rw.code != 0 {\n\t\treturn\n\t}\n", Expect: "C07.W1"},
			{Name: "body replaced", File: "proxy/http_proxy.go", Old: "\t//Add OpenTrace Headers to response\n", New: "\tr.Body = http.NoBody\n\t//Add OpenTrace Headers to response\n", Expect: "C07.H1"},
			{Name: "benign: reorder independent statements", File: "proxy/http_proxy.go", Old: "\taccept := r.Header.Get(\"Accept\")\n\n\ttr := p.Transport", New: "\ttr := p.Transport\n\taccept := r.Header.Get(\"Accept\")\n", Expect: ""},
		},
	})
}

var managedRequestHeaders = map[string]bool{
	"X-Real-Ip": true, "X-Forwarded-For": true, "X-Forwarded-Proto": true, "X-Forwarded-Port": true,
	"X-Forwarded-Host": true, "X-Forwarded-Prefix": true, "Forwarded": true, "User-Agent": true,
}
var managedHeaderConfig = map[string]bool{"RequestID": true, "ClientIPHeader": true, "TLSHeader": true}

func runC07(c *Ctx) {
	runGateHTTP(c, "C07.G1", false)
	serve := c.method("proxy", "HTTPProxy", "ServeHTTP")
	if serve == nil {
		return
	}
	runC07N1(c, serve)
	runC07D1(c)
	runC07H(c, serve)
	runC07U(c, serve)
	runC07Q1(c, serve)
	runC07W1(c)
}

func isReqParam(v ssa.Value) bool {
	p, ok := v.(*ssa.Parameter)
	return ok && typeStr(p.Type()) == "*net/http.Request"
}

func runC07N1(c *Ctx, serve *ssa.Function) {
	// the block(s) where the looked-up target is known nil
	n := 0
	eachInstr(serve, func(i ssa.Instruction) {
		cc := callCommon(i)
		if cc == nil || !cc.IsInvoke() || cc.Method.Name() != "WriteHeader" {
			return
		}
		if !knownNil(i.Block(), isLookupFieldCall) {
			return
		}
		n++
		// status: merge of Config.NoRouteStatus and the constant 404, the 404 on a range-test edge
		okCfg, ok404 := false, false
		for _, d := range defsOf(cc.Args[0]) {
			if _, isF := fieldOf(d.Val, "config.Proxy", "NoRouteStatus"); isF {
				okCfg = true
			}
			if k, isK := constInt(d.Val); isK && k == 404 {
				ok404 = true
			}
		}
		if _, isF := fieldOf(cc.Args[0], "config.Proxy", "NoRouteStatus"); isF {
			okCfg, ok404 = true, true // no clamp needed when config validation guarantees the range
		}
		c.check("C07.N1", "proxy.(*HTTPProxy).ServeHTTP|no-route status from Config.NoRouteStatus", i.Pos(), okCfg && ok404,
			"a request without a route must be answered with the configured proxy.noroutestatus (404 only as the fallback for an out-of-range value)")
		// followed by return on every path, body from noroute.GetHTML
		body := false
		eachInstr(serve, func(j ssa.Instruction) {
			if pathAvoiding(i, j, nil) {
				if jc := callCommon(j); jc != nil && calleeName(jc) == "io.WriteString" && len(jc.Args) == 2 {
					if derives(jc.Args[1], func(v ssa.Value) bool { _, ok := isCallTo(v, repoMod+"/noroute.GetHTML"); return ok }) {
						body = true
					}
				}
			}
		})
		c.check("C07.N1", "proxy.(*HTTPProxy).ServeHTTP|no-route body is the configured page", i.Pos(), body, "the no-route body must be noroute.GetHTML()")
	})
	c.atLeast("C07.N1", "WriteHeader on the no-route edge", n, 1)
}

func runC07D1(c *Ctx) {
	sp := c.spkg("proxy")
	n := 0
	for _, f := range c.AllFns {
		if rootPkg(f) != sp {
			continue
		}
		for _, a := range allocsOf(f, "httputil.ReverseProxy") {
			n++
			fs := fieldStores(a)
			// FlushInterval from a parameter
			okFlush := false
			for _, st := range fs["FlushInterval"] {
				if _, isP := st.Val.(*ssa.Parameter); isP {
					okFlush = true
				}
			}
			c.check("C07.D1", fnKey(f)+"|ReverseProxy.FlushInterval from the parameter", a.Pos(), okFlush, "the flush interval chosen by ServeHTTP (SSE vs. global) must reach the reverse proxy")
			for _, st := range fs["Director"] {
				mc, ok := st.Val.(*ssa.MakeClosure)
				if !ok {
					c.check("C07.D1", fnKey(f)+"|Director", st.Pos(), false, "Director must be the local closure")
					continue
				}
				d := mc.Fn.(*ssa.Function)
				allowedURL := map[string]bool{"Scheme": true, "Host": true, "Path": true, "RawPath": true, "RawQuery": true}
				eachInstr(d, func(i ssa.Instruction) {
					switch x := i.(type) {
					case *ssa.Store:
						fa, ok := x.Addr.(*ssa.FieldAddr)
						if !ok {
							return
						}
						fname := fieldName(fa.X.Type(), fa.Field)
						switch {
						case namedIs(fa.X.Type(), "url.URL"):
							c.check("C07.D1", fnKey(d)+"|store req.URL."+fname, x.Pos(), allowedURL[fname], "the Director may rewrite only Scheme, Host, Path, RawPath and RawQuery of the outgoing URL")
						case namedIs(fa.X.Type(), "http.Request"):
							c.check("C07.D1", fnKey(d)+"|store req."+fname, x.Pos(), false, "the Director must not change the request's "+fname+": method, body and end-to-end headers reach the upstream unchanged")
						}
					}
					for _, m := range []string{"Set", "Add", "Del"} {
						if k, _, ok := headerCall(i, m); ok {
							c.check("C07.D1", fnKey(d)+"|Header."+m+"("+k+")", i.Pos(), k == "User-Agent", "the Director may only pin User-Agent (to keep net/http from adding its default); every other header is the client's")
						} else if cc := callCommon(i); cc != nil && calleeName(cc) == "(net/http.Header)."+m {
							c.check("C07.D1", fnKey(d)+"|Header."+m+"(non-constant key)", i.Pos(), false, "header mutation with a computed key in the Director")
						}
					}
				})
			}
			c.atLeast("C07.D1", "Director closures", len(fs["Director"]), 1)
		}
	}
	c.atLeast("C07.D1", "ReverseProxy literals", n, 1)
}

// requestHeaderOf: v is the Header field of an *http.Request value (parameter or request-derived).
func isRequestHeader(v ssa.Value) bool {
	_, ok := fieldOf(v, "http.Request", "Header")
	return ok
}

func runC07H(c *Ctx, serve *ssa.Function) {
	sp := c.spkg("proxy")
	scope := map[*ssa.Function]bool{}
	for f := range c.reach(serve) {
		if rootPkg(f) == sp {
			scope[f] = true
		}
	}
	nH := 0
	for f := range scope {
		if f.Name() == "ServeHTTP" && f != serve {
			continue // other handlers' own ServeHTTP (ws handler closures are closures, not methods)
		}
		eachInstr(f, func(i ssa.Instruction) {
			// header method calls on the request's header
			for _, m := range []string{"Set", "Add", "Del"} {
				cc := callCommon(i)
				if cc == nil || calleeName(cc) != "(net/http.Header)."+m {
					continue
				}
				if !isRequestHeader(cc.Args[0]) {
					continue
				}
				nH++
				key := cc.Args[1]
				ok, what := false, ""
				if k, isK := constString(key); isK {
					ok, what = managedRequestHeaders[k], k
				} else {
					for fn := range managedHeaderConfig {
						if _, isF := fieldOf(key, "config.Proxy", fn); isF {
							ok, what = true, "Config."+fn
						}
					}
					if !ok {
						what = shortPath(key)
					}
				}
				c.check("C07.H1", fnKey(f)+"|request Header."+m+"("+what+")", i.Pos(), ok,
					"only the forwarding headers fabio manages may be changed on the request; any other end-to-end header of the client must reach the upstream unchanged")
			}
			// direct map stores r.Header[k] = v
			if mu, ok := i.(*ssa.MapUpdate); ok && isRequestHeader(mu.Map) {
				nH++
				k, _ := constString(mu.Key)
				c.check("C07.H1", fnKey(f)+"|request Header["+k+"] =", i.Pos(), managedRequestHeaders[k], "direct store into the request's header map outside the managed set")
			}
			// stores to request fields
			if st, ok := i.(*ssa.Store); ok {
				if fa, ok := st.Addr.(*ssa.FieldAddr); ok && namedIs(fa.X.Type(), "http.Request") {
					fname := fieldName(fa.X.Type(), fa.Field)
					switch fname {
					case "Host", "URL":
						// Host: H2; URL: the websocket path installs the target URL
					default:
						c.check("C07.H1", fnKey(f)+"|store r."+fname, i.Pos(), false, "the request's "+fname+" must reach the upstream unchanged")
					}
				}
			}
		})
	}
	c.atLeast("C07.H1", "mutations of the request header map", nH, 3)

	// H2
	nHost := 0
	for f := range scope {
		eachInstr(f, func(i ssa.Instruction) {
			st, ok := i.(*ssa.Store)
			if !ok {
				return
			}
			if _, isHost := fieldOf(st.Addr, "http.Request", "Host"); !isHost {
				return
			}
			nHost++
			dep := false
			for _, ft := range factsAt(st.Block()) {
				if b, ok := ft.Cond.(*ssa.BinOp); ok {
					if _, isF := fieldOf(b.X, "route.Target", "Host"); isF {
						dep = true
					}
				}
			}
			c.check("C07.H2", fnKey(f)+"|r.Host rewritten only when the route asks for it", st.Pos(), dep,
				"the Host header may be replaced only under a test of the route's host option (host=dst / host=<name>); otherwise the upstream must see the Host the client sent")
		})
	}
	c.atLeast("C07.H2", "stores to r.Host", nHost, 2)
}

// pathTransformStores: stores into the Path field of a locally built url.URL whose value is a
// slice or concatenation (strip / prepend).
func runC07U(c *Ctx, serve *ssa.Function) {
	var target *ssa.Alloc
	for _, a := range allocsOf(serve, "url.URL") {
		if a.Comment == "complit" {
			// the one passed to newHTTPProxy
			eachInstr(serve, func(i ssa.Instruction) {
				if cc := callCommon(i); cc != nil {
					if sc := cc.StaticCallee(); sc != nil && sc.Name() == "newHTTPProxy" && len(cc.Args) > 0 && cc.Args[0] == a {
						target = a
					}
				}
			})
		}
	}
	if target == nil {
		c.undecided("C07.U1", "proxy.(*HTTPProxy).ServeHTTP|target URL literal", "the url.URL passed to newHTTPProxy was not found")
		return
	}
	fs := fieldStores(target)
	var transforms []*ssa.Store
	for _, st := range fs["Path"] {
		switch v := st.Val.(type) {
		case *ssa.Slice:
			transforms = append(transforms, st)
		case *ssa.BinOp:
			if v.Op == token.ADD {
				transforms = append(transforms, st)
			}
		}
	}
	c.atLeast("C07.U2", "path transformations (strip/prepend) on the target URL", len(transforms), 2)
	// U2: absolute-path normalisation follows each strip/prepend store
	isNormStore := func(i ssa.Instruction) bool {
		st, ok := i.(*ssa.Store)
		if !ok {
			return false
		}
		fa, ok := st.Addr.(*ssa.FieldAddr)
		if !ok || fa.X != target || fieldName(fa.X.Type(), fa.Field) != "Path" {
			return false
		}
		b, ok := st.Val.(*ssa.BinOp)
		if !ok || b.Op != token.ADD {
			return false
		}
		s, ok := constString(b.X)
		return ok && s == "/"
	}
	hasSlashTest := func(b *ssa.BasicBlock) bool {
		if len(b.Instrs) == 0 {
			return false
		}
		iff, ok := b.Instrs[len(b.Instrs)-1].(*ssa.If)
		if !ok {
			return false
		}
		call, ok := isCallTo(iff.Cond, "strings.HasPrefix")
		if !ok {
			return false
		}
		s, _ := constString(call.Call.Args[1])
		return s == "/"
	}
	isPathLoad := func(v ssa.Value) bool {
		u, ok := v.(*ssa.UnOp)
		if !ok || u.Op != token.MUL {
			return false
		}
		fa, ok := u.X.(*ssa.FieldAddr)
		return ok && fa.X == target && fieldName(fa.X.Type(), fa.Field) == "Path"
	}
	slashTestOnPath := func(b *ssa.BasicBlock) bool {
		if !hasSlashTest(b) {
			return false
		}
		iff := b.Instrs[len(b.Instrs)-1].(*ssa.If)
		call, _ := isCallTo(iff.Cond, "strings.HasPrefix")
		return call != nil && isPathLoad(call.Call.Args[0])
	}
	usesTarget := func(i ssa.Instruction) bool {
		if _, isRet := i.(*ssa.Return); isRet {
			return true
		}
		cc := callCommon(i)
		if cc == nil {
			return false
		}
		for _, a := range cc.Args {
			if a == target {
				return true
			}
		}
		return false
	}
	for _, st := range transforms {
		if isNormStore(st) {
			continue
		}
		// forward search from the transformation: a use of the URL must not be reachable unless the
		// path passed the true edge of HasPrefix(path, "/") or a normalising store
		type item struct {
			b   *ssa.BasicBlock
			idx int
		}
		seen := map[*ssa.BasicBlock]bool{}
		stack := []item{{st.Block(), instrIndex(st) + 1}}
		bad := false
		for len(stack) > 0 && !bad {
			it := stack[len(stack)-1]
			stack = stack[:len(stack)-1]
			stopped := false
			for k := it.idx; k < len(it.b.Instrs); k++ {
				in := it.b.Instrs[k]
				if isNormStore(in) {
					stopped = true
					break
				}
				if usesTarget(in) {
					bad = true
					break
				}
			}
			if stopped || bad {
				continue
			}
			succs := it.b.Succs
			if slashTestOnPath(it.b) {
				succs = it.b.Succs[1:] // the true edge is fine: the path is absolute
			}
			for _, sx := range succs {
				if !seen[sx] {
					seen[sx] = true
					stack = append(stack, item{sx, 0})
				}
			}
		}
		what := "prepend"
		if _, isSlice := st.Val.(*ssa.Slice); isSlice {
			what = "strip"
		}
		c.check("C07.U2", "proxy.(*HTTPProxy).ServeHTTP|absolute path after "+what, st.Pos(), !bad,
			"after "+what+" the upstream path can reach the proxy without passing the absolute-path normalisation (HasPrefix(path, \"/\") true, or \"/\"+path): a request target that is not origin-form is rejected or misrouted by the upstream (RFC 7230 5.3)")
	}
	// U1: the same transformation is applied to RawPath
	kind := func(v ssa.Value) string {
		switch x := v.(type) {
		case *ssa.Slice:
			return "strip"
		case *ssa.BinOp:
			if x.Op == token.ADD {
				if s, ok := constString(x.X); ok && s == "/" {
					return "abs"
				}
				return "prepend"
			}
		}
		return ""
	}
	for _, st := range transforms {
		k := kind(st.Val)
		if k == "abs" {
			continue
		}
		ok := false
		for _, rs := range fs["RawPath"] {
			if kind(rs.Val) != k {
				continue
			}
			// the RawPath transformation happens on the same edge (after the Path transformation, before leaving its region)
			if sameRegion(st, rs) && (pathAvoiding(st, rs, nil) || pathAvoiding(rs, st, nil)) {
				ok = true
			}
		}
		c.check("C07.U1", "proxy.(*HTTPProxy).ServeHTTP|"+k+" applied to RawPath as well", st.Pos(), ok,
			k+" rewrites url.URL.Path but not RawPath: the client's RawPath then no longer encodes the new Path and is ignored by EscapedPath(), so an encoded slash (%2F) in the client's path is silently decoded whenever the option applies (sibling Target.BuildRedirectURL transforms RawPath as well)")
	}
	// the literal starts from the client's RawPath and the Director hands it on
	fromReq := false
	for _, rs := range fs["RawPath"] {
		if derives(rs.Val, func(v ssa.Value) bool { _, ok := fieldOf(v, "url.URL", "RawPath"); return ok && derives(v, isReqParam) }) {
			fromReq = true
		}
	}
	c.check("C07.U1", "proxy.(*HTTPProxy).ServeHTTP|target RawPath starts from the client's RawPath", target.Pos(), fromReq, "the upstream URL must carry the client's RawPath (its percent-encoding)")
	directorSetsRaw := false
	if np := c.fn("proxy", "newHTTPProxy"); np != nil {
		for _, d := range np.AnonFuncs {
			eachInstr(d, func(i ssa.Instruction) {
				if st, ok := i.(*ssa.Store); ok {
					if fa, ok := st.Addr.(*ssa.FieldAddr); ok && namedIs(fa.X.Type(), "url.URL") && fieldName(fa.X.Type(), fa.Field) == "RawPath" {
						if _, isRaw := fieldOf(st.Val, "url.URL", "RawPath"); isRaw {
							directorSetsRaw = true
						}
					}
				}
			})
		}
	}
	c.check("C07.U1", "proxy.newHTTPProxy$1|Director hands the target's RawPath to the request", target.Pos(), directorSetsRaw,
		"the Director sets req.URL.Path but leaves the client's RawPath: after strip/prepend it no longer matches and the encoding is lost (or, worse, a stale RawPath that still matches is sent instead of the rewritten path)")
}

func runC07Q1(c *Ctx, serve *ssa.Function) {
	n := 0
	eachInstr(serve, func(i ssa.Instruction) {
		st, ok := i.(*ssa.Store)
		if !ok {
			return
		}
		fa, ok := st.Addr.(*ssa.FieldAddr)
		if !ok || !namedIs(fa.X.Type(), "url.URL") || fieldName(fa.X.Type(), fa.Field) != "RawQuery" {
			return
		}
		al, isAlloc := fa.X.(*ssa.Alloc)
		if !isAlloc || !passedToNewHTTPProxy(serve, al) {
			return
		}
		n++
		// leftmost leaf of the concatenation derives from the target (route), rightmost from the request
		left, right := st.Val, st.Val
		for {
			b, ok := left.(*ssa.BinOp)
			if !ok || b.Op != token.ADD {
				break
			}
			left = b.X
		}
		for {
			b, ok := right.(*ssa.BinOp)
			if !ok || b.Op != token.ADD {
				break
			}
			right = b.Y
		}
		fromRoute := derives(left, func(v ssa.Value) bool { _, ok := fieldOf(v, "route.Target", "URL"); return ok })
		fromReq := derives(right, isReqParam)
		c.check("C07.Q1", "proxy.(*HTTPProxy).ServeHTTP|route query in front of the request query", st.Pos(), fromRoute && fromReq,
			"the merged query must be <route query>[&]<request query>: the route's own parameters come first, the client's follow unchanged")
	})
	c.atLeast("C07.Q1", "stores to the target URL's RawQuery", n, 2)
}

// runC07W1: wrappers implementing http.ResponseWriter forward unchanged.
func runC07W1(c *Ctx) {
	n := 0
	for _, sp := range []*ssa.Package{c.spkg("proxy"), c.spkg("proxy/gzip")} {
		if sp == nil {
			continue
		}
		for _, m := range sp.Members {
			t, ok := m.(*ssa.Type)
			if !ok {
				continue
			}
			st, ok := t.Type().Underlying().(*types.Struct)
			if !ok {
				continue
			}
			// has a field of type http.ResponseWriter and a Write method
			inner := ""
			for k := 0; k < st.NumFields(); k++ {
				if typeStr(st.Field(k).Type()) == "net/http.ResponseWriter" {
					inner = st.Field(k).Name()
				}
			}
			if inner == "" {
				continue
			}
			name := sp.Pkg.Name() + "." + t.Name()
			if name == "gzip.GzipResponseWriter" {
				continue // its Write/WriteHeader are decided by C17 (compress or pass-through)
			}
			n++
			for _, mn := range []string{"Write", "WriteHeader", "Header"} {
				f := c.method(strings.TrimPrefix(sp.Pkg.Path(), repoMod+"/"), t.Name(), mn)
				if f == nil {
					continue // promoted from the embedded writer
				}
				fwd := false
				eachInstr(f, func(i ssa.Instruction) {
					cc := callCommon(i)
					if cc == nil || !cc.IsInvoke() || cc.Method.Name() != mn {
						return
					}
					if _, isInner := fieldOf(cc.Value, name, inner); !isInner {
						return
					}
					// all arguments are the method's own parameters, in order
					same := len(cc.Args) == len(f.Params)-1
					for k := range cc.Args {
						if !same || cc.Args[k] != f.Params[k+1] {
							same = false
						}
					}
					if same {
						fwd = true
					}
					// and every return hands the wrapped results back
					if same && mn != "WriteHeader" {
						eachInstr(f, func(j ssa.Instruction) {
							r, ok := j.(*ssa.Return)
							if !ok {
								return
							}
							for _, res := range r.Results {
								if !derives(res, func(v ssa.Value) bool { return v == i.(ssa.Value) }) {
									fwd = false
								}
							}
						})
					}
				})
				if fwd && !forwardsOnEveryPath(f, mn, func(v ssa.Value) bool { _, ok := fieldOf(v, name, inner); return ok }) {
					fwd = false
				}
				c.check("C07.W1", "(*"+name+")."+mn+"|forwards unchanged to the wrapped writer", f.Pos(), fwd,
					"a response-writer wrapper must pass "+mn+"'s arguments to the wrapped writer exactly as received, on every path, and return its results: the client must get the upstream's status, headers and bytes unchanged (httputil.ReverseProxy calls WriteHeader once per 1xx response and again for the final status — a wrapper that forwards only the first call turns the final status into 200)")
			}
		}
	}
	c.atLeast("C07.W1", "http.ResponseWriter wrappers", n, 1)
}

func passedToNewHTTPProxy(serve *ssa.Function, a *ssa.Alloc) bool {
	found := false
	eachInstr(serve, func(i ssa.Instruction) {
		if cc := callCommon(i); cc != nil {
			if sc := cc.StaticCallee(); sc != nil && sc.Name() == "newHTTPProxy" && len(cc.Args) > 0 && cc.Args[0] == a {
				found = true
			}
		}
	})
	return found
}
