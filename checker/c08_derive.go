package main

// c08derives: C08's variant of the shared backward value slice `derives` (ssahelp.go). Differences:
//   - FIELD SENSITIVE for the small carrier types of package proxy (a `forwarder` / `clientConn` struct that carries the
//     peer address, the host, a websocket flag ... from one step to the next): a load of carrier.f derives from what is
//     stored into field f of that type (anywhere in package proxy and its sub-packages), not from the other fields of
//     the instance. The shared version follows the base pointer to the allocation and from there into every field, so a
//     carrier that also holds a header-derived value makes everything "depend on a client header".
//   - helper parameters are followed to up to 32 call sites (a generic set(h, key, value) helper).

import (
	"go/token"
	"strings"

	"golang.org/x/tools/go/ssa"
)

// c08derives walks the backward slice of v (through phi, conversions, arithmetic, field/element loads, extracts,
// transparent calls, local stores, helper results / parameters / captured variables) and reports whether any visited
// value satisfies pred.
func c08derives(v ssa.Value, pred func(ssa.Value) bool) bool {
	type key struct {
		v   ssa.Value
		ctx ssa.CallInstruction
	}
	seen := map[key]bool{}
	hops := 0                       // interprocedural steps taken (helper results, helper parameters, captured variables)
	var stack []ssa.CallInstruction // calls entered on the way (results of helpers): their parameters map back to these calls only
	var walk func(v ssa.Value) bool
	// walkOutside: continue at a value of another function (a store into a carrier field): the calls entered so far do
	// not constrain its parameters
	walkOutside := func(v ssa.Value) bool {
		saved := stack
		stack = nil
		hops++
		defer func() { stack = saved; hops-- }()
		if hops > maxHops+2 {
			return false
		}
		return walk(v)
	}
	walk = func(v ssa.Value) bool {
		if v == nil {
			return false
		}
		var top ssa.CallInstruction
		if len(stack) > 0 {
			top = stack[len(stack)-1]
		}
		if seen[key{v, top}] {
			return false
		}
		seen[key{v, top}] = true
		if pred(v) {
			return true
		}
		switch x := v.(type) {
		case *ssa.Parameter:
			// a helper's parameter derives from what its (few, static) callers pass
			fn := x.Parent()
			sites := gSites[fn]
			if fn == nil || len(sites) == 0 || (top == nil && (len(sites) > 32 || hops >= maxHops)) {
				return false
			}
			idx := -1
			for k, p := range fn.Params {
				if p == x {
					idx = k
				}
			}
			if top != nil && top.Common().StaticCallee() == fn {
				// realizable path: back to the call we came in through
				stack = stack[:len(stack)-1]
				defer func() { stack = append(stack, top) }()
				cc := top.Common()
				return idx >= 0 && idx < len(cc.Args) && walk(cc.Args[idx])
			}
			if top != nil {
				return false
			}
			hops++
			defer func() { hops-- }()
			for _, s := range sites {
				if cc := s.Common(); idx >= 0 && idx < len(cc.Args) && walk(cc.Args[idx]) {
					return true
				}
			}
			return false
		case *ssa.FreeVar:
			fn := x.Parent()
			if fn == nil || fn.Parent() == nil || hops >= maxHops {
				return false
			}
			idx := -1
			for k, fv := range fn.FreeVars {
				if fv == x {
					idx = k
				}
			}
			hops++
			defer func() { hops-- }()
			found := false
			eachInstr(fn.Parent(), func(i ssa.Instruction) {
				if mc, ok := i.(*ssa.MakeClosure); ok && mc.Fn == fn && idx >= 0 && idx < len(mc.Bindings) && !found {
					if walk(mc.Bindings[idx]) {
						found = true
					}
				}
			})
			return found
		case *ssa.Phi:
			for _, e := range x.Edges {
				if walk(e) {
					return true
				}
			}
		case *ssa.UnOp:
			if x.Op == token.MUL {
				// load: follow the address, and stores into a local alloc
				if a, ok := x.X.(*ssa.Alloc); ok {
					for _, r := range *a.Referrers() {
						if st, ok := r.(*ssa.Store); ok && st.Addr == a && walk(st.Val) {
							return true
						}
					}
				}
				if fa, ok := x.X.(*ssa.FieldAddr); ok && c08carrier(fa.X.Type()) != nil {
					// a field of a carrier type of package proxy: what is stored into THAT field, wherever the instance
					// was built - not what the other fields of the instance hold
					for _, st := range c08storesToField(fa.X.Type(), fa.Field) {
						if walkOutside(st.Val) {
							return true
						}
					}
					return false
				}
				if fa, ok := x.X.(*ssa.FieldAddr); ok {
					// stores to the same field of a locally allocated struct
					if a, ok := fa.X.(*ssa.Alloc); ok {
						for _, r := range *a.Referrers() {
							if fa2, ok := r.(*ssa.FieldAddr); ok && fa2.Field == fa.Field {
								for _, r2 := range *fa2.Referrers() {
									if st, ok := r2.(*ssa.Store); ok && st.Addr == fa2 && walk(st.Val) {
										return true
									}
								}
							}
						}
					}
				}
			}
			return walk(x.X)
		case *ssa.Alloc:
			// a local cell / struct / array: whatever is stored into it (or into its fields/elements)
			if refs := x.Referrers(); refs != nil {
				for _, r := range *refs {
					switch y := r.(type) {
					case *ssa.Store:
						if y.Addr == x && walk(y.Val) {
							return true
						}
					case *ssa.FieldAddr:
						for _, r2 := range *y.Referrers() {
							if st, ok := r2.(*ssa.Store); ok && st.Addr == y && walk(st.Val) {
								return true
							}
						}
					case *ssa.IndexAddr:
						for _, r2 := range *y.Referrers() {
							if st, ok := r2.(*ssa.Store); ok && st.Addr == y && walk(st.Val) {
								return true
							}
						}
					}
				}
			}
			return false
		case *ssa.BinOp:
			return walk(x.X) || walk(x.Y)
		case *ssa.Convert:
			return walk(x.X)
		case *ssa.ChangeType:
			return walk(x.X)
		case *ssa.ChangeInterface:
			return walk(x.X)
		case *ssa.MakeInterface:
			return walk(x.X)
		case *ssa.TypeAssert:
			return walk(x.X)
		case *ssa.Extract:
			return walk(x.Tuple)
		case *ssa.Next:
			return walk(x.Iter) // key/value of a range over a map or string
		case *ssa.Range:
			return walk(x.X)
		case *ssa.FieldAddr:
			return walk(x.X)
		case *ssa.Field:
			if c08carrier(x.X.Type()) != nil {
				for _, st := range c08storesToField(x.X.Type(), x.Field) {
					if walkOutside(st.Val) {
						return true
					}
				}
				return false
			}
			return walk(x.X)
		case *ssa.IndexAddr:
			return walk(x.X) || walk(x.Index)
		case *ssa.Index:
			return walk(x.X) || walk(x.Index)
		case *ssa.Lookup:
			return walk(x.X) || walk(x.Index)
		case *ssa.Slice:
			return walk(x.X)
		case *ssa.Call:
			n := calleeName(&x.Call)
			if c08isBuilderString(n) && len(x.Call.Args) >= 1 {
				// text assembled in a strings.Builder / bytes.Buffer: derives from everything written into it
				for _, wv := range c08builderWrites(x.Call.Args[0], 0) {
					if walk(wv) {
						return true
					}
				}
				return false
			}
			if isTransparent(n) || strings.HasPrefix(n, "builtin.") {
				if x.Call.IsInvoke() && walk(x.Call.Value) {
					return true
				}
				for _, a := range x.Call.Args {
					if walk(a) {
						return true
					}
				}
				return false
			}
			// the result of a repository helper derives from what the helper returns
			if sc := x.Call.StaticCallee(); sc != nil && isRepoFn(sc) && len(sc.Blocks) > 0 && hops < maxHops {
				hops++
				stack = append(stack, ssa.CallInstruction(x))
				defer func() { hops--; stack = stack[:len(stack)-1] }()
				found := false
				eachInstr(sc, func(i ssa.Instruction) {
					if r, ok := i.(*ssa.Return); ok && !found {
						for _, res := range r.Results {
							if walk(res) {
								found = true
								return
							}
						}
					}
				})
				return found
			}
		}
		return false
	}
	return walk(v)
}

// c08isBuilderString: the call reads the text accumulated in a strings.Builder / bytes.Buffer.
func c08isBuilderString(callee string) bool {
	switch callee {
	case "(*strings.Builder).String", "(*bytes.Buffer).String", "(*bytes.Buffer).Bytes":
		return true
	}
	return false
}

// c08builderWrites: the values written into the strings.Builder / bytes.Buffer that recv points to: the arguments of
// its Write* methods, of fmt.Fprint* / io.WriteString on it, and of the writes repository helpers it is passed to make.
func c08builderWrites(recv ssa.Value, depth int) []ssa.Value {
	var out []ssa.Value
	refs := recv.Referrers()
	if refs == nil || depth > 2 {
		return nil
	}
	for _, r := range *refs {
		switch x := r.(type) {
		case *ssa.MakeInterface:
			// fmt.Fprintf(&b, ...), io.WriteString(&b, s)
			if x.Referrers() == nil {
				continue
			}
			for _, r2 := range *x.Referrers() {
				cc := callCommon(r2)
				if cc == nil || len(cc.Args) < 2 || cc.Args[0] != ssa.Value(x) {
					continue
				}
				if n := calleeName(cc); strings.HasPrefix(n, "fmt.Fprint") || n == "io.WriteString" {
					out = append(out, cc.Args[1:]...)
				}
			}
		default:
			cc := callCommon(r)
			if cc == nil || cc.IsInvoke() {
				continue
			}
			n := calleeName(cc)
			if (strings.HasPrefix(n, "(*strings.Builder).Write") || strings.HasPrefix(n, "(*bytes.Buffer).Write")) && len(cc.Args) >= 2 && cc.Args[0] == recv {
				out = append(out, cc.Args[1:]...)
				continue
			}
			if sc := cc.StaticCallee(); sc != nil && isRepoFn(sc) && len(sc.Blocks) > 0 {
				for k, a := range cc.Args {
					if a == recv && k < len(sc.Params) {
						out = append(out, c08builderWrites(sc.Params[k], depth+1)...)
					}
				}
			}
		}
	}
	return out
}
