package main

// Rules of C12 added after the third round of independently authored breaking changes (DESIGN 11.10); wired in zzz_round3.go.

import (
	"golang.org/x/tools/go/ssa"
)

// ---- C12.F4: an unparsable peer address is denied, not skipped ------------------------------------------------------

func runC12F4(c *Ctx) {
	gate := c.method("route", "Target", "AccessDeniedHTTP")
	if gate == nil {
		return
	}
	reg := c.region(gate)
	// the decision function: bool result, a net.IP parameter
	isDecision := func(fn *ssa.Function) bool {
		if fn == nil || !isRepoFn(fn) || fn.Signature.Results().Len() != 1 || typeStr(fn.Signature.Results().At(0).Type()) != "bool" {
			return false
		}
		for _, p := range fn.Params {
			if typeStr(p.Type()) == "net.IP" {
				return true
			}
		}
		return false
	}
	fromPeer := func(v ssa.Value) bool {
		return derives(v, func(x ssa.Value) bool {
			if _, ok := fieldOf(x, "net/http.Request", "RemoteAddr"); ok {
				return true
			}
			return false
		})
	}
	inReg := map[*ssa.Function]bool{}
	for _, f := range reg {
		inReg[f] = true
	}
	isConsult := func(j ssa.Instruction) bool {
		cc := callCommon(j)
		return cc != nil && isDecision(cc.StaticCallee())
	}
	// a consult, or a return of the constant true (denied), ends the obligation
	pass := func(j ssa.Instruction) bool {
		if isConsult(j) {
			return true
		}
		if r, ok := j.(*ssa.Return); ok && len(r.Results) == 1 {
			if k, isK := constBool(r.Results[0]); isK && k {
				return true
			}
		}
		return false
	}
	// open: after `from`, can the GATE answer without a consult? A helper that is not itself a verdict function (its
	// result is not a single bool: it hands the parsed address back, `host, ip, err := peerOf(r)`) passes the
	// obligation on to the code after each of its call sites; there, a branch on a result of the helper that none of
	// the helper's returns in question can take (`err != nil` when they all return a nil error) is not followed.
	var open func(from ssa.Instruction, known map[int][]ssa.Value, depth int) (ssa.Instruction, bool)
	open = func(from ssa.Instruction, known map[int][]ssa.Value, depth int) (ssa.Instruction, bool) {
		infeasible := func(p, s *ssa.BasicBlock) bool {
			f, ok := c12EdgeFact(p, s)
			if !ok || known == nil {
				return false
			}
			x, cons := c12ConsOfFact(f.Cond, f.Truth)
			idx := -1
			if ex, isEx := x.(*ssa.Extract); isEx && ex.Tuple == from.(ssa.Value) {
				idx = ex.Index
			} else if x == from.(ssa.Value) {
				idx = 0
			}
			vals, have := known[idx]
			if idx < 0 || !have || len(vals) == 0 {
				return false
			}
			for _, v := range vals {
				if c12Sat(v, cons) != c12No {
					return false
				}
			}
			return true
		}
		rets := c12ExitsAvoiding(from, pass, infeasible)
		if len(rets) == 0 {
			return nil, false
		}
		f := from.Parent()
		res := f.Signature.Results()
		if f == gate || f.Parent() != nil || depth >= 3 || (res.Len() == 1 && typeStr(res.At(0).Type()) == "bool") {
			return rets[0], true
		}
		kn := map[int][]ssa.Value{}
		for _, r := range rets {
			for k, v := range r.Results {
				kn[k] = append(kn[k], v)
			}
		}
		sites := 0
		for _, s := range gSites[f] {
			if _, isVal := s.(ssa.Value); !isVal || s.Parent() == nil || !inReg[s.Parent()] {
				continue
			}
			sites++
			if r2, o2 := open(s, kn, depth+1); o2 {
				return r2, true
			}
		}
		if sites == 0 {
			return rets[0], true
		}
		return nil, false
	}
	n := 0
	for _, f := range reg {
		eachInstr(f, func(i ssa.Instruction) {
			call, ok := i.(*ssa.Call)
			if !ok || calleeName(&call.Call) != "net.ParseIP" || len(call.Call.Args) != 1 || !fromPeer(call.Call.Args[0]) {
				return
			}
			n++
			ret, isOpen := open(call, nil, 0)
			pos := call.Pos()
			if ret != nil {
				pos = ret.Pos()
			}
			c.check("C12.F4", fnKey(f)+"|peer address: unparsable means denied", pos, !isOpen,
				"after parsing the PEER address (RemoteAddr) the function can return 'not denied' without consulting the access decision: an address net.ParseIP rejects (a zone-scoped IPv6 peer such as fe80::1%eth0) must reach the decision as a nil IP, which denies — skipping unparsable text is only acceptable for the elements of X-Forwarded-For")
		})
	}
	c.atLeast("C12.F4", "ParseIP of the peer address in the HTTP gate", n, 1)
}

// c12ExitsAvoiding: the returns reachable after instruction `from` without executing an instruction for which pass
// holds (a helper that does it on all its paths counts) and without taking an edge that is infeasible.
func c12ExitsAvoiding(from ssa.Instruction, pass func(ssa.Instruction) bool, infeasible func(p, s *ssa.BasicBlock) bool) []*ssa.Return {
	pass = liftMust(pass, 1)
	type item struct {
		b     *ssa.BasicBlock
		start int
	}
	var out []*ssa.Return
	seen := map[*ssa.BasicBlock]bool{}
	stack := []item{{from.Block(), instrIndex(from) + 1}}
	for len(stack) > 0 {
		it := stack[len(stack)-1]
		stack = stack[:len(stack)-1]
		blocked := false
		for k := it.start; k < len(it.b.Instrs) && !blocked; k++ {
			in := it.b.Instrs[k]
			if pass(in) {
				blocked = true
			} else if r, ok := in.(*ssa.Return); ok {
				out = append(out, r)
			}
		}
		if blocked {
			continue
		}
		for _, s := range it.b.Succs {
			if !seen[s] && !infeasible(it.b, s) {
				seen[s] = true
				stack = append(stack, item{s, 0})
			}
		}
	}
	return out
}
