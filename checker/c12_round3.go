package main

// Rules of C12 added after the third round of independently authored breaking changes (DESIGN 11.10); wired in zzz_round3.go.

import (
	"golang.org/x/tools/go/ssa"
)

// ---- C12.F4: an unparsable peer address is denied, not skipped ------------------------------------------------------

func runC12F4(c *Ctx) {
	gate := c.method("route", "Target", "AccessDeniedHTTP")
	if gate == nil {
		return
	}
	reg := c.region(gate)
	// the decision function: bool result, a net.IP parameter
	isDecision := func(fn *ssa.Function) bool {
		if fn == nil || !isRepoFn(fn) || fn.Signature.Results().Len() != 1 || typeStr(fn.Signature.Results().At(0).Type()) != "bool" {
			return false
		}
		for _, p := range fn.Params {
			if typeStr(p.Type()) == "net.IP" {
				return true
			}
		}
		return false
	}
	fromPeer := func(v ssa.Value) bool {
		return derives(v, func(x ssa.Value) bool {
			if _, ok := fieldOf(x, "net/http.Request", "RemoteAddr"); ok {
				return true
			}
			return false
		})
	}
	n := 0
	for _, f := range reg {
		eachInstr(f, func(i ssa.Instruction) {
			call, ok := i.(*ssa.Call)
			if !ok || calleeName(&call.Call) != "net.ParseIP" || len(call.Call.Args) != 1 || !fromPeer(call.Call.Args[0]) {
				return
			}
			n++
			isConsult := func(j ssa.Instruction) bool {
				cc := callCommon(j)
				return cc != nil && isDecision(cc.StaticCallee())
			}
			// a return of the constant true (denied) also ends the obligation
			ret, open := exitReachableAvoiding(call, func(j ssa.Instruction) bool {
				if isConsult(j) {
					return true
				}
				if r, ok := j.(*ssa.Return); ok && len(r.Results) == 1 {
					if k, isK := constBool(r.Results[0]); isK && k {
						return true
					}
				}
				return false
			})
			pos := call.Pos()
			if ret != nil {
				pos = ret.Pos()
			}
			c.check("C12.F4", fnKey(f)+"|peer address: unparsable means denied", pos, !open,
				"after parsing the PEER address (RemoteAddr) the function can return 'not denied' without consulting the access decision: an address net.ParseIP rejects (a zone-scoped IPv6 peer such as fe80::1%eth0) must reach the decision as a nil IP, which denies — skipping unparsable text is only acceptable for the elements of X-Forwarded-For")
		})
	}
	c.atLeast("C12.F4", "ParseIP of the peer address in the HTTP gate", n, 1)
}
